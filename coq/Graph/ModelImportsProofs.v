(* model_imports_ok (Graph/ModelImports.v) against the declarative statement over `graph_uses` (a node at any nesting
   depth has the domain): C02, session 6 round 3. *)
From Coq Require Import List String Bool.
Require Import OV.Graph.Syntax OV.Graph.Wf OV.Graph.WfProofs OV.Graph.WfCompleteProofs OV.Graph.ModelImports.
Import ListNotations.
Local Open Scope list_scope.

(* a domain is used in the model: by the main graph or by the body of one of its functions *)
Definition model_uses (main : graph) (funs : list mfun) (d : string) : Prop :=
  graph_uses main d \/ exists f, In f funs /\ graph_uses (snd f) d.

Definition model_imports_spec (imports : list string) (main : graph) (funs : list mfun) : Prop :=
  NoDup imports /\
  (forall d, model_uses main funs d -> In d imports) /\
  (forall f, In f funs -> NoDup (fst f) /\ forall d, graph_uses (snd f) d -> In d (fst f)).

Lemma subset_incl : forall a b, subset a b = true <-> (forall x, In x a -> In x b).
Proof.
  intros a b. unfold subset. rewrite forallb_forall. split; intros H x Hx.
  - apply mem_In. exact (H x Hx).
  - apply mem_In. exact (H x Hx).
Qed.

Lemma fun_imports_ok_declarative : forall imports f,
  fun_imports_ok imports f = true <->
  (NoDup (fst f) /\ forall d, graph_uses (snd f) d -> In d (fst f) /\ In d imports).
Proof.
  intros imports f. unfold fun_imports_ok. rewrite andb_true_iff, imports_ok_declarative, subset_incl. split.
  - intros [[N U] S]. split; [exact N|]. intros d Hd. split; [exact (U d Hd) | apply S, domains_graph_uses; exact Hd].
  - intros [N U]. split; [split; [exact N | intros d Hd; exact (proj1 (U d Hd))] |].
    intros d Hd. apply domains_graph_uses in Hd. exact (proj2 (U d Hd)).
Qed.

Theorem model_imports_ok_declarative : forall imports main funs,
  model_imports_ok imports main funs = true <-> model_imports_spec imports main funs.
Proof.
  intros imports main funs. unfold model_imports_ok, model_imports_spec, model_uses.
  rewrite andb_true_iff, imports_ok_declarative, forallb_forall. split.
  - intros [[N U] F]. split; [exact N|]. split.
    + intros d [Hd|(f & Hf & Hd)]; [exact (U d Hd)|].
      apply F, fun_imports_ok_declarative in Hf. exact (proj2 (proj2 Hf d Hd)).
    + intros f Hf. apply F, fun_imports_ok_declarative in Hf. destruct Hf as [Nf Uf].
      split; [exact Nf | intros d Hd; exact (proj1 (Uf d Hd))].
  - intros (N & U & F). split; [split; [exact N | intros d Hd; apply U; left; exact Hd]|].
    intros f Hf. apply fun_imports_ok_declarative. destruct (F f Hf) as [Nf Uf]. split; [exact Nf|].
    intros d Hd. split; [exact (Uf d Hd) | apply U; right; exists f; split; assumption].
Qed.

(* a `false` verdict exhibits the offending import list or the unimported domain and where it is used *)
Theorem model_imports_ok_false : forall imports main funs,
  model_imports_ok imports main funs = false ->
  ~ NoDup imports
  \/ (exists d, graph_uses main d /\ ~ In d imports)
  \/ (exists f, In f funs /\ (~ NoDup (fst f) \/ exists d, graph_uses (snd f) d /\ (~ In d (fst f) \/ ~ In d imports))).
Proof.
  intros imports main funs H. unfold model_imports_ok in H. apply andb_false_iff in H. destruct H as [H|H].
  - apply imports_ok_false in H. destruct H as [H|H]; [left; exact H | right; left; exact H].
  - right; right. apply forallb_false_ex in H. destruct H as (f & Hf & Hb). exists f. split; [exact Hf|].
    unfold fun_imports_ok in Hb. apply andb_false_iff in Hb. destruct Hb as [Hb|Hb].
    + apply imports_ok_false in Hb. destruct Hb as [Hb|(d & A & B)]; [left; exact Hb | right; exists d; split; [exact A | left; exact B]].
    + right. unfold subset in Hb. apply forallb_false_ex in Hb. destruct Hb as (d & A & B).
      exists d. split; [apply domains_graph_uses; exact A | right; apply mem_false_not_In; exact B].
Qed.

(* the main-graph verdict alone (what was evaluated before this round) does not imply the model verdict: a function body
   may use a domain the model does not import *)
Theorem main_graph_verdict_not_enough :
  exists imports main funs, imports_ok imports main = true /\ forallb (fun f => imports_ok (fst f) (snd f)) funs = true
                            /\ model_imports_ok imports main funs = false.
Proof.
  exists [""%string; "d1"%string],
         (Graph ["x"%string] [] [Node "d1" "A" [Some "x"%string] ["y"%string] [] []] ["y"%string]),
         [ ([""%string; "d1"%string; "d2"%string],
            Graph ["a"%string] [] [Node "d2" "B" [Some "a"%string] ["b"%string] [] []] ["b"%string]) ].
  vm_compute. repeat split.
Qed.

(* model_domains lists exactly the domains used in the model *)
Theorem model_domains_uses : forall main funs d, In d (model_domains main funs) <-> model_uses main funs d.
Proof.
  intros main funs d. unfold model_domains, model_uses. rewrite in_app_iff, in_flat_map, domains_graph_uses. split.
  - intros [H|(f & Hf & Hd)]; [left; exact H | right; exists f; split; [exact Hf | apply domains_graph_uses; exact Hd]].
  - intros [H|(f & Hf & Hd)]; [left; exact H | right; exists f; split; [exact Hf | apply domains_graph_uses; exact Hd]].
Qed.
