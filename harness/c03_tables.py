"""Translator for C03 / C04: tables and the order of tests of FoldConstantsPass.process_node, read from the
current source of onnxscript/optimizer/_constant_folding.py with `ast` (fail-closed) and written to
coq/Gen/FoldTables.v.  Opt/Fold.v imports the tables; Opt/FoldProofs.v proves (by computation) that the order
of tests found in the source is the order the model implements, so a re-ordering in the source breaks a proof."""
from __future__ import annotations

import ast
import os

from harness import common
from harness.common import clist, copt, cstr, cz

SRC = "onnxscript/optimizer/_constant_folding.py"


class Untranslatable(Exception):
    pass


def _const(node):
    """Evaluate a constant expression made of literals, tuples/lists/sets, frozenset(...), int products."""
    if isinstance(node, ast.Constant):
        return node.value
    if isinstance(node, (ast.List, ast.Tuple)):
        return [_const(e) for e in node.elts] if isinstance(node, ast.List) else tuple(_const(e) for e in node.elts)
    if isinstance(node, ast.Set):
        return sorted(_const(e) for e in node.elts)
    if isinstance(node, ast.Call) and isinstance(node.func, ast.Name) and node.func.id == "frozenset" and len(node.args) == 1:
        return _const(node.args[0])
    if isinstance(node, ast.BinOp) and isinstance(node.op, ast.Mult):
        return _const(node.left) * _const(node.right)
    if isinstance(node, ast.UnaryOp) and isinstance(node.op, ast.USub):
        return -_const(node.operand)
    raise Untranslatable(f"line {getattr(node, 'lineno', '?')}: {ast.dump(node)[:80]}")


# markers of the tests of process_node, in the order the model (Opt/Fold.v: decide / generic_fold) applies them
MARKERS = [
    ("replace_input_with", "subst-inputs"),
    ("is_ref", "reference-attribute"),           # optional: only in the repaired source
    ("_process_constant_node", "constant-value"),
    ("_do_inference", "shape-inference"),
    ("_opset_imports", "opset-import"),
    ("lookup_evaluators", "partial-evaluators"),
    ("_is_onnx_op", "constant-keep"),           # second occurrence of _is_onnx_op(node, "Constant")
    ("_is_control_flow_op", "control-flow"),     # second occurrence
    ("_is_non_deterministic_op", "non-deterministic"),
    ("is_graph_input", "graph-input"),
    ("const_value", "all-inputs-constant"),
    ("should_fold", "should-fold"),
    ("DEFAULT_CONSTANT_FOLD_BLACKLIST", "black-list"),
    ("input_size_limit", "input-size"),
    ("_DEFAULT_ALWAYS_FOLD_OPS", "always-fold"),
    ("evaluate", "reference-evaluator"),
    ("new_constant", "function-constant"),
    ("new_initializer", "initializer"),
    ("register_initializer", "register-initializer"),
]


OPTIONAL_MARKERS = {"reference-attribute"}


def _first_lines(fn):
    """For each marker name: sorted line numbers (inside process_node) where an Attribute / Name / Call with
    that identifier occurs."""
    occ = {}
    for node in ast.walk(fn):
        name = None
        if isinstance(node, ast.Attribute):
            name = node.attr
        elif isinstance(node, ast.Name):
            name = node.id
        if name is not None:
            occ.setdefault(name, []).append(node.lineno)
    return {k: sorted(set(v)) for k, v in occ.items()}


def translate(repo):
    path = os.path.join(repo, SRC)
    tree = ast.parse(open(path).read())
    consts = {}
    registry = []
    cls = None
    for node in tree.body:
        if isinstance(node, ast.Assign) and len(node.targets) == 1 and isinstance(node.targets[0], ast.Name):
            name = node.targets[0].id
            if name in ("DEFAULT_CONSTANT_FOLD_BLACKLIST", "_NON_DETERMINISTIC_OPS", "_DEFAULT_ALWAYS_FOLD_OPS",
                        "DEFAULT_CONSTANT_FOLD_INPUT_SIZE_LIMIT", "DEFAULT_CONSTANT_FOLD_OUTPUT_SIZE_LIMIT"):
                consts[name] = _const(node.value)
        if isinstance(node, ast.FunctionDef):
            for dec in node.decorator_list:
                if isinstance(dec, ast.Call) and isinstance(dec.func, ast.Name) and dec.func.id == "register":
                    if not dec.args:
                        raise Untranslatable(f"line {dec.lineno}: register without op name")
                    op = _const(dec.args[0])
                    dom, lo, hi = "", None, None
                    if len(dec.args) > 1:
                        dom = _const(dec.args[1])
                    for kw in dec.keywords:
                        if kw.arg == "domain":
                            dom = _const(kw.value)
                        elif kw.arg == "version":
                            v = _const(kw.value)
                            if isinstance(v, int):
                                lo = hi = v
                            elif isinstance(v, tuple) and len(v) == 2:
                                lo, hi = v
                            elif v is not None:
                                raise Untranslatable(f"line {dec.lineno}: version {v!r}")
                        else:
                            raise Untranslatable(f"line {dec.lineno}: register keyword {kw.arg}")
                    registry.append((dom, op, lo, hi, node.name))
        if isinstance(node, ast.ClassDef) and node.name == "FoldConstantsPass":
            cls = node
    for k in ("DEFAULT_CONSTANT_FOLD_BLACKLIST", "_NON_DETERMINISTIC_OPS", "_DEFAULT_ALWAYS_FOLD_OPS",
              "DEFAULT_CONSTANT_FOLD_INPUT_SIZE_LIMIT", "DEFAULT_CONSTANT_FOLD_OUTPUT_SIZE_LIMIT"):
        if k not in consts:
            raise Untranslatable(f"table {k} not found")
    if cls is None:
        raise Untranslatable("class FoldConstantsPass not found")
    pn = next((n for n in cls.body if isinstance(n, ast.FunctionDef) and n.name == "process_node"), None)
    if pn is None:
        raise Untranslatable("FoldConstantsPass.process_node not found")
    occ = _first_lines(pn)
    # order of the tests: walk the markers, each must occur after the previous one
    order, last = [], 0
    for ident, tag in MARKERS:
        lines = [ln for ln in occ.get(ident, []) if ln > last]
        if not lines:
            if tag not in OPTIONAL_MARKERS:
                order.append(("MISSING:" + tag, 0))
            continue
        last = lines[0]
        order.append((tag, last))
    # number of `return` statements / raise statements in process_node: a new early exit changes the count
    n_ret = sum(isinstance(x, ast.Return) for x in ast.walk(pn))
    n_raise = sum(isinstance(x, ast.Raise) for x in ast.walk(pn))
    always = [tuple(p) for p in consts["_DEFAULT_ALWAYS_FOLD_OPS"]]
    txt = "(* GENERATED by harness/c03_tables.py from " + SRC + " -- do not edit *)\n"
    txt += "From Coq Require Import List String ZArith.\nImport ListNotations.\nLocal Open Scope string_scope.\n\n"
    txt += f"Definition blacklist : list string := {clist(consts['DEFAULT_CONSTANT_FOLD_BLACKLIST'], cstr)}.\n"
    txt += f"Definition non_deterministic_ops : list string := {clist(sorted(consts['_NON_DETERMINISTIC_OPS']), cstr)}.\n"
    txt += "Definition always_fold_ops : list (string * string) := " + clist([f"({cstr(a)}, {cstr(b)})" for a, b in always]) + ".\n"
    txt += f"Definition default_input_size_limit : Z := {cz(consts['DEFAULT_CONSTANT_FOLD_INPUT_SIZE_LIMIT'])}.\n"
    txt += f"Definition default_output_size_limit : Z := {cz(consts['DEFAULT_CONSTANT_FOLD_OUTPUT_SIZE_LIMIT'])}.\n"
    txt += "(* registered partial evaluators in source order: (domain, op, min_version, max_version) *)\n"
    txt += "Definition registry : list (string * string * option Z * option Z) := " + \
        clist([f"({cstr(d)}, {cstr(o)}, {copt(lo, cz)}, {copt(hi, cz)})" for d, o, lo, hi, _ in registry]) + ".\n"
    txt += "Definition registry_functions : list string := " + clist([f for *_, f in registry], cstr) + ".\n"
    txt += "(* order in which process_node applies its tests (identifier first met after the previous one) *)\n"
    txt += "Definition process_node_order : list string := " + clist([t for t, _ in order], cstr) + ".\n"
    txt += f"Definition process_node_returns : nat := {n_ret}.\nDefinition process_node_raises : nat := {n_raise}.\n"
    # does _get_numpy_value refuse to read the const_value of a graph input (overridable initializer)?
    gnv = next((n for n in tree.body if isinstance(n, ast.FunctionDef) and n.name == "_get_numpy_value"), None)
    if gnv is None:
        raise Untranslatable("_get_numpy_value not found")
    guard = any(isinstance(x, ast.Attribute) and x.attr == "is_graph_input" for x in ast.walk(gnv))
    txt += f"Definition numpy_value_guards_graph_inputs : bool := {'true' if guard else 'false'}.\n"
    # does _clear_unused_initializers keep initializers that are graph inputs?
    cui = next((n for n in tree.body if isinstance(n, ast.FunctionDef) and n.name == "_clear_unused_initializers"), None)
    if cui is None:
        raise Untranslatable("_clear_unused_initializers not found")
    keep = any(isinstance(x, ast.Attribute) and x.attr == "is_graph_input" for x in ast.walk(cui))
    txt += f"Definition clear_keeps_graph_inputs : bool := {'true' if keep else 'false'}.\n"
    # naming of the Unsqueeze outputs created by concat_from_sequence (new_axis = 1)
    cfs = next((n for n in tree.body if isinstance(n, ast.FunctionDef) and n.name == "concat_from_sequence"), None)
    if cfs is None:
        raise Untranslatable("concat_from_sequence not found")
    templates = []
    for x in ast.walk(cfs):
        if isinstance(x, ast.Call) and isinstance(x.func, ast.Attribute) and x.func.attr == "Unsqueeze":
            for kw in x.keywords:
                if kw.arg == "_outputs":
                    templates.append(ast.unparse(kw.value))
    schemes = {"[f'{node_input.name}_unsqueeze']": 0, "[f'{output_name}_{i}_unsqueeze']": 1}
    if len(templates) != 1 or templates[0] not in schemes:
        raise Untranslatable(f"concat_from_sequence: unknown naming of the Unsqueeze outputs {templates}")
    scheme = schemes[templates[0]]
    if scheme == 1:
        src = ast.unparse(cfs)
        if "output_name = node.outputs[0].name" not in src or "for i, node_input in enumerate(inputs)" not in src.replace("(i, node_input)", "i, node_input"):
            raise Untranslatable("concat_from_sequence: output_name / i are not what the model assumes")
    txt += f"Definition unsqueeze_name_scheme : nat := {scheme}.\n"
    # split_to_sequence: is a missing split value (with a known non 1-D shape) handled before `.ndim` is read?
    sts = next((n for n in tree.body if isinstance(n, ast.FunctionDef) and n.name == "split_to_sequence"), None)
    if sts is None:
        raise Untranslatable("split_to_sequence not found")
    none_guard = False
    for x in ast.walk(sts):
        if isinstance(x, ast.If) and isinstance(x.test, ast.Compare) and isinstance(x.test.left, ast.Name) \
                and x.test.left.id == "split_value" and len(x.test.ops) == 1 and isinstance(x.test.ops[0], ast.Is) \
                and isinstance(x.test.comparators[0], ast.Constant) and x.test.comparators[0].value is None:
            if not (len(x.body) == 1 and isinstance(x.body[0], ast.Return)):
                raise Untranslatable("split_to_sequence: unexpected handling of split_value is None")
            none_guard = True
    txt += f"Definition split_value_none_guard : bool := {'true' if none_guard else 'false'}.\n"
    # cast_like: is the saturate attribute of CastLike handed to the new Cast node?
    cl = next((n for n in tree.body if isinstance(n, ast.FunctionDef) and n.name == "cast_like"), None)
    if cl is None:
        raise Untranslatable("cast_like not found")
    casts = [x for x in ast.walk(cl) if isinstance(x, ast.Call) and isinstance(x.func, ast.Attribute) and x.func.attr == "Cast"]
    with_sat = [x for x in casts if any(kw.arg == "saturate" for kw in x.keywords)]
    if not casts or len(casts) > 2 or any(kw.arg not in ("to", "saturate") for x in casts for kw in x.keywords):
        raise Untranslatable("cast_like: unexpected Cast construction")
    if with_sat and "_get_int_attribute(node, 'saturate', None)" not in ast.unparse(cl):
        raise Untranslatable("cast_like: saturate is not read from the CastLike node as the model assumes")
    txt += f"Definition castlike_keeps_saturate : bool := {'true' if with_sat else 'false'}.\n"
    # add: a symbolic dimension plus a negative constant is not recorded as a symbolic sum
    addf = next((n for n in tree.body if isinstance(n, ast.FunctionDef) and n.name == "add"), None)
    if addf is None:
        raise Untranslatable("add evaluator not found")
    neg_tests = [x for x in ast.walk(addf) if isinstance(x, ast.Compare) and isinstance(x.left, ast.Name) and x.left.id in ("dim0", "dim1")
                 and len(x.ops) == 1 and isinstance(x.ops[0], ast.Lt) and isinstance(x.comparators[0], ast.Constant) and x.comparators[0].value == 0]
    if len(neg_tests) not in (0, 2):
        raise Untranslatable("add evaluator: unexpected sign tests")
    txt += f"Definition add_rejects_negative_constant : bool := {'true' if neg_tests else 'false'}.\n"
    # process_node: are nodes with an attribute given by reference (ir.Attr.is_ref()) kept, right after the input redirection?
    skip_ref = any(t == "reference-attribute" for t, _ in order)
    if skip_ref:
        guards = [x for x in ast.walk(pn) if isinstance(x, ast.If) and "is_ref()" in ast.unparse(x.test)]
        if len(guards) != 1 or ast.unparse(guards[0].test) != "any((attr.is_ref() for attr in node.attributes.values()))" \
                or not (len(guards[0].body) == 1 and isinstance(guards[0].body[0], ast.Return) and ast.unparse(guards[0].body[0]) == "return None"):
            raise Untranslatable("process_node: the reference-attribute guard is not the one the model knows")
    txt += f"Definition skips_reference_attributes : bool := {'true' if skip_ref else 'false'}.\n"
    # concat: is a zero-length operand dropped only when its other dims are known to match a kept reference operand?
    ccf = next((n for n in tree.body if isinstance(n, ast.FunctionDef) and n.name == "concat"), None)
    if ccf is None:
        raise Untranslatable("concat evaluator not found")
    inner = {n.name for n in ast.walk(ccf) if isinstance(n, ast.FunctionDef)} - {"concat"}
    csrc = ast.unparse(ccf)
    if inner == {"has_zero_size"}:
        concat_fixed = False
        if "new_inputs = [x for x in inputs if not has_zero_size(x)]" not in csrc:
            raise Untranslatable("concat evaluator: the as-read form drops operands in a way the model does not know")
    elif inner == {"has_zero_size", "same_except_axis"}:
        concat_fixed = True
        needed = ["ref_index = zero_size.index(False) if False in zero_size else 0", "reference = inputs[ref_index]",
                  "if not zero_size[i] or i == ref_index or (not same_except_axis(x, reference))",
                  "if len(new_inputs) == 1:", "dim.value is None or dim.value != ref_dim.value", "if not -rank <= axis < rank:",
                  "if i == axis % rank:", "len(shape) != len(ref_shape)"]
        missing = [t for t in needed if t not in csrc]
        if missing:
            raise Untranslatable(f"concat evaluator: the repaired form differs from what the model knows: {missing[:2]}")
    else:
        raise Untranslatable(f"concat evaluator: unknown helper functions {sorted(inner)}")
    txt += f"Definition concat_drop_checks_other_dims : bool := {'true' if concat_fixed else 'false'}.\n"
    # identity: are type and shape also propagated forward (input -> output)?
    idf = next((n for n in tree.body if isinstance(n, ast.FunctionDef) and n.name == "identity"), None)
    if idf is None:
        raise Untranslatable("identity evaluator not found")
    src = ast.unparse(idf)
    fwd_type = "output.type = input.type" in src
    fwd_shape = "output.shape = input.shape" in src
    if fwd_type != fwd_shape:
        raise Untranslatable("identity evaluator: forward propagation of type and shape differ from what the model knows")
    if fwd_type and ("elif output.type is None" not in src or "if output.shape is None" not in src):
        raise Untranslatable("identity evaluator: unexpected form of the forward propagation")
    txt += f"Definition identity_forwards_type : bool := {'true' if fwd_type else 'false'}.\n"
    return txt, {"registry": [(d, o, lo, hi) for d, o, lo, hi, _ in registry], "order": order, "returns": n_ret,
                 "guard": guard, "clear_keeps": keep, "concat_fixed": concat_fixed, "skip_ref": skip_ref}


def regenerate(ctx):
    try:
        txt, info = translate(common.REPO)
    except Untranslatable as e:
        ctx.tie_broken("translator", SRC, str(e))
        return None
    except (OSError, SyntaxError) as e:
        ctx.tie_broken("translator", SRC, repr(e))
        return None
    ctx.gen("FoldTables", txt)
    return info
