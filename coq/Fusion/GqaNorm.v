(* C19 model: ort_fusions/gqa.py -- the query / key normalisation (q-norm / k-norm of Qwen3 / Gemma3 exports).
     pattern:  query_BSHDh = Reshape(query_BSD)                        key likewise with Hkv heads
               query_BSHDh_normalized = SimplifiedLayerNormalization(query_BSHDh, scale, axis=-1)        [optional: "before"]
               query_BHSDh = Transpose(., perm=[0,2,1,3])
               query_BHSDh_normalized = SimplifiedLayerNormalization(query_BHSDh, scale, axis=-1)        [optional: "after"]
               ... RotaryEmbedding, Concat with the past, SDPA
             the two OrValue alternatives are matched INDEPENDENTLY for the query and for the key.
     check:    refuses when both the before- and the after-Transpose normalisation of one operand are bound.
     rewrite:  normalized_query = query_BHSDh_normalized or query_BSHDh_normalized       (likewise for the key)
               if it is not None: query_BSD = Reshape(SimplifiedLayerNormalization(query_BSHDh, scale of the matched node,
                                                      ** attributes of the matched node), [0, 0, -1])
               GroupQueryAttention(query_BSD, key_BSDkv, ...): the Transpose is the operator's own head splitting.
   Part 1: which normalisation the rewrite re-applies, as a function of what the pattern bound (the type N of a matched node
           is a parameter: a descriptor (scale operand, epsilon, axis, stash_type) in the correspondence with the real rewrite,
           a row function in the value theorem).
   Part 2: tensors as row-major flat lists (Attn.v): a normalisation over the last axis is an ARBITRARY function of one row of
           Dh elements (its scale and epsilon are inside the function); the operand the pattern feeds into rotary/attention
           and the operand the rewrite emits.
   No proofs in this file. *)
From Coq Require Import List Arith Bool ZArith.
Require Import OV.Fusion.Attn.
Import ListNotations.

(* ------------------------------------------------------------------------------------------------ part 1 *)
(* where the model normalises an operand relative to its Transpose; PBoth: before AND after (a near miss the check refuses) *)
Inductive placement := PNone | PBefore | PAfter | PBoth.
Definition placement_eqb (a b : placement) : bool :=
  match a, b with PNone, PNone | PBefore, PBefore | PAfter, PAfter | PBoth, PBoth => true | _, _ => false end.

Section Choice.
  Variable N : Type.                                   (* a matched SimplifiedLayerNormalization node *)
  (* what the pattern binds for one operand: (X_BSHDh_normalized, X_BHSDh_normalized) *)
  Definition bind_norm (pl : placement) (n_before n_after : N) : option N * option N :=
    match pl with
    | PNone => (None, None)
    | PBefore => (Some n_before, None)
    | PAfter => (None, Some n_after)
    | PBoth => (Some n_before, Some n_after)
    end.
  (* check: "Query normalized twice" / "Key normalized twice" *)
  Definition twice (m : option N * option N) : bool :=
    match m with (Some _, Some _) => true | _ => false end.
  (* rewrite: `X_BHSDh_normalized or X_BSHDh_normalized` (an ir.Value is truthy) *)
  Definition pick_norm (m : option N * option N) : option N :=
    match snd m with Some n => Some n | None => fst m end.
  (* GroupQueryAttention.rewrite: the normalisations re-applied in front of the fused operator, (query, key);
     None = the rule does not fire (check refused) *)
  Definition gqa_rewrite_norms (mq mk : option N * option N) : option (option N * option N) :=
    if twice mq || twice mk then None else Some (pick_norm mq, pick_norm mk).

  (* a DIFFERENT rewrite (seeded change C19-6, kept as the counter-model of C19_gqa_joint_choice_refuted): one placement is
     chosen for both operands -- the after-Transpose pair when either is bound, else the before-Transpose pair *)
  Definition gqa_rewrite_norms_joint (mq mk : option N * option N) : option (option N * option N) :=
    if twice mq || twice mk then None else
    match snd mq, snd mk with
    | None, None => Some (fst mq, fst mk)
    | _, _ => Some (snd mq, snd mk)
    end.
End Choice.

(* descriptor of a SimplifiedLayerNormalization node as the harness reads it off the real graphs: index of the scale operand
   among the graph inputs, bit pattern of the float32 epsilon, axis, stash_type (-999: attribute absent) *)
Record norm_desc := mk_norm { nd_scale : Z; nd_eps : Z; nd_axis : Z; nd_stash : Z }.
Definition norm_desc_eqb (a b : norm_desc) : bool :=
  (nd_scale a =? nd_scale b)%Z && (nd_eps a =? nd_eps b)%Z && (nd_axis a =? nd_axis b)%Z && (nd_stash a =? nd_stash b)%Z.
Definition onorm_eqb (a b : option norm_desc) : bool :=
  match a, b with Some x, Some y => norm_desc_eqb x y | None, None => true | _, _ => false end.
(* one observation of the real rule: the placements and nodes of the source model; did it fire; the normalisation found on
   the path from `query` / `key` to inputs 0 / 1 of the emitted GroupQueryAttention (None: the graph input itself) *)
Record gqa_norm_case := mk_gqa_norm_case {
  gc_plq : placement; gc_plk : placement;
  gc_nq : norm_desc; gc_nk : norm_desc;
  gc_fired : bool;
  gc_obs_q : option norm_desc; gc_obs_k : option norm_desc }.
Definition gqa_norm_agrees (c : gqa_norm_case) : bool :=
  match gqa_rewrite_norms norm_desc (bind_norm norm_desc (gc_plq c) (gc_nq c) (gc_nq c)) (bind_norm norm_desc (gc_plk c) (gc_nk c) (gc_nk c)) with
  | None => negb (gc_fired c)
  | Some (eq_, ek) => gc_fired c && onorm_eqb eq_ (gc_obs_q c) && onorm_eqb ek (gc_obs_k c)
  end.
Fixpoint gqa_norm_disagreeing (i : nat) (cs : list gqa_norm_case) : list nat :=
  match cs with [] => [] | c :: t => (if gqa_norm_agrees c then [] else [i]) ++ gqa_norm_disagreeing (S i) t end.

(* ------------------------------------------------------------------------------------------------ part 2 *)
Section Values.
  Variable A : Type.
  Variable d0 : A.

  (* SimplifiedLayerNormalization(x, scale, axis=-1) on a tensor of R rows of Dh elements (any leading dims of product R):
     row r becomes f (row r); only the first Dh elements of the result are read (the operator keeps the shape) *)
  Definition rowwise (f : list A -> list A) (R Dh : nat) (x : list A) : list A :=
    tabulate A R (fun r => tab1 A Dh (fun d => nth d (f (tab1 A Dh (fun e => nth (r * Dh + e) x d0))) d0)).
  Definition maprows (f : list A -> list A) (Dh : nat) (m : list (list A)) : list (list A) :=
    map (fun row => tab1 A Dh (fun d => nth d (f row) d0)) m.

  (* the [B,N,S,Dh] operand the pattern hands to RotaryEmbedding, from x = query_BSD / key_BSDkv ([B,S,N*Dh]) *)
  Definition operand4 (pl : placement) (fb fa : list A -> list A) (B S N Dh : nat) (x : list A) : list A :=
    match pl with
    | PNone => transpose0213 A d0 B S N Dh (reshape A x)
    | PBefore => transpose0213 A d0 B S N Dh (rowwise fb (B * S * N) Dh (reshape A x))
    | PAfter => rowwise fa (B * N * S) Dh (transpose0213 A d0 B S N Dh (reshape A x))
    | PBoth => rowwise fa (B * N * S) Dh (transpose0213 A d0 B S N Dh (rowwise fb (B * S * N) Dh (reshape A x)))
    end.
  (* the [B,S,N*Dh] operand the rewrite hands to GroupQueryAttention: Reshape(SLN(Reshape(x)), [0,0,-1]) or x itself *)
  Definition emitted3 (chosen : option (list A -> list A)) (B S N Dh : nat) (x : list A) : list A :=
    match chosen with
    | None => x
    | Some f => reshape A (rowwise f (B * S * N) Dh (reshape A x))
    end.
End Values.

Section Whole.
  Variable A : Type.
  Variable d0 : A.
  Variable attn : list (list A) -> list (list A) -> list (list A) -> option (list (list A)) -> list (list A).
  (* gqa_pattern (Attn.v) with the [B,H,S,Dh] query operand given (it is operand4 of the placement), key/value sequences as there *)
  Definition gqa_pattern4 (B S T Hkv G Dh : nat) (q4 kseq vseq : list A) mask : list A :=
    let H := Hkv * G in
    let k4 := repeat_kv A d0 B Hkv G T Dh kseq in
    let v4 := repeat_kv A d0 B Hkv G T Dh vseq in
    reshape A (transpose0213 A d0 B H S Dh (stack_heads A d0 B H S Dh (fun b h =>
      attn (mat_at A d0 H S Dh q4 b h) (mat_at A d0 H T Dh k4 b h) (mat_at A d0 H T Dh v4 b h) (mask b h)))).
End Whole.

(* ------------------------------------------------------------------------------------------------ part 3: the whole rule *)
Section Rule.
  Variable A : Type.
  Variable d0 : A.
  Variable attn : list (list A) -> list (list A) -> list (list A) -> option (list (list A)) -> list (list A).
  (* the rotation of one row of Dh elements at an absolute position (cos / sin caches inside): arbitrary *)
  Variable rot : nat -> list A -> list A.

  (* com.microsoft.RotaryEmbedding on a [B,N,S,Dh] tensor with position_ids [B,S]: row (b,n,s) is rotated at pos b s *)
  Definition rotary4 (pos : nat -> nat -> nat) (B N S Dh : nat) (x : list A) : list A :=
    tabulate A B (fun b => tabulate A N (fun n => tabulate A S (fun s => tab1 A Dh (fun d =>
      nth d (rot (pos b s) (tab1 A Dh (fun e => nth (((b * N + n) * S + s) * Dh + e) x d0))) d0)))).
  (* the rows of one head matrix rotated at positions posf 0, posf 1, ... *)
  Definition rot_head (posf : nat -> nat) (S Dh : nat) (m : list (list A)) : list (list A) :=
    map (fun s => tab1 A Dh (fun d => nth d (rot (posf s) (tab1 A Dh (fun e => nth e (nth s m []) d0))) d0)) (seq 0 S).

  (* gqa.py, the matched sub-graph: Reshape / optional SimplifiedLayerNormalization before or after the Transpose of query and
     key (operand4), RotaryEmbedding(., position_ids, cos, sin) of both, Concat(past, ., axis=-2), Unsqueeze/Expand/Reshape of the
     key/value sequences, SDPA, Transpose + Reshape.  Outputs: attention [B,S,H*Dh], present key, present value [B,Hkv,P+S,Dh] *)
  Definition gqa_rule_pattern (plq plk : placement) (fqb fqa fkb fka : list A -> list A) (pos : nat -> nat -> nat)
             (B S P Hkv G Dh : nat) (q k v pk pv : list A) mask : list A * list A * list A :=
    let H := Hkv * G in
    let q4 := rotary4 pos B H S Dh (operand4 A d0 plq fqb fqa B S H Dh q) in
    let k4 := rotary4 pos B Hkv S Dh (operand4 A d0 plk fkb fka B S Hkv Dh k) in
    let v4 := transpose0213 A d0 B S Hkv Dh (reshape A v) in
    let kseq := concat_seq A d0 B Hkv P S Dh pk k4 in
    let vseq := concat_seq A d0 B Hkv P S Dh pv v4 in
    (gqa_pattern4 A d0 attn B S (P + S) Hkv G Dh q4 kseq vseq mask, kseq, vseq).

  (* com.microsoft.GroupQueryAttention(query [B,S,H*Dh], key, value [B,S,Hkv*Dh], past_key, past_value [B,Hkv,P,Dh], seqlens_k,
     total_sequence_length, cos, sin; num_heads, kv_num_heads, do_rotary = 1), transcribed from the operator document: the new
     token s of batch b sits at position seqlens_k[b] + 1 - S + s; query and key heads are rotated at that position; present =
     past rows followed by the new rows; query head h attends over kv head h / (num_heads / kv_num_heads) *)
  Definition op_pos (seqlen_k S s : nat) : nat := seqlen_k + 1 - S + s.
  Definition gqa_op_khead (sk : nat -> nat) (S P Hkv Dh : nat) (k3 pk : list A) (b n : nat) : list (list A) :=
    mat_at A d0 Hkv P Dh pk b n ++ rot_head (op_pos (sk b) S) S Dh (head_packed A d0 S Hkv Dh k3 b n).
  Definition gqa_op_vhead (S P Hkv Dh : nat) (v3 pv : list A) (b n : nat) : list (list A) :=
    mat_at A d0 Hkv P Dh pv b n ++ head_packed A d0 S Hkv Dh v3 b n.
  Definition gqa_op_out (sk : nat -> nat) (B S P H Hkv Dh : nat) (q3 k3 v3 pk pv : list A) mask : list A :=
    let grp := H / Hkv in
    pack_heads A d0 B H S Dh (fun b h =>
      attn (rot_head (op_pos (sk b) S) S Dh (head_packed A d0 S H Dh q3 b h))
           (gqa_op_khead sk S P Hkv Dh k3 pk b (h / grp)) (gqa_op_vhead S P Hkv Dh v3 pv b (h / grp)) (mask b h)).
End Rule.

(* decision used by the correspondence: the operator's positions are the pattern's position_ids *)
Definition positions_ok (ids : list nat) (S : nat) : bool :=
  forallb (fun s => Nat.eqb (op_pos (seqlens_k ids) S s) (nth s ids 0)) (seq 0 S).
(* ... and the number of past rows the operator reads (seqlens_k + 1 - S) is the length P of the past the pattern concatenates *)
Definition positions_match_past (ids : list nat) (S P : nat) : bool :=
  positions_ok ids S && Nat.eqb (seqlens_k ids + 1 - S) P.
Inductive gqa_case :=
  | CNorm (c : gqa_norm_case)
  (* position_ids as a graph input fed with [ids] (one row, batch 1), past of length P: do the fused and the source model agree
     on onnxruntime? *)
  | CPos (ids : list nat) (S P : nat) (observed_agree : bool).
Definition gqa_case_agrees (c : gqa_case) : bool :=
  match c with
  | CNorm c => gqa_norm_agrees c
  | CPos ids n p obs => Bool.eqb (positions_match_past ids n p) obs
  end.
Fixpoint gqa_case_disagreeing (i : nat) (cs : list gqa_case) : list nat :=
  match cs with [] => [] | c :: t => (if gqa_case_agrees c then [] else [i]) ++ gqa_case_disagreeing (S i) t end.
