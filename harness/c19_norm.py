"""C19 builders: normalisation families (RMS, Skip*, LayerNorm)."""
from __future__ import annotations

from harness.c19_build import G, TPT


def rms_pattern(g, x, scale, *, xdtype, compute, cast_back, scale_cast, mul_order, eps, eps_shape, eps_dtype=None,
                exponent=2.0, axes=(-1,), eps_input=None, keepdims=1, reduce_attrs=("keepdims", "noop_with_empty_axes")):
    """x * Reciprocal(Sqrt(ReduceMean(Pow(x,2),[-1]) + eps)) (* scale), with the optional Casts the pattern accepts.
    compute: None (no Cast on x) or a dtype name."""
    cdt = compute or xdtype
    xc = g.op("Cast", [x], to=TPT[compute]) if compute else x
    sq = g.op("Pow", [xc, g.const(exponent, cdt)])
    ra = {}
    if "keepdims" in reduce_attrs:
        ra["keepdims"] = keepdims            # absent = the operator default (1)
    if "noop_with_empty_axes" in reduce_attrs:
        ra["noop_with_empty_axes"] = 0       # absent = the operator default (0)
    mean = g.op("ReduceMean", [sq, g.const(list(axes), "int64")], **ra)
    if eps_input is not None:
        e = eps_input
    else:
        import numpy as np
        e = g.const(np.full(eps_shape, eps), eps_dtype or cdt)
    rms = g.op("Sqrt", [g.op("Add", [mean, e])])
    rec = g.op("Reciprocal", [rms])
    normed = g.op("Mul", [xc, rec])
    if cast_back:
        normed = g.op("Cast", [normed], to=TPT[cast_back])
    sc = g.op("Cast", [scale], to=TPT[scale_cast]) if scale_cast else scale
    return g.op("Mul", [normed, sc] if mul_order else [sc, normed])


def rms_model(p):
    """p: dict(shape, xdtype, sdtype, compute, cast_back, scale_cast, mul_order, eps, eps_shape, opset, ...)"""
    g = G(opset=p.get("opset", 18))
    shape = list(p["shape"])
    decl = p.get("decl_shape", shape)
    x = g.inp("x", p["xdtype"], decl, shape)
    sshape = p.get("scale_shape", [shape[-1]])
    s = g.inp("scale", p["sdtype"], sshape)
    eps_input = None
    if p.get("eps_kind") == "input":
        eps_input = g.inp("eps", p["compute"] or p["xdtype"], [])
    y = rms_pattern(g, x, s, xdtype=p["xdtype"], compute=p["compute"], cast_back=p["cast_back"],
                    scale_cast=p.get("scale_cast"), mul_order=p["mul_order"], eps=p["eps"],
                    eps_shape=p.get("eps_shape", []), exponent=p.get("exponent", 2.0), axes=p.get("axes", (-1,)),
                    eps_input=eps_input, reduce_attrs=p.get("reduce_attrs", ("keepdims", "noop_with_empty_axes")))
    g.op("Identity", [y], out="y")
    g.out("y", p["out_dtype"], None)
    return g


def skip_model(p):
    """kind: 'rms' (SimplifiedLayerNormalization) | 'ln' (LayerNormalization);
    bias: None | 'pre' | 'post'; add_order: 0 -> Add(skip, input), 1 -> Add(input, skip)."""
    g = G(opset=p.get("opset", 18))
    B, S, D = p["B"], p["S"], p["D"]
    dt = p["dtype"]
    ishape = p.get("input_shape", [B, S, D])
    sshape = p.get("skip_shape", [B, S, D])
    x = g.inp("input", dt, p.get("decl_input_shape", ishape), ishape)      # decl_*: declared (possibly symbolic) shape, fed with the concrete one
    sk = g.inp("skip", dt, p.get("decl_skip_shape", sshape), sshape)
    gamma = g.inp("gamma", dt, p.get("gamma_shape", [D]))
    beta = g.inp("beta", dt, [D]) if p["kind"] == "ln" else None
    bias = g.inp("bias", dt, p.get("bias_shape", [D])) if p["bias"] else None
    a = x
    if p["bias"] == "pre":
        a = g.op("Add", [a, bias])
    ssum = g.op("Add", [sk, a] if p["add_order"] == 0 else [a, sk])
    if p["bias"] == "post":
        ssum = g.op("Add", [ssum, bias])
    attrs = {}
    if p.get("axis", -1) is not None:        # axis=None: attribute absent (operator default -1)
        attrs["axis"] = p.get("axis", -1)
    if p.get("epsilon") is not None:
        attrs["epsilon"] = p["epsilon"]
    if p.get("stash_type") is not None:
        attrs["stash_type"] = p["stash_type"]
    if p["kind"] == "rms":
        y = g.op("SimplifiedLayerNormalization", [ssum, gamma], **attrs)
    else:
        y = g.op("LayerNormalization", [ssum, gamma, beta], **attrs)
    oshape = p.get("decl_out_shape", p.get("out_shape", [B, S, D]))
    g.op("Identity", [y], out="y")
    g.out("y", dt, oshape)
    if p.get("use_sum", True):
        g.op("Identity", [ssum], out="s")
        g.out("s", dt, oshape)
    return g


def layer_norm_model(p):
    """rules.fusion._layer_norm pattern: sq in {'mul','pow'}; norm in {'recip','div'}; optional bias Add after it."""
    import numpy as np
    g = G(opset=p.get("opset", 18))
    shape = list(p["shape"])
    dt = p["dtype"]
    x = g.inp("x", dt, p.get("decl_shape", shape), shape)
    sc = g.inp("scale", dt, p.get("scale_shape", [shape[-1]]))
    axes = list(p.get("axes", (-1,)))
    ka = {"keepdims": 1} if p.get("keepdims_attr", True) else {}      # absent = the operator default (1)
    mean = g.op("ReduceMean", [x, g.const(axes, "int64")], **ka)
    d = g.op("Sub", [x, mean])
    dd = g.op("Mul", [d, d]) if p["sq"] == "mul" else g.op("Pow", [d, g.const(p.get("exponent", 2.0), dt)])
    var = g.op("ReduceMean", [dd, g.const(axes, "int64")], **ka)
    e = g.const(np.full(p.get("eps_shape", []), p["eps"]), dt)
    std = g.op("Sqrt", [g.op("Add", [var, e])])
    if p["norm"] == "recip":
        n = g.op("Mul", [d, g.op("Reciprocal", [std])])
    else:
        n = g.op("Div", [d, std])
    y = g.op("Mul", [n, sc])
    if p.get("bias_shape") is not None:
        b = g.inp("bias", dt, p["bias_shape"])
        y = g.op("Add", [y, b])
    g.op("Identity", [y], out="y")
    g.out("y", dt, None)
    return g


def ln_bias_model(p):
    """LayerNormalization(x, scale) + bias  (LayerNormBiasFusion)."""
    g = G(opset=p.get("opset", 18))
    shape = list(p["shape"])
    dt = p["dtype"]
    x = g.inp("x", dt, shape)
    sc = g.inp("scale", dt, p.get("scale_shape", shape[p.get("axis", -1):]))
    b = g.inp("bias", dt, p["bias_shape"])
    attrs = {}
    for k in ("axis", "epsilon", "stash_type"):
        if p.get(k) is not None:
            attrs[k] = p[k]
    nout = p.get("n_out", 1)
    ln = g.op("LayerNormalization", [x, sc], n_out=nout, **attrs)
    ln0 = ln if nout == 1 else ln[0]
    y = g.op("Add", [ln0, b] if p.get("order", 0) == 0 else [b, ln0])
    g.op("Identity", [y], out="y")
    g.out("y", dt, None)
    return g
