From Coq Require Import ZArith List Bool Arith Lia.
Require Import OV.Rules.ScatterND.
Import ListNotations.

Lemma set_nth_app : forall (A : Type) (pre : list A) d ds u, set_nth (length pre) u (pre ++ d :: ds) = pre ++ u :: ds.
Proof. induction pre as [|x pre IH]; intros; cbn; [reflexivity|]. now rewrite IH. Qed.

Lemma nth_error_app_mid : forall (A : Type) (pre : list A) d ds, nth_error (pre ++ d :: ds) (length pre) = Some d.
Proof. induction pre as [|x pre IH]; intros; cbn; auto. Qed.

Lemma scatter_cons : forall (A : Type) (f : A -> A -> A) data i idx u upd,
  scatter f data (i :: idx) (u :: upd) =
  scatter f (match nth_error data i with Some old => set_nth i (f old u) data | None => data end) idx upd.
Proof. reflexivity. Qed.

Lemma scatter_prefix : forall (A : Type) (upd pre data : list A), length data = length upd ->
  scatter take_update (pre ++ data) (seq (length pre) (length upd)) upd = pre ++ upd.
Proof.
  induction upd as [|u upd IH]; intros pre data Hl.
  - destruct data; [reflexivity|discriminate].
  - destruct data as [|d data]; [discriminate|]. cbn [length seq]. rewrite scatter_cons.
    rewrite nth_error_app_mid. unfold take_update at 2. rewrite set_nth_app.
    replace (pre ++ u :: data) with ((pre ++ [u]) ++ data) by (rewrite <- app_assoc; reflexivity).
    replace (S (length pre)) with (length (pre ++ [u])) by (rewrite app_length; cbn; lia).
    rewrite IH by (cbn in Hl; lia). rewrite <- app_assoc. reflexivity.
Qed.

(* ScatterAllStatic: with indices [[0],..,[n-1]] and as many update rows as data rows, the result is `updates` *)
Theorem scatter_all_static_sound : forall (A : Type) (data upd : list A),
  length data = length upd -> scatter take_update data (seq 0 (length upd)) upd = upd.
Proof. intros A data upd H. apply (scatter_prefix A upd [] data H). Qed.

(* the pattern does not pin the `reduction` attribute: with reduction = "add" the result is data + updates *)
Theorem scatter_all_static_reduction_refuted : exists data upd : list Z,
  length data = length upd /\ scatter Z.add data (seq 0 (length upd)) upd <> upd.
Proof. exists [1; 1; 1]%Z, [0; 2; 4]%Z. split; [reflexivity|]. vm_compute. discriminate. Qed.

Example sa_example :
  sa_check (Some [St 3; St 2]) (Some [St 3; St 2]) (Some [[0]; [1]; [2]]%Z) = Fire /\
  sa_check (Some [St 3; St 2]) (Some [St 3; St 2]) (Some [[0]; [2]; [1]]%Z) = NoFire /\
  sa_check (Some [Sy 0; St 2]) (Some [Sy 0; St 2]) (Some [[0]]%Z) = Raises.
Proof. repeat split; reflexivity. Qed.

(* --- ScatterAllDynamic ---------------------------------------------------------------------------------- *)
Lemma Forall2_nth_error : forall (A B : Type) (R : A -> B -> Prop) l l' i d,
  Forall2 R l l' -> nth_error l i = Some d -> exists x, nth_error l' i = Some x /\ R d x.
Proof.
  intros A B R l l' i d H. revert i. induction H as [|a b l l' Hab H IH]; intros [|i] Hn; cbn in *; try discriminate.
  - inversion Hn; subst. eauto.
  - apply IH. exact Hn.
Qed.
Lemma Forall2_len : forall (A B : Type) (R : A -> B -> Prop) l l', Forall2 R l l' -> length l = length l'.
Proof. intros A B R l l' H. induction H; cbn; congruence. Qed.

Lemma py_index_denotes : forall val (ds : list dim) (sh : list Z) a d,
  Forall2 (dim_denotes val) ds sh -> py_index ds a = Some d -> exists x, py_index sh a = Some x /\ dim_denotes val d x.
Proof.
  intros val ds sh a d HF Hp. unfold py_index in *. rewrite <- (Forall2_len _ _ _ _ _ HF).
  destruct ((0 <=? a)%Z && (a <? Z.of_nat (length ds))%Z); [eapply Forall2_nth_error; eauto|].
  destruct ((- Z.of_nat (length ds) <=? a)%Z && (a <? 0)%Z); [eapply Forall2_nth_error; eauto|discriminate].
Qed.

Lemma dim_eqb_denotes : forall val d t x y, dim_eqb d t = true -> dim_denotes val d x -> dim_denotes val t y -> x = y.
Proof.
  intros val [v|k|] [w|m|] x y He Hx Hy; cbn in *; try discriminate.
  - apply Z.eqb_eq in He. congruence.
  - apply Nat.eqb_eq in He. congruence.
Qed.

(* wherever ScatterAllDynamic.check accepts: for every runtime shape the (truthful) annotations denote, with n the extent
   that Gather(Shape(data), axis) reads at run time, the transposed data having n' = tshape[0] rows and `updates` one row per
   index row (the ScatterND shape rule), the scatter over Range(0, n) returns `updates` *)
Theorem scatter_all_dynamic_sound : forall (A : Type) val ds ts a (dsh tsh : list Z) n (tdata upd : list A),
  da_check (Some ds) (Some ts) (Some a) = Fire ->
  Forall2 (dim_denotes val) ds dsh -> Forall2 (dim_denotes val) ts tsh ->
  py_index dsh a = Some n ->
  hd_error tsh = Some (Z.of_nat (length tdata)) ->
  length upd = Z.to_nat n ->
  scatter take_update tdata (full_range n) upd = upd.
Proof.
  intros A val ds ts a dsh tsh n tdata upd Hc Hd Ht Hn Hrows Hupd. unfold da_check in Hc.
  destruct (py_index ds a) as [d|] eqn:Ep; [|discriminate].
  destruct ts as [|t0 ts]; [discriminate|]. destruct (dim_eqb d t0) eqn:Ee; [|discriminate].
  destruct (py_index_denotes val ds dsh a d Hd Ep) as (x & Hx & Hdx). rewrite Hn in Hx. inversion Hx; subst x.
  inversion Ht as [|? y ? tsh' Hty Htl]; subst. cbn in Hrows. inversion Hrows; subst y.
  pose proof (dim_eqb_denotes val d t0 n _ Ee Hdx Hty) as Hnn.
  unfold full_range. rewrite <- Hupd. apply scatter_all_static_sound. rewrite Hupd, Hnn. now rewrite Nat2Z.id.
Qed.

(* near misses: the first dimension of the transposed data is another axis of data => the scatter keeps rows of data *)
Theorem scatter_all_dynamic_near_miss :
  da_check (Some [St 2; St 3]) (Some [St 3; St 2]) (Some 0%Z) = NoFire /\
  da_check (Some [Sy 0; St 3]) (Some [Sy 1; St 3]) (Some 0%Z) = NoFire /\
  da_check (Some [Un; St 3]) (Some [Un; St 3]) (Some 0%Z) = NoFire /\
  da_check (Some [St 2; St 3]) (Some [St 3; St 2]) None = NoFire /\
  da_check None (Some [St 3; St 2]) (Some 1%Z) = NoFire /\ da_check (Some [St 2; St 3]) None (Some 1%Z) = NoFire /\
  scatter take_update [10; 20; 30]%Z (full_range 2) [1; 2]%Z <> [1; 2]%Z.
Proof. repeat split; vm_compute; try reflexivity; discriminate. Qed.

Example da_example :
  da_check (Some [St 2; St 3]) (Some [St 3; St 2]) (Some 1%Z) = Fire /\
  da_check (Some [St 2; Sy 4]) (Some [Sy 4; St 2]) (Some (-1)%Z) = Fire /\
  da_check (Some [St 2; St 3]) (Some [St 3; St 2]) (Some 2%Z) = Raises /\
  scatter take_update [10; 20; 30]%Z (full_range 3) [1; 2; 3]%Z = [1; 2; 3]%Z.
Proof. repeat split; reflexivity. Qed.
