(* Stage S4 of C01, straight-line part: graph = plain-Python reading for functions WITH attribute parameters.

   translate_straightline_attrs_correct: for every kernel semantics (no law is needed: both sides hand the same attribute
   lists, reference attributes included, to the same kernel), a function whose body is a sequence of assignments / tuple
   assignments followed by return, with tensor AND attribute parameters, evaluates as a graph to what
   Script/PySemAttrs.eval_script_attrs computes: an attribute parameter used as a value is the polymorphic scalar
   Constant(value_<kind> = ref a) [+ Cast(to=BOOL)] (CastLike'd next to a tensor), an attribute parameter forwarded as a
   keyword argument is a reference attribute of the node.  Instantiated with the resolving kernel `sem_res avals sem0`
   this is C01_graph_eq_python_attrs_full restricted to straight-line bodies.

   The simulation invariant is Script/TranslateProofs.inva (BV | BA bindings). *)
From Coq Require Import List String ZArith Bool Lia.
Require Import OV.Graph.Syntax OV.Graph.Sem OV.Script.Syntax OV.Script.Sets OV.Gen.Analysis OV.Gen.ScriptTables
               OV.Script.Translate OV.Script.PySem OV.Script.Eager OV.Script.PySemAttrs OV.Script.TranslateProofs.
Import ListNotations.
Local Open Scope string_scope.

Section S4Straight.
  Variable V : Type.
  Variable sem : string -> string -> list (string * attrv) -> list (option V) -> option (list V).
  Variable truth : V -> option bool.
  Variable trip : V -> option nat.
  Variable of_nat : nat -> V.
  Variable of_bool : bool -> V.
  Variable limit : nat.
  Variable while_limit : nat.
  Variable globals : list (string * lit).
  Hypothesis sem_identity : forall v, sem "" "Identity" [] [Some v] = Some [v].

  Lemma attr_tensor0_eq : forall a k, attr_tensor0 V sem a k = attr_tensor V sem a k.
  Proof. reflexivity. Qed.

  Definition attr_binding (a : string * akind * bool) : string * binding := (fst (fst a), BA (snd (fst a))).

  (* bind_attrs conses the attribute parameters onto the Python environment in the order in which the reversed initial
     scope lists them *)
  Lemma bind_attrs_inva : forall aps avals pe pe1 s ρ st,
    bind_attrs V sem aps avals pe = Some pe1 -> inva V sem pe [s] ρ st ->
    inva V sem pe1 [(rev (map attr_binding aps) ++ s)%list] ρ st.
  Proof.
    induction aps as [|[[a k] d] t IH]; intros avals pe pe1 s ρ st Hb Hinv; cbn [bind_attrs] in Hb.
    - inversion Hb; subst. exact Hinv.
    - destruct (lookup_assoc a avals) as [l|]; [|discriminate].
      destruct (attr_tensor V sem a k) as [c|] eqn:Ec; [|discriminate].
      destruct (kind_ok k l); [|discriminate].
      cbn [map rev]. rewrite <- app_assoc. cbn [app].
      eapply IH; [exact Hb|].
      exact (inva_bind_attr V sem pe [s] ρ st a k l c Hinv Ec).
  Qed.

  Lemma init_inva : forall f orders xs avals pe0 pe1,
    NoDup (f_tparams f) -> pbind V (f_tparams f) xs [] = Some pe0 -> bind_attrs V sem (f_aparams f) avals pe0 = Some pe1 ->
    exists ρ0, Sem.bind (f_tparams f) xs [] = Some ρ0 /\ inva V sem pe1 [rev (init_scope f)] ρ0 (init_state f orders).
  Proof.
    intros f orders xs avals pe0 pe1 Hnd Ep Eb.
    pose (f0 := {| f_name := f_name f; f_tparams := f_tparams f; f_aparams := []; f_body := f_body f |}).
    destruct (init_inv V f0 orders xs pe0 eq_refl Hnd Ep) as (ρ0 & B & Hinv).
    exists ρ0. split; [exact B|].
    unfold init_scope in *. cbn [f_tparams f_aparams f0 map] in Hinv. rewrite app_nil_r in Hinv.
    rewrite rev_app_distr.
    change (map (fun a => (fst (fst a), BA (snd (fst a)))) (f_aparams f)) with (map attr_binding (f_aparams f)).
    eapply bind_attrs_inva; [exact Eb|]. apply (inv_inva V sem). exact Hinv.
  Qed.

  Theorem translate_straightline_attrs_correct : forall cic afuel orders f g xs avals vs fuel2 k pre es,
    f_body f = (pre ++ [SReturn es])%list -> assigns_ok pre = true -> forallb expr_ok es = true ->
    NoDup (f_tparams f) ->
    translate false globals cic afuel orders f = Some g ->
    eval_script_attrs V sem truth trip of_nat while_limit globals (S fuel2) f xs avals = Some vs ->
    eval_graph V sem truth trip of_nat of_bool limit (S k) [] g xs = Some vs.
  Proof.
    intros cic afuel orders f g xs avals vs fuel2 k pre es Hbody Hpre Hes Hnd Htr Hev.
    rewrite translate_eq, Hbody in Htr.
    destruct (Translate.tr_stmts globals cic afuel false (f_tparams f) (S 11) true (pre ++ [SReturn es]) [] [rev (init_scope f)] [] (init_state f orders))
      as [[[[sc' outs] st'] nodes]|] eqn:Et; [|discriminate]. inversion Htr; subst g. clear Htr.
    unfold eval_script_attrs in Hev. rewrite Hbody in Hev.
    destruct (pbind V (f_tparams f) xs []) as [pe0|] eqn:Ep; [|discriminate].
    destruct (bind_attrs V sem (f_aparams f) avals pe0) as [pe1|] eqn:Eb; [|discriminate].
    destruct (PySem.exec_block V sem truth trip of_nat while_limit globals (S fuel2) (pre ++ [SReturn es]) pe1) as [[e1|e1|rv]|] eqn:Ex; try discriminate.
    inversion Hev; subst rv. clear Hev.
    destruct (init_inva f orders xs avals pe0 pe1 Hnd Ep Eb) as (ρ0 & B & Hinv).
    edestruct straight_block_sound_a with (ev := eval_graph V sem truth trip of_nat of_bool limit k) (of_bool := of_bool) (limit := limit)
      as (ρ1 & R1 & L1); [exact sem_identity | exact Hpre | exact Hes | exact Et | exact Hinv | exact Ex | reflexivity |].
    cbn [eval_graph]. unfold eval_body. cbn [g_ins g_nodes g_outs]. rewrite B, R1. exact L1.
  Qed.
End S4Straight.

(* the same statement for the kernel that resolves reference attributes from the call's attribute values (what ONNX
   specifies for ref_attr_name inside a function body): C01_graph_eq_python_attrs_full on straight-line bodies *)
Theorem translate_straightline_attrs_resolving :
  forall (V : Type) sem0 truth trip of_nat of_bool limit while_limit globals avals cic afuel orders f g xs vs fuel2 k pre es,
    (forall v : V, sem0 "" "Identity" [] [Some v] = Some [v]) ->
    f_body f = (pre ++ [SReturn es])%list -> assigns_ok pre = true -> forallb expr_ok es = true ->
    NoDup (f_tparams f) ->
    translate false globals cic afuel orders f = Some g ->
    eval_script_attrs V (sem_res avals sem0) truth trip of_nat while_limit globals (S fuel2) f xs avals = Some vs ->
    eval_graph V (sem_res avals sem0) truth trip of_nat of_bool limit (S k) [] g xs = Some vs.
Proof.
  intros V sem0 truth trip of_nat of_bool limit while_limit globals avals cic afuel orders f g xs vs fuel2 k pre es Hid.
  apply translate_straightline_attrs_correct. intros v. unfold sem_res. cbn [map]. apply Hid.
Qed.
