(* Coincidence and replacement lemmas for the graph evaluator, for arbitrary kernel semantics. *)
From Coq Require Import List String ZArith Bool Lia.
Require Import OV.Graph.Syntax OV.Graph.Sem OV.Graph.Names.
Import ListNotations.
Local Open Scope list_scope.

Lemma names_node_eq : forall d o ins outs a subs,
  names_node (Node d o ins outs a subs) = present ins ++ outs ++ names_subs subs.
Proof.
  intros. reflexivity.
Qed.
Lemma names_graph_eq : forall i ii ns o,
  names_graph (Graph i ii ns o) = i ++ ii ++ o ++ names_nodes ns.
Proof.
  intros. reflexivity.
Qed.

Section Proofs.
  Variable V : Type.
  Variable sem : string -> string -> list (string * attrv) -> list (option V) -> option (list V).
  Variable truth : V -> option bool.
  Variable trip : V -> option nat.
  Variable of_nat : nat -> V.
  Variable of_bool : bool -> V.
  Variable limit : nat.

  Notation env := (list (vname * V)).
  Notation eval_node := (eval_node V sem truth trip of_nat of_bool limit).
  Notation run := (run V sem truth trip of_nat of_bool limit).
  Notation eval_body := (eval_body V sem truth trip of_nat of_bool limit).
  Notation eval_graph := (eval_graph V sem truth trip of_nat of_bool limit).
  Notation loop_iter := (loop_iter V truth of_nat of_bool).

  (* two environments agree on every name outside X *)
  Definition agree_except (X : list vname) (e1 e2 : env) : Prop :=
    forall x, ~ In x X -> lookup e1 x = lookup e2 x.

  Lemma agree_refl X e : agree_except X e e.
  Proof. intros x _. reflexivity. Qed.

  Lemma agree_sym X e1 e2 : agree_except X e1 e2 -> agree_except X e2 e1.
  Proof. intros H x Hx. symmetry. apply H. exact Hx. Qed.

  Lemma agree_trans X e1 e2 e3 : agree_except X e1 e2 -> agree_except X e2 e3 -> agree_except X e1 e3.
  Proof. intros H1 H2 x Hx. rewrite H1 by exact Hx. apply H2. exact Hx. Qed.

  Lemma agree_cons X e1 e2 x v : agree_except X e1 e2 -> agree_except X ((x, v) :: e1) ((x, v) :: e2).
  Proof. intros H y Hy. cbn. destruct (String.eqb y x); [reflexivity|apply H; exact Hy]. Qed.

  Lemma agree_lookups X e1 e2 xs : agree_except X e1 e2 -> disjoint X xs -> lookups e1 xs = lookups e2 xs.
  Proof.
    intros H D. induction xs as [|x t IH]; cbn; [reflexivity|].
    rewrite (H x) by (intro Hx; exact (D x Hx (or_introl eq_refl))).
    rewrite IH; [reflexivity|]. intros y Hy Hin. exact (D y Hy (or_intror Hin)).
  Qed.

  Lemma agree_lookup_opts X e1 e2 xs : agree_except X e1 e2 -> disjoint X (present xs) ->
    lookup_opts e1 xs = lookup_opts e2 xs.
  Proof.
    intros H D. induction xs as [|[x|] t IH]; cbn; [reflexivity| |].
    - rewrite (H x) by (intro Hx; exact (D x Hx (or_introl eq_refl))).
      rewrite IH; [reflexivity|]. intros y Hy Hin. exact (D y Hy (or_intror Hin)).
    - rewrite IH; [reflexivity|]. exact D.
  Qed.

  Lemma agree_bind X e1 e2 xs vs : agree_except X e1 e2 ->
    match bind xs vs e1, bind xs vs e2 with
    | Some a, Some b => agree_except X a b
    | None, None => True
    | _, _ => False
    end.
  Proof.
    intros H. revert vs. induction xs as [|x t IH]; intros [|v vt]; cbn; auto.
    specialize (IH vt). destruct (bind t vt e1), (bind t vt e2); cbn; auto. apply agree_cons. exact IH.
  Qed.

  Lemma disjoint_app_r X a b : disjoint X (a ++ b) -> disjoint X a /\ disjoint X b.
  Proof. intro D. split; intros x Hx Hin; apply (D x Hx); apply in_or_app; auto. Qed.

  Lemma disjoint_sub X a b : disjoint X b -> (forall x, In x a -> In x b) -> disjoint X a.
  Proof. intros D S x Hx Hin. exact (D x Hx (S x Hin)). Qed.

  (* a subgraph evaluator that respects agreement outside X for graphs not mentioning X *)
  Definition respects (X : list vname) (ev : env -> graph -> list V -> option (list V)) : Prop :=
    forall e1 e2 g args, agree_except X e1 e2 -> disjoint X (names_graph g) -> ev e1 g args = ev e2 g args.

  Lemma find_sub_names X name subs g :
    find_sub name subs = Some g -> disjoint X (names_subs subs) -> disjoint X (names_graph g).
  Proof.
    induction subs as [|[k h] t IH]; cbn; [discriminate|].
    intros H D. apply disjoint_app_r in D. destruct D as [D1 D2].
    destruct (String.eqb k name); [inversion H; subst; exact D1|apply IH; assumption].
  Qed.

  Lemma loop_iter_agree X ev e1 e2 body bounded k i c st :
    respects X ev -> agree_except X e1 e2 -> disjoint X (names_graph body) ->
    loop_iter ev e1 body bounded k i c st = loop_iter ev e2 body bounded k i c st.
  Proof.
    intros R A D. revert i c st. induction k as [|k IH]; intros i c st; cbn; [reflexivity|].
    destruct (negb c); [reflexivity|].
    rewrite (R e1 e2 body _ A D).
    destruct (ev e2 body (of_nat i :: of_bool c :: st)) as [[|cv' st']|]; try reflexivity.
    destruct (Nat.eqb _ _); [|reflexivity]. destruct (truth cv'); [|reflexivity]. apply IH.
  Qed.

  Lemma eval_node_agree X ev e1 e2 n :
    respects X ev -> agree_except X e1 e2 -> disjoint X (names_node n) ->
    match eval_node ev e1 n, eval_node ev e2 n with
    | Some a, Some b => agree_except X a b
    | None, None => True
    | _, _ => False
    end.
  Proof.
    intros R A D. destruct n as [dom op ins outs attrs subs].
    rewrite names_node_eq in D. apply disjoint_app_r in D. destruct D as [Di D].
    apply disjoint_app_r in D. destruct D as [Do Ds].
    unfold Sem.eval_node.
    destruct (is_if dom op).
    - rewrite (agree_lookup_opts X e1 e2 ins A Di).
      destruct (lookup_opts e2 ins) as [[|[c|] [|? ?]]|]; auto.
      destruct (truth c) as [b|]; auto.
      destruct (find_sub _ subs) as [sg|] eqn:F; auto.
      rewrite (R e1 e2 sg [] A (find_sub_names X _ _ _ F Ds)).
      destruct (ev e2 sg []) as [vs|]; auto. apply agree_bind. exact A.
    - destruct (is_loop dom op).
      + destruct ins as [|m [|c carried]]; auto.
        destruct (find_sub "body"%string subs) as [body|] eqn:F; auto.
        assert (Dmc : disjoint X (present [m; c])).
        { eapply disjoint_sub; [exact Di|]. intros x Hx. destruct m, c; cbn in *; tauto. }
        assert (Dcar : disjoint X (present carried)).
        { eapply disjoint_sub; [exact Di|]. intros x Hx. destruct m, c; cbn; auto. }
        rewrite (agree_lookup_opts X e1 e2 [m; c] A Dmc).
        rewrite (agree_lookups X e1 e2 (present carried) A Dcar).
        destruct (lookup_opts e2 [m; c]) as [[|mv [|cv [|? ?]]]|]; auto.
        destruct (lookups e2 (present carried)) as [st0|]; auto.
        destruct (match mv with Some v => option_map Some (trip v) | None => Some None end) as [mt|]; auto.
        destruct (match cv with Some v => truth v | None => Some true end) as [c0|]; auto.
        pose proof (find_sub_names X _ _ _ F Ds) as Db.
        destruct mt as [k|];
          rewrite (loop_iter_agree X ev e1 e2 body _ _ _ _ _ R A Db);
          match goal with |- context [loop_iter ev e2 body ?b ?k ?i ?c ?s] =>
            destruct (loop_iter ev e2 body b k i c s) end; auto; apply agree_bind; exact A.
      + rewrite (agree_lookup_opts X e1 e2 ins A Di).
        destruct (lookup_opts e2 ins) as [vs|]; auto.
        destruct (sem dom op attrs vs) as [rs|]; auto. apply agree_bind. exact A.
  Qed.

  Lemma run_agree X ev ns : respects X ev -> forall e1 e2,
    agree_except X e1 e2 -> disjoint X (names_nodes ns) ->
    match run ev e1 ns, run ev e2 ns with
    | Some a, Some b => agree_except X a b
    | None, None => True
    | _, _ => False
    end.
  Proof.
    intros R. induction ns as [|n t IH]; intros e1 e2 A D; cbn.
    - exact A.
    - cbn in D. apply disjoint_app_r in D. destruct D as [Dn Dt].
      pose proof (eval_node_agree X ev e1 e2 n R A Dn) as H.
      destruct (eval_node ev e1 n) as [a|], (eval_node ev e2 n) as [b|]; try contradiction; auto.
      apply IH; assumption.
  Qed.

  Lemma eval_body_agree X ev : respects X ev -> respects X (eval_body ev).
  Proof.
    intros R e1 e2 g args A D. destruct g as [gi gn ns go]. rewrite names_graph_eq in D.
    apply disjoint_app_r in D. destruct D as [_ D]. apply disjoint_app_r in D. destruct D as [_ D].
    apply disjoint_app_r in D. destruct D as [Do Dn].
    unfold Sem.eval_body. cbn [g_ins g_nodes g_outs].
    pose proof (agree_bind X e1 e2 gi args A) as HB.
    destruct (bind gi args e1) as [a|], (bind gi args e2) as [b|]; try contradiction; auto.
    pose proof (run_agree X ev ns R a b HB Dn) as HR.
    destruct (run ev a ns) as [a'|], (run ev b ns) as [b'|]; try contradiction; auto.
    apply (agree_lookups X); assumption.
  Qed.

  (* Coincidence: a graph that does not mention X evaluates alike in environments that differ only on X. *)
  Theorem eval_graph_agree X fuel : respects X (eval_graph fuel).
  Proof.
    induction fuel as [|f IH]; [intros e1 e2 g args _ _; reflexivity|].
    cbn [Sem.eval_graph]. apply eval_body_agree. exact IH.
  Qed.

  (* ---- run distributes over append ------------------------------------------------------- *)
  Lemma run_app ev e a b : run ev e (a ++ b) = match run ev e a with Some e' => run ev e' b | None => None end.
  Proof. revert e. induction a as [|n t IH]; intro e; cbn; [reflexivity|]. destruct (eval_node ev e n); auto. Qed.

  (* ---- segment replacement (the splice lemma, DESIGN 3.5) -------------------------------- *)
  (* M and R are interchangeable after any prefix environment, up to the names in X *)
  Definition seg_equiv (X : list vname) (ev : env -> graph -> list V -> option (list V)) (M R : list node) : Prop :=
    forall e, match run ev e M, run ev e R with
              | Some a, Some b => agree_except X a b
              | None, None => True
              | _, _ => False
              end.

  Theorem splice_sound : forall fuel X outer gi gn pre M R suf outs args,
    seg_equiv X (eval_graph fuel) M R ->
    disjoint X (names_nodes suf) -> disjoint X outs ->
    eval_graph (S fuel) outer (Graph gi gn (pre ++ M ++ suf) outs) args
    = eval_graph (S fuel) outer (Graph gi gn (pre ++ R ++ suf) outs) args.
  Proof.
    intros fuel X outer gi gn pre M R suf outs args E Ds Do.
    cbn [Sem.eval_graph]. unfold Sem.eval_body. cbn [g_ins g_nodes g_outs].
    destruct (bind gi args outer) as [e0|]; [|reflexivity].
    rewrite !run_app. destruct (run (eval_graph fuel) e0 pre) as [e1|]; [|reflexivity].
    rewrite !run_app. specialize (E e1).
    destruct (run (eval_graph fuel) e1 M) as [a|], (run (eval_graph fuel) e1 R) as [b|]; try contradiction; auto.
    pose proof (run_agree X (eval_graph fuel) suf (eval_graph_agree X fuel) a b E Ds) as H.
    destruct (run (eval_graph fuel) a suf) as [a'|], (run (eval_graph fuel) b suf) as [b'|]; try contradiction; auto.
    apply (agree_lookups X); assumption.
  Qed.

  (* One-directional variant: the original succeeds => the rewritten one gives the same result.
     (used when the replacement is defined on more inputs than the pattern, e.g. dead-node removal) *)
  Definition seg_refines (X : list vname) (ev : env -> graph -> list V -> option (list V)) (M R : list node) : Prop :=
    forall e a, run ev e M = Some a -> exists b, run ev e R = Some b /\ agree_except X a b.

  Theorem splice_refines : forall fuel X outer gi gn pre M R suf outs args v,
    seg_refines X (eval_graph fuel) M R ->
    disjoint X (names_nodes suf) -> disjoint X outs ->
    eval_graph (S fuel) outer (Graph gi gn (pre ++ M ++ suf) outs) args = Some v ->
    eval_graph (S fuel) outer (Graph gi gn (pre ++ R ++ suf) outs) args = Some v.
  Proof.
    intros fuel X outer gi gn pre M R suf outs args v E Ds Do.
    cbn [Sem.eval_graph]. unfold Sem.eval_body. cbn [g_ins g_nodes g_outs].
    destruct (bind gi args outer) as [e0|]; [|discriminate].
    rewrite !run_app. destruct (run (eval_graph fuel) e0 pre) as [e1|]; [|discriminate].
    rewrite !run_app.
    destruct (run (eval_graph fuel) e1 M) as [a|] eqn:HM; [|discriminate].
    destruct (E e1 a HM) as [b [HR A]]. rewrite HR.
    pose proof (run_agree X (eval_graph fuel) suf (eval_graph_agree X fuel) a b A Ds) as H.
    destruct (run (eval_graph fuel) a suf) as [a'|], (run (eval_graph fuel) b suf) as [b'|]; try contradiction; try discriminate.
    rewrite (agree_lookups X a' b' outs H Do). auto.
  Qed.

  (* ---- what a node list can change in the environment ------------------------------------- *)
  Lemma bind_shape xs vs e e' : bind xs vs e = Some e' ->
    exists b : env, e' = b ++ e /\ map fst b = xs.
  Proof.
    revert vs e'. induction xs as [|x t IH]; intros [|v vt] e'; cbn; try discriminate.
    - intro H; inversion H; exists []; auto.
    - destruct (bind t vt e) as [r|] eqn:B; cbn; [|discriminate].
      intro H; inversion H; subst. destruct (IH vt r B) as [b [-> Hb]]. exists ((x, v) :: b). cbn. now rewrite Hb.
  Qed.

  Lemma eval_node_shape ev e n e' : eval_node ev e n = Some e' ->
    exists b : env, e' = b ++ e /\ map fst b = n_outs n.
  Proof.
    destruct n as [dom op ins outs attrs subs]. unfold Sem.eval_node. cbn [n_outs].
    repeat match goal with
           | |- context [match ?x with _ => _ end] => destruct x; try discriminate
           | |- context [if ?x then _ else _] => destruct x; try discriminate
           end; apply bind_shape.
  Qed.

  Lemma run_shape ev ns : forall e e', run ev e ns = Some e' ->
    exists b : env, e' = b ++ e /\ (forall x, In x (map fst b) -> In x (defs_nodes ns)).
  Proof.
    induction ns as [|n t IH]; intros e e'; cbn.
    - intro H; inversion H; exists []; split; [reflexivity|intros x []].
    - destruct (eval_node ev e n) as [e1|] eqn:E; [|discriminate]. intro H.
      destruct (eval_node_shape ev e n e1 E) as [b1 [-> Hb1]].
      destruct (IH _ _ H) as [b2 [-> Hb2]]. exists (b2 ++ b1). split; [now rewrite app_assoc|].
      intros x Hx. rewrite map_app in Hx. apply in_app_or in Hx. unfold defs_nodes. cbn. apply in_or_app.
      destruct Hx as [Hx|Hx]; [right; apply Hb2; exact Hx|left; rewrite <- Hb1; exact Hx].
  Qed.

  Lemma lookup_app_notin (b e : env) x : ~ In x (map fst b) -> lookup (b ++ e) x = lookup e x.
  Proof.
    induction b as [|[y v] t IH]; cbn; [reflexivity|]. intro H.
    destruct (String.eqb x y) eqn:E; [apply String.eqb_eq in E; subst; tauto|apply IH; tauto].
  Qed.

  (* Dead-node removal: dropping nodes whose outputs nobody mentions afterwards *)
  Theorem dead_nodes_removable : forall fuel outer gi gn pre M suf outs args v,
    disjoint (defs_nodes M) (names_nodes suf) -> disjoint (defs_nodes M) outs ->
    eval_graph (S fuel) outer (Graph gi gn (pre ++ M ++ suf) outs) args = Some v ->
    eval_graph (S fuel) outer (Graph gi gn (pre ++ suf) outs) args = Some v.
  Proof.
    intros fuel outer gi gn pre M suf outs args v D1 D2 H.
    change (pre ++ suf) with (pre ++ [] ++ suf).
    eapply splice_refines with (X := defs_nodes M); eauto.
    intros e a HM. exists e. split; [reflexivity|].
    destruct (run_shape _ _ _ _ HM) as [b [-> Hb]].
    intros x Hx. apply lookup_app_notin. intro Hin. apply Hx. apply Hb. exact Hin.
  Qed.
End Proofs.
