(* Model of onnxscript/rewriter/rules/common/_fuse_pad_into_conv.py (C05).
   - fill_pads_with_axes, the check of _FuseConvPadBase/FuseConvPad, the pads emitted by its rewrite;
   - NormalizePadFormatConv.compute_pads (auto_pad -> explicit pads) next to the ONNX formula;
   - a 1-D integer convolution (signals are a length and a total function Z -> Z) used to state what
     "Conv(Pad(x))" and "Conv with pads" compute.
   No proofs in this file. *)
From Coq Require Import ZArith List Bool.
Import ListNotations.
Local Open Scope Z_scope.

(* ---------------------------------------------------------------- fill_pads_with_axes *)

Fixpoint upd (l : list Z) (i : nat) (v : Z) : list Z :=
  match l, i with
  | [], _ => []
  | _ :: t, O => v :: t
  | h :: t, S j => h :: upd t j v
  end.

(* for start_idx, axis in enumerate(axes): new[axis] = pads[start_idx]; new[axis+rank] = pads[start_idx+N] *)
Fixpoint fill_loop (new pads : list Z) (axes : list nat) (i N rank : nat) : list Z :=
  match axes with
  | [] => new
  | ax :: rest =>
      fill_loop (upd (upd new ax (nth i pads 0)) (ax + rank) (nth (i + N) pads 0)) pads rest (S i) N rank
  end.

Definition fill_pads_with_axes (pads : list Z) (axes : list nat) (rank : nat) : list Z :=
  fill_loop (repeat 0 (2 * rank)) pads axes 0 (length axes) rank.

(* axes_list = [x if x >= 0 else x_rank + x for x in axes] ; an axis outside [-rank, rank) is not a valid Pad *)
Definition norm_axis (rank : nat) (a : Z) : option nat :=
  let a' := if 0 <=? a then a else Z.of_nat rank + a in
  if (0 <=? a') && (a' <? Z.of_nat rank) then Some (Z.to_nat a') else None.

Fixpoint norm_axes (rank : nat) (axes : list Z) : option (list nat) :=
  match axes with
  | [] => Some []
  | a :: t => match norm_axis rank a, norm_axes rank t with
              | Some x, Some r => Some (x :: r)
              | _, _ => None
              end
  end.

(* ---------------------------------------------------------------- check / rewrite of FuseConvPad *)

Definition nonspatial (l : list Z) (rank : nat) : list Z := firstn 2 l ++ firstn 2 (skipn rank l).
Definition spatial (l : list Z) (rank : nat) : list Z := skipn 2 (firstn rank l) ++ skipn (rank + 2) l.

Definition pads_ok (filled : list Z) (rank : nat) : bool :=
  forallb (Z.eqb 0) (nonspatial filled rank) && forallb (fun p => 0 <=? p) filled.

Fixpoint zipadd (a b : list Z) : list Z :=
  match a, b with
  | x :: a', y :: b' => (x + y) :: zipadd a' b'
  | _, _ => []
  end.

Record fuse_params := {
  fp_rank : nat;                    (* len(x.shape) *)
  fp_pads : list Z;                 (* constant `pads` input of Pad *)
  fp_axes : option (list Z);        (* constant `axes` input of Pad, if given *)
  fp_mode_constant : bool;          (* Pad.mode absent or "constant" *)
  fp_cval_zero : bool;              (* constant_value absent or == 0 *)
  fp_auto_pad_notset : bool;        (* Conv.auto_pad absent or "NOTSET" *)
  fp_conv_pads : option (list Z);   (* Conv.pads attribute *)
  fp_integer : bool;                (* ConvInteger instead of Conv *)
  fp_xzp_zero : bool                (* ConvInteger: x_zero_point absent or a constant 0 *)
}.

(* the pads attribute emitted by the rule, None = the rule does not fire *)
Definition fuse_impl (p : fuse_params) : option (list Z) :=
  if negb (fp_mode_constant p) || negb (fp_cval_zero p) || negb (fp_auto_pad_notset p) then None else
  match (match fp_axes p with Some a => norm_axes (fp_rank p) a | None => Some (seq 0 (fp_rank p)) end) with
  | None => None
  | Some axes =>
      let filled := fill_pads_with_axes (fp_pads p) axes (fp_rank p) in
      if pads_ok filled (fp_rank p) then
        Some (match fp_conv_pads p with
              | Some cp => zipadd cp (spatial filled (fp_rank p))
              | None => spatial filled (fp_rank p)
              end)
      else None
  end.

(* repaired rule: ConvInteger pads implicitly with x_zero_point, Pad pads with constant_value = 0;
   they coincide only when the zero point is (a constant) 0 *)
Definition fuse_fixed (p : fuse_params) : option (list Z) :=
  if fp_integer p && negb (fp_xzp_zero p) then None else fuse_impl p.

(* ---------------------------------------------------------------- compute_pads (auto_pad normalisation) *)

Definition cdiv (a b : Z) : Z := (a + b - 1) / b.      (* ceil for b > 0 *)
Definition keff (k d : Z) : Z := (k - 1) * d + 1.        (* extent of a dilated kernel *)

(* as read: total_pads = max(0, (y - 1) * s + k - x)  -- dilations are not read at all *)
Definition total_impl (x y k s : Z) : Z := Z.max 0 ((y - 1) * s + k - x).
(* repaired: the dilated extent *)
Definition total_fixed (x y k s d : Z) : Z := Z.max 0 ((y - 1) * s + keff k d - x).
(* ONNX Conv, auto_pad = SAME_*: output = ceil(x / s); total padding so that this output is produced *)
Definition total_spec (x k s d : Z) : Z := Z.max 0 ((cdiv x s - 1) * s + keff k d - x).

(* (begin, end): SAME_UPPER puts the extra element at the end, SAME_LOWER at the beginning *)
Definition split_pads (upper : bool) (total : Z) : Z * Z :=
  let p1 := total / 2 in let p2 := total - p1 in if upper then (p1, p2) else (p2, p1).

(* output length of a convolution with explicit pads *)
Definition conv_out_len (n k s d b e : Z) : Z := (n + b + e - keff k d) / s + 1.

Fixpoint same_pads_list (fixed upper : bool) (xs ys ks ss ds : list Z) : list (Z * Z) :=
  match xs, ys, ks, ss with
  | x :: xs', y :: ys', k :: ks', s :: ss' =>
      let d := hd 1 ds in
      split_pads upper (if fixed then total_fixed x y k s d else total_impl x y k s)
        :: same_pads_list fixed upper xs' ys' ks' ss' (tl ds)
  | _, _, _, _ => []
  end.

Inductive auto_pad := AP_absent | NOTSET | VALID | SAME_UPPER | SAME_LOWER.

Record norm_params := {
  np_auto : auto_pad;
  np_in : option (list (option Z));     (* whole input shape; None = unknown rank; dim None = symbolic *)
  np_out : option (list (option Z));
  np_kernel : list Z;                   (* kernel_shape attribute or weight.shape[2:] *)
  np_strides : option (list Z);
  np_dil : option (list Z);
  np_pads : option (list Z)
}.

Fixpoint all_static (l : list (option Z)) : option (list Z) :=
  match l with
  | [] => Some []
  | Some v :: t => match all_static t with Some r => Some (v :: r) | None => None end
  | None :: _ => None
  end.

Definition ones (n : nat) : list Z := repeat 1 n.

(* result: None = does not fire; Some pads = fires, auto_pad := NOTSET, pads attribute set to the list iff some entry <> 0
   (an all-zero list leaves the original pads attribute untouched) *)
Definition normalize (fixed : bool) (p : norm_params) : option (list Z) :=
  match np_auto p with
  | AP_absent | NOTSET => None
  | ap =>
    match np_in p, np_out p with
    | Some i, Some o =>
      if (length i <=? 2)%nat || (length o <=? 2)%nat then None else
      let sp_i := skipn 2 i in let sp_o := skipn 2 o in
      let strides := match np_strides p with Some s => s | None => ones (length sp_i) end in
      match ap with
      | VALID => Some (match np_pads p with Some q => q | None => repeat 0 (2 * length sp_i) end)
      | _ =>
        match all_static sp_i, all_static sp_o with
        | Some xs, Some ys =>
          if negb (length (np_kernel p) =? length strides)%nat then None else
          let dil := match np_dil p with Some d => d | None => [] end in
          let l := same_pads_list fixed (match ap with SAME_UPPER => true | _ => false end) xs ys (np_kernel p) strides dil in
          Some (map fst l ++ map snd l)
        | _, _ => None
        end
      end
    | _, _ => None
    end
  end.

(* ---------------------------------------------------------------- 1-D convolution semantics *)

Record sig1 := { len : Z; at_ : Z -> Z }.

(* ONNX Pad, mode constant, value c *)
Definition padc (c b e : Z) (x : sig1) : sig1 :=
  {| len := len x + b + e;
     at_ := fun i => if (b <=? i) && (i <? b + len x) then at_ x (i - b) else c |}.
Definition pad0 := padc 0.

Definition shift (zp : Z) (x : sig1) : sig1 := {| len := len x; at_ := fun i => at_ x i - zp |}.

Fixpoint dot (w : nat -> Z) (k : nat) (f : Z -> Z) : Z :=
  match k with
  | O => 0
  | S k' => dot w k' f + w k' * f (Z.of_nat k')
  end.

(* valid (un-padded) convolution at output position j: sum_t w[t] * x[j*s + t*d] *)
Definition conv_at (w : nat -> Z) (k : nat) (s d : Z) (x : sig1) (j : Z) : Z :=
  dot w k (fun t => at_ x (j * s + t * d)).

(* Conv with explicit pads (b, e) = valid convolution of the zero-padded input (operator document) *)
Definition conv_pads_at w k s d b e x j := conv_at w k s d (pad0 b e x) j.
Definition conv_pads_len (k : nat) (s d b e : Z) (x : sig1) : Z := conv_out_len (len x) (Z.of_nat k) s d b e.

(* ConvInteger: the zero point is subtracted from the data, padded positions contribute 0 *)
Definition convint_pads_at w k s d b e zp x j := conv_at w k s d (pad0 b e (shift zp x)) j.

(* ---------------------------------------------------------------- correspondence helpers *)

Definition olz_eqb (a b : option (list Z)) : bool :=
  match a, b with
  | Some x, Some y => (length x =? length y)%nat && forallb (fun '(u, v) => Z.eqb u v) (combine x y)
  | None, None => true
  | _, _ => false
  end.

Fixpoint idx_false {A} (f : A -> bool) (i : nat) (l : list A) : list nat :=
  match l with [] => [] | c :: t => (if f c then [] else [i]) ++ idx_false f (S i) t end.

Definition fuse_case := (fuse_params * option (list Z))%type.
Definition fuse_dis (fixed : bool) (cs : list fuse_case) : list nat :=
  idx_false (fun '(p, obs) => olz_eqb ((if fixed then fuse_fixed else fuse_impl) p) obs) 0 cs.

Definition norm_case := (norm_params * option (list Z))%type.
Definition norm_dis (fixed : bool) (cs : list norm_case) : list nat :=
  idx_false (fun '(p, obs) => olz_eqb (normalize fixed p) obs) 0 cs.

(* direct calls of the two pure helpers *)
Definition fill_case := (list Z * list nat * nat * list Z)%type.
Definition fill_dis (cs : list fill_case) : list nat :=
  idx_false (fun '(pads, axes, rank, obs) => olz_eqb (Some (fill_pads_with_axes pads axes rank)) (Some obs)) 0 cs.
