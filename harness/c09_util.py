"""Shared helpers of the C09 harness: symbolic shapes, bindings, model execution, Coq literals."""
from __future__ import annotations

import itertools

import numpy as np

from harness.common import clist, cstr, cz

VALUES = (0, 1, 2, 3, 7)          # the runtime sizes every symbol / unknown dim is bound to


# ----------------------------------------------------------------------------- Coq literals
def cdim(d):
    if d is None:
        return "DUnk"
    if isinstance(d, str):
        return f"(DSym {cstr(d)})"
    return f"(DInt {cz(d)})"


def cshape(s):
    return clist([cdim(d) for d in s])


def czs(s):
    return clist([cz(v) for v in s])


# ----------------------------------------------------------------------------- concrete broadcasting (numpy rules)
def np_bcast(a, b):
    """numpy/ONNX multidirectional broadcast of two concrete shapes, or None."""
    try:
        return tuple(int(v) for v in np.broadcast_shapes(tuple(a), tuple(b)))
    except ValueError:
        return None


def honest_bcast(a, b):
    """Most informative symbolic broadcast of two symbolic shapes that is truthful for every binding
    the original model accepts (unknown where it depends on the binding)."""
    ra, rb = list(reversed(a)), list(reversed(b))
    out = []
    for i in range(max(len(ra), len(rb))):
        if i >= len(ra):
            out.append(rb[i])
        elif i >= len(rb):
            out.append(ra[i])
        else:
            p, q = ra[i], rb[i]
            if isinstance(p, int) and p == 1:
                out.append(q)
            elif isinstance(q, int) and q == 1:
                out.append(p)
            elif p is not None and type(p) is type(q) and p == q:
                out.append(p)
            elif isinstance(p, int) and isinstance(q, int):
                out.append(p)          # never accepted anyway
            elif isinstance(p, int) and p != 1 and p != 0:
                out.append(p)          # p in {2,3,..}: an accepted result is p (q is 1 or p)
            elif isinstance(q, int) and q != 1 and q != 0:
                out.append(q)
            else:
                out.append(None)
    return list(reversed(out))


def weaken(rng, s, p):
    return [None if rng.random() < p else d for d in s]


# ----------------------------------------------------------------------------- bindings
class Free:
    """A free runtime quantity: a named symbol or one occurrence of an unknown dim."""

    def __init__(self):
        self.vars = []      # names in first-occurrence order

    def inst_shape(self, tag, s):
        """Replace every None of s by a private variable name; returns the instantiable shape."""
        out = []
        for i, d in enumerate(s):
            if d is None:
                v = f"?{tag}{i}"
                self.vars.append(v)
                out.append(v)
            else:
                if isinstance(d, str) and d not in self.vars:
                    self.vars.append(d)
                out.append(d)
        return out


def bindings(rng, names, cap):
    """All assignments names -> VALUES if there are at most `cap`, else a deterministic sample that always
    contains the all-equal assignments and favours the extreme sizes 0 and 1."""
    names = list(names)
    total = len(VALUES) ** len(names)
    if total <= cap:
        for combo in itertools.product(VALUES, repeat=len(names)):
            yield dict(zip(names, combo))
        return
    seen = set()
    out = []
    for v in VALUES:
        seen.add((v,) * len(names))
    for _ in range(cap * 4):
        if len(seen) >= cap:
            break
        seen.add(tuple(rng.choice((0, 1, 1, 1, 2, 3, 7)) for _ in names))
    for combo in sorted(seen):
        out.append(dict(zip(names, combo)))
    yield from out


def concretise(s, b):
    return tuple(int(d) if isinstance(d, int) else int(b[d]) for d in s)


def truthful(annot, conc, b):
    """Does the annotation (ints / names / None) describe the concrete shape under binding b?"""
    if annot is None:
        return True
    if len(annot) != len(conc):
        return False
    for d, c in zip(annot, conc):
        if d is None:
            continue
        if isinstance(d, int):
            if d != c:
                return False
        elif d in b and b[d] != c:
            return False
    return True


# ----------------------------------------------------------------------------- execution
class Runner:
    """One model, executed many times: onnxruntime (all graph optimisations disabled) and onnx.reference."""

    def __init__(self, model_proto):
        import onnx.reference
        import onnxruntime as ort

        self.proto = model_proto
        so = ort.SessionOptions()
        so.graph_optimization_level = ort.GraphOptimizationLevel.ORT_DISABLE_ALL
        so.log_severity_level = 4
        so.intra_op_num_threads = 1
        so.inter_op_num_threads = 1
        self.ort_err = None
        try:
            self.sess = ort.InferenceSession(model_proto.SerializeToString(), so, providers=["CPUExecutionProvider"])
        except Exception as e:  # noqa: BLE001
            self.sess = None
            self.ort_err = f"{type(e).__name__}: {str(e)[:200]}"
        try:
            self.ref = onnx.reference.ReferenceEvaluator(model_proto)
            self.ref_err = None
        except Exception as e:  # noqa: BLE001
            self.ref = None
            self.ref_err = f"{type(e).__name__}: {str(e)[:200]}"
        self.input_names = [i.name for i in model_proto.graph.input
                            if i.name not in {t.name for t in model_proto.graph.initializer}]

    def run_ort(self, feeds):
        if self.sess is None:
            return ("err", self.ort_err)
        try:
            return ("ok", self.sess.run(None, {k: v for k, v in feeds.items() if k in self.input_names}))
        except Exception as e:  # noqa: BLE001
            return ("err", f"{type(e).__name__}: {str(e)[:160]}")

    def run_ref(self, feeds):
        if self.ref is None:
            return ("err", self.ref_err)
        try:
            return ("ok", self.ref.run(None, {k: v for k, v in feeds.items() if k in self.input_names}))
        except Exception as e:  # noqa: BLE001
            return ("err", f"{type(e).__name__}: {str(e)[:160]}")


def same_outputs(a, b):
    if len(a) != len(b):
        return False
    for x, y in zip(a, b):
        x, y = np.asarray(x), np.asarray(y)
        if x.dtype != y.dtype or x.shape != y.shape or not np.array_equal(x, y):
            return False
    return True


def describe(outs):
    return [{"shape": list(np.asarray(o).shape), "dtype": str(np.asarray(o).dtype),
             "data": np.asarray(o).ravel()[:12].tolist()} for o in outs]


def int_data(shape, salt):
    """Integer-valued, position-dependent data (exact in every dtype used)."""
    n = int(np.prod(shape, dtype=np.int64)) if len(shape) else 1
    return ((np.arange(n, dtype=np.int64) * (2 * salt + 1) + salt) % 23 + 1).reshape(shape)
