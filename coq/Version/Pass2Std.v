(* C10 -- the pass over the repaired converter and torch_2_9.convert_version with a refusing inline pass, instantiated with
   the registry and bounds read from the live module; what the correspondence harness evaluates.  No proofs in this file. *)
From Coq Require Import ZArith List Bool String.
Import ListNotations.
Require Import OV.Gen.VersionTables OV.Version.Model OV.Version.Model2 OV.Version.Adapters OV.Version.Std OV.Version.CApi
               OV.Version.Fallback OV.Version.FallbackStd OV.Version.Pass2.
Local Open Scope Z_scope.

Definition std_pass2 (own refuse : bool) (mv : minvar) (fx : flags) (inline cleanup : model -> model)
                     (capi : model -> Z -> option model) (fb : bool) (M : model) (t : Z) : mres :=
  pass_convert2 own refuse mv (std_adapt fx) supported_min supported_max big_fuel inline cleanup capi fb M t.

(* the cases of Std.v (native entry, pass on ir.Model, ModelProto wrapper) against the variant the code is in *)
Definition run_case3 (own refuse : bool) (mv : minvar) (c : case) : bool :=
  match c with
  | CNative fx fakes M t o =>
    agrees_m (convert_native2 own refuse mv (with_fakes fakes (std_adapt fx)) supported_min supported_max big_fuel M t) o
  | CPass fx fb Minl capi t o =>
    agrees_m (std_pass2 own refuse mv fx (fun _ => Minl) (fun m => m) (fun _ _ => capi) fb Minl t) o
  | CProto copy fx fb p Minl capi t o =>
    agrees_p (proto_convert copy (std_pass2 own refuse mv fx (fun _ => Minl) (fun m => m) (fun _ _ => capi) fb) p t) o
  end.
Fixpoint disagreeing3 (own refuse : bool) (mv : minvar) (i : nat) (cs : list case) : list nat :=
  match cs with
  | [] => []
  | c :: r => (if run_case3 own refuse mv c then [] else [i]) ++ disagreeing3 own refuse mv (S i) r
  end.

(* operators for which no adapter is registered at any version *)
Definition std_q (op : string) : bool :=
  negb (existsb (fun key => let '(_, o, _, _) := key in String.eqb o op) registry_keys).

(* ---- torch_2_9.convert_version on requests the native converter is given, and on models the inline pass refuses *)
Inductive robserved :=
| RODone (M : model) (g : gsig) (nlog : nat)
| RORaisedInline
| RORaisedNative (c : ecls) (M : model) (g : gsig).

Record rcase := RCase {
  rc_own : bool; rc_refuse : bool; rc_min : minvar; rc_fx : flags; rc_limit : Z;
  rc_inl : option (model * gsig);      (* the state after the real inline pass; None = it raised *)
  rc_t : Z; rc_obs : robserved }.

Definition rc_run (c : rcase) : tres :=
  torch_2_9_convert_r (rc_own c) (rc_refuse c) (rc_min c) (std_adapt (rc_fx c)) supported_min supported_max big_fuel (rc_limit c)
                      (fun _ _ => None) (fun _ => option_map (fun p => St (fst p) (snd p)) (rc_inl c)) id_state
                      (St (Model None None [] []) (GSig [] [] [])) (rc_t c).

Definition run_rcase (c : rcase) : bool :=
  match rc_run c, rc_obs c with
  | TReturned S0 l, RODone M g n => model_eqb (st_model S0) M && gsig_eqb (st_sig S0) g && Nat.eqb (List.length l) n
  | TRaisedInline, RORaisedInline => true
  | TRaisedNative e S0 _, RORaisedNative k M g => ecls_eqb (cls_of e) k && model_eqb (st_model S0) M && gsig_eqb (st_sig S0) g
  | _, _ => false
  end.
Fixpoint tr_disagreeing (i : nat) (cs : list rcase) : list nat :=
  match cs with
  | [] => []
  | c :: r => (if run_rcase c then [] else [i]) ++ tr_disagreeing (S i) r
  end.

(* the cause the model computes for a case: 0 returns / inline refused; 1 range; 2 opset conflict; 3 pre-check; 4 during the visit *)
Definition rc_cause (c : rcase) : nat :=
  match rc_inl c with
  | None => 0%nat
  | Some (M, _) =>
    if oz_is (m_decl M) (rc_t c) || negb (supported supported_min supported_max M (rc_t c)) then 0%nat
    else match native2_cause (rc_own c) (rc_refuse c) (rc_min c) (std_adapt (rc_fx c)) supported_min supported_max big_fuel M (rc_t c) with
         | None => 0%nat | Some KRange => 1%nat | Some KConflict => 2%nat | Some KRefused => 3%nat | Some (KVisit _) => 4%nat
         end
  end.

(* witnesses *)
Definition ql_int32 : node :=
  Node "QuantizeLinear" true None false [] [true; true; true] [DStatic 6; DStatic 1] [].
Definition w_ql : state := St (Model (Some 18) None [ql_int32] []) (GSig [] [] []).
Definition w_conflict : state := St (Model (Some 19) (Some 20) [relu] []) (GSig [] [] []).
Definition inline_ok (S0 : state) : option state := Some S0.
Definition inline_refuses (S0 : state) : option state := None.
