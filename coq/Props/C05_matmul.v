(* C05, families _matmul_add_to_gemm.py, _gemm_to_matmul_add.py, _broadcast_to_matmul.py: property theorems
   (statements only, closed by `exact`). *)
From Coq Require Import ZArith List.
Require Import OV.Rules.MatmulGemm OV.Rules.MatmulGemmProofs.
Import ListNotations.
Open Scope Z_scope.

(* Gemm with default alpha = beta = 1 and the transA/transB flags the rule sets is Add(MatMul(op a, op b), c), per element *)
Theorem C05_matmul_gemm_is_add_matmul : forall ta tb K a b c i j,
  gemm 1 1 ta tb K a b c i j = madd (matmul K (if ta then tr a else a) (if tb then tr b else b)) c i j.
Proof. exact gemm_is_add_matmul. Qed.
Print Assumptions C05_matmul_gemm_is_add_matmul.

(* a tensor unidirectionally broadcastable to a target leaves the target's shape unchanged under Add *)
Theorem C05_matmul_unidir_bcast : forall c t, unidir c t = true -> bcast t c = Some t.
Proof. exact unidir_bcast. Qed.
Print Assumptions C05_matmul_unidir_bcast.

(* MatMulAddToGemm with the repaired check: the host's output shape is Gemm's (M, N) and c is a legal Gemm C *)
Theorem C05_matmul_add_to_gemm_fixed_sound : forall p, mg_check_fixed p = true ->
  mg_host_shape p = Some [mg_m p; mg_n p] /\ exists c, mg_c p = Some c /\ unidir c [mg_m p; mg_n p] = true.
Proof. exact mg_fixed_shape_sound. Qed.
Print Assumptions C05_matmul_add_to_gemm_fixed_sound.

(* as read the check only tests the ranks of a and b (findings C05:matmul:add-to-gemm:c-not-broadcastable-to-MN) *)
Theorem C05_matmul_add_to_gemm_rank3_refuted : exists p,
  mg_check_impl p = true /\ mg_host_shape p = Some [1; 4; 5] /\ mg_m p = 4 /\ mg_n p = 5.
Proof. exact mg_impl_refuted_rank3. Qed.
Print Assumptions C05_matmul_add_to_gemm_rank3_refuted.

Theorem C05_matmul_add_to_gemm_direction_refuted : exists p,
  mg_check_impl p = true /\ mg_host_shape p = Some [4; 5] /\ mg_m p = 1 /\ mg_n p = 5.
Proof. exact mg_impl_refuted_direction. Qed.
Print Assumptions C05_matmul_add_to_gemm_direction_refuted.

(* PARTIAL (shape only; equality of VALUES is refuted below, C05_matmul_reshape_values_refuted).
   check_if_not_need_reshape: whenever it accepts, shape_c is the MatMul output shape of the un-reshaped operands
   (all ranks, all positive dims) -- given that their inner dimensions agree, which the check as read does not ensure *)
Theorem C05_matmul_reshape_check_shape_partial : forall sa sb sc,
  positive_dims sa -> positive_dims sb -> inner_agree sa sb ->
  check_bcast false sa sb sc = Some true -> matmul_shape sa sb = Some sc.
Proof. exact check_bcast_shape_sound. Qed.
Print Assumptions C05_matmul_reshape_check_shape_partial.

Theorem C05_matmul_reshape_check_strict_shape_partial : forall sa sb sc,
  positive_dims sa -> positive_dims sb ->
  check_bcast true sa sb sc = Some true -> matmul_shape sa sb = Some sc.
Proof. exact check_bcast_strict_shape_sound. Qed.
Print Assumptions C05_matmul_reshape_check_strict_shape_partial.

Theorem C05_matmul_reshape_check_strict_total : forall sa sb sc, check_bcast true sa sb sc <> None.
Proof. exact check_bcast_strict_total. Qed.
Print Assumptions C05_matmul_reshape_check_strict_total.

(* finding C05:matmul:reshape:inner-dim-1-accepted *)
Theorem C05_matmul_reshape_inner_dim_refuted : exists sa sb sc,
  positive_dims sa /\ positive_dims sb /\ check_bcast false sa sb sc = Some true /\ matmul_shape sa sb = None.
Proof. exact check_bcast_inner_dim_refuted. Qed.
Print Assumptions C05_matmul_reshape_inner_dim_refuted.

(* finding C05:matmul:reshape:rank0-operand-raises *)
Theorem C05_matmul_reshape_rank0_raises : check_bcast false [] [1; 1] [1] = None /\ check_bcast false [1; 1] [] [1] = None.
Proof. exact check_bcast_rank0_raises. Qed.
Print Assumptions C05_matmul_reshape_rank0_raises.

(* finding C05:matmul:reshape:operand-layout-changed -- PARTIAL: equal shapes do not give equal values, because the check
   (as read and repaired alike) never looks at shape_a / shape_b; no sound side condition is proposed *)
Theorem C05_matmul_reshape_values_refuted :
  check_bcast false [2] [2; 2] [2] = Some true /\ check_bcast true [2] [2; 2] [2] = Some true /\
  exists a b, bmm_flat 2 1 2 1 a b <> mm_flat 1 2 2 a b.
Proof. exact two_reshapes_layout_refuted. Qed.
Print Assumptions C05_matmul_reshape_values_refuted.

(* gemm_to_matmul_add: with the repaired conjunct on c the Add is well-shaped; as read it is not *)
Theorem C05_matmul_gemm_to_matmul_add_c_sound : forall c sc, g2m_c_ok c sc = true -> bcast sc c = Some sc.
Proof. exact g2m_c_ok_sound. Qed.
Print Assumptions C05_matmul_gemm_to_matmul_add_c_sound.

Theorem C05_matmul_gemm_to_matmul_add_c_refuted : exists c M N batch m,
  unidir c [M; N] = true /\ check_bcast false (batch ++ [m; 4]) [4; N] (batch ++ [m; N]) = Some true /\
  bcast (batch ++ [m; N]) c = None.
Proof. exact g2m_c_refuted. Qed.
Print Assumptions C05_matmul_gemm_to_matmul_add_c_refuted.

(* finding C05:matmul:gemm-to-matmul-add:transA-transB-ignored *)
Theorem C05_matmul_gemm_to_matmul_add_trans_refuted : exists a b c i j,
  gemm 1 1 false true 2 a b c i j <> madd (matmul 2 a b) c i j /\
  gemm 1 1 true false 2 a b c i j <> madd (matmul 2 a b) c i j.
Proof. exact g2m_trans_refuted. Qed.
Print Assumptions C05_matmul_gemm_to_matmul_add_trans_refuted.

Theorem C05_matmul_gemm_to_matmul_add_fixed_conditions : forall sa sb sc c trans, g2m_rule true sa sb sc c trans = true ->
  check_bcast true sa sb sc = Some true /\ g2m_c_ok c sc = true /\ trans = false.
Proof. exact g2m_fixed_rule_conditions. Qed.
Print Assumptions C05_matmul_gemm_to_matmul_add_fixed_conditions.
