(* Model of ExpandIdentity (_basic_rules.py) (C05).
   ONNX Expand(x, shape): output shape = broadcast(x.shape, shape); element at output index ix is x at the index obtained
   by dropping the leading extra coordinates and replacing the coordinate by 0 wherever x's dim is 1.
   No proofs in this file. *)
From Coq Require Import ZArith List Bool.
Require Import OV.Rules.BShape.
Import ListNotations.
Local Open Scope Z_scope.

Definition tensor (V : Type) := (list Z * (list Z -> V))%type.

(* source index for output index ix (same rank as the output), x of shape xs with rank xs <= rank of the output *)
Definition src_index (xs : list Z) (ix : list Z) : list Z :=
  let ix' := skipn (length ix - length xs) ix in
  map (fun p => if fst p =? 1 then 0 else snd p) (combine xs ix').

Definition expand {V} (t : tensor V) (shape : list Z) : option (tensor V) :=
  match bcast (fst t) shape with
  | Some out => Some (out, fun ix => snd t (src_index (fst t) ix))
  | None => None
  end.

(* check: shape is a constant, x.shape is known and x_shape.dims == tuple(shape): symbolic dims never equal an int *)
Definition check (xdecl : option (list (option Z))) (shape : option (list Z)) : bool :=
  match xdecl, shape with
  | Some ds, Some s =>
      Nat.eqb (length ds) (length s) &&
      forallb (fun p => match fst p with Some d => d =? snd p | None => false end) (combine ds s)
  | _, _ => false
  end.

Definition in_range (sh ix : list Z) : Prop :=
  length ix = length sh /\ Forall (fun p => 0 <= snd p < fst p) (combine sh ix).

Definition case := (option (list (option Z)) * option (list Z) * bool)%type.
(* correspondence is one-directional, as the property is: what the implementation did must be permitted by the model;
   not firing is always permitted (a stricter check is never a C05 violation) *)
Definition agrees (c : case) : bool := let '(d, s, f) := c in implb f (check d s).
Fixpoint disagreeing (i : nat) (l : list case) : list nat :=
  match l with [] => [] | c :: t => (if agrees c then [] else [i]) ++ disagreeing (S i) t end.
