(* C09 -- the comparison obligation over the regenerated list (finite registry: vm_compute). *)
From Coq Require Import String List Bool.
Require Import OV.Gen.ShapeUsers OV.Shape.Comparisons.
Import ListNotations.

Lemma comparisons_as_modelled : comparisons_okb = true.
Proof. vm_compute. reflexivity. Qed.

(* lifted: every dim / shape comparison the models rely on is in the source, in its unit, as written *)
Lemma dim_sites_present : forall s, In s dim_sites -> site_present comparisons s = true.
Proof.
  pose proof comparisons_as_modelled as H. unfold comparisons_okb in H. apply andb_true_iff in H as [_ H].
  apply forallb_forall. exact H.
Qed.

Lemma comparisons_table_unchanged : table_eqb expected comparisons = true.
Proof. pose proof comparisons_as_modelled as H. unfold comparisons_okb in H. apply andb_true_iff in H as [H _]. exact H. Qed.
