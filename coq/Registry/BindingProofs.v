(* C16 -- proofs about the binding model, the name recogniser and the registry (Registry/Binding.v). *)
From Coq Require Import String Ascii List Bool Arith Lia.
Require Import OV.Registry.Binding.
Import ListNotations.
Open Scope string_scope.
Open Scope list_scope.
Open Scope nat_scope.

(* ------------------------------------------------------------------------------------ list helpers *)

Lemma mem_str_In : forall x l, mem_str x l = true <-> In x l.
Proof.
  intros x l; unfold mem_str; rewrite existsb_exists; split.
  - intros [y [Hy He]]. apply String.eqb_eq in He. subst; assumption.
  - intro H. exists x; split; [assumption | apply String.eqb_refl].
Qed.

Lemma forallb_skipn_le : forall {A} (f : A -> bool) l n m,
  n <= m -> forallb f (skipn n l) = true -> forallb f (skipn m l) = true.
Proof.
  intros A f l; induction l as [|a l IH]; intros n m Hle H.
  - destruct m; reflexivity.
  - destruct n, m; simpl in *; try lia; try assumption.
    + apply andb_true_iff in H as [_ H]. apply (IH 0 m); [lia | destruct l; assumption].
    + apply (IH n m); [lia | assumption].
Qed.

Lemma find_kw_some : forall kw n a, find_kw kw n = Some a -> In a kw /\ a_name a = n.
Proof.
  intros kw n a H. unfold find_kw in H. apply find_some in H as [Hin He].
  apply String.eqb_eq in He. split; assumption.
Qed.

Lemma rcons_ok : forall {A} (x : A) r l, rcons x r = OK l -> exists l', r = OK l' /\ l = x :: l'.
Proof. intros A x [l'|e] l H; simpl in H; inversion H; subst. exists l'; split; reflexivity. Qed.

Lemma In_skipn_nth : forall {A} n (l : list A) x, In x (skipn n l) -> exists m, nth_error l (n + m) = Some x.
Proof.
  intros A n; induction n as [|n IH]; intros l x H.
  - simpl in *. apply In_nth_error in H. assumption.
  - destruct l as [|a l]; simpl in H; [contradiction|]. apply IH in H as [m Hm]. exists m. assumption.
Qed.

Lemma nth_error_skipn_add : forall {A} n (l : list A) m, nth_error (skipn n l) m = nth_error l (n + m).
Proof.
  intros A n; induction n as [|n IH]; intros l m; [reflexivity|].
  destruct l as [|a l]; simpl; [destruct m; reflexivity | apply IH].
Qed.

Lemma kw_bound_spec : forall k bound, kw_bound k bound = true <-> exists p, In (p, SKw k) bound.
Proof.
  intros k bound; unfold kw_bound; rewrite existsb_exists; split.
  - intros [[p src] [Hin H]]; simpl in H. destruct src; try discriminate.
    apply String.eqb_eq in H; subst. exists p; assumption.
  - intros [p Hin]. exists (p, SKw k); split; [assumption | simpl; apply String.eqb_refl].
Qed.

(* ------------------------------------------------------------------- the parameter loop is sound *)

Section ParamLoop.
  Variables (pos kw : list sarg) (npos : nat) (kws : list string).
  Hypothesis Hnpos : npos <= length pos.
  Hypothesis Hdef : forallb a_default (skipn npos pos) = true.
  Hypothesis Hkws : forall k, In k kws -> exists a, find_kw kw k = Some a.
  Hypothesis Hreq : forall a, In a kw -> a_default a = false -> In (a_name a) kws.

  (* what a bound (parameter, source) pair satisfies; i = index of the first parameter considered *)
  Definition src_ok (i : nat) (p : param) (src : source) : Prop :=
    match src with
    | SPos j => i <= j /\ j < npos /\ exists a, nth_error pos j = Some a /\ pair_ok a p = true
    | SKw k => k = p_name p /\ In k kws /\ exists a, find_kw kw k = Some a /\ pair_ok a p = true
    | SDefault => p_required p = false
    end.

  Lemma src_ok_weaken : forall i p src, src_ok (S i) p src -> src_ok i p src.
  Proof. intros i p [j|k|]; simpl; intuition lia. Qed.

  Lemma bind_params_sound : forall ps i, check_params pos kw ps i = true ->
    exists bound, bind_params ps i npos kws = OK bound /\ map fst bound = ps /\
      (forall p src, In (p, src) bound -> src_ok i p src) /\
      (forall j, i <= j -> j < npos -> j < i + length ps -> exists p, In (p, SPos j) bound).
  Proof.
    induction ps as [|p ps IH]; intros i H.
    - exists []. simpl. split; [reflexivity|]. split; [reflexivity|]. split.
      + intros p src [].
      + intros j H1 H2 H3. lia.
    - simpl in H. apply andb_true_iff in H as [H H3]. apply andb_true_iff in H as [H1 H2].
      destruct (IH (S i) H3) as [bound [Hb [Hm [Hs Hc]]]].
      simpl. destruct (i <? npos) eqn:E.
      + apply Nat.ltb_lt in E. rewrite Hb. simpl. exists ((p, SPos i) :: bound).
        repeat split.
        * simpl. rewrite Hm. reflexivity.
        * intros q src [Hq | Hq].
          -- inversion Hq; subst. simpl. split; [lia | split; [assumption|]].
             destruct (nth_error pos i) as [a|] eqn:N.
             ++ exists a; split; [reflexivity | assumption].
             ++ apply nth_error_None in N. lia.
          -- apply src_ok_weaken. apply Hs; assumption.
        * intros j Hij Hjn Hjl. destruct (Nat.eq_dec j i) as [->|Hne].
          -- exists p; left; reflexivity.
          -- destruct (Hc j) as [q Hq]; simpl in Hjl; try lia. exists q; right; assumption.
      + apply Nat.ltb_ge in E.
        rewrite (forallb_skipn_le a_default pos npos i E Hdef) in H2.
        destruct (mem_str (p_name p) kws) eqn:M.
        * apply mem_str_In in M. destruct (Hkws _ M) as [a Ha]. rewrite Ha in H2.
          apply andb_true_iff in H2 as [H2 _].
          rewrite Hb. simpl. exists ((p, SKw (p_name p)) :: bound). repeat split.
          -- simpl. rewrite Hm. reflexivity.
          -- intros q src [Hq | Hq].
             ++ inversion Hq; subst. simpl. split; [reflexivity | split; [assumption|]].
                exists a; split; assumption.
             ++ apply src_ok_weaken. apply Hs; assumption.
          -- intros j Hij Hjn Hjl. lia.
        * destruct (p_required p) eqn:R.
          -- exfalso. destruct (find_kw kw (p_name p)) as [k|] eqn:Fk.
             ++ apply andb_true_iff in H2 as [_ H2]. simpl in H2. rewrite orb_false_r in H2.
                apply negb_true_iff in H2. apply find_kw_some in Fk as [Hin Hname].
                pose proof (Hreq k Hin H2) as Hk. rewrite Hname in Hk.
                apply mem_str_In in Hk. congruence.
             ++ simpl in H2. discriminate.
          -- rewrite Hb. simpl. exists ((p, SDefault) :: bound). repeat split.
             ++ simpl. rewrite Hm. reflexivity.
             ++ intros q src [Hq | Hq].
                ** inversion Hq; subst. simpl. assumption.
                ** apply src_ok_weaken. apply Hs; assumption.
             ++ intros j Hij Hjn Hjl. lia.
  Qed.
End ParamLoop.

(* a parameter that no positional argument reaches is filled by the keyword of its name, if supplied *)
Lemma bind_params_kw : forall ps i npos kws bound, bind_params ps i npos kws = OK bound ->
  forall m p, nth_error ps m = Some p -> npos <= i + m -> mem_str (p_name p) kws = true ->
  In (p, SKw (p_name p)) bound.
Proof.
  induction ps as [|q ps IH]; intros i npos kws bound Hb m p Hn Hle Hm.
  - destruct m; discriminate.
  - simpl in Hb. destruct m as [|m]; simpl in Hn.
    + inversion Hn; subst q. assert (E : i <? npos = false) by (apply Nat.ltb_ge; lia).
      rewrite E, Hm in Hb. apply rcons_ok in Hb as [l' [_ ->]]. left; reflexivity.
    + assert (Hrest : exists x l', bind_params ps (S i) npos kws = OK l' /\ bound = x :: l').
      { destruct (i <? npos); [|destruct (mem_str (p_name q) kws); [|destruct (p_required q); [discriminate|]]];
          apply rcons_ok in Hb as [l' [Hr ->]]; eauto. }
      destruct Hrest as [x [l' [Hr ->]]]. right. apply (IH (S i) npos kws l' Hr m p Hn); [lia | assumption].
Qed.

(* --------------------------------------------------------------------------------- binds_ok_sound *)

Lemma conforms_spec : forall s c, conforms s c <->
  c_npos c <= length (pos_args s) /\
  forallb a_default (skipn (c_npos c) (pos_args s)) = true /\
  (forall k, In k (c_kws c) -> exists a, find_kw (kw_args s) k = Some a) /\
  (forall a, In a (kw_args s) -> a_default a = false -> In (a_name a) (c_kws c)).
Proof.
  intros s c; unfold conforms, conformsb.
  rewrite !andb_true_iff, Nat.leb_le, !forallb_forall. split.
  - intros [[[H1 H2] H3] H4]. repeat split; try assumption.
    + intros k Hk. specialize (H3 k Hk). destruct (find_kw (kw_args s) k) as [a|]; [eauto | discriminate].
    + intros a Ha Hd. specialize (H4 a Ha). rewrite Hd in H4. simpl in H4. apply mem_str_In; assumption.
  - intros [H1 [H2 [H3 H4]]]. repeat split; try assumption.
    + intros k Hk. destruct (H3 k Hk) as [a ->]. reflexivity.
    + intros a Ha. destruct (a_default a) eqn:D; [reflexivity|]. simpl. apply mem_str_In. auto.
Qed.

(* The property's conclusion for one call (statement of the property, clause by clause). *)
Record binding_good (s : schema) (f : fn_sig) (c : call) (b : binding) : Prop := mkGood {
  (* every parameter of the function is accounted for, in order *)
  g_params : map fst (b_bound b) = f_params f;
  (* every bound source is a schema argument the call supplies *)
  g_resolved : forall p src, In (p, src) (b_bound b) -> src <> SDefault -> exists a, arg_of s src = Some a;
  g_supplied_pos : forall p i, In (p, SPos i) (b_bound b) -> i < c_npos c;
  g_supplied_kw : forall p k, In (p, SKw k) (b_bound b) -> In k (c_kws c) /\ k = p_name p;
  (* tensors reach input parameters *)
  g_tensor : forall p src a, In (p, src) (b_bound b) -> arg_of s src = Some a -> is_tensor a = true -> p_kind p = PInput;
  (* non-tensors reach parameters that accept them *)
  g_nontensor : forall p src a, In (p, src) (b_bound b) -> arg_of s src = Some a -> is_tensor a = false -> accepts a p = true;
  (* no required parameter is left unbound *)
  g_required : forall p src, In (p, src) (b_bound b) -> p_required p = true -> src <> SDefault;
  (* only droppable arguments are dropped *)
  g_dropped_pos : forall i, In i (b_dropped_pos b) -> exists a, nth_error (pos_args s) i = Some a /\ droppable (a_name a) = true;
  g_dropped_kw : forall k, In k (b_dropped_kw b) -> droppable k = true;
  (* and every supplied argument is either bound or listed as dropped *)
  g_account_pos : forall i, i < c_npos c -> (exists p, In (p, SPos i) (b_bound b)) \/ In i (b_dropped_pos b);
  g_account_kw : forall k, In k (c_kws c) -> (exists p, In (p, SKw k) (b_bound b)) \/ In k (b_dropped_kw b)
}.

Lemma pair_ok_tensor : forall a p, pair_ok a p = true -> is_tensor a = true -> p_kind p = PInput.
Proof. intros a p H T. unfold pair_ok in H. rewrite T in H. destruct (p_kind p); [reflexivity | discriminate]. Qed.

Lemma pair_ok_nontensor : forall a p, pair_ok a p = true -> is_tensor a = false -> accepts a p = true.
Proof. intros a p H T. unfold pair_ok in H. rewrite T in H. assumption. Qed.

(* Python's own call binding (how the installed exporter actually reaches a trace-only function) against
   the signature binder: it succeeds exactly when the signature binder succeeds and drops nothing, and
   then yields the same binding -- its only difference is that what would be dropped raises. *)
Lemma seq_nil_iff : forall n k, seq n k = [] <-> k = 0.
Proof. intros n [|k]; simpl; split; intro H; try reflexivity; discriminate. Qed.

Lemma python_call_vs_signature : forall ps c b,
  bind_python ps c = OK b <->
  (bind_signature ps c = OK b /\ b_dropped_pos b = [] /\ b_dropped_kw b = []).
Proof.
  intros ps c b. unfold bind_python. split.
  - destruct (length ps <? c_npos c) eqn:L; [discriminate|]. apply Nat.ltb_ge in L.
    destruct (bind_signature ps c) as [b'|e] eqn:S; [|discriminate].
    destruct (b_dropped_kw b') eqn:D; [|discriminate]. intro H; inversion H; subst b'.
    split; [reflexivity | split; [|assumption]].
    unfold bind_signature in S. destruct (bind_params ps 0 (c_npos c) (c_kws c)); [|discriminate].
    inversion S; subst; simpl. apply seq_nil_iff. lia.
  - intros [S [Hp Hk]]. rewrite S, Hk.
    assert (L : length ps <? c_npos c = false).
    { apply Nat.ltb_ge. unfold bind_signature in S. destruct (bind_params ps 0 (c_npos c) (c_kws c)); [|discriminate].
      inversion S; subst; simpl in Hp. apply seq_nil_iff in Hp. lia. }
    rewrite L. reflexivity.
Qed.

Theorem binds_ok_sound : forall s f, binds_ok s f = true ->
  forall c, conforms s c -> exists b, bind f c = OK b /\ binding_good s f c b.
Proof.
  intros s f Hok c Hc. apply conforms_spec in Hc as [Hnpos [Hdef [Hkws Hreq]]].
  unfold binds_ok in Hok. apply andb_true_iff in Hok as [Hok Hkwok]. apply andb_true_iff in Hok as [Hchk Hover].
  destruct (bind_params_sound (pos_args s) (kw_args s) (c_npos c) (c_kws c) Hnpos Hdef Hkws Hreq (f_params f) 0 Hchk)
    as [bound [Hb [Hm [Hs Hcov]]]].
  (* a supplied keyword that some parameter beyond the positional range carries is bound *)
  assert (Hbound : forall k a, In k (c_kws c) -> find_kw (kw_args s) k = Some a ->
            has_param_from (length (pos_args s)) (a_name a) (f_params f) = true -> kw_bound k bound = true).
  { intros k a Hk Hf Hh. apply find_kw_some in Hf as [_ Hname]. rewrite Hname in Hh.
    unfold has_param_from in Hh. apply existsb_exists in Hh as [p [Hp He]]. apply String.eqb_eq in He.
    apply In_skipn_nth in Hp as [m Hp]. apply kw_bound_spec. exists p. rewrite <- He.
    apply (bind_params_kw (f_params f) 0 (c_npos c) (c_kws c) bound Hb _ p Hp); [lia|].
    rewrite He. apply mem_str_In; assumption. }
  (* dropped keywords are droppable, and a trace-only function drops none *)
  assert (Hdk : forall k, In k (filter (fun k => negb (kw_bound k bound)) (c_kws c)) ->
            f_traced f = false /\ droppable k = true).
  { intros k Hk. apply filter_In in Hk as [Hk Hnb]. apply negb_true_iff in Hnb.
    destruct (Hkws k Hk) as [a Ha]. pose proof (find_kw_some _ _ _ Ha) as [Hin Hname].
    rewrite forallb_forall in Hkwok. specialize (Hkwok a Hin). apply orb_true_iff in Hkwok as [Hh | Hd].
    - rewrite (Hbound k a Hk Ha Hh) in Hnb. discriminate.
    - apply andb_true_iff in Hd as [Ht Hd]. apply negb_true_iff in Ht. rewrite Hname in Hd. split; assumption. }
  set (dk := filter (fun k => negb (kw_bound k bound)) (c_kws c)) in *.
  set (b0 := mkB bound (seq (length (f_params f)) (c_npos c - length (f_params f))) dk).
  assert (Hsig : bind_signature (f_params f) c = OK b0) by (unfold bind_signature; rewrite Hb; reflexivity).
  exists b0. split.
  { unfold bind. destruct (f_traced f) eqn:T; [|exact Hsig].
    apply python_call_vs_signature. split; [exact Hsig|]. simpl. split.
    - apply seq_nil_iff. apply Nat.leb_le in Hover. lia.
    - destruct dk as [|k dk'] eqn:Edk; [reflexivity|]. exfalso.
      destruct (Hdk k) as [Hf _]; [left; reflexivity | congruence]. }
  subst b0.
  constructor; simpl.
  - assumption.
  - intros p src Hin Hne. specialize (Hs p src Hin). destruct src as [j|k|]; simpl in *.
    + destruct Hs as [_ [_ [a [Ha _]]]]. eauto.
    + destruct Hs as [_ [_ [a [Ha _]]]]. eauto.
    + congruence.
  - intros p i Hin. specialize (Hs p _ Hin). simpl in Hs. tauto.
  - intros p k Hin. specialize (Hs p _ Hin). simpl in Hs. tauto.
  - intros p src a Hin Ha Ht. specialize (Hs p src Hin). destruct src as [j|k|]; simpl in *.
    + destruct Hs as [_ [_ [a' [Ha' Hp]]]]. rewrite Ha in Ha'; inversion Ha'; subst. eapply pair_ok_tensor; eassumption.
    + destruct Hs as [_ [_ [a' [Ha' Hp]]]]. rewrite Ha in Ha'; inversion Ha'; subst. eapply pair_ok_tensor; eassumption.
    + discriminate.
  - intros p src a Hin Ha Ht. specialize (Hs p src Hin). destruct src as [j|k|]; simpl in *.
    + destruct Hs as [_ [_ [a' [Ha' Hp]]]]. rewrite Ha in Ha'; inversion Ha'; subst. eapply pair_ok_nontensor; eassumption.
    + destruct Hs as [_ [_ [a' [Ha' Hp]]]]. rewrite Ha in Ha'; inversion Ha'; subst. eapply pair_ok_nontensor; eassumption.
    + discriminate.
  - intros p src Hin Hr Heq. subst src. specialize (Hs p _ Hin). simpl in Hs. congruence.
  - intros i Hi. apply in_seq in Hi.
    destruct (nth_error (pos_args s) i) as [a|] eqn:N; [|apply nth_error_None in N; lia].
    exists a; split; [reflexivity|].
    destruct (f_traced f).
    + apply Nat.leb_le in Hover. lia.
    + rewrite forallb_forall in Hover. apply Hover.
      assert (Hi' : i = length (f_params f) + (i - length (f_params f))) by lia.
      rewrite Hi' in N. rewrite <- nth_error_skipn_add in N. eapply nth_error_In; eassumption.
  - intros k Hk. apply (Hdk k Hk).
  - intros i Hi. destruct (Nat.lt_ge_cases i (length (f_params f))) as [Hlt | Hge].
    + left. apply Hcov; lia.
    + right. apply in_seq. lia.
  - intros k Hk. destruct (kw_bound k bound) eqn:Kb.
    + left. apply kw_bound_spec; assumption.
    + right. apply filter_In. split; [assumption | rewrite Kb; reflexivity].
Qed.

(* a trace-only function never drops anything: whatever does not fit raises *)
Lemma traced_never_drops : forall f c b, f_traced f = true -> bind f c = OK b ->
  b_dropped_pos b = [] /\ b_dropped_kw b = [].
Proof.
  intros f c b T H. unfold bind in H. rewrite T in H. apply python_call_vs_signature in H. tauto.
Qed.

(* the hypotheses of binds_ok_sound are satisfiable on a non-trivial instance:
   aten::sum.dim_IntList(Tensor self, int[1]? dim, bool keepdim=False, *, ScalarType? dtype=None)
   against aten_sum_dim_IntList(self, dim: Optional[INT64] = None, keepdim: bool = False, dtype: int = -1) *)
Definition ex_schema : schema :=
  [mkA "self" BTensor false false false false; mkA "dim" BInt true true false false;
   mkA "keepdim" BBool false false false true; mkA "dtype" BScalarType false true true true].
Definition ex_sig : fn_sig :=
  mkF [mkP "self" PInput true; mkP "dim" PInput false; mkP "keepdim" (PAttr AInt) false; mkP "dtype" (PAttr AInt) false] true.
Example ex_binds_ok : binds_ok ex_schema ex_sig = true. Proof. reflexivity. Qed.
Example ex_conforms : conforms ex_schema (mkC 2 ["dtype"]). Proof. reflexivity. Qed.
Example ex_bind : bind ex_sig (mkC 2 ["dtype"]) =
  OK (mkB [(mkP "self" PInput true, SPos 0); (mkP "dim" PInput false, SPos 1);
           (mkP "keepdim" (PAttr AInt) false, SDefault); (mkP "dtype" (PAttr AInt) false, SKw "dtype")] [] []).
Proof. reflexivity. Qed.

(* Snapshots of entries of the pinned tree that do not bind (each replayed on the real code by the
   harness as a known finding); they stay true whatever the registry becomes. *)
(* aten::amax(Tensor self, int[1] dim=[], bool keepdim=False) vs aten_amax(self, dim: INT64, keepdim: bool = False) *)
Definition amax_schema : schema :=
  [mkA "self" BTensor false false false false; mkA "dim" BInt true false false true; mkA "keepdim" BBool false false false true].
Definition amax_sig : fn_sig := mkF [mkP "self" PInput true; mkP "dim" PInput true; mkP "keepdim" (PAttr AInt) false] false.
Lemma amax_refuted : exists c, conforms amax_schema c /\ bind amax_sig c = Err (MissingRequired "dim").
Proof. exists (mkC 1 []). split; reflexivity. Qed.
(* aten::mean(Tensor self, *, ScalarType? dtype=None) vs aten_mean(self): dtype is dropped *)
Definition mean_schema : schema := [mkA "self" BTensor false false false false; mkA "dtype" BScalarType false true true true].
Definition mean_sig : fn_sig := mkF [mkP "self" PInput true] false.
Lemma mean_refuted : exists c b, conforms mean_schema c /\ bind mean_sig c = OK b /\ In "dtype" (b_dropped_kw b) /\ droppable "dtype" = false.
Proof. exists (mkC 1 ["dtype"]). eexists. split; [reflexivity|]. split; [reflexivity|]. split; [left; reflexivity | reflexivity]. Qed.
(* aten::rand_like(Tensor self, *, ..., MemoryFormat? memory_format=None) vs trace-only aten_rand_like without that
   parameter: the Python call raises; the signature binder would have dropped the (droppable) keyword *)
Definition rand_like_schema : schema :=
  [mkA "self" BTensor false false false false; mkA "dtype" BScalarType false true true true; mkA "layout" BLayout false true true true;
   mkA "device" BDevice false true true true; mkA "pin_memory" BBool false true true true; mkA "memory_format" BMemoryFormat false true true true].
Definition rand_like_sig : fn_sig :=
  mkF [mkP "self" PInput true; mkP "dtype" (PAttr AInt) false; mkP "layout" (PAttr AString) false;
       mkP "device" (PAttr AString) false; mkP "pin_memory" (PAttr AInt) false] true.
Lemma rand_like_refuted : exists c, conforms rand_like_schema c /\
  bind rand_like_sig c = Err (UnexpectedKeyword "memory_format") /\
  exists b, bind_signature (f_params rand_like_sig) c = OK b /\ b_dropped_kw b = ["memory_format"].
Proof. exists (mkC 1 ["memory_format"]). split; [reflexivity|]. split; [reflexivity|]. eexists. split; reflexivity. Qed.

(* ------------------------------------------------------------------------------------------ names *)

Open Scope string_scope.  (* from here on ++ is string append *)

Lemma span_spec : forall f s a b, span f s = (a, b) ->
  s = a ++ b /\ all_chars f a = true /\ match b with EmptyString => True | String c _ => f c = false end.
Proof.
  intros f s; induction s as [|c r IH]; intros a b H; simpl in H.
  - inversion H; subst. simpl. auto.
  - destruct (f c) eqn:E.
    + destruct (span f r) as [a' b'] eqn:S. inversion H; subst. destruct (IH a' b eq_refl) as [H1 [H2 H3]].
      simpl. rewrite E, H2. subst r. auto.
    + inversion H; subst. simpl. rewrite E. auto.
Qed.

Lemma span_app : forall f a b, all_chars f a = true ->
  match b with EmptyString => True | String c _ => f c = false end -> span f (a ++ b) = (a, b).
Proof.
  intros f a; induction a as [|c r IH]; intros b Ha Hb; simpl in *.
  - destruct b as [|c r]; [reflexivity|]. simpl. rewrite Hb. reflexivity.
  - apply andb_true_iff in Ha as [Hc Hr]. rewrite Hc, (IH b Hr Hb). reflexivity.
Qed.

Lemma nonempty_spec : forall s, nonempty s = true <-> s <> "".
Proof.
  intros [|c r]; simpl; split; intro H; try discriminate; try reflexivity.
  exfalso; apply H; reflexivity.
Qed.

(* the language of ^[a-zA-Z0-9_]+::[a-zA-Z0-9_]+(\.[a-zA-Z0-9._]+)?$ *)
Definition in_regex (s : string) : Prop :=
  exists ns nm ov, s = ns ++ "::" ++ nm ++ ov /\
    ns <> "" /\ all_chars word_char ns = true /\ nm <> "" /\ all_chars word_char nm = true /\
    (ov = "" \/ exists r, ov = String "." r /\ r <> "" /\ all_chars ovl_char r = true).

Lemma regex_ok_sound : forall s, regex_ok s = true -> in_regex s.
Proof.
  intros s H. unfold regex_ok in H.
  destruct (span word_char s) as [ns r1] eqn:S1. apply span_spec in S1 as [Hs [Hns _]].
  apply andb_true_iff in H as [Hne H]. apply nonempty_spec in Hne.
  destruct r1 as [|c1 r1]; [discriminate|].
  destruct c1 as [[] [] [] [] [] [] [] []]; try discriminate.
  destruct r1 as [|c2 r2]; [discriminate|].
  destruct c2 as [[] [] [] [] [] [] [] []]; try discriminate.
  destruct (span word_char r2) as [nm r3] eqn:S2. apply span_spec in S2 as [Hs2 [Hnm _]].
  apply andb_true_iff in H as [Hne2 H]. apply nonempty_spec in Hne2.
  destruct r3 as [|c3 ov].
  - exists ns, nm, "". subst. repeat split; auto.
  - destruct c3 as [[] [] [] [] [] [] [] []]; try discriminate.
    apply andb_true_iff in H as [Hne3 Hov]. apply nonempty_spec in Hne3.
    exists ns, nm, (String "." ov). subst. repeat split; auto. right. exists ov. auto.
Qed.

Lemma regex_ok_complete : forall s, in_regex s -> regex_ok s = true.
Proof.
  intros s [ns [nm [ov [Hs [Hne [Hns [Hne2 [Hnm Hov]]]]]]]]. subst s. unfold regex_ok.
  rewrite (span_app word_char ns ("::" ++ nm ++ ov) Hns); [|reflexivity].
  apply nonempty_spec in Hne. rewrite Hne. simpl.
  assert (Hb : match ov with EmptyString => True | String c _ => word_char c = false end).
  { destruct Hov as [-> | [r [-> _]]]; [exact I | reflexivity]. }
  rewrite (span_app word_char nm ov Hnm Hb). apply nonempty_spec in Hne2. rewrite Hne2. simpl.
  destruct Hov as [-> | [r [-> [Hr Hall]]]]; [reflexivity|].
  apply nonempty_spec in Hr. rewrite Hr, Hall. reflexivity.
Qed.

Lemma ends_with_spec : forall suf s, ends_with suf s = true <-> exists pre, s = pre ++ suf.
Proof.
  intros suf s; split.
  - induction s as [|c r IH]; cbn [ends_with]; intro H.
    + destruct (String.eqb suf "") eqn:E; [|discriminate]. apply String.eqb_eq in E. subst. exists "". reflexivity.
    + destruct (String.eqb suf (String c r)) eqn:E.
      * apply String.eqb_eq in E. subst. exists "". reflexivity.
      * destruct (IH H) as [pre ->]. exists (String c pre). reflexivity.
  - intros [pre ->]. induction pre as [|c r IH]; simpl.
    + destruct suf; cbn [ends_with]; rewrite String.eqb_refl; reflexivity.
    + cbn [ends_with append]. destruct (String.eqb suf (String c (r ++ suf))); [reflexivity | assumption].
Qed.

(* the accepted names are exactly the regular language minus the strings ending in ".default" *)
Theorem name_ok_spec : forall s, name_ok s = true <-> (in_regex s /\ ~ exists pre, s = pre ++ ".default").
Proof.
  intro s. unfold name_ok. rewrite andb_true_iff, negb_true_iff. split.
  - intros [He Hr]. split; [apply regex_ok_sound; assumption|].
    intro Hx. apply ends_with_spec in Hx. congruence.
  - intros [Hr Hn]. split; [|apply regex_ok_complete; assumption].
    destruct (ends_with ".default" s) eqn:E; [|reflexivity]. exfalso. apply Hn. apply ends_with_spec; assumption.
Qed.

Corollary default_spelling_rejected : forall pre, name_ok (pre ++ ".default") = false.
Proof.
  intro pre. destruct (name_ok (pre ++ ".default")) eqn:E; [|reflexivity].
  apply name_ok_spec in E as [_ Hn]. exfalso. apply Hn. exists pre. reflexivity.
Qed.

Example name_examples :
  map name_ok ["aten::add.Tensor"; "aten::relu"; "aten::relu.default"; "aten::add."; "aten:add"; "::add"; "a::b::c";
               "aten::_to_copy"; "prims::var"; "aten::a.b.c_1"; "aten::a-b"; ""]
  = [true; true; false; false; false; false; false; true; true; true; false; false].
Proof. reflexivity. Qed.

(* ---------------------------------------------------------------------------------------- registry *)

Section Registry.
  Variable F : Type.
  Implicit Types (st : list (ovl F)) (o : ovl F).

  Definition slot o (cx : bool) : list F := if cx then o_complex o else o_real o.

  Lemma add_fn_name : forall fn cx o, o_name (add_fn fn cx o) = o_name o.
  Proof. intros fn cx [n r c]. unfold add_fn. destruct cx; simpl; [destruct c | destruct r]; reflexivity. Qed.

  Lemma add_fn_slot : forall fn cx o cx',
    slot (add_fn fn cx o) cx' =
      if Bool.eqb cx cx' then match slot o cx' with [] => [fn] | l => l end else slot o cx'.
  Proof.
    intros fn cx [n r c] cx'. unfold add_fn, slot.
    destruct cx, cx'; simpl; try (destruct c; reflexivity); destruct r; reflexivity.
  Qed.

  Lemma resolve_slot : forall st name cx,
    resolve st name cx = match find (fun o => String.eqb (o_name o) name) st with Some o => slot o cx | None => [] end.
  Proof. intros. unfold resolve, slot. reflexivity. Qed.

  (* what one registration does to what any (name', cx') resolves to *)
  Lemma resolve_register : forall st fn name cx name' cx',
    resolve (register st fn name cx) name' cx' =
      if String.eqb name name' && Bool.eqb cx cx'
      then match resolve st name' cx' with [] => [fn] | l => l end
      else resolve st name' cx'.
  Proof.
    intros st fn name cx name' cx'. rewrite !resolve_slot.
    induction st as [|o st IH]; simpl.
    - rewrite add_fn_name. simpl. destruct (String.eqb name name') eqn:E; simpl.
      + rewrite add_fn_slot. unfold slot at 2. simpl. destruct (Bool.eqb cx cx'), cx'; reflexivity.
      + reflexivity.
    - destruct (String.eqb (o_name o) name) eqn:En; simpl.
      + rewrite add_fn_name. apply String.eqb_eq in En. subst name.
        destruct (String.eqb (o_name o) name') eqn:E'; simpl.
        * rewrite add_fn_slot. reflexivity.
        * reflexivity.
      + destruct (String.eqb (o_name o) name') eqn:E'.
        * apply String.eqb_eq in E'. subst name'. rewrite String.eqb_sym, En. reflexivity.
        * exact IH.
  Qed.

  Lemma resolve_fold : forall regs st name cx,
    resolve (fold_left (fun st r => match r with (fn, n, c) => register st fn n c end) regs st) name cx =
      match resolve st name cx with
      | [] => match first_registered regs name cx with Some fn => [fn] | None => [] end
      | l => l
      end.
  Proof.
    induction regs as [|[[fn n] c] regs IH]; intros st name cx; simpl.
    - destruct (resolve st name cx); reflexivity.
    - rewrite IH, resolve_register. unfold first_registered. simpl.
      destruct (String.eqb n name && Bool.eqb c cx) eqn:E.
      + destruct (resolve st name cx); reflexivity.
      + destruct (resolve st name cx); reflexivity.
  Qed.

  (* Registry.register keeps the first function per (name, real/complex) *)
  Theorem first_registration_wins : forall (regs : list (F * string * bool)) name cx,
    resolve (register_all regs) name cx =
      match first_registered regs name cx with Some fn => [fn] | None => [] end.
  Proof. intros. unfold register_all. rewrite resolve_fold. reflexivity. Qed.

  Corollary unique_resolution : forall (regs : list (F * string * bool)) name cx,
    length (resolve (register_all regs) name cx) <= 1.
  Proof. intros. rewrite first_registration_wins. destruct (first_registered regs name cx); simpl; lia. Qed.

  Corollary registered_resolves : forall (regs : list (F * string * bool)) fn name cx,
    In (fn, name, cx) regs -> exists fn', resolve (register_all regs) name cx = [fn'].
  Proof.
    intros regs fn name cx Hin. rewrite first_registration_wins. unfold first_registered.
    destruct (find _ regs) as [[[fn' n'] c']|] eqn:E; [eauto|].
    exfalso. apply (find_none _ _ E) in Hin. simpl in Hin. rewrite String.eqb_refl, Bool.eqb_reflx in Hin. discriminate.
  Qed.
End Registry.

Lemma key_eqb_eq : forall a b, key_eqb a b = true <-> a = b.
Proof.
  intros [n1 c1] [n2 c2]; unfold key_eqb; simpl. rewrite andb_true_iff, String.eqb_eq, Bool.eqb_true_iff.
  split; [intros [-> ->]; reflexivity | intro H; inversion H; auto].
Qed.

Lemma unique_keys_NoDup : forall l, unique_keys l = true -> NoDup l.
Proof.
  induction l as [|k r IH]; simpl; intro H; constructor.
  - apply andb_true_iff in H as [H _]. apply negb_true_iff in H. intro Hin.
    assert (existsb (key_eqb k) r = true) by (apply existsb_exists; exists k; split; [assumption | apply key_eqb_eq; reflexivity]).
    congruence.
  - apply andb_true_iff in H as [_ H]. auto.
Qed.

(* ---------------------------------------------------------------- lifting over a finite registry *)

(* every entry outside `known` binds: the conclusion of binds_ok_sound holds for each of them *)
Lemma registry_sound : forall (es : list entry) (known : list (string * bool)),
  forallb (fun e => entry_ok e || excepted known e) es = true ->
  forall e, In e es -> excepted known e = false ->
  exists s, e_schema e = Some s /\
    forall c, conforms s c -> exists b, bind (e_sig e) c = OK b /\ binding_good s (e_sig e) c b.
Proof.
  intros es known H e Hin Hex. rewrite forallb_forall in H. specialize (H e Hin). rewrite Hex, orb_false_r in H.
  unfold entry_ok in H. destruct (e_schema e) as [s|]; [|discriminate].
  exists s; split; [reflexivity|]. apply binds_ok_sound; assumption.
Qed.
