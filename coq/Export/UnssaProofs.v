(* Proofs about Export/Unssa.v (C13, model 2): the assignments emitted for a Loop bind the node outputs
   to the loop-carried values of the ONNX Loop semantics -- by induction on the trip count / fuel. *)
From Coq Require Import List String Bool Arith Lia.
Import ListNotations.
Require Import OV.Export.Unssa.
Local Open Scope string_scope.

Section Basics.
Variable V : Type.
Notation env := (env V).

Lemma upd_same : forall (e : env) x v, upd V e x v x = Some v.
Proof. intros. unfold upd. rewrite String.eqb_refl. reflexivity. Qed.

Lemma upd_other : forall (e : env) x v y, y <> x -> upd V e x v y = e y.
Proof. intros e x v y H. unfold upd. apply String.eqb_neq in H. rewrite H. reflexivity. Qed.

Lemma lookups_ext : forall xs (e e' : env), (forall x, In x xs -> e' x = e x) -> lookups V xs e' = lookups V xs e.
Proof.
  induction xs as [|x t IH]; simpl; intros e e' H; [reflexivity|].
  rewrite (H x (or_introl eq_refl)). rewrite (IH e e'); [reflexivity|]. intros y Hy. apply H. right. exact Hy.
Qed.

Lemma lookups_length : forall xs (e : env) vs, lookups V xs e = Some vs -> List.length vs = List.length xs.
Proof.
  induction xs as [|x t IH]; simpl; intros e vs H.
  - injection H as H. subst. reflexivity.
  - destruct (e x); [|discriminate]. destruct (lookups V t e) eqn:E; [|discriminate].
    injection H as H. subst. simpl. rewrite (IH e l E). reflexivity.
Qed.

(* sequential "x_k = y_k" lines act like one parallel assignment when no right-hand side is a target *)
Lemma assign_seq_parallel : forall lhs rhs (e : env) vs,
  NoDup lhs -> (forall y, In y rhs -> ~ In y lhs) -> List.length lhs = List.length rhs ->
  lookups V rhs e = Some vs ->
  exists e', assign_seq V lhs rhs e = Some e' /\ lookups V lhs e' = Some vs /\ (forall x, ~ In x lhs -> e' x = e x).
Proof.
  induction lhs as [|x l IH]; intros rhs e vs Hnd Hdis Hlen Hlk.
  - destruct rhs; [|discriminate]. simpl in *. injection Hlk as Hlk. subst. exists e. repeat split; reflexivity.
  - destruct rhs as [|y r]; [discriminate|]. simpl in Hlk |- *.
    destruct (e y) as [v|] eqn:Ey; [|discriminate].
    destruct (lookups V r e) as [vs'|] eqn:Er; [|discriminate]. injection Hlk as Hlk. subst vs.
    inversion Hnd as [|? ? Hx Hnd']. subst.
    assert (Hr : lookups V r (upd V e x v) = Some vs').
    { rewrite <- Er. apply lookups_ext. intros z Hz. apply upd_other. intros E. subst.
      apply (Hdis x (or_intror Hz)). left. reflexivity. }
    destruct (IH r (upd V e x v) vs' Hnd') as [e' [A [B C]]].
    + intros z Hz Hin. apply (Hdis z (or_intror Hz)). right. exact Hin.
    + simpl in Hlen. lia.
    + exact Hr.
    + exists e'. split; [exact A|]. split.
      * rewrite (C x Hx). rewrite upd_same. rewrite B. reflexivity.
      * intros z Hz. rewrite C by (intros Hin; apply Hz; right; exact Hin).
        apply upd_other. intros E. apply Hz. left. symmetry. exact E.
Qed.
End Basics.

(* ================================================================================================ *)
Section Counted.
Variable V : Type.
Variable of_nat : nat -> V.
Variable L : loop_names.
Variable body : env V -> option (env V).
Variable Ffor : nat -> list V -> option (list V).

(* what must be true of every environment the body runs in for the body to mean [Ffor]: typically
   "the names the body reads from the enclosing scopes still have their value from before the loop" *)
Variable Inv : env V -> Prop.

(* names private to the loop do not matter to [Inv] (they are distinct from the outer names) *)
Hypothesis Inv_private : forall e e',
  Inv e -> (forall x, ~ In x (ivar L :: formal_ins L) -> e' x = e x) -> Inv e'.

(* specification of the translated body: run with the iteration number and the current state in the
   formal inputs it leaves the new state in the formal outputs, and re-establishes [Inv] *)
Hypothesis body_spec : forall i e vs vs',
  Inv e -> lookups V (formal_ins L) e = Some vs -> Ffor i vs = Some vs' ->
  exists e', body (upd V e (ivar L) (of_nat i)) = Some e' /\ lookups V (formal_outs L) e' = Some vs' /\ Inv e'.

(* naming side conditions (ONNX single assignment + injective renaming) *)
Hypothesis formal_nodup : NoDup (formal_ins L).
Hypothesis outs_not_ins : forall y, In y (formal_outs L) -> ~ In y (formal_ins L).
Hypothesis outs_len : List.length (formal_ins L) = List.length (formal_outs L).

Lemma py_for_invariant : forall k i e vs vsN,
  Inv e -> lookups V (formal_ins L) e = Some vs -> onnx_for V Ffor k i vs = Some vsN ->
  exists e', py_for V of_nat L body k i e = Some e' /\ lookups V (formal_ins L) e' = Some vsN /\ Inv e'.
Proof.
  induction k as [|k IH]; intros i e vs vsN HI Hlk Hon; simpl in Hon |- *.
  - injection Hon as Hon. subst. exists e. repeat split; assumption.
  - unfold bind in Hon. destruct (Ffor i vs) as [vs1|] eqn:EF; [|discriminate].
    destruct (body_spec i e vs vs1 HI Hlk EF) as [e1 [B1 [B2 B3]]].
    destruct (assign_seq_parallel V (formal_ins L) (formal_outs L) e1 vs1 formal_nodup outs_not_ins outs_len B2)
      as [e2 [A1 [A2 A3]]].
    assert (HI2 : Inv e2).
    { apply (Inv_private e1 e2 B3). intros x Hx. apply A3. intros Hin. apply Hx. right. exact Hin. }
    destruct (IH (S i) e2 vs1 vsN HI2 A2 Hon) as [e' [P1 [P2 P3]]].
    exists e'. split; [|split; assumption].
    unfold for_step, bind. rewrite B1. rewrite A1. exact P1.
Qed.

(* the whole emitted fragment: node outputs end up bound to the ONNX loop-carried values *)
Theorem export_for_sound : forall n e vs0 vsN,
  Inv e ->
  lookups V (actual_ins L) e = Some vs0 ->
  (forall a, In a (actual_ins L) -> ~ In a (formal_ins L)) ->
  List.length (formal_ins L) = List.length (actual_ins L) ->
  NoDup (actual_outs L) ->
  (forall y, In y (formal_ins L) -> ~ In y (actual_outs L)) ->
  List.length (actual_outs L) = List.length (formal_ins L) ->
  onnx_for V Ffor n 0 vs0 = Some vsN ->
  exists e', export_for V of_nat L body n e = Some e' /\ lookups V (actual_outs L) e' = Some vsN.
Proof.
  intros n e vs0 vsN HI Hact Hdis Hlen Hnd Hdis2 Hlen2 Hon.
  destruct (assign_seq_parallel V (formal_ins L) (actual_ins L) e vs0 formal_nodup Hdis Hlen Hact) as [e1 [A1 [A2 A3]]].
  assert (HI1 : Inv e1).
  { apply (Inv_private e e1 HI). intros x Hx. apply A3. intros Hin. apply Hx. right. exact Hin. }
  destruct (py_for_invariant n 0 e1 vs0 vsN HI1 A2 Hon) as [e2 [P1 [P2 _]]].
  destruct (assign_seq_parallel V (actual_outs L) (formal_ins L) e2 vsN Hnd Hdis2 Hlen2 P2) as [e3 [C1 [C2 _]]].
  exists e3. split; [|exact C2]. unfold export_for, bind. rewrite A1, P1. exact C1.
Qed.
End Counted.

(* ================================================================================================ *)
Section Conditional.
Variable V : Type.
Variable truth : V -> bool.
Variable L : loop_names.
Variable body : env V -> option (env V).
Variable Fwhile : V -> list V -> option (V * list V).
Variable Inv : env V -> Prop.

Hypothesis Inv_private : forall e e',
  Inv e -> (forall x, ~ In x (cond_in L :: formal_ins L) -> e' x = e x) -> Inv e'.

Hypothesis body_spec : forall e c vs c' vs',
  Inv e -> e (cond_in L) = Some c -> lookups V (formal_ins L) e = Some vs -> Fwhile c vs = Some (c', vs') ->
  exists e', body e = Some e' /\ e' (cond_out L) = Some c' /\ lookups V (formal_outs L) e' = Some vs' /\ Inv e'.

Hypothesis formal_nodup : NoDup (formal_ins L).
Hypothesis outs_not_ins : forall y, In y (formal_outs L) -> ~ In y (formal_ins L).
Hypothesis outs_len : List.length (formal_ins L) = List.length (formal_outs L).
Hypothesis cond_not_formal : ~ In (cond_in L) (formal_ins L).
Hypothesis cond_not_out : ~ In (cond_in L) (formal_outs L).

Lemma py_while_invariant : forall fuel e c vs vsN,
  Inv e -> e (cond_in L) = Some c -> lookups V (formal_ins L) e = Some vs ->
  onnx_while V truth Fwhile fuel c vs = Some vsN ->
  exists e', py_while V truth L body fuel e = Some e' /\ lookups V (formal_ins L) e' = Some vsN /\ Inv e'.
Proof.
  induction fuel as [|f IH]; intros e c vs vsN HI Hc Hlk Hon; simpl in Hon |- *; rewrite Hc;
    destruct (truth c) eqn:Tc.
  - discriminate.
  - injection Hon as Hon. subst. exists e. repeat split; assumption.
  - destruct (Fwhile c vs) as [[c1 vs1]|] eqn:EF; [|discriminate].
    destruct (body_spec e c vs c1 vs1 HI Hc Hlk EF) as [e1 [B1 [B2 [B3 B4]]]].
    set (e1c := upd V e1 (cond_in L) c1).
    assert (B3' : lookups V (formal_outs L) e1c = Some vs1).
    { rewrite <- B3. apply lookups_ext. intros x Hx. apply upd_other. intros E. subst. exact (cond_not_out Hx). }
    destruct (assign_seq_parallel V (formal_ins L) (formal_outs L) e1c vs1 formal_nodup outs_not_ins outs_len B3')
      as [e2 [A1 [A2 A3]]].
    assert (Hc2 : e2 (cond_in L) = Some c1).
    { rewrite (A3 _ cond_not_formal). apply upd_same. }
    assert (HI2 : Inv e2).
    { apply (Inv_private e1 e2 B4). intros x Hx. rewrite A3 by (intros Hin; apply Hx; right; exact Hin).
      apply upd_other. intros E. apply Hx. left. symmetry. exact E. }
    destruct (IH e2 c1 vs1 vsN HI2 Hc2 A2 Hon) as [e' [P1 [P2 P3]]].
    exists e'. split; [|split; assumption].
    unfold while_step, bind. rewrite B1. simpl. rewrite B2. fold e1c. rewrite A1. exact P1.
  - injection Hon as Hon. subst. exists e. repeat split; assumption.
Qed.

Theorem export_while_sound : forall actual_cond fuel e c0 vs0 vsN,
  Inv e ->
  e actual_cond = Some c0 ->
  lookups V (actual_ins L) e = Some vs0 ->
  ~ In (cond_in L) (actual_ins L) ->
  (forall a, In a (actual_ins L) -> ~ In a (formal_ins L)) ->
  List.length (formal_ins L) = List.length (actual_ins L) ->
  NoDup (actual_outs L) ->
  (forall y, In y (formal_ins L) -> ~ In y (actual_outs L)) ->
  List.length (actual_outs L) = List.length (formal_ins L) ->
  onnx_while V truth Fwhile fuel c0 vs0 = Some vsN ->
  exists e', export_while V truth L body actual_cond fuel e = Some e' /\ lookups V (actual_outs L) e' = Some vsN.
Proof.
  intros actual_cond fuel e c0 vs0 vsN HI Hc Hact Hcn Hdis Hlen Hnd Hdis2 Hlen2 Hon.
  set (e0 := upd V e (cond_in L) c0).
  assert (Hact0 : lookups V (actual_ins L) e0 = Some vs0).
  { rewrite <- Hact. apply lookups_ext. intros x Hx. apply upd_other. intros E. subst. exact (Hcn Hx). }
  destruct (assign_seq_parallel V (formal_ins L) (actual_ins L) e0 vs0 formal_nodup Hdis Hlen Hact0) as [e1 [A1 [A2 A3]]].
  assert (Hc1 : e1 (cond_in L) = Some c0).
  { rewrite (A3 _ cond_not_formal). apply upd_same. }
  assert (HI1 : Inv e1).
  { apply (Inv_private e e1 HI). intros x Hx. rewrite A3 by (intros Hin; apply Hx; right; exact Hin).
    apply upd_other. intros E. apply Hx. left. symmetry. exact E. }
  destruct (py_while_invariant fuel e1 c0 vs0 vsN HI1 Hc1 A2 Hon) as [e2 [P1 [P2 _]]].
  destruct (assign_seq_parallel V (actual_outs L) (formal_ins L) e2 vsN Hnd Hdis2 Hlen2 P2) as [e3 [C1 [C2 _]]].
  exists e3. split; [|exact C2]. unfold export_while, bind. simpl. rewrite Hc. fold e0. rewrite A1, P1. exact C1.
Qed.
End Conditional.

(* ================================================================================================ *)
(* The side condition [outs_not_ins] is needed: when the body returns its own inputs permuted, the
   line-by-line assignments do not compute the ONNX loop-carried values. *)
Theorem export_for_swap_refuted :
  exists e', export_for nat (fun i => i) swap_names swap_body 1 swap_env0 = Some e' /\
             lookups nat (actual_outs swap_names) e' = Some [2; 2] /\
             onnx_for nat swap_F 1 0 [1; 2] = Some [2; 1].
Proof. eexists. split; [vm_compute; reflexivity|]. split; vm_compute; reflexivity. Qed.

(* A non-trivial instance satisfying every hypothesis of export_for_sound: s := s + w, three times. *)
Definition ex_names : loop_names :=
  {| ivar := "i"; cond_in := "c"; cond_out := "c2";
     formal_ins := ["s"]; formal_outs := ["s2"]; actual_ins := ["x"]; actual_outs := ["r"] |}.
Definition ex_body (e : env nat) : option (env nat) :=
  match e "s", e "w" with Some s, Some w => Some (upd nat e "s2" (s + w)) | _, _ => None end.
Definition ex_F (i : nat) (vs : list nat) : option (list nat) :=
  match vs with [s] => Some [s + 5] | _ => None end.
Definition ex_env0 : env nat :=
  fun y => if String.eqb y "x" then Some 1 else if String.eqb y "w" then Some 5 else None.

Example export_for_instance :
  exists e', export_for nat (fun i => i) ex_names ex_body 3 ex_env0 = Some e' /\ lookups nat ["r"] e' = Some [16].
Proof.
  apply (export_for_sound nat (fun i => i) ex_names ex_body ex_F (fun e => e "w" = Some 5)) with (vs0 := [1]).
  - intros e e' H Hx. rewrite Hx; [exact H|]. simpl. intros [E|[E|[]]]; discriminate.
  - intros i e vs vs' HI Hlk HF. simpl in Hlk. destruct (e "s") as [s|] eqn:Es; [|discriminate].
    injection Hlk as Hlk. subst vs. simpl in HF. injection HF as HF. subst vs'.
    unfold ex_body. simpl. rewrite upd_other by discriminate. rewrite upd_other by discriminate. rewrite Es, HI.
    eexists. split; [reflexivity|]. split.
    + unfold upd. simpl. reflexivity.
    + unfold upd. simpl. exact HI.
  - simpl. repeat constructor. intros [].
  - simpl. intros y [E|[]] [E2|[]]. subst. discriminate.
  - reflexivity.
  - reflexivity.
  - reflexivity.
  - simpl. intros a [E|[]] [E2|[]]. subst. discriminate.
  - reflexivity.
  - simpl. repeat constructor. intros [].
  - simpl. intros y [E|[]] [E2|[]]. subst. discriminate.
  - reflexivity.
  - reflexivity.
Qed.
