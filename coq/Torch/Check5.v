(* C08 (fifth group of families) -- correspondence checker: one `call5` per traced torch_lib call; the skeleton observed on the real
   traced graph and the output observed on onnxruntime are compared with the models of Group5.v.  Prints only indices (`disagreeing5`).
   No proofs in this file. *)
From Coq Require Import ZArith List Bool String.
Require Import OV.Torch.Onnx OV.Torch.Onnx2 OV.Torch.Spec OV.Torch.Spec2 OV.Torch.Aten OV.Torch.Aten2 OV.Torch.Check OV.Torch.Group5.
Import ListNotations.
Local Open Scope Z_scope.

Inductive call5 :=
| C5SelectScatter (r dim : Z) (xs : list (list Z)) (u : list Z) (index : Z)
| C5SliceScatter (r dim : Z) (xs us : list (list Z)) (start end_ : option Z) (step : Z)
| C5RepeatInt (s : list Z) (k : Z) (dim : option Z)
| C5RepeatTensor (reps : list Z)
| C5PixelShuffle (s : list Z) (r : Z)
| C5PixelUnshuffle (s : list Z) (r : Z)
| C5MaxMinDim (is_min : bool) (s : list Z) (dim : Z) (keepdim : bool)
| C5Atleast (k : Z) (s : list Z)
| C5PadNd (s pad : list Z)
| C5GroupNorm (native has_w has_b : bool) (s : list Z) (g : Z)
| C5Glu (s : list Z) (dim : Z).

Inductive result5 :=
| R5Shapes (ss : list (list Z))
| R5Slabs (axis : Z) (x : list (list Z))
| R5Data (d : list Z)
| R5None
| R5Err.

Definition run_call5 (c : call5) : option result5 :=
  match c with
  | C5SelectScatter r dim xs u index => option_map (fun p => R5Slabs (fst p) (snd p)) (aten_select_scatter r dim xs u index)
  | C5SliceScatter r dim xs us st en step => option_map (fun p => R5Slabs (fst p) (snd p)) (aten_slice_scatter r dim xs us st en step)
  | C5RepeatInt s k dim => option_map (fun o => R5Shapes [o]) (aten_repeat_interleave_int_shape s k dim)
  | C5RepeatTensor reps => option_map R5Data (aten_repeat_interleave_tensor reps)
  | C5PixelShuffle s r => option_map (fun o => R5Shapes [o]) (aten_pixel_shuffle_shape s r)
  | C5PixelUnshuffle s r => option_map (fun o => R5Shapes [o]) (aten_pixel_unshuffle_shape s r)
  | C5MaxMinDim _ s dim kd => option_map (fun p => R5Shapes [fst p; snd p]) (aten_maxmin_dim_shapes s dim kd)
  | C5Atleast k s => option_map (fun o => R5Shapes [o]) (aten_atleast_shape k s)
  | C5PadNd s pad => option_map (fun o => R5Shapes [o]) (aten_pad_shape s pad)
  | C5GroupNorm native _ _ s g =>
      obind (aten_group_norm_shape native s g) (fun o =>
        if native then option_map (fun st => R5Shapes [o; st; st]) (aten_native_group_norm_stats s g) else Some (R5Shapes [o]))
  | C5Glu s dim => option_map (fun o => R5Shapes [o]) (aten_glu_shape s dim)
  end.

Definition skel_call5 (c : call5) : skel :=
  match c with
  | C5SelectScatter _ dim _ _ index => skel_select_scatter dim index
  | C5SliceScatter r dim _ _ st en step => skel_slice_scatter r dim st en step
  | C5RepeatInt s k dim => skel_repeat_interleave_int s k dim
  | C5RepeatTensor _ => skel_repeat_interleave_tensor
  | C5PixelShuffle s r => skel_pixel_shuffle s r
  | C5PixelUnshuffle _ r => skel_pixel_unshuffle r
  | C5MaxMinDim mn s dim kd => skel_maxmin_dim mn s dim kd
  | C5Atleast k s => skel_atleast k s
  | C5PadNd s pad => skel_padnd s pad
  | C5GroupNorm native hw hb s g => if native then skel_native_group_norm hw hb s g else skel_group_norm hw hb s g
  | C5Glu _ dim => skel_glu dim
  end.

Definition agree5 (p r : result5) : bool :=
  match p, r with
  | _, R5None => true
  | R5Shapes x, R5Shapes y => list_eqb lz_eqb x y
  | R5Slabs a x, R5Slabs b y => (a =? b) && slabs_eqb x y
  | R5Data x, R5Data y => lz_eqb x y
  | _, _ => false
  end.

(* verdicts as in Check.v: 0 agree; 1 skeleton differs; 2 output differs from the model; 3 the model calls the graph
   invalid but the runtime produced a value; 4 output differs from the model while the model equals torch eager *)
Definition case5 := (call5 * skel * result5 * result5)%type.
Definition verdict5 (c : case5) : Z :=
  let '(cl, sk, obs, want) := c in
  match run_call5 cl with
  | None => match obs with
            | R5Err => 0
            | _ => if skel_eqb (skel_call5 cl) sk then 3 else 1
            end
  | Some p =>
    if negb (skel_eqb (skel_call5 cl) sk) then (match obs with R5Err => 2 | _ => 1 end)
    else match obs with
         | R5Err => if agree5 p want then 4 else 2
         | _ => if agree5 p obs then 0 else if agree5 p want then 4 else 2
         end
  end.
Fixpoint verdicts5 (i : nat) (cs : list case5) : list (nat * Z) :=
  match cs with
  | [] => []
  | c :: t => let v := verdict5 c in ((if v =? 0 then [] else [(i, v)]) ++ verdicts5 (S i) t)%list
  end.
Definition disagreeing5 (cs : list case5) : list nat :=
  flat_map (fun p => [fst p; Z.to_nat (snd p)]) (verdicts5 0 cs).
