(* C19 model: onnxscript/rewriter/ort_fusions/fused_matmul_rule_sets.py.
   Part 1: rank-2 matrices over an arbitrary [fops] (functional view: dimensions + entry function), MatMul,
           com.microsoft.FusedMatMul (alpha, transA, transB) and the expressions the rules match / produce.
   Part 2: permutations (N-d Transpose, transBatchA/B) as lists of naturals, the `check` / `rewrite` of every
           rule of the set, executable; used by the correspondence check.
   No proofs in this file. *)
From Coq Require Import List Bool Arith.
Require Import OV.Fusion.Field.
Import ListNotations.

(* ------------------------------------------------------------------------------------------------ part 1 *)
Section Sem.
  Variable F : Type.
  Variable o : fops F.
  Notation "x + y" := (fadd o x y).
  Notation "x * y" := (fmul o x y).
  Notation "x / y" := (fdiv o x y).

  Record mat := mk_mat { rows : nat; cols : nat; at_ : nat -> nat -> F }.

  Definition tr (A : mat) : mat := mk_mat (cols A) (rows A) (fun i j => at_ A j i).
  Definition op (t : bool) (A : mat) : mat := if t then tr A else A.       (* transA / transB *)
  Fixpoint sumn (n : nat) (f : nat -> F) : F := match n with O => f0 o | S k => sumn k f + f k end.

  (* ONNX MatMul on rank-2 operands; None = incompatible inner dimensions (a runtime error) *)
  Definition mm (A B : mat) : option mat :=
    if Nat.eqb (cols A) (rows B)
    then Some (mk_mat (rows A) (cols B) (fun i j => sumn (cols A) (fun k => at_ A i k * at_ B k j)))
    else None.
  Definition scale (a : F) (A : mat) : mat := mk_mat (rows A) (cols A) (fun i j => a * at_ A i j).
  Definition divc (c : F) (A : mat) : mat := mk_mat (rows A) (cols A) (fun i j => at_ A i j / c).   (* Div by a scalar constant *)

  (* com.microsoft.FusedMatMul: alpha * (op_transA(A) x op_transB(B)) *)
  Definition fused (alpha : F) (tA tB : bool) (A B : mat) : option mat :=
    option_map (scale alpha) (mm (op tA A) (op tB B)).

  (* equality of results: same dimensions, same entries inside the dimensions *)
  Definition meq (A B : mat) : Prop :=
    rows A = rows B /\ cols A = cols B /\ forall i j, i < rows A -> j < cols A -> at_ A i j = at_ B i j.
  Definition omeq (a b : option mat) : Prop :=
    match a, b with Some A, Some B => meq A B | None, None => True | _, _ => False end.

  (* --- the rules, as (matched expression, replacement) *)
  (* FusedMatMulDiv1: Div(MatMul(x, y), cst) -> FusedMatMul(x, y, alpha = 1/c) *)
  Definition div1_pattern (x y : mat) (c : F) := option_map (divc c) (mm x y).
  Definition div1_rewrite (x y : mat) (c : F) := fused (f1 o / c) false false x y.
  (* FusedMatMulDiv2: Div(FusedMatMul(x, y, **kw), cst) -> FusedMatMul(x, y, alpha = kw.alpha / c, ...) *)
  Definition div2_pattern alpha tA tB (x y : mat) (c : F) := option_map (divc c) (fused alpha tA tB x y).
  Definition div2_rewrite alpha tA tB (x y : mat) (c : F) := fused (alpha / c) tA tB x y.
  (* Transpose(Fused)MatMul1 / 2 (rank 2, perm = [1,0] or absent): trans := 1 - trans *)
  Definition tmm1_pattern alpha tA tB (x y : mat) := fused alpha tA tB (tr x) y.
  Definition tmm1_rewrite alpha tA tB (x y : mat) := fused alpha (negb tA) tB x y.
  Definition tmm2_pattern alpha tA tB (x y : mat) := fused alpha tA tB x (tr y).
  Definition tmm2_rewrite alpha tA tB (x y : mat) := fused alpha tA (negb tB) x y.
  (* MatMulTranspose / FusedMatMulTranspose: Transpose((Fused)MatMul(x, y)) -> FusedMatMul(y, x, ...)
     the code (since fix 8572307):  kwargs["transA"] = 1 - old transB;  kwargs["transB"] = 1 - old transA
     before the fix:                for name in ["transA", "transB"]: kwargs[name] = 1 - kwargs.get(name, 0)
     i.e. the new transA was the negation of the OLD transA although the first operand is now y. *)
  Definition mmt_pattern alpha tA tB (x y : mat) := option_map tr (fused alpha tA tB x y).
  Definition mmt_rewrite_code alpha tA tB (x y : mat) := fused alpha (negb tB) (negb tA) y x.
  Definition mmt_rewrite_old alpha tA tB (x y : mat) := fused alpha (negb tA) (negb tB) y x.
End Sem.

(* ------------------------------------------------------------------------------------------------ part 2 *)
(* N-d Transpose: out.shape[i] = in.shape[perm[i]].  Transpose(Transpose(x, p), q) = Transpose(x, compose p q). *)
Definition compose (p q : list nat) : list nat := map (fun i => nth i p 0) q.

(* A tensor of any rank as a function of its index vector (position -> coordinate); [is_transpose p T T'] says
   T' = Transpose(T, perm = p): T'[j] = T[i] whenever j_k = i_(p k). *)
Definition is_transpose {V} (p : nat -> nat) (T T' : (nat -> nat) -> V) : Prop :=
  forall i : nat -> nat, T' (fun k => i (p k)) = T i.

(* list_perm = list(range(N)) and the slices the code takes of it *)
Definition swap_last2 (N : nat) : list nat := seq 0 (N - 2) ++ [N - 1; N - 2].

(* The transposition FusedMatMul applies to an operand of rank N, as a perm (docstring of
   _TransposeFusedMatMulBaseWithBatch and the reference implementation in fused_matmul_rule_sets_test.py):
     transBatch=1: [1, .., N-2, 0, N-1];  trans=1 then swaps the last two. *)
Definition eff_perm (tb t : bool) (N : nat) : list nat :=
  match tb, t with
  | false, false => seq 0 N
  | false, true => swap_last2 N
  | true, false => seq 1 (N - 2) ++ [0; N - 1]
  | true, true => seq 1 (N - 2) ++ [N - 1; 0]
  end.

Inductive batch_rule := FlipBoth | FlipBatch | FlipTrans.
(* expected_perm of _TransposeFusedMatMulBaseWithBatch.check, N = len(perm) *)
Definition expected_perm (r : batch_rule) (tb : bool) (N : nat) : option (list nat) :=
  match r, tb with
  | FlipBoth, false => Some (seq 1 (N - 1) ++ [0])                      (* [*list_perm[1:], list_perm[0]] *)
  | FlipBoth, true => Some ([N - 1] ++ seq 0 (N - 1))                   (* [list_perm[-1], *list_perm[0:-1]] *)
  | FlipBatch, false => Some (seq 1 (N - 2) ++ [0; N - 1])              (* [*list_perm[1:-1], list_perm[0], list_perm[-1]] *)
  | FlipBatch, true => Some ([N - 2] ++ seq 0 (N - 2) ++ [N - 1])       (* [list_perm[-2], *list_perm[0:-2], list_perm[-1]] *)
  | FlipTrans, true => Some ([N - 1] ++ seq 1 (N - 2) ++ [0])           (* [list_perm[-1], *list_perm[1:-1], list_perm[0]] *)
  | FlipTrans, false => None                                            (* "and trans_batch == 1" *)
  end.
Fixpoint list_eqb (a b : list nat) : bool :=
  match a, b with
  | [], [] => true
  | x :: a', y :: b' => Nat.eqb x y && list_eqb a' b'
  | _, _ => false
  end.
(* "if len(perm) < 3: fail" (transBatchA/B need rank >= 3; before fix 8572307 only the empty perm was refused) *)
Definition batch_check_old (r : batch_rule) (tb : bool) (perm : list nat) : bool :=
  match perm with
  | [] => false
  | _ => match expected_perm r tb (length perm) with Some e => list_eqb e perm | None => false end
  end.
Definition batch_check (r : batch_rule) (tb : bool) (perm : list nat) : bool :=
  Nat.leb 3 (length perm) && batch_check_old r tb perm.
Definition batch_rewrite (r : batch_rule) (tb t : bool) : bool * bool :=
  match r with
  | FlipBoth => (negb tb, negb t)
  | FlipBatch => (negb tb, t)
  | FlipTrans => (tb, negb t)
  end.

(* The perm a Transpose node applies: the attribute, or -- attribute absent -- the ONNX default "reverse all axes". *)
Definition default_perm (rank : nat) : list nat := rev (seq 0 rank).
Definition transpose_perm (perm : option (list nat)) (rank : nat) : list nat :=
  match perm with Some ((_ :: _) as p) => p | _ => default_perm rank end.

(* _TransposeMatMulBase.check.  perm = None: attribute absent (or empty); rank: rank of the transposed operand, other:
   rank of the other MatMul operand (None = unknown); fused: Some transBatch of that side when the consumer is a FusedMatMul.
     if has_rank(x, 1) or has_rank(y, 1): fail                 (either operand 1-D)
     if perm:  len(perm) >= 2 and perm == range(n) with the last two swapped
     elif the TRANSPOSED operand is not known to have rank 2: fail      (default perm reverses ALL axes)
     if fused and its transBatch on that side is set: fail *)
Definition is_rank (r : option nat) (n : nat) : bool := match r with Some k => Nat.eqb k n | None => false end.
Definition simple_check (perm : option (list nat)) (rank other : option nat) (fused_tb : option bool) : bool :=
  negb (is_rank rank 1 || is_rank other 1)
  && (match perm with
      | Some ((_ :: _) as p) => Nat.leb 2 (length p) && list_eqb (swap_last2 (length p)) p
      | _ => is_rank rank 2
      end)
  && match fused_tb with Some true => false | _ => true end.

(* attributes of a FusedMatMul node that the rules read / write: (transA, transB, transBatchA, transBatchB) *)
Definition attrs := (bool * bool * bool * bool)%type.
Definition no_attrs : attrs := (false, false, false, false).

(* The rule set applied to  (Fused)MatMul(Transpose(x, perm), y)  [pos = 1]  or  (Fused)MatMul(x, Transpose(y, perm))  [pos = 2].
   Order in fused_matmul_rule_sets(): the simple rule first, then FlippedBatch, FlippedBatchAndTranspose, BatchAndTranspose.
   Result: None = nothing fires; Some new attributes. *)
Definition side_get (pos : nat) (a : attrs) : bool * bool :=        (* (transBatch, trans) of the side *)
  let '(tA, tB, tbA, tbB) := a in if Nat.eqb pos 1 then (tbA, tA) else (tbB, tB).
Definition side_set (pos : nat) (a : attrs) (v : bool * bool) : attrs :=
  let '(tA, tB, tbA, tbB) := a in let '(tb, t) := v in
  if Nat.eqb pos 1 then (t, tB, tb, tbB) else (tA, t, tbA, tb).
Definition transpose_operand_rules (is_fused : bool) (pos : nat) (perm : option (list nat)) (rank other : option nat)
                                   (a : attrs) : option attrs :=
  let '(tb, t) := side_get pos a in
  if simple_check perm rank other (if is_fused then Some tb else None) then Some (side_set pos a (tb, negb t))
  else if negb is_fused then None
  else match perm with
       | None => None       (* Python: transposed_node.attributes["perm"] raises KeyError -- not exercised *)
       | Some p =>
           if batch_check FlipBatch tb p then Some (side_set pos a (batch_rewrite FlipBatch tb t))
           else if batch_check FlipBoth tb p then Some (side_set pos a (batch_rewrite FlipBoth tb t))
           else if batch_check FlipTrans tb p then Some (side_set pos a (batch_rewrite FlipTrans tb t))
           else None
       end.

(* MatMulTranspose / FusedMatMulTranspose: Transpose((Fused)MatMul(x, y), perm).
   Result: Some attrs of FusedMatMul(y, x, ...) -- operands swapped. *)
Definition output_transpose_rules (perm : option (list nat)) (rank_x rank_y : option nat) (a : attrs) : option attrs :=
  match rank_x, rank_y with
  | Some 2, Some 2 =>
      let ok := match perm with Some ((_ :: _) as p) => list_eqb [1; 0] p | _ => true end in
      if ok then let '(tA, tB, tbA, tbB) := a in Some (negb tB, negb tA, tbA, tbB) else None
  | _, _ => None
  end.

(* correspondence cases: observed = what the real rule set left in the model *)
Definition attrs_eqb (a b : attrs) : bool :=
  let '(a1, a2, a3, a4) := a in let '(b1, b2, b3, b4) := b in
  Bool.eqb a1 b1 && Bool.eqb a2 b2 && Bool.eqb a3 b3 && Bool.eqb a4 b4.
Definition oattrs_eqb (a b : option attrs) : bool :=
  match a, b with Some x, Some y => attrs_eqb x y | None, None => true | _, _ => false end.
Inductive mm_case :=
  | COperand (is_fused : bool) (pos : nat) (perm : option (list nat)) (rank other : option nat) (a : attrs) (observed : option attrs)
  | COutput (perm : option (list nat)) (rank_x rank_y : option nat) (a : attrs) (observed : option attrs).
Definition mm_agrees (c : mm_case) : bool :=
  match c with
  | COperand f pos perm rank other a obs => oattrs_eqb (transpose_operand_rules f pos perm rank other a) obs
  | COutput perm rx ry a obs => oattrs_eqb (output_transpose_rules perm rx ry a) obs
  end.
Fixpoint mm_disagreeing (i : nat) (cs : list mm_case) : list nat :=
  match cs with [] => [] | c :: t => (if mm_agrees c then [] else [i]) ++ mm_disagreeing (S i) t end.
