(* C07 model: a call of the function extracted by an as_function rule, against the matched nodes in place.
   The function (onnxscript/rewriter/_rewrite_rule.py::_copy_for_function, no copied constants): formal inputs = the
   inputs of the call node (the copies keep the NAMES of the caller's values), body = the matched nodes in the order of
   the graph, outputs = the pattern outputs.  _copy_for_function refuses nodes with graph attributes, so the matched
   nodes are plain (neither If nor Loop).  No proofs in this file. *)
From Coq Require Import List String Bool.
Require Import OV.Graph.Syntax OV.Graph.Sem OV.Graph.Names.
Import ListNotations.
Local Open Scope string_scope.
Local Open Scope list_scope.

Definition plain (n : node) : bool := negb (is_if (n_dom n) (n_op n)) && negb (is_loop (n_dom n) (n_op n)).

(* every node reads only names of S or outputs of earlier nodes of the list *)
Fixpoint closed_in (S : list vname) (M : list node) : bool :=
  match M with
  | [] => true
  | n :: t => subset (present (n_ins n)) S && closed_in (n_outs n ++ S) t
  end.

(* the names the list reads before defining them (D: names defined so far) *)
Fixpoint free_reads (D : list vname) (M : list node) : list vname :=
  match M with
  | [] => []
  | n :: t => filter (fun x => negb (mem x D)) (present (n_ins n)) ++ free_reads (n_outs n ++ D) t
  end.

Definition call_of (dom op : string) (attrs : list (string * attrv)) (ins outs : list vname) : node :=
  Node dom op (map Some ins) outs attrs [].

Definition fn_graph (ins : list vname) (M : list node) (outs : list vname) : graph := Graph ins [] M outs.

(* executable side conditions of the theorem call_seg_equiv *)
Definition extract_okb (dom op : string) (ins : list vname) (M : list node) (outs : list vname) : bool :=
  forallb plain M && negb (is_if dom op) && negb (is_loop dom op) &&
  closed_in ins M && subset ins (free_reads [] M) && subset outs (defs_nodes M).
