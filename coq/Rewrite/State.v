(* C07 model, non-node parts of a model being rewritten: opset imports (per graph object: the model graph, every
   model-local function, every If/Loop body -- the last ones are never serialized), initializers (per graph object),
   the table of model-local functions, node and value metadata_props; what one visit of
   onnxscript/rewriter/_rewrite_rule.py::RewriteRule.try_rewrite (imports) and one application in
   RewriteRuleSet._apply_to_graph_or_function (initializer registration, as_function extraction, rule-name tag,
   onnx_ir.convenience.replace_nodes_and_values, metadata merge of onnxscript/utils/metadata_merger.py) do to them.

   Vocabulary.  A graph object is identified by a number (gid): 0 = model.graph, the others are assigned by the tracer
   (functions and subgraphs).  Values are tokens as in OV.Rewrite.Apply; a node is identified by the token of its first
   output.  Python dicts are insertion-ordered association lists: `dset` is `d[k] = v` (in place when the key exists,
   appended otherwise).

   Two repair flags (both false = the code as it is): fx_displaced = proposed_fixes/ready/C07_01_initializer_name_clash.diff,
   fx_owner = proposed_fixes/ready/C07_03_new_domain_in_function_subgraph_imports.diff (net effect at the end of a sweep).

   No proofs in this file. *)
From Coq Require Import List String ZArith Bool Arith DecimalString.
Require Import OV.Graph.Syntax OV.Graph.Sem OV.Graph.Names OV.Rewrite.Apply OV.Rewrite.FnCall.
Import ListNotations.
Local Open Scope string_scope.
Local Open Scope list_scope.

(* ---- insertion-ordered dictionaries ------------------------------------------------------------------------- *)
Section Dict.
  Context {K V : Type} (eqb : K -> K -> bool).

  Fixpoint dget (k : K) (d : list (K * V)) : option V :=
    match d with
    | [] => None
    | (k', v) :: t => if eqb k k' then Some v else dget k t
    end.

  Fixpoint dset (k : K) (v : V) (d : list (K * V)) : list (K * V) :=
    match d with
    | [] => [(k, v)]
    | (k', v') :: t => if eqb k k' then (k', v) :: t else (k', v') :: dset k v t
    end.

  Definition dhas (k : K) (d : list (K * V)) : bool := match dget k d with Some _ => true | None => false end.

  Definition dsetdefault (k : K) (v : V) (d : list (K * V)) : list (K * V) :=
    if dhas k d then d else dset k v d.

  Fixpoint ddel (k : K) (d : list (K * V)) : list (K * V) :=
    match d with
    | [] => []
    | (k', v) :: t => if eqb k k' then ddel k t else (k', v) :: ddel k t
    end.
End Dict.

Definition gkey := (nat * string)%type.
Definition gkey_eqb (a b : gkey) : bool := Nat.eqb (fst a) (fst b) && String.eqb (snd a) (snd b).

Definition fkey := (string * string * string)%type.              (* domain, name, overload *)
Definition fkey_eqb (a b : fkey) : bool :=
  String.eqb (fst (fst a)) (fst (fst b)) && String.eqb (snd (fst a)) (snd (fst b)) && String.eqb (snd a) (snd b).

(* ---- metadata_props and onnxscript/utils/metadata_merger.py --------------------------------------------------- *)
Definition meta := list (string * string).
Definition merger := string -> option (string -> string -> string).

Definition RULE_NAME_TAG : string := "pkg.onnxscript.rewriter.rule_name".
(* _default_metadata_merger = MetadataMerger({RULE_NAME_TAG: join(", ")}), default=None *)
Definition default_merger : merger :=
  fun k => if String.eqb k RULE_NAME_TAG then Some (fun a b => (a ++ ", " ++ b)%string) else None.

Definition is_empty (s : string) : bool := match s with EmptyString => true | _ => false end.

(* one iteration of the loop of MetadataMerger.update_dict *)
Definition update1 (mg : merger) (upd : meta) (kv : string * string) : meta :=
  let (k, nv) := kv in
  if is_empty nv then upd else
  match dget String.eqb k upd with
  | Some ov =>
    if is_empty ov then dset String.eqb k nv upd
    else match mg k with Some f => dset String.eqb k (f ov nv) upd | None => upd end
  | None => dset String.eqb k nv upd
  end.

Definition update_dict (mg : merger) (upd updates : meta) : meta := fold_left (update1 mg) updates upd.

(* MetadataMerger.copy_merged_metadata(from_nodes, to) with `to` a sequence of nodes: one target is updated from every
   source in turn; several targets are each updated from the merge of the sources *)
Definition copy_merged (mg : merger) (from : list meta) (to_ : list meta) : list meta :=
  match to_ with
  | [t] => [fold_left (update_dict mg) from t]
  | _ => let merged := fold_left (update_dict mg) from [] in map (fun t => update_dict mg t merged) to_
  end.

(* the general branch alone (what the single-target branch is an optimisation of) *)
Definition copy_merged_general (mg : merger) (from : list meta) (to_ : list meta) : list meta :=
  let merged := fold_left (update_dict mg) from [] in map (fun t => update_dict mg t merged) to_.

Definition mget (k : vname) (t : list (vname * meta)) : meta :=
  match dget String.eqb k t with Some m => m | None => [] end.

(* ---- functions -------------------------------------------------------------------------------------------------- *)
Record fdef := FDef { fd_imports : list (string * Z); fd_ins : list vname; fd_body : list node; fd_outs : list vname }.

Definition nat_to_string (n : nat) : string := NilEmpty.string_of_uint (Nat.to_uint n).

(* the least k >= start with f k not in used, searching `fuel` candidates *)
Fixpoint first_free (f : nat -> string) (used : list string) (fuel k : nat) : option nat :=
  match fuel with
  | O => None
  | S fu => if mem (f k) used then first_free f used fu (S k) else Some k
  end.

(* _get_new_overload(model, domain, name): overload = 1, 2, ... until (domain, name, str(overload)) is not a key *)
Definition overloads_of (dom name : string) (fs : list (fkey * fdef)) : list string :=
  map (fun e => snd (fst e)) (filter (fun e => String.eqb (fst (fst (fst e))) dom && String.eqb (snd (fst (fst e))) name) fs).

Definition new_overload (dom name : string) (fs : list (fkey * fdef)) : option string :=
  let used := overloads_of dom name fs in
  option_map nat_to_string (first_free nat_to_string used (S (List.length used)) 1).

(* ---- the state ------------------------------------------------------------------------------------------------- *)
Record mstate := MState {
  s_imports : list (gkey * Z);            (* (graph object, domain) -> version *)
  s_inits   : list (gkey * vname);        (* (graph object, registered name) -> value token *)
  s_funcs   : list (fkey * fdef);         (* model.functions *)
  s_nmeta   : list (vname * meta);        (* node (token of its first output) -> metadata_props; absent = empty *)
  s_vmeta   : list (vname * meta) }.      (* value token -> metadata_props; absent = empty *)

Record flags := Flags { fx_displaced : bool; fx_owner : bool }.
Definition as_is : flags := Flags false false.
Definition repaired : flags := Flags true true.

(* ---- opset imports: _update_opset_imports(graph_or_function, delta); _update_opset_imports(model.graph, delta) ----- *)
(* None = ValueError("Multiple versions of opset ...") *)
Definition add_import1 (gid : nat) (imp : option (list (gkey * Z))) (dv : string * option Z) : option (list (gkey * Z)) :=
  match imp with
  | None => None
  | Some i =>
    let (d, v) := dv in
    match dget gkey_eqb (gid, d) i with
    | None => Some (dset gkey_eqb (gid, d) (match v with Some z => z | None => 1%Z end) i)
    | Some cur => match v with
                  | Some z => if Z.eqb z cur then Some i else None
                  | None => Some i
                  end
    end
  end.

Definition add_imports_to (gid : nat) (ops : list (string * option Z)) (i : list (gkey * Z)) : option (list (gkey * Z)) :=
  fold_left (add_import1 gid) ops (Some i).

(* the repair: the serialized owner of the site takes over what the site acquired (setdefault) *)
Definition owner_takes (site owner : nat) (ops : list (string * option Z)) (i : list (gkey * Z)) : list (gkey * Z) :=
  fold_left (fun acc dv => match dget gkey_eqb (site, fst dv) acc with
                           | Some z => dsetdefault gkey_eqb (owner, fst dv) z acc
                           | None => acc
                           end) ops i.

Definition add_imports (fx : flags) (site owner : nat) (ops : list (string * option Z)) (i : list (gkey * Z))
  : option (list (gkey * Z)) :=
  match add_imports_to site ops i with
  | Some i1 =>
    match add_imports_to 0 ops i1 with
    | Some i2 => Some (if fx_owner fx then owner_takes site owner ops i2 else i2)
    | None => None
    end
  | None => None
  end.

(* ---- initializers: `for initializer in delta.new_initializers: initializers[initializer.name] = initializer` ------ *)
(* returns the dict and the displaced registrations (name, token), in order *)
Fixpoint reg_inits (site : nat) (new : list (string * vname)) (i : list (gkey * vname)) (disp : list (string * vname))
  : list (gkey * vname) * list (string * vname) :=
  match new with
  | [] => (i, disp)
  | (n, t) :: rest =>
    let disp' := match dget gkey_eqb (site, n) i with
                 | Some e => if String.eqb e t then disp else disp ++ [(n, e)]
                 | None => disp
                 end in
    reg_inits site rest (dset gkey_eqb (site, n) t i) disp'
  end.

Definition names_of (site : nat) (i : list (gkey * vname)) : list string :=
  map (fun e => snd (fst e)) (filter (fun e => Nat.eqb (fst (fst e)) site) i).

(* the repair: a displaced initializer that is still used is registered again under `<name>_<k>`, k least with the name
   unused by the initializers of the graph, its inputs and its node outputs (`other`: the last two, by real name) *)
Fixpoint rereg (site : nat) (used : vname -> bool) (other : list string) (disp : list (string * vname))
         (i : list (gkey * vname)) : list (gkey * vname) :=
  match disp with
  | [] => i
  | (n, e) :: rest =>
    if used e then
      let taken := names_of site i ++ other in
      match first_free (fun k => (n ++ "_" ++ nat_to_string k)%string) taken (S (List.length taken)) 1 with
      | Some k => rereg site used other rest (dset gkey_eqb (site, (n ++ "_" ++ nat_to_string k)%string) e i)
      | None => rereg site used other rest i
      end
    else rereg site used other rest i
  end.

Definition add_inits (fx : flags) (site : nat) (used : vname -> bool) (other : list string)
           (new : list (string * vname)) (i : list (gkey * vname)) : list (gkey * vname) :=
  let (i1, disp) := reg_inits site new i [] in
  if fx_displaced fx then rereg site used other disp i1 else i1.

(* ---- as_function extraction -------------------------------------------------------------------------------------- *)
(* what the application asks for: the call node's domain and op_type, the domains of the matched nodes, the extracted
   signature and body (body: see fn_body below) *)
Record fnreq := FnReq { fq_dom : string; fq_name : string; fq_used : list string;
                        fq_ins : list vname; fq_body : list node; fq_outs : list vname }.

(* parent_opset_imports: the function's when the site IS a function, the model graph's otherwise (also for an If/Loop
   body inside a function) *)
Definition parent_imports (site : nat) (site_is_fn : bool) (i : list (gkey * Z)) : list (string * Z) :=
  let g := if site_is_fn then site else 0 in
  map (fun e => (snd (fst e), snd e)) (filter (fun e => Nat.eqb (fst (fst e)) g) i).

Definition add_function (site : nat) (site_is_fn : bool) (i : list (gkey * Z)) (q : fnreq) (fs : list (fkey * fdef))
  : option (string * list (fkey * fdef)) :=
  match new_overload (fq_dom q) (fq_name q) fs with
  | Some ov =>
    let imps := filter (fun e => mem (fst e) (fq_used q)) (parent_imports site site_is_fn i) in
    Some (ov, dset fkey_eqb (fq_dom q, fq_name q, ov) (FDef imps (fq_ins q) (fq_body q) (fq_outs q)) fs)
  | None => None
  end.

(* _copy_for_function: a Constant node for every constant input that is not a call input (cmap: value token -> token
   of the Constant's output, cattr: the Constant's attributes), then the matched nodes IN THE ORDER OF THE GRAPH with
   these inputs redirected *)
Definition rename_ins (cmap : list (vname * vname)) (n : node) : node :=
  let 'Node d o i outs a s := n in Node d o (map (option_map (assoc cmap)) i) outs a s.

Definition fn_body (cmap : list (vname * vname)) (cattrs : list (list (string * attrv))) (matched : list node) : list node :=
  map (fun ca => Node "" "Constant" [] [snd (fst ca)] (snd ca) []) (combine cmap cattrs) ++ map (rename_ins cmap) matched.

(* the Constant nodes at the head of the body, and the executable side conditions of the theorem
   C07_call_with_constants_eq_matched (Rewrite/FnConstSemProofs.v): matched nodes plain, reading only call inputs, copied
   values and one another; one Constant per copied value; the Constant outputs are new names; a copied value is neither a
   call input nor defined by the match *)
Definition const_node (ca : (vname * vname) * list (string * attrv)) : node :=
  Node "" "Constant" [] [snd (fst ca)] (snd ca) [].

Definition const_nodes (cmap : list (vname * vname)) (cattrs : list (list (string * attrv))) : list node :=
  map const_node (combine cmap cattrs).

Definition extract_const_okb (dom op : string) (ins : list vname) (cmap : list (vname * vname))
           (cattrs : list (list (string * attrv))) (M : list node) (outs : list vname) : bool :=
  forallb plain M && negb (is_if dom op) && negb (is_loop dom op) &&
  closed_in (ins ++ map fst cmap) M && subset outs (defs_nodes M ++ ins) &&
  Nat.eqb (List.length cmap) (List.length cattrs) &&
  nodupb (map fst cmap) && nodupb (map snd cmap) &&
  disjointb (map fst cmap) (defs_nodes M ++ ins) &&
  disjointb (map snd cmap) (defs_nodes M ++ ins ++ map fst cmap).

(* ---- one application ------------------------------------------------------------------------------------------------ *)
Record delta := Delta {
  d_site : nat;                            (* the graph object holding the match *)
  d_owner : nat;                           (* the serialized container it belongs to: 0 or a function *)
  d_site_is_fn : bool;                     (* isinstance(graph_or_function, ir.Function) *)
  d_opsets : list (string * option Z);     (* delta.used_opsets *)
  d_inits : list (string * vname);         (* delta.new_initializers: name, token *)
  d_other_names : list string;             (* real names of the site's inputs and node outputs (used by the repair only) *)
  d_rule : string;                         (* rule.name ("" = none) *)
  d_matched : list vname;                  (* delta.match.nodes, IN THE MATCHER'S ORDER *)
  d_matched_vals : list vname;             (* every output of the matched nodes *)
  d_new : list (vname * meta);             (* delta.new_nodes with the metadata the replacement function gave them *)
  d_new_vals : list vname;                 (* every output of the new nodes *)
  d_remove : bool;                         (* rule.remove_nodes *)
  d_dead : list (vname * vname);           (* as in Apply.app *)
  d_fn : option fnreq;                     (* rule.as_function *)
  d_merge : bool }.                        (* module flag merge_metadata *)

(* rule-name tag, then copy_merged_metadata(delta.match.nodes, delta.new_nodes) *)
Definition tagged (rule : string) (m : meta) : meta :=
  if is_empty rule then m else dset String.eqb RULE_NAME_TAG rule m.

Definition new_meta (d : delta) (nm : list (vname * meta)) : list meta :=
  let to_ := map (fun e => tagged (d_rule d) (snd e)) (d_new d) in
  if d_merge d then copy_merged default_merger (map (fun k => mget k nm) (d_matched d)) to_ else to_.

Definition rekey (remove : bool) (dead : list (vname * vname)) (gone : list vname) (t : list (vname * meta))
  : list (vname * meta) :=
  if remove then filter (fun e => negb (mem (fst e) gone)) t
  else map (fun e => (assoc dead (fst e), snd e)) t.

Fixpoint dset_all (kvs : list (vname * meta)) (t : list (vname * meta)) : list (vname * meta) :=
  match kvs with
  | [] => t
  | (k, v) :: rest => dset_all rest (dset String.eqb k v t)
  end.

Definition step_nmeta (d : delta) (nm : list (vname * meta)) : list (vname * meta) :=
  dset_all (combine (map fst (d_new d)) (new_meta d nm)) (rekey (d_remove d) (d_dead d) (d_matched d) nm).

(* replace_nodes_and_values copies type, shape, const_value and name to the replacement outputs -- not metadata_props *)
Definition step_vmeta (d : delta) (vm : list (vname * meta)) : list (vname * meta) :=
  dset_all (map (fun v => (v, [])) (d_new_vals d)) (rekey (d_remove d) (d_dead d) (d_matched_vals d) vm).

(* a visit whose rule matched and produced a replacement: try_rewrite has updated the imports (also when the
   application is then dropped because it would add initializers to a function) *)
Definition visit (fx : flags) (d : delta) (s : mstate) : option mstate :=
  match add_imports fx (d_site d) (d_owner d) (d_opsets d) (s_imports s) with
  | Some i => Some (MState i (s_inits s) (s_funcs s) (s_nmeta s) (s_vmeta s))
  | None => None
  end.

(* the application proper.  `used`: the tokens still mentioned in the site after the splice (repair only).
   Second component: the overload given to the call node *)
Definition splice (fx : flags) (used : vname -> bool) (d : delta) (s : mstate) : option (mstate * option string) :=
  let inits := add_inits fx (d_site d) used (d_other_names d) (d_inits d) (s_inits s) in
  let nm := step_nmeta d (s_nmeta s) in
  let vm := step_vmeta d (s_vmeta s) in
  match d_fn d with
  | None => Some (MState (s_imports s) inits (s_funcs s) nm vm, None)
  | Some q =>
    match add_function (d_site d) (d_site_is_fn d) (s_imports s) q (s_funcs s) with
    | Some (ov, fs) => Some (MState (s_imports s) inits fs nm vm, Some ov)
    | None => None
    end
  end.

Definition step (fx : flags) (used : vname -> bool) (d : delta) (s : mstate) : option mstate :=
  match visit fx d s with
  | Some s1 => option_map fst (splice fx used d s1)
  | None => None
  end.

(* ---- what the theorems talk about ------------------------------------------------------------------------------ *)
(* every domain the replacement uses is imported by the serialized container of the site *)
Definition imports_cover (owner : nat) (ops : list (string * option Z)) (i : list (gkey * Z)) : bool :=
  forallb (fun dv => dhas gkey_eqb (owner, fst dv) i) ops.

(* a token is registered as an initializer of the graph object *)
Definition registered (site : nat) (t : vname) (i : list (gkey * vname)) : bool :=
  existsb (fun e => Nat.eqb (fst (fst e)) site && String.eqb (snd e) t) i.

(* ---- replaying a sweep of the real rewriter ---------------------------------------------------------------------- *)
Inductive event :=
| EVisit (d : delta)                                                     (* try_rewrite returned a replacement *)
| ESplice (p : path) (a : app) (d : delta)                               (* replace_nodes_and_values + the rest *)
         (cmap : list (vname * vname)) (cattrs : list (list (string * attrv))).

Definition used_in (g : graph) (t : vname) : bool := mem t (names_nodes (g_nodes g)) || mem t (g_outs g).

Definition fn_okb (d : delta) (a : app) (s : graph) (ov : option string) (cmap : list (vname * vname))
           (cattrs : list (list (string * attrv))) : bool :=
  match d_fn d, ov with
  | None, _ => true
  | Some q, Some o =>
    (* the body is the matched nodes in graph order behind the copied constants, and the call node carries the overload *)
    list_eqb node_eqb (fq_body q) (fn_body cmap cattrs (sel (a_mask a) (g_nodes s))) &&
    (* used_domains: the domains of the matched nodes (of the whole body with
       proposed_fixes/ready/C07_04_as_function_constant_default_domain_import.diff) *)
    (list_eqb String.eqb (fq_used q) (map n_dom (sel (a_mask a) (g_nodes s))) ||
     list_eqb String.eqb (fq_used q) (map n_dom (fq_body q))) &&
    match a_new a with
    | [c] => String.eqb (n_op c) (fq_name q ++ ":" ++ o)%string && String.eqb (n_dom c) (fq_dom q) &&
             (* no copied constants: the executable hypotheses of as_function_app_sound (the call is interchangeable with the
                matched nodes for a kernel that interprets it by the function body) *)
             match cmap with
             | [] => extract_okb (n_dom c) (n_op c) (fq_ins q) (sel (a_mask a) (g_nodes s)) (fq_outs q) &&
                     list_eqb (opt_eqb String.eqb) (n_ins c) (map Some (fq_ins q)) && list_eqb String.eqb (n_outs c) (fq_outs q)
             | _ => (* copied constants: the executable hypotheses of C07_call_with_constants_eq_matched *)
                    extract_const_okb (n_dom c) (n_op c) (fq_ins q) cmap cattrs (sel (a_mask a) (g_nodes s)) (fq_outs q) &&
                    list_eqb (opt_eqb String.eqb) (n_ins c) (map Some (fq_ins q)) && list_eqb String.eqb (n_outs c) (fq_outs q)
             end
    | _ => false
    end
  | Some _, None => false
  end.

(* 0 ok; 1 path; 2 ValueError in the model; 3 ill-formed application; 5 function request inconsistent with the window *)
Fixpoint run_events (fx : flags) (i : nat) (evs : list event) (g : graph) (s : mstate) : nat * nat * option (graph * mstate) :=
  match evs with
  | [] => (0, i, Some (g, s))
  | EVisit d :: t =>
    match visit fx d s with
    | Some s' => run_events fx (S i) t g s'
    | None => (2, i, None)
    end
  | ESplice p a d cmap cattrs :: t =>
    match site p g, apply_at p a g with
    | Some sg, Some g' =>
      match site p g' with
      | Some sg' =>
        match splice fx (used_in sg') d s with
        | Some (s', ov) =>
          if fn_okb d a sg ov cmap cattrs then run_events fx (S i) t g' s' else (5, i, None)
        | None => (2, i, None)
        end
      | None => (1, i, None)
      end
    | None, _ => (1, i, None)
    | _, None => (3, i, None)
    end
  end.

(* comparison of the predicted state with the observed one: as finite maps over the keys of both; metadata_props and
   the initializers of one graph object also in order *)
Definition Zopt_eqb := opt_eqb Z.eqb.
Definition meta_eqb : meta -> meta -> bool :=
  list_eqb (fun a b => String.eqb (fst a) (fst b) && String.eqb (snd a) (snd b)).
Definition imports_eqb : list (string * Z) -> list (string * Z) -> bool :=
  list_eqb (fun a b => String.eqb (fst a) (fst b) && Z.eqb (snd a) (snd b)).
Definition fdef_eqb (a b : fdef) : bool :=
  forallb (fun e => Zopt_eqb (dget String.eqb (fst e) (fd_imports a)) (dget String.eqb (fst e) (fd_imports b)))
          (fd_imports a ++ fd_imports b) &&
  list_eqb String.eqb (fd_ins a) (fd_ins b) && list_eqb node_eqb (fd_body a) (fd_body b) &&
  list_eqb String.eqb (fd_outs a) (fd_outs b).

Definition map_eqb {K V} (keqb : K -> K -> bool) (veqb : option V -> option V -> bool) (a b : list (K * V)) : bool :=
  forallb (fun e => veqb (dget keqb (fst e) a) (dget keqb (fst e) b)) (a ++ b).

Definition metas_eqb (a b : list (vname * meta)) : bool :=
  forallb (fun e => meta_eqb (mget (fst e) a) (mget (fst e) b)) (a ++ b).

(* which component differs: 0 none, 1 imports, 2 initializers, 3 functions, 4 node metadata, 5 value metadata.
   tops: the serialized graph objects (model graph, functions); the opset_imports dictionaries of If/Loop bodies are part
   of the model but are written nowhere, so they are not compared *)
Definition only_tops {V} (tops : list nat) (i : list (gkey * V)) : list (gkey * V) :=
  filter (fun e => existsb (Nat.eqb (fst (fst e))) tops) i.

Definition state_diff (tops : list nat) (a b : mstate) : nat :=
  if negb (map_eqb gkey_eqb Zopt_eqb (only_tops tops (s_imports a)) (only_tops tops (s_imports b))) then 1
  else if negb (map_eqb gkey_eqb (opt_eqb String.eqb) (s_inits a) (s_inits b) &&
                forallb (fun e => list_eqb String.eqb (names_of (fst (fst e)) (s_inits a)) (names_of (fst (fst e)) (s_inits b)))
                        (s_inits a ++ s_inits b)) then 2
  else if negb (map_eqb fkey_eqb (opt_eqb fdef_eqb) (s_funcs a) (s_funcs b)) then 3
  else if negb (metas_eqb (s_nmeta a) (s_nmeta b)) then 4
  else if negb (metas_eqb (s_vmeta a) (s_vmeta b)) then 5
  else 0.

(* (0, _, 0): replay reproduces graph and state.  (c, i, _) with c > 0: event i fails with code c (see run_events);
   (0, _, k) with k > 0: state component k differs; k = 9: the graph differs *)
Definition check_state (fx : flags) (tops : list nat) (evs : list event) (g : graph) (s : mstate) (gf : graph) (sf : mstate)
  : nat * nat * nat :=
  match run_events fx 0 evs g s with
  | (0, i, Some (g', s')) => if graph_eqb g' gf then (0, i, state_diff tops s' sf) else (0, i, 9)
  | (c, i, _) => (c, i, 0)
  end.
