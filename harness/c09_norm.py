"""C09: normal form of a shape-reading unit before its comparisons are written down (harness/c09_users.py).

The comparison table (Gen/ShapeUsers.v `comparisons` against coq/Shape/Comparisons.v `expected`) is a table of TEXTS.  A
behaviour-preserving rewrite of the source must not change those texts; a rewrite that the steps below do not recognise
changes them and is reported (fail-closed: nothing here ever drops or invents a comparison).  Steps, applied to every
function of a unit (a module-level function, or each method of a module-level class), with the reason each is sound:

  1 fresh tree      ast.parse(ast.unparse(f)): comments, blank lines, line numbers, parentheses and string quoting are gone
                    (they are not part of the ast).
  2 annotations     docstrings, parameter / return annotations and the annotation of `x: T = E` removed: none of them is
                    evaluated when the function runs (`from __future__ import annotations` or not, a local annotation is
                    never evaluated; parameter annotations are evaluated at definition time, never at call time).
  3 temporaries     `v = E; S`  ==  `S[v := E]`  when v is bound exactly once in the function, read exactly once, the read
                    is in the first expression S evaluates (value of a return / expression statement / assignment to plain
                    names / test of an `if`, there only the part evaluated unconditionally first: first operand of and / or)
                    and nothing but loads of names, attributes and constants is evaluated before it (c01_pynorm._eval_order:
                    the rule and its argument are those of c01_pynorm.inline_single_use, extended to `if` tests).
                    Before that, `v = E` with E a name / attribute chain / constant is moved down over statements that are
                    inert for it: `pass`, `del n`, `w = <name / attribute chain / constant>` with n, w other than v and
                    the names of E, and not reading v.  Such statements evaluate only loads (same assumption as
                    c01_pynorm: a name / attribute / constant load does not change what another load returns), so the two
                    statements commute.  (`t = x.shape; u = y.shape; t[0] == u[0]`  ==  `x.shape[0] == y.shape[0]`.)
  4 names           parameters and locals renamed by first binding position: parameters p0, p1, ..; locals v0, v1, ..
                    (nested functions / lambdas: p<i>_<depth>, v<i>_<depth>); `self`, attribute names, keyword names of calls,
                    globals, imported helpers, names of nested functions and string constants stay.  Consistent renaming of
                    bound names without capture (c01_pynorm._rename_in; refused when the source already uses such a name).
                    Not followed: a caller that passes a parameter BY KEYWORD (the rewriter binds the parameters of check /
                    rewrite methods by pattern-variable name): a renamed parameter there stops the rule from matching,
                    which the differential streams of C09 see.
  5 comparisons     when a comparison is written down (c09_users.comparisons_in; the control-flow context of a comparison
                    was never recorded, so guard-clause and nested-if forms already give the same list in source order):
                    `not a == b` is `a != b` (also is / is not, in / not in; `not` distributes over and / or: De Morgan,
                    equal as truth values), the operands of == / != / is / is not are sorted (both orders ask the same
                    question of the same two values; the reflected method is tried by Python itself), and
                    isinstance(x, (A, B)) == isinstance(x, A) or isinstance(x, B) == isinstance(x, (B, A)): recorded once
                    as `isinstance: x ; A | B` with the types sorted.
  0 helpers         (before step 3) a call `h(a1, .., an)` of a module-level function h of the same file that is not itself a unit of
                    the table (it reads no shape attribute: its comparisons would otherwise be in no list), defined once,
                    undecorated, whose body is a single `return E`, with n plain positional parameters, is replaced by
                    E[params := args] when every argument is a name / attribute chain / constant (loads: may be duplicated or
                    dropped), E has no lambda and binds no parameter, the names E binds (comprehension variables) do not occur
                    in the arguments, and h / the global names E reads are not bound in the caller (no capture).  This is the
                    call itself unfolded: extracting an expression into such a helper, or inlining it back, changes nothing.
If a step cannot be applied (NotNormalisable) the function is left as it is for that step: its texts then differ from the
table and the tie reports it.
"""
from __future__ import annotations

import ast
import copy
import re

from harness import c01_pynorm as pn

_CANON = re.compile(r"[pv]\d+(_\d+)?")


# ----------------------------------------------------------------------------- step 2
def _strip(fn):
    for n in ast.walk(fn):
        if isinstance(n, (ast.FunctionDef, ast.AsyncFunctionDef, ast.ClassDef)):
            n.body = pn.strip_doc(n.body) or [ast.Pass()]
        if isinstance(n, ast.arg):
            n.annotation = None
        elif isinstance(n, (ast.FunctionDef, ast.AsyncFunctionDef)):
            n.returns = None
    return pn._DropLocalAnnotations().visit(fn)


# ----------------------------------------------------------------------------- step 0
def expression_helpers(tree, is_unit):
    """{name: (params, E)} of the module-level single-`return E` functions of a file that are not units."""
    count, out = {}, {}
    for st in tree.body:
        for n in ([st.name] if isinstance(st, (ast.FunctionDef, ast.AsyncFunctionDef, ast.ClassDef)) else
                  [t.id for t in ast.walk(st) if isinstance(t, ast.Name) and isinstance(t.ctx, (ast.Store, ast.Del))]):
            count[n] = count.get(n, 0) + 1
    for st in tree.body:
        if not isinstance(st, ast.FunctionDef) or st.decorator_list or count.get(st.name) != 1 or is_unit(st):
            continue
        a = st.args
        if a.vararg or a.kwarg or a.kwonlyargs or a.defaults or a.posonlyargs:
            continue
        body = pn.strip_doc(st.body)
        if len(body) != 1 or not isinstance(body[0], ast.Return) or body[0].value is None:
            continue
        e = body[0].value
        params = [x.arg for x in a.args]
        bound = {n.id for n in ast.walk(e) if isinstance(n, ast.Name) and not isinstance(n.ctx, ast.Load)}
        if any(isinstance(n, (ast.Lambda, ast.Await, ast.Yield, ast.YieldFrom)) for n in ast.walk(e)) or bound & set(params):
            continue
        out[st.name] = (params, e, bound)
    return out


class _Unfold(ast.NodeTransformer):
    def __init__(self, helpers, caller_bound):
        self.helpers, self.caller_bound, self.n = helpers, caller_bound, 0

    def visit_Call(self, node):
        self.generic_visit(node)
        if not (isinstance(node.func, ast.Name) and node.func.id in self.helpers) or node.func.id in self.caller_bound:
            return node
        params, e, bound = self.helpers[node.func.id]
        if node.keywords or len(node.args) != len(params) or not all(_leaf_chain(x) for x in node.args):
            return node
        argnames = set().union(*[_names(x) for x in node.args]) if node.args else set()
        free = {n.id for n in ast.walk(e) if isinstance(n, ast.Name)} - set(params) - bound
        if bound & argnames or free & self.caller_bound:
            return node
        m = dict(zip(params, node.args))

        class S(ast.NodeTransformer):
            def visit_Name(s, n):
                return copy.deepcopy(m[n.id]) if n.id in m and isinstance(n.ctx, ast.Load) else n
        self.n += 1
        return S().visit(copy.deepcopy(e))


def unfold_helpers(fn, helpers):
    if not helpers:
        return fn
    try:
        caller_bound = set(pn._local_bindings(fn))
    except pn.NotNormalisable:
        return fn
    for n in ast.walk(fn):      # names bound in nested scopes count as bound in the caller (conservative)
        if n is not fn and isinstance(n, (ast.FunctionDef, ast.AsyncFunctionDef, ast.Lambda)):
            try:
                caller_bound |= set(pn._local_bindings(n))
            except pn.NotNormalisable:
                return fn
    for _ in range(4):          # helpers calling helpers
        u = _Unfold(helpers, caller_bound)
        fn = ast.fix_missing_locations(u.visit(fn))
        if not u.n:
            break
    return fn


# ----------------------------------------------------------------------------- step 3
def _leaf_chain(e):
    if isinstance(e, ast.Constant):
        return True
    while isinstance(e, ast.Attribute):
        e = e.value
    return isinstance(e, ast.Name) and isinstance(e.ctx, ast.Load)


def _names(e):
    return {n.id for n in ast.walk(e) if isinstance(n, ast.Name)}


def _inert_for(st, v, enames):
    """st evaluates only loads, does not read v and binds neither v nor a name E reads."""
    if isinstance(st, ast.Pass):
        return True
    if isinstance(st, ast.Delete):
        return all(isinstance(t, ast.Name) and t.id != v and t.id not in enames for t in st.targets)
    if isinstance(st, ast.Assign) and len(st.targets) == 1 and isinstance(st.targets[0], ast.Name):
        w = st.targets[0].id
        return w != v and w not in enames and _leaf_chain(st.value) and v not in _names(st.value)
    return False


def _head(st):
    """The expression a statement evaluates first, reduced to the part evaluated unconditionally."""
    e = pn._stmt_expr(st)
    if e is None and isinstance(st, ast.If):
        e = st.test
    while isinstance(e, (ast.BoolOp, ast.IfExp)):
        e = e.values[0] if isinstance(e, ast.BoolOp) else e.test
    return e


def _first_read(st, v):
    e = _head(st)
    if e is None:
        return False
    order = pn._eval_order(e)
    if order is None:
        return False
    for node, kind in order:
        if isinstance(node, ast.Name) and node.id == v:
            return True
        if kind != "leaf":
            return False
    return False


class _SubstHead(ast.NodeTransformer):
    def __init__(self, name, expr):
        self.name, self.expr, self.done = name, expr, 0

    def visit_Name(self, node):
        if node.id == self.name and isinstance(node.ctx, ast.Load):
            self.done += 1
            return copy.deepcopy(self.expr)
        return node


def inline_temporaries(fn):
    """Step 3 (fn is modified in place and returned)."""
    changed = True
    while changed:
        changed = False
        stores, loads = {}, {}
        for n in ast.walk(fn):
            if isinstance(n, ast.Name):
                d = loads if isinstance(n.ctx, ast.Load) else stores
                d[n.id] = d.get(n.id, 0) + 1
            elif isinstance(n, ast.arg):
                stores[n.arg] = stores.get(n.arg, 0) + 2
            elif isinstance(n, ast.ExceptHandler) and n.name:
                stores[n.name] = stores.get(n.name, 0) + 2
            elif isinstance(n, (ast.Global, ast.Nonlocal)):
                return fn

        def cand(st):
            return (isinstance(st, ast.Assign) and len(st.targets) == 1 and isinstance(st.targets[0], ast.Name)
                    and stores.get(st.targets[0].id) == 1 and loads.get(st.targets[0].id) == 1)

        def block(stmts):
            nonlocal changed
            # move candidates with a load-only right-hand side down over inert statements (bottom-up, once)
            for i in range(len(stmts) - 2, -1, -1):
                st = stmts[i]
                if cand(st) and _leaf_chain(st.value):
                    v, en = st.targets[0].id, _names(st.value)
                    j = i
                    while j + 1 < len(stmts) and _inert_for(stmts[j + 1], v, en):
                        stmts[j], stmts[j + 1] = stmts[j + 1], stmts[j]
                        j += 1
            for i in range(len(stmts) - 1):
                st, nx = stmts[i], stmts[i + 1]
                if cand(st) and _first_read(nx, st.targets[0].id):
                    sub = _SubstHead(st.targets[0].id, st.value)
                    stmts[i + 1] = ast.fix_missing_locations(sub.visit(nx))
                    assert sub.done == 1
                    del stmts[i]
                    changed = True
                    return
            for st in stmts:
                for fld in ("body", "orelse", "finalbody"):
                    sub = getattr(st, fld, None)
                    if isinstance(sub, list) and sub and isinstance(sub[0], ast.stmt):
                        block(sub)
                        if changed:
                            return
                for h in getattr(st, "handlers", []) or []:
                    block(h.body)
                    if changed:
                        return
        block(fn.body)
    return fn


# ----------------------------------------------------------------------------- step 4
def alpha(fn, depth=0):
    """fn (in place): parameters p<i>, locals v<i> by first binding position (c01_pynorm.alpha with readable names)."""
    names = pn._local_bindings(fn)
    params = [p.arg for p in pn._params(fn)]
    nested = {n.name for n in ast.walk(fn) if isinstance(n, (ast.FunctionDef, ast.AsyncFunctionDef, ast.ClassDef)) and n is not fn}
    sfx = "" if depth == 0 else f"_{depth}"
    mapping, ip, iv = {}, 0, 0
    for n in names:
        if n in nested or n == "self":
            continue
        if n in params:
            mapping[n] = f"p{ip}{sfx}"
            ip += 1
        else:
            mapping[n] = f"v{iv}{sfx}"
            iv += 1
    if depth == 0:
        # a canonical-looking name in the source is harmless only when it is itself one of the names renamed here
        # (simultaneous renaming below) and no nested scope binds it (no capture)
        inner_bound = set()
        for n in ast.walk(fn):
            if n is not fn and isinstance(n, (ast.FunctionDef, ast.AsyncFunctionDef, ast.Lambda)):
                inner_bound |= set(pn._local_bindings(n))
        for n in pn._all_identifiers(fn):
            if _CANON.fullmatch(n) and (n not in mapping or n in inner_bound):
                raise pn.NotNormalisable(f"source uses the canonical name {n}")
    tmp = {old: f"__a{i}__" for i, old in enumerate(mapping)}
    if any(t in pn._all_identifiers(fn) for t in tmp.values()):
        raise pn.NotNormalisable("source uses an intermediate name")
    pn._rename_in(fn, tmp, True)
    pn._rename_in(fn, {tmp[old]: new for old, new in mapping.items()}, True)

    def inner(n):
        for c in ast.iter_child_nodes(n):
            if isinstance(c, (ast.FunctionDef, ast.AsyncFunctionDef, ast.Lambda)):
                alpha(c, depth + 1)
            elif not isinstance(c, ast.ClassDef):
                inner(c)
    for st in (fn.body if isinstance(fn.body, list) else [fn.body]):
        if isinstance(st, (ast.FunctionDef, ast.AsyncFunctionDef, ast.Lambda)):
            alpha(st, depth + 1)
        else:
            inner(st)
    return fn


# ----------------------------------------------------------------------------- all steps
def normal_function(fn, helpers=None):
    fn = ast.parse(ast.unparse(fn)).body[0]
    fn = _strip(fn)
    fn = unfold_helpers(fn, helpers)
    try:
        fn = inline_temporaries(fn)
    except pn.NotNormalisable:
        pass
    work = copy.deepcopy(fn)
    try:
        fn = alpha(work)
    except pn.NotNormalisable:
        pass            # names stay: the texts differ from the table and the tie reports the unit
    return ast.fix_missing_locations(fn)


def normal_unit(st, helpers=None):
    """Module-level function or class -> the same unit in normal form, freshly parsed (positions = source order)."""
    if isinstance(st, (ast.FunctionDef, ast.AsyncFunctionDef)):
        out = normal_function(st, helpers)
    else:
        out = ast.parse(ast.unparse(st)).body[0]
        out.body = [normal_function(m, helpers) if isinstance(m, (ast.FunctionDef, ast.AsyncFunctionDef)) else m for m in out.body]
        out = _strip(out)
    return ast.parse(ast.unparse(ast.fix_missing_locations(out))).body[0]
