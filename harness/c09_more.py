"""C09, second group of families: completeness obligation (who reads shapes), Size, _merge_shapes, Concat zero-size
operands, redundant ScatterND, SqueezeReshape / collapse_slice_rule / broadcast_to_matmul guard / SplitToSequence.
Decisions of the real code are compared with coq/Shape/Extra.v inside Coq; the property is observed on onnxruntime
(optimisations disabled) and onnx.reference at every binding of the symbols / unknown dims to {0,1,2,3,7}."""
from __future__ import annotations

import itertools
import re

import numpy as np

from harness import common
from harness import c09_util as U
from harness.common import cbool, clist, copt, cz

OPSET = 18


def _vi(name, T, shape):
    from onnx import helper
    return helper.make_tensor_value_info(name, T, shape)


def _model(nodes, inputs, outs, inits=(), value_info=(), opset=OPSET):
    import onnx
    from onnx import helper
    g = helper.make_graph(nodes, "g", inputs, outs, initializer=list(inits), value_info=list(value_info))
    m = helper.make_model(g, opset_imports=[helper.make_opsetid("", opset)], ir_version=9)
    onnx.checker.check_model(m)
    return m


def _c(name, vals, shape=None):
    from onnx import numpy_helper
    a = np.array(vals, dtype=np.int64)
    if shape is not None:
        a = a.reshape(shape)
    return numpy_helper.from_array(a, name)


def _oshape(s):
    return copt(s, U.cshape)


def _eval_bad(ctx, requires, body, stream):
    ok, vals, raw = ctx.coq_eval(requires, body)
    if not ok or not vals:
        ctx.tie_broken("correspondence", f"{stream}:model-evaluation", raw[-800:])
        return None
    return vals[0]


# ============================================================================= completeness obligation
def fam_coverage(ctx):
    users = getattr(ctx, "c09_users", None)
    ctx.obligation("translator: registered partial evaluators of _constant_folding.py and rule classes / RewriteRule objects / shape helpers "
                   "of the anchored rule files parsed (Python ast, fail-closed) into Gen/ShapeUsers.v", users is not None)
    ok, vals, raw = ctx.coq_eval(["OV.Gen.ShapeUsers", "OV.Shape.Coverage"],
                                 "Eval vm_compute in (uncovered evaluator_table evaluators ++ uncovered rule_table rule_units)%list.\n"
                                 "Eval vm_compute in (cited evaluator_table ++ cited rule_table)%list.\n"
                                 "Eval vm_compute in (n_modelled evaluator_table, n_differential evaluator_table, n_modelled rule_table, n_differential rule_table).")
    if not ok or len(vals) < 3:
        ctx.tie_broken("correspondence", "coverage:model-evaluation", raw[-800:])
        ctx.obligation("completeness: every shape-reading evaluator / rule is modelled or listed as differential-only", False)
        return
    unc = re.findall(r'"([^"]*)"', vals[0])
    cited = sorted(set(re.findall(r'"([^"]*)"', vals[1])))
    for u in unc:
        ctx.tie_broken("translator", f"ShapeUsers:{u}",
                       f"{u}: a partial evaluator / rewrite rule / shape helper of the anchored files is new, renamed, removed, or its set of "
                       "shape-reading features changed: coq/Shape/Coverage.v does not map it to a model + theorem (or to 'differential only')")
    ctx.obligation("completeness: every regenerated evaluator / rule unit has a Coverage.v entry with the same shape-reading features "
                   "(theorems for every valuation, or differential-only with a reason)", not unc, ", ".join(unc[:8]))
    # (when Props/C09*.v did not build, check_props has reported it and recorded no theorem: nothing to look names up in)
    missing = [t for t in cited if t not in ctx.theorems] if ctx.theorems else []
    for t in missing:
        ctx.tie_broken("proof", f"Coverage:{t}", f"Coverage.v cites {t}, which is not a theorem of Props/C09*.v")
    ctx.obligation(f"completeness: the {len(cited)} theorems cited by Coverage.v are theorems of Props/C09*.v accepted by coqc", bool(ctx.theorems) and not missing,
                   ", ".join(missing[:8]))
    nums = [int(x) for x in re.findall(r"\d+", vals[2])]
    if users is not None:
        ev, units = users
        ctx.cover(shape_users={"evaluators": len(ev), "evaluators_reading_shapes": sum(1 for e in ev if e[4]),
                               "rule_units": len(units), "rule_units_reading_shapes": sum(1 for u in units if u[3]),
                               "modelled/differential (evaluators, rules)": nums,
                               "evaluator_ops": [e[0] for e in ev]})
        for e in ev:
            ctx.case(("shape-user", "evaluator", e[0], tuple(e[4])))
        for u in units:
            ctx.case(("shape-user", "rule", u[0], u[1], tuple(u[3])))


# ============================================================================= Size
def fam_size(ctx):
    from onnx import TensorProto, helper

    from onnxscript import optimizer
    rng = ctx.rng
    T = TensorProto.INT64
    n = 40 if ctx.tier == "quick" else 300
    shapes = [[2, 0, 3], ["N", 3], [], [None], [1, 1], [0], ["N", "N"]]
    for _ in range(n):
        shapes.append([rng.choice([0, 1, 2, 3, 3, "N", "M", None]) if rng.random() < 0.5 else rng.choice([0, 1, 2, 3])
                       for _ in range(rng.randint(0, 3))])
    lits, meta = [], []
    stats = {"bindings": 0, "executed": 0, "folded": 0}
    for sh in shapes:
        host = _model([helper.make_node("Size", ["x"], ["s"]), helper.make_node("Mul", ["s", "two"], ["out"])],
                      [_vi("x", T, sh)], [_vi("out", T, [])], [_c("two", 2, ())])
        new = optimizer.optimize(host)
        consts = {i.name: np.asarray(__import__("onnx").numpy_helper.to_array(i)) for i in new.graph.initializer}
        ops = [nd.op_type for nd in new.graph.node]
        obs = None
        if "Size" not in ops:
            # folded: the whole output or the Mul operand is a constant
            if "out" in consts:
                obs = int(consts["out"]) // 2
            else:
                for nd in new.graph.node:
                    if nd.op_type == "Mul":
                        for i in nd.input:
                            if i in consts and i != "two":
                                obs = int(consts[i])
                    if nd.op_type == "Constant" and obs is None:
                        for a in nd.attribute:
                            if a.name == "value_int":
                                obs = int(a.i)
            if obs is None:
                ctx.tie_broken("correspondence", "size", f"Size of {sh} disappeared but no constant was found: {ops}")
                continue
        stats["folded"] += obs is not None
        lits.append(f"({_oshape(sh)}, {copt(obs, cz)})")
        meta.append((sh, obs))
        ctx.case(("size", len(sh), obs is not None, 0 in sh, any(isinstance(d, str) for d in sh), None in sh))
        fr = U.Free()
        xs = fr.inst_shape("x", sh)
        r_old, r_new = U.Runner(host), U.Runner(new)
        for b in U.bindings(rng, fr.vars, 25):
            cx = U.concretise(xs, b)
            feeds = {"x": U.int_data(cx, 1)}
            stats["bindings"] += 1
            a, a2 = r_old.run_ort(feeds), r_old.run_ref(feeds)
            if a[0] != "ok" or a2[0] != "ok":
                continue
            stats["executed"] += 1
            bb, b2 = r_new.run_ort(feeds), r_new.run_ref(feeds)
            if not (bb[0] == "ok" and b2[0] == "ok" and U.same_outputs(a[1], bb[1]) and U.same_outputs(a2[1], b2[1])):
                ctx.violation("C09:size:folded" if obs is not None else "C09:size:kept",
                              f"Size(x:{sh}) * 2 differs after optimize() at {b}", {"family": "size", "shape": sh, "binding": b})
                break
    val = _eval_bad(ctx, ["OV.Shape.SymDim", "OV.Shape.Extra"],
                    f"Definition cases : list size_case := {clist(lits)}.\nEval vm_compute in (disagreeing size_agrees 0 cases).", "size")
    bad = common.parse_nat_list(val) if val is not None else None
    for k in bad or []:
        ctx.tie_broken("correspondence", "size", f"Size of x:{meta[k][0]}: optimize() produced {meta[k][1]}, Coq size_decision differs")
    ctx.obligation("correspondence size: Size folded to a constant by the real optimize() = Coq size_decision (value and refusal) on every generated shape", bad == [])
    ctx.cover(size_instances=len(lits), size_oracle=stats)


# ============================================================================= _merge_shapes
def fam_merge(ctx):
    import onnx_ir as ir

    from onnxscript.optimizer import _constant_folding as cf
    rng = ctx.rng
    n = 300 if ctx.tier == "quick" else 3000
    pool = [0, 1, 2, 3, "N", "M", None, None]

    def mk(s):
        return None if s is None else ir.Shape([d if isinstance(d, int) else ir.SymbolicDim(d) for d in s])

    def back(sh):
        if sh is None:
            return None
        return [d if isinstance(d, int) else d.value for d in sh]

    lits, meta = [], []
    pairs = [(None, None), (None, [1, "N"]), (["N", None], None), ([None], [None]), (["N"], ["M"]), ([2], ["N"]), (["N"], [2]), ([None], ["N"]),
             (["N"], [None]), ([1, 2], [1]), ([2], [3])]
    for _ in range(n):
        r = rng.randint(0, 3)
        a = [rng.choice(pool) for _ in range(r)]
        u = rng.random()
        if u < 0.75:
            b = [rng.choice(pool) if rng.random() < 0.5 else d for d in a]
        elif u < 0.85:
            b = None
        else:
            b = [rng.choice(pool) for _ in range(rng.randint(0, 3))]
        if rng.random() < 0.07:
            a = None
        pairs.append((a, b))
    for a, b in pairs:
        try:
            obs = back(cf._merge_shapes(mk(a), mk(b)))
            raised = False
        except ValueError:
            obs, raised = a, True         # both callers swallow the error: the preferred shape stays
        except Exception as e:  # noqa: BLE001
            ctx.tie_broken("correspondence", "merge-shapes", f"_merge_shapes({a}, {b}) raised {e!r}")
            continue
        lits.append(f"({_oshape(a)}, {_oshape(b)}, {_oshape(obs)})")
        meta.append((a, b, obs))
        ctx.case(("merge-shapes", None if a is None else len(a), None if b is None else len(b), raised,
                  a is not None and None in a, b is not None and None in b))
    val = _eval_bad(ctx, ["OV.Shape.SymDim", "OV.Shape.Extra"],
                    f"Definition cases : list merge_case := {clist(lits)}.\nEval vm_compute in (disagreeing merge_agrees 0 cases).", "merge-shapes")
    bad = common.parse_nat_list(val) if val is not None else None
    for k in bad or []:
        ctx.tie_broken("correspondence", "merge-shapes", f"_merge_shapes{meta[k][:2]} = {meta[k][2]}: Coq merge_shapes differs")
    ctx.obligation("correspondence merge-shapes: real _merge_shapes (ValueError = preferred shape kept) = Coq merge_shapes on every generated pair", bad == [])
    ctx.cover(merge_shapes_pairs=len(lits))


# ============================================================================= Concat with zero-size operands
def fam_concat_zero(ctx):
    from onnx import TensorProto, helper

    from onnxscript import optimizer
    rng = ctx.rng
    T = TensorProto.INT64
    n = 70 if ctx.tier == "quick" else 500
    cases = [
        {"axis": 1, "ops": [["N", 0], ["N", 2], ["N", 0]]}, {"axis": 1, "ops": [["N", 0], ["N", 0]]}, {"axis": 0, "ops": [[0, 3], ["N", 3]]},
        {"axis": -1, "ops": [["N", "M"], ["N", 0]]}, {"axis": 1, "ops": [["N", "M"], ["N", 2]]}, {"axis": 0, "ops": [["N"]]},
        {"axis": 0, "ops": [[None, 2], [0, 2]]}, {"axis": 1, "ops": [["N", 0], ["M", 2]]},
    ]
    for _ in range(n):
        rank = rng.randint(1, 3)
        axis = rng.randrange(-rank, rank)
        ax = axis % rank
        base = [rng.choice(["N", "N", "M", 2, 3, None, 0]) for _ in range(rank)]
        ops = []
        for _k in range(rng.randint(1, 4)):
            s = list(base)
            s[ax] = rng.choice([0, 0, 0, 1, 2, "K", "N", None])
            if rng.random() < 0.1:
                j = rng.randrange(rank)
                if j != ax:
                    s[j] = rng.choice(["M", 2, None])      # the other dims of an operand need not be spelled alike
            ops.append(s)
        cases.append({"axis": axis, "ops": ops})
    lits, meta = [], []
    accept_more = None      # first (case, binding) that onnx.reference rejects for the original and accepts after an operand was dropped
    stats = {"bindings": 0, "executed": 0, "rejected_by_original": 0, "changed": 0, "optimized_accepts_what_reference_rejects": 0}
    for case in cases:
        ops, axis = case["ops"], case["axis"]
        names = [f"x{i}" for i in range(len(ops))]
        rank = len(ops[0])
        host = _model([helper.make_node("Concat", names, ["out"], axis=axis)], [_vi(nm, T, s) for nm, s in zip(names, ops)],
                      [_vi("out", T, [None] * rank)])
        try:
            new = optimizer.optimize(host)
        except Exception as e:  # noqa: BLE001
            ctx.violation("C09:concat-zero-operand:optimize-raises", f"optimize() raised {e!r} on Concat{ops} axis={axis}", {"family": "concat-zero", "case": case})
            continue
        prod = [nd for nd in new.graph.node if "out" in nd.output]
        if not prod:
            ctx.tie_broken("correspondence", "concat-zero", f"{case}: no producer of the output after optimize()")
            continue
        nd = prod[0]
        if nd.op_type == "Concat" and list(nd.input) == names and len(names) > 1:
            obs = None
        elif nd.op_type in ("Concat", "Identity") and all(i in names for i in nd.input):
            obs = [names.index(i) for i in nd.input]
        else:
            ctx.tie_broken("correspondence", "concat-zero", f"{case}: unexpected producer {nd.op_type}{list(nd.input)}")
            continue
        stats["changed"] += obs is not None
        lits.append(f"({cz(axis)}, {clist([_oshape(s) for s in ops])}, {copt(obs, lambda l: clist([common.cnat(i) for i in l]))})")
        meta.append((case, obs))
        ctx.case(("concat-zero", rank, len(ops), obs is None, None if obs is None else len(obs), axis < 0,
                  sum(1 for s in ops if s[axis % rank] == 0)))
        fr = U.Free()
        inst = [fr.inst_shape(f"x{i}", s) for i, s in enumerate(ops)]
        r_old, r_new = U.Runner(host), U.Runner(new)
        for b in U.bindings(rng, fr.vars, 25 if ctx.tier == "quick" else 60):
            feeds = {nm: U.int_data(U.concretise(s, b), i + 1) for i, (nm, s) in enumerate(zip(names, inst))}
            stats["bindings"] += 1
            a, a2 = r_old.run_ort(feeds), r_old.run_ref(feeds)
            if a[0] != "ok" or a2[0] != "ok":
                stats["rejected_by_original"] += 1
                if a2[0] != "ok" and obs is not None and r_new.run_ref(feeds)[0] == "ok":
                    stats["optimized_accepts_what_reference_rejects"] += 1
                    if accept_more is None:
                        accept_more = (case, b)
                continue
            stats["executed"] += 1
            bb, b2 = r_new.run_ort(feeds), r_new.run_ref(feeds)
            if not (bb[0] == "ok" and b2[0] == "ok" and U.same_outputs(a[1], bb[1]) and U.same_outputs(a2[1], b2[1])):
                ctx.violation("C09:concat-zero-operand:result-differs", f"Concat{ops} axis={axis}: optimize() changed the result at {b}",
                              {"family": "concat-zero", "case": case, "binding": b})
                break
    # two variants of the evaluator (Shape/Extra.v): shipped (every operand annotated 0 on the axis is dropped; refuted for
    # "accepts exactly") and repaired (dropped only when its other dims are known equal to those of a kept reference operand)
    val = _eval_bad(ctx, ["OV.Shape.SymDim", "OV.Shape.Extra"],
                    f"Definition cases : list concat_case := {clist(lits)}.\nEval vm_compute in (code_report concat_code 0 cases).", "concat-zero")
    corr, variant = False, None
    if val is not None:
        rep = {int(a_): int(b_) for a_, b_ in re.findall(r"\((\d+)(?:%nat)?,\s*(\d+)(?:%nat)?\)", val)}
        g = {1: [], 2: [], 3: []}
        for k, code in sorted(rep.items()):
            g[code].append(k)
        corr = not g[3]
        for k in g[3]:
            ctx.tie_broken("correspondence", "concat-zero", f"{meta[k][0]}: operands kept by optimize() = {meta[k][1]}: neither the shipped nor the repaired Coq concat_decision")
        if g[1] and g[2]:
            corr = False
            ctx.tie_broken("correspondence", "concat-zero", f"implementation follows the shipped evaluator on {meta[g[1][0]][0]} and the repaired one on {meta[g[2][0]][0]}")
        variant = "shipped" if g[1] else ("repaired" if g[2] else None)
        ctx.cover(concat_zero_agree_only_shipped=len(g[1]), concat_zero_agree_only_repaired=len(g[2]))
    # witness of C09_concat_drop_accepts_exactly_refuted on the real code: x:[N,0], y:[M,2], axis=1 at N=2, M=3
    host = _model([helper.make_node("Concat", ["x", "y"], ["out"], axis=1)], [_vi("x", T, ["N", 0]), _vi("y", T, ["M", 2])], [_vi("out", T, [None, None])])
    new = optimizer.optimize(host)
    feeds = {"x": np.zeros((2, 0), dtype=np.int64), "y": np.ones((3, 2), dtype=np.int64)}
    r_old, r_new = U.Runner(host), U.Runner(new)
    o_ref, n_ref, o_ort, n_ort = r_old.run_ref(feeds), r_new.run_ref(feeds), r_old.run_ort(feeds), r_new.run_ort(feeds)
    replayed = o_ref[0] != "ok" and n_ref[0] == "ok"
    dropped = "Concat" not in [nd.op_type for nd in new.graph.node]
    if variant is None:
        variant = "shipped" if dropped else "repaired"
    if (variant == "shipped") != dropped:
        corr = False
        ctx.tie_broken("correspondence", "concat-zero", f"generated instances say the evaluator is the {variant} one, the witness model says dropped={dropped}")
    if variant == "shipped" and not (replayed or accept_more):
        corr = False
        ctx.tie_broken("correspondence", "concat-zero", "implementation drops operands whose other dims are not known to match (refuted by "
                       "C09_concat_drop_accepts_exactly_refuted) but the witness does not replay: "
                       f"original ref={o_ref[0]} ort={o_ort[0]}; optimized ref={n_ref[0]} ort={n_ort[0]}")
    ctx.obligation("correspondence concat-zero: operands of Concat kept by the real optimize() = Coq concat_decision on every generated instance "
                   "(repaired evaluator: C09_concat_drop_fixed_accepts_exactly; or the shipped one, whose refutation C09_concat_drop_accepts_exactly_refuted "
                   "is then replayed on the real code)", corr)
    ctx.cover(concat_zero_evaluator_is=("shipped (refuted for 'accepts exactly')" if variant == "shipped" else "repaired"))
    if replayed and dropped:
        ctx.violation("C09:concat-zero-operand:shape-check-of-dropped-operand-lost",
                      "Concat(x:[N,0], y:[M,2], axis=1): the operand with the static 0 is dropped, and with it the requirement N = M: "
                      "x:[2,0], y:[3,2] is rejected by onnx.reference for the original model and accepted after optimize() "
                      f"(onnxruntime accepts both: original {o_ort[0]}, optimized {n_ort[0]})",
                      {"family": "concat-zero", "case": {"axis": 1, "ops": [["N", 0], ["M", 2]]}, "binding": {"N": 2, "M": 3}})
    elif accept_more:
        case, b = accept_more
        ctx.violation("C09:concat-zero-operand:shape-check-of-dropped-operand-lost",
                      f"Concat{case['ops']} axis={case['axis']}: an operand was dropped and at {b} onnx.reference rejects the original model but accepts the optimized one",
                      {"family": "concat-zero", "case": case, "binding": b})
    ctx.cover(concat_zero_instances=len(lits), concat_zero_oracle=stats)


# ============================================================================= redundant ScatterND
def _scatter_host(ddecl, tdecl, udecl, axis, separate_base=True):
    from onnx import TensorProto, helper
    F = TensorProto.INT64
    inits = [_c("zero", 0, ()), _c("one", 1, ()), _c("m1", [-1]), _c("ax", axis, ())]
    nodes = [helper.make_node("Shape", ["data"], ["shape"], start=0),
             helper.make_node("Gather", ["shape", "ax"], ["dim"], axis=0),
             helper.make_node("Range", ["zero", "dim", "one"], ["rng"]),
             helper.make_node("Unsqueeze", ["rng", "m1"], ["idx"]),
             helper.make_node("ScatterND", ["base", "idx", "upd"], ["y"], reduction="none"),
             helper.make_node("Identity", ["y"], ["out"])]
    inputs = [_vi("data", F, ddecl), _vi("base", F, tdecl), _vi("upd", F, udecl)]
    return _model(nodes, inputs, [_vi("out", F, [None] * len(tdecl))], inits)


def fam_scatter(ctx):
    from onnxscript import rewriter
    from onnxscript.rewriter.rules.common import _redundant_scatter_nd as mod
    rng = ctx.rng
    n = 60 if ctx.tier == "quick" else 400
    corpus = [
        (["N", 4], ["N", 4], 0), ([None, 4], [None, 4], 0), (["N", 4], ["M", 4], 0), ([3, 4], [3, 4], 0), ([3, "N"], ["N", 3], 1),
        ([None, None], [None, 2], 1), (["N", 4], [None, 4], 0), ([2, "N"], ["N", 2], -1), ([0, 2], [0, 2], 0), ([1, 2], [1, 2], 0),
    ]
    insts = list(corpus)
    for _ in range(n):
        r = rng.randint(1, 3)
        d = [rng.choice(["N", "N", "M", 2, 3, None, None, 0, 1]) for _ in range(r)]
        axis = rng.randrange(-r, r)
        t = [d[axis]] + [rng.choice([2, "K", None]) for _ in range(rng.randint(0, 2))]
        u = rng.random()
        if u < 0.3:
            t[0] = rng.choice(["N", "M", 2, 3, None, 0, 1])
        insts.append((d, t, axis))
    lits, meta, fails = [], [], {}
    stats = {"bindings": 0, "executed": 0, "rejected_by_original": 0, "fired": 0}
    for k, (d, t, axis) in enumerate(insts):
        host = _scatter_host(d, t, [None] + list(t[1:]), axis)
        try:
            new = rewriter.rewrite(host, pattern_rewrite_rules=[mod.no_op_dynamic_scatter_nd_rule])
        except Exception as e:  # noqa: BLE001
            ctx.violation("C09:scatter-dynamic:raises", f"ScatterAllDynamic raised {e!r} on data{d} base{t} axis {axis}", {"family": "scatter", "data": d, "base": t, "axis": axis})
            continue
        fired = "ScatterND" not in [nd.op_type for nd in new.graph.node]
        stats["fired"] += fired
        lits.append(f"(Some {U.cshape(d)}, Some {U.cshape(t)}, {cz(axis)}, {cbool(fired)})")
        meta.append((d, t, axis, fired))
        ctx.case(("scatter-dynamic", len(d), len(t), fired, type(d[axis]).__name__, type(t[0]).__name__, d[axis] == t[0]))
        if not fired:
            continue
        fr = U.Free()
        ds, ts = fr.inst_shape("d", d), fr.inst_shape("t", t)
        r_old, r_new = U.Runner(host), U.Runner(new)
        for b in U.bindings(rng, fr.vars, 30 if ctx.tier == "quick" else 80):
            cd, ct = U.concretise(ds, b), U.concretise(ts, b)
            nidx = cd[axis]
            feeds = {"data": U.int_data(cd, 1), "base": U.int_data(ct, 2), "upd": U.int_data((nidx,) + tuple(ct[1:]), 3)}
            stats["bindings"] += 1
            a, a2 = r_old.run_ort(feeds), r_old.run_ref(feeds)
            if a[0] != "ok" or a2[0] != "ok":
                stats["rejected_by_original"] += 1         # e.g. more index rows than rows of base
                continue
            stats["executed"] += 1
            bb, b2 = r_new.run_ort(feeds), r_new.run_ref(feeds)
            if not (bb[0] == "ok" and b2[0] == "ok" and U.same_outputs(a[1], bb[1]) and U.same_outputs(a2[1], b2[1])):
                fails[len(lits) - 1] = b
                cls = "unknown-dims-compared-equal" if (d[axis] is None and t[0] is None) else "other"
                ctx.violation(f"C09:scatter-dynamic:{cls}",
                              f"ScatterND(base{t}, Range(0, Shape(data{d})[{axis}]), updates) -> Identity(updates) fired, results differ at {b}: "
                              f"{U.describe(a[1])[0]['shape']} vs {U.describe(bb[1])[0]['shape'] if bb[0] == 'ok' else bb[1]}",
                              {"family": "scatter", "data": d, "base": t, "axis": axis, "binding": b})
                break
    val = _eval_bad(ctx, ["OV.Shape.SymDim", "OV.Shape.Extra"],
                    f"Definition cases : list scatter_case := {clist(lits)}.\nEval vm_compute in (code_report scatter_code 0 cases).", "scatter-dynamic")
    corr = False
    if val is not None:
        rep = {int(a): int(b) for a, b in re.findall(r"\((\d+)(?:%nat)?,\s*(\d+)(?:%nat)?\)", val)}
        g = {1: [], 2: [], 3: []}
        for k, code in rep.items():
            g[code].append(k)
        corr = not g[3]
        for k in g[3]:
            if k not in fails:
                ctx.tie_broken("correspondence", "scatter-dynamic", f"(data, base, axis, fired) = {meta[k]}: neither same_dim nor == explains the decision")
        if g[1] and g[2]:
            corr = False
            ctx.tie_broken("correspondence", "scatter-dynamic", f"implementation compares with == on {meta[g[1][0]]} and with same_dim on {meta[g[2][0]]}")
        elif g[1] and not any(k in fails for k in g[1]):
            corr = False
            ctx.tie_broken("correspondence", "scatter-dynamic", f"rule fires on unknown dims (e.g. {meta[g[1][0]]}), refuted by C09_scatter_dyn_pyeq_refuted, but no failing binding was found")
        ctx.cover(scatter_dynamic_implementation_is="== on dims (refuted)" if g[1] else "same_dim")
    ctx.obligation("correspondence scatter-dynamic: ScatterAllDynamic fires iff Coq scatter_dyn_check (same_dim of data.shape[axis] and base.shape[0]); "
                   "the == variant is refuted and would have to be replayed", corr)
    # ScatterAllStatic
    slits, smeta = [], []
    from onnx import TensorProto, helper
    F = TensorProto.INT64
    for _ in range(30 if ctx.tier == "quick" else 200):
        r = rng.randint(1, 3)
        d = [rng.choice([0, 1, 2, 3, "N"])] + [rng.choice(["N", "M", 2, None]) for _ in range(r - 1)]
        u = list(d) if rng.random() < 0.7 else [rng.choice([1, 2, 3, "N", None]) if rng.random() < 0.5 else x for x in d]
        n0 = d[0] if isinstance(d[0], int) else 2
        kind = rng.choice(["full", "full", "full", "short", "perm"])
        idx = list(range(n0))
        if kind == "short" and idx:
            idx = idx[:-1]
        elif kind == "perm" and len(idx) > 1:
            idx = idx[::-1]
        try:
            host = _model([helper.make_node("ScatterND", ["data", "i", "upd"], ["y"]), helper.make_node("Identity", ["y"], ["out"])],
                          [_vi("data", F, d), _vi("upd", F, u)], [_vi("out", F, [None] * r)], [_c("i", idx, (len(idx), 1))])
        except Exception:  # noqa: BLE001
            continue
        new = rewriter.rewrite(host, pattern_rewrite_rules=[mod.no_op_static_scatter_nd_rule])
        fired = "ScatterND" not in [nd.op_type for nd in new.graph.node]
        slits.append(f"(Some {U.cshape(d)}, Some {U.cshape(u)}, {U.czs(idx)}, {cbool(fired)})")
        smeta.append((d, u, idx, fired))
        ctx.case(("scatter-static", r, fired, kind, d == u, isinstance(d[0], int)))
        if fired:
            fr = U.Free()
            ds = fr.inst_shape("d", d)
            r_old, r_new = U.Runner(host), U.Runner(new)
            for b in U.bindings(rng, fr.vars, 15):
                cd = U.concretise(ds, b)
                feeds = {"data": U.int_data(cd, 1), "upd": U.int_data(cd, 4)}
                a = r_old.run_ort(feeds)
                if a[0] != "ok":
                    continue
                bb = r_new.run_ort(feeds)
                if not (bb[0] == "ok" and U.same_outputs(a[1], bb[1])):
                    ctx.violation("C09:scatter-static:result-differs", f"ScatterAllStatic fired on data{d} updates{u} indices{idx}; results differ at {b}",
                                  {"family": "scatter-static", "data": d, "upd": u, "idx": idx, "binding": b})
                    break
    val = _eval_bad(ctx, ["OV.Shape.SymDim", "OV.Shape.Extra"],
                    f"Definition cases : list scatter_static_case := {clist(slits)}.\nEval vm_compute in (disagreeing scatter_static_agrees 0 cases).", "scatter-static")
    bad = common.parse_nat_list(val) if val is not None else None
    for k in bad or []:
        ctx.tie_broken("correspondence", "scatter-static", f"(data, updates, indices, fired) = {smeta[k]}: Coq scatter_static_check differs")
    ctx.obligation("correspondence scatter-static: ScatterAllStatic fires iff Coq scatter_static_check on every generated instance", bad == [])
    ctx.cover(scatter_dynamic_instances=len(lits), scatter_static_instances=len(slits), scatter_oracle=stats)
    if stats["fired"] < 5:
        ctx.tie_broken("harness", "scatter:generator-degenerate", f"ScatterAllDynamic fired on {stats['fired']} instances only")


# ============================================================================= small rules: decisions compared in Coq
def fam_small_rules(ctx):
    import onnx_ir as ir
    from onnx import TensorProto, helper

    from onnxscript import optimizer, rewriter
    from onnxscript.rewriter.rules.common import _basic_rules as basic
    from onnxscript.rewriter.rules.common import _broadcast_to_matmul as b2m
    from onnxscript.rewriter.rules.common import _collapse_slices as cs
    rng = ctx.rng
    T = TensorProto.INT64
    # --- SqueezeReshape
    lits, meta = [], []
    for sh in [["N"], [None], [0], [1], [3], ["N", 1], [1, "N"], [], [1, 1], ["N", "M"]]:
        inputs = [_vi("x", T, sh)]
        host = _model([helper.make_node("Squeeze", ["x"], ["q"]), helper.make_node("Reshape", ["q", "cm1"], ["y"]), helper.make_node("Identity", ["y"], ["out"])],
                      inputs, [_vi("out", T, [None])], [_c("cm1", [-1])])
        new = rewriter.rewrite(host, pattern_rewrite_rules=[basic.squeeze_reshape_1d_rule])
        fired = "Reshape" not in [nd.op_type for nd in new.graph.node if "y" in nd.output]
        lits.append(f"({_oshape(sh)}, {cbool(fired)})")
        meta.append((sh, fired))
        ctx.case(("squeeze-reshape", None if sh is None else len(sh), fired))
        if fired:
            fr = U.Free()
            xs = fr.inst_shape("x", sh)
            r_old, r_new = U.Runner(host), U.Runner(new)
            for b in U.bindings(rng, fr.vars, 10):
                feeds = {"x": U.int_data(U.concretise(xs, b), 2)}
                a, bb = r_old.run_ort(feeds), r_new.run_ort(feeds)
                a2, b2 = r_old.run_ref(feeds), r_new.run_ref(feeds)
                if a[0] == "ok" and a2[0] == "ok" and not (bb[0] == "ok" and b2[0] == "ok" and U.same_outputs(a[1], bb[1]) and U.same_outputs(a2[1], b2[1])):
                    ctx.violation("C09:squeeze-reshape:result-differs", f"Reshape(Squeeze(x:{sh}), [-1]) -> Identity differs at {b}", {"family": "squeeze-reshape", "shape": sh, "binding": b})
                    break
    val = _eval_bad(ctx, ["OV.Shape.SymDim", "OV.Shape.Extra"], f"Definition cases : list sqre_case := {clist(lits)}.\nEval vm_compute in (disagreeing sqre_agrees 0 cases).", "squeeze-reshape")
    bad = common.parse_nat_list(val) if val is not None else None
    for k in bad or []:
        ctx.tie_broken("correspondence", "squeeze-reshape", f"(x shape, fired) = {meta[k]}: Coq sqre_check differs")
    ctx.obligation("correspondence squeeze-reshape: SqueezeReshape fires iff the input is annotated 1-D (Coq sqre_check)", bad == [])
    # --- collapse_slice_rule (constant scalar bounds)
    MAXI = 9223372036854775807
    lits, meta = [], []
    for _ in range(40 if ctx.tier == "quick" else 300):
        rank = rng.randint(1, 3)
        sh = [rng.choice(["N", None, 0, 1, 3, 4]) for _ in range(rank)]
        axis = rng.randrange(0, rank)
        start = rng.choice([0, 0, 0, 1])
        stop = rng.choice([MAXI, MAXI, 3, 4, 5, 0, 1, -1])
        step = rng.choice([1, 1, 1, 2])
        host = _model([helper.make_node("Slice", ["x", "st", "en", "ax", "sp"], ["y"]), helper.make_node("Identity", ["y"], ["out"])],
                      [_vi("x", T, sh)], [_vi("out", T, [None] * rank)], [_c("st", [start]), _c("en", [stop]), _c("ax", [axis]), _c("sp", [step])])
        new = rewriter.rewrite(host, pattern_rewrite_rules=[cs.collapse_slice_rule])
        fired = "Slice" not in [nd.op_type for nd in new.graph.node]
        lits.append(f"(Some {U.cdim(sh[axis])}, {cz(start)}, {cz(stop)}, {cz(step)}, {cbool(fired)})")
        meta.append((sh, axis, start, stop, step, fired))
        ctx.case(("collapse-slice1", fired, type(sh[axis]).__name__, stop == MAXI, start, step))
        if fired:
            fr = U.Free()
            xs = fr.inst_shape("x", sh)
            r_old, r_new = U.Runner(host), U.Runner(new)
            for b in U.bindings(rng, fr.vars, 12):
                feeds = {"x": U.int_data(U.concretise(xs, b), 2)}
                a, bb = r_old.run_ort(feeds), r_new.run_ort(feeds)
                if a[0] == "ok" and not (bb[0] == "ok" and U.same_outputs(a[1], bb[1])):
                    ctx.violation("C09:collapse-slice1:result-differs", f"Slice(x:{sh}, {start}:{stop}:{step} on axis {axis}) removed, differs at {b}",
                                  {"family": "collapse-slice1", "shape": sh, "axis": axis, "start": start, "stop": stop, "step": step, "binding": b})
                    break
    val = _eval_bad(ctx, ["OV.Shape.SymDim", "OV.Shape.Extra"], f"Definition cases : list cs1_case := {clist(lits)}.\nEval vm_compute in (disagreeing cs1_agrees 0 cases).", "collapse-slice1")
    bad = common.parse_nat_list(val) if val is not None else None
    for k in bad or []:
        ctx.tie_broken("correspondence", "collapse-slice1", f"(shape, axis, start, stop, step, fired) = {meta[k]}: Coq cs1_check differs")
    ctx.obligation("correspondence collapse-slice1: collapse_slice_rule fires iff Coq cs1_check (start 0, step 1, end INT64_MAX or >= a static dim)", bad == [])
    # --- broadcast_to_matmul: never with a symbolic / unknown dim
    lits, meta = [], []
    fired_n = 0
    F = TensorProto.FLOAT
    for a_sh, b_sh, sa, sc in [([2, 3, 4], [4, 5], [6, 4], [2, 3, 5]), (["N", 3, 4], [4, 5], [-1, 4], [-1, 3, 5]), ([2, 3, 4], [4, "M"], [6, 4], [2, 3, -1]),
                               ([None, 3, 4], [4, 5], [-1, 4], [-1, 3, 5]), ([1, 3, 4], [4, 5], [3, 4], [1, 3, 5]), ([3, 4], [4, 5], [3, 4], [3, 5]),
                               ([2, 3, 4], [None, 5], [6, 4], [2, 3, 5]), ([5, 2, 3, 4], [4, 5], [30, 4], [5, 2, 3, 5])]:
        host = _model([helper.make_node("Reshape", ["a", "sa"], ["ra"]), helper.make_node("MatMul", ["ra", "b"], ["m"]), helper.make_node("Reshape", ["m", "sc"], ["y"]),
                       helper.make_node("Identity", ["y"], ["out"])],
                      [_vi("a", F, a_sh), _vi("b", F, b_sh)], [_vi("out", F, [None] * len(sc))], [_c("sa", sa), _c("sc", sc)])
        new = rewriter.rewrite(host, pattern_rewrite_rules=b2m.rules)
        fired = "Reshape" not in [nd.op_type for nd in new.graph.node]
        fired_n += fired
        lits.append(f"(Some {U.cshape(a_sh)}, Some {U.cshape(b_sh)}, {cbool(fired)})")
        meta.append((a_sh, b_sh, fired))
        ctx.case(("broadcast-to-matmul", fired, any(not isinstance(d, int) for d in a_sh + b_sh)))
    val = _eval_bad(ctx, ["OV.Shape.SymDim", "OV.Shape.Extra"], f"Definition cases : list b2m_case := {clist(lits)}.\nEval vm_compute in (disagreeing b2m_agrees 0 cases).", "broadcast-to-matmul")
    bad = common.parse_nat_list(val) if val is not None else None
    for k in bad or []:
        ctx.tie_broken("correspondence", "broadcast-to-matmul", f"(a, b, fired) = {meta[k]}: the rule fired although an operand has a symbolic / unknown dim (Coq b2m_guard)")
    ctx.obligation("correspondence broadcast-to-matmul: the rule set fires only when both operand shapes are all-int (Coq b2m_guard); "
                   f"{fired_n} static twins fire", bad == [] and fired_n >= 2)
    # --- SplitToSequence with a scalar split: sizes handed to Split
    F64 = TensorProto.INT64
    lits, meta = [], []
    for d, s in itertools.product([0, 1, 4, 5, 6, 7, "N", None], [1, 2, 3]):      # split <= 0 crashes onnx shape inference (SIGFPE): not generated
        host = _model([helper.make_node("SplitToSequence", ["x", "s"], ["seq"], axis=0), helper.make_node("SequenceAt", ["seq", "z"], ["out"])],
                      [_vi("x", F64, [d, 2])], [_vi("out", F64, [None, 2])], [_c("s", s, ()), _c("z", 0, ())])
        try:
            new = optimizer.optimize(host)
        except Exception as e:  # noqa: BLE001
            ctx.violation("C09:split-to-sequence:optimize-raises", f"optimize() raised {e!r} for x:[{d},2] split {s}", {"family": "split", "d": d, "s": s})
            continue
        obs = None
        consts = {i.name: __import__("onnx").numpy_helper.to_array(i) for i in new.graph.initializer}
        for nd in new.graph.node:
            if nd.op_type == "Constant":
                for a in nd.attribute:
                    if a.name == "value_ints":
                        consts[nd.output[0]] = np.array(list(a.ints))
        for nd in new.graph.node:
            if nd.op_type == "Split":
                no = [a.i for a in nd.attribute if a.name == "num_outputs"]
                if no:
                    obs = ("inl", int(no[0]))
                elif len(nd.input) > 1 and nd.input[1] in consts and np.asarray(consts[nd.input[1]]).ndim == 1:
                    obs = ("inr", [int(v) for v in np.asarray(consts[nd.input[1]]).tolist()])
        has_seq = any(nd.op_type == "SplitToSequence" for nd in new.graph.node)
        if (obs is None and not has_seq) or d == 0:
            # everything folded away (d = 0 as read), or the evaluator gives up on an empty axis (repaired variant):
            # compared, variant-aware, with the acceptance oracle in c09_accept.fam_seq_accept
            continue
        c_obs = "None" if obs is None else (f"(Some (inl {cz(obs[1])}))" if obs[0] == "inl" else f"(Some (inr {U.czs(obs[1])}))")
        lits.append(f"({U.cdim(d)}, {cz(s)}, {c_obs})")
        meta.append((d, s, obs))
        ctx.case(("split-scalar", type(d).__name__, s, None if obs is None else obs[0]))
        if isinstance(d, int) and s > 0 and d > 0:
            feeds = {"x": U.int_data((d, 2), 1)}
            a, bb = U.Runner(host).run_ort(feeds), U.Runner(new).run_ort(feeds)
            if a[0] == "ok" and not (bb[0] == "ok" and U.same_outputs(a[1], bb[1])):
                ctx.violation("C09:split-to-sequence:result-differs", f"SplitToSequence(x:[{d},2], {s}) then SequenceAt 0 differs after optimize()", {"family": "split", "d": d, "s": s})
    val = _eval_bad(ctx, ["OV.Shape.SymDim", "OV.Shape.Extra"], f"Definition cases : list split_case := {clist(lits)}.\nEval vm_compute in (disagreeing split_agrees 0 cases).", "split-scalar")
    bad = common.parse_nat_list(val) if val is not None else None
    for k in bad or []:
        ctx.tie_broken("correspondence", "split-scalar", f"(axis dim, split, Split emitted) = {meta[k]}: Coq split_scalar differs")
    ctx.obligation("correspondence split-scalar: the Split emitted for SplitToSequence with a scalar split = Coq split_scalar (symbolic axis refused)", bad == [])


# ============================================================================= _ir_utils.broadcast_keeps_rank
def fam_keeps_rank(ctx):
    import onnx_ir as ir

    from onnxscript.rewriter import _ir_utils as iu
    fn = getattr(iu, "broadcast_keeps_rank", None)
    if fn is None:
        return            # the helper does not exist in this tree: the coverage obligation reports the stale entry
    rng = ctx.rng
    pool = [0, 1, 2, "N", "M", None]

    def mk(s, name):
        if s == "novalue":
            return None
        return ir.Value(name=name, shape=None if s is None else ir.Shape([d if isinstance(d, int) else ir.SymbolicDim(d) for d in s]))

    pairs = [("novalue", [2]), (None, [2]), ([], None), ([3], None), ([1, 3], None), ([1, 3], "novalue"), ([1, 3], [3]), ([1, 3], ["N", 3]), (["N", "M", 2], [1, 2])]
    for _ in range(120 if ctx.tier == "quick" else 1000):
        v = None if rng.random() < 0.08 else [rng.choice(pool) for _ in range(rng.randint(0, 4))]
        r = None if rng.random() < 0.15 else [rng.choice(pool) for _ in range(rng.randint(0, 4))]
        pairs.append((v, r))
    lits, meta = [], []
    for v, r in pairs:
        obs = bool(fn(mk(v, "v"), mk(r, "r")))
        cv = None if v == "novalue" else v
        cr = None if r == "novalue" else r
        lits.append(f"({_oshape(cv)}, {_oshape(cr)}, {cbool(obs)})")
        meta.append((v, r, obs))
        ctx.case(("broadcast-keeps-rank", None if cv is None else len(cv), None if cr is None else len(cr), obs))
    val = _eval_bad(ctx, ["OV.Shape.SymDim", "OV.Shape.Extra"], f"Definition cases : list bkr_case := {clist(lits)}.\nEval vm_compute in (disagreeing bkr_agrees 0 cases).", "broadcast-keeps-rank")
    bad = common.parse_nat_list(val) if val is not None else None
    for k in bad or []:
        ctx.tie_broken("correspondence", "broadcast-keeps-rank", f"(value shape, reference shape, answer) = {meta[k]}: Coq bkr_check differs")
    ctx.obligation("correspondence broadcast-keeps-rank: real _ir_utils.broadcast_keeps_rank = Coq bkr_check (ranks only) on every generated pair", bad == [])


FAMILIES = [fam_coverage, fam_size, fam_merge, fam_concat_zero, fam_scatter, fam_small_rules, fam_keeps_rank]
