(* Theorems about the *generated* analysis (Gen/Analysis.v, translated from onnxscript/_internal/analysis.py
   on every run) with respect to the Python reading of the source (Script/PySem.v). *)
From Coq Require Import List String ZArith Bool.
Require Import OV.Graph.Syntax OV.Graph.WfProofs OV.Script.Syntax OV.Script.Sets OV.Gen.Analysis OV.Gen.ScriptTables
               OV.Script.Translate OV.Script.PySem.
Import ListNotations.
Local Open Scope string_scope.
Local Open Scope list_scope.

Lemma In_sunion : forall x a b, In x (sunion a b) <-> In x a \/ In x b.
Proof.
  intros x a b. unfold sunion. rewrite in_app_iff, filter_In. split.
  - intros [H|[H _]]; auto.
  - intros [H|H]; [left; exact H|]. destruct (mem x a) eqn:E; [left; apply mem_In; exact E | right; split; [exact H | reflexivity]].
Qed.

Section AssignedSound.
  Variable V : Type.
  Variable sem : string -> string -> list (string * attrv) -> list (option V) -> option (list V).
  Variable truth : V -> option bool.
  Variable trip : V -> option nat.
  Variable of_nat : nat -> V.
  Variable while_limit : nat.
  Variable globals : list (string * lit).
  Variable cic : expr -> option bool.

  Notation penv := (penv V).
  Notation outcome := (outcome V).
  Notation eval_expr := (eval_expr V sem globals).
  Notation exec_block := (exec_block V sem truth trip of_nat while_limit globals).

  (* a condition the analysis treats as constant evaluates to that constant (it is a module-level name that the
     function never assigns: AstAnalyzer._compute_constant_if_conditions) *)
  Hypothesis cic_sound : forall c b pe v, cic c = Some b -> eval_expr pe c = Some v -> ptruth V truth v = Some b.

  Definition unchanged_outside (X : sset) (pe pe' : penv) : Prop :=
    forall x, ~ In x X -> plookup V pe' x = plookup V pe x.

  Definition post (X : sset) (pe : penv) (o : outcome) : Prop :=
    match o with
    | ONormal _ pe' | OBreak _ pe' => unchanged_outside X pe pe'
    | OReturn _ _ => True
    end.

  Lemma unchanged_refl : forall X pe, unchanged_outside X pe pe.
  Proof. intros X pe x _. reflexivity. Qed.

  Lemma unchanged_trans : forall X Y pe1 pe2 pe3,
    unchanged_outside X pe1 pe2 -> unchanged_outside Y pe2 pe3 -> unchanged_outside (sunion X Y) pe1 pe3.
  Proof.
    intros X Y pe1 pe2 pe3 H1 H2 x Hx. rewrite H2, H1; [reflexivity | |]; intro Hin; apply Hx; apply In_sunion; auto.
  Qed.

  Lemma unchanged_weaken : forall X Y pe pe', (forall x, In x X -> In x Y) -> unchanged_outside X pe pe' -> unchanged_outside Y pe pe'.
  Proof. intros X Y pe pe' S H x Hx. apply H. intro Hin. apply Hx. apply S. exact Hin. Qed.

  Lemma pbind_outside : forall xs vs pe pe', pbind V xs vs pe = Some pe' -> unchanged_outside xs pe pe'.
  Proof.
    induction xs as [|x t IH]; intros [|v vt] pe pe' H; cbn [pbind] in H; try discriminate.
    - inversion H; subst. apply unchanged_refl.
    - intros y Hy. rewrite (IH vt _ pe' H) by (intro; apply Hy; right; assumption).
      cbn [plookup]. destruct (String.eqb y x) eqn:E; [|reflexivity]. apply String.eqb_eq in E. subst. exfalso. apply Hy. left. reflexivity.
  Qed.

  (* the statement executor and its loops, as standalone functions *)
  Definition for_iter (fu : nat) (i : string) (body : list stmt) : nat -> nat -> penv -> option outcome :=
    fix iter (k : nat) (j : nat) (env : penv) {struct k} : option outcome :=
      match k with
      | O => Some (ONormal V env)
      | S k' =>
        match exec_block fu body ((i, PT V (of_nat j)) :: env) with
        | Some (ONormal _ env') => iter k' (S j) env'
        | Some (OBreak _ env') => Some (ONormal V env')
        | Some (OReturn _ vs) => Some (OReturn V vs)
        | None => None
        end
      end.

  Definition while_iter (fu : nat) (c : string) (body : list stmt) : nat -> penv -> option outcome :=
    fix iter (k : nat) (env : penv) {struct k} : option outcome :=
      match plookup V env c with
      | Some vc =>
        match ptruth V truth vc with
        | Some false => Some (ONormal V env)
        | Some true =>
          match k with
          | O => None
          | S k' =>
            match exec_block fu body env with
            | Some (ONormal _ env') => iter k' env'
            | Some (OBreak _ env') => Some (ONormal V env')
            | Some (OReturn _ vs) => Some (OReturn V vs)
            | None => None
            end
          end
        | None => None
        end
      | None => None
      end.

  Definition exec_stmt1 (fu : nat) (s : stmt) (env : penv) : option outcome :=
    match s with
    | SAssign x e => match eval_expr env e with Some v => Some (ONormal V ((x, v) :: env)) | None => None end
    | STuple xs e => match eval_call_multi V sem globals env e with
                     | Some vs => option_map (ONormal V) (pbind V xs vs env)
                     | None => None
                     end
    | SReturn es =>
      match (fix go (l : list expr) : option (list V) :=
               match l with
               | [] => Some []
               | e :: t => match eval_expr env e, go t with
                           | Some v, Some vs => Some (tensor_of V v :: vs)
                           | _, _ => None
                           end
               end) es with
      | Some vs => Some (OReturn V vs)
      | None => None
      end
    | SBreak => Some (OBreak V env)
    | SIf c t f =>
      match eval_expr env c with
      | Some vc => match ptruth V truth vc with
                   | Some true => exec_block fu t env
                   | Some false => exec_block fu f env
                   | None => None
                   end
      | None => None
      end
    | SFor i bound body =>
      match eval_expr env bound with
      | Some vb => match ptrip V trip vb with
                   | Some n => for_iter fu i body n 0 env
                   | None => None
                   end
      | None => None
      end
    | SWhile c body => while_iter fu c body while_limit env
    end.

  Lemma exec_block_cons : forall fu s rest pe,
    exec_block (S fu) (s :: rest) pe =
    match exec_stmt1 fu s pe with
    | Some (ONormal _ pe') => exec_block (S fu) rest pe'
    | Some o => Some o
    | None => None
    end.
  Proof. intros. reflexivity. Qed.

  (* assigned_vars, arm by arm (these equations are about the generated text) *)
  Lemma assigned_block_cons : forall s rest, assigned_block cic (s :: rest) = sunion (assigned_stmt cic s) (assigned_block cic rest).
  Proof. reflexivity. Qed.
  Lemma assigned_if : forall c t f,
    assigned_stmt cic (SIf c t f) =
    match cic c with
    | None => sunion (assigned_block cic t) (assigned_block cic f)
    | Some true => assigned_block cic t
    | Some false => assigned_block cic f
    end.
  Proof. reflexivity. Qed.
  Lemma assigned_for : forall i b body, assigned_stmt cic (SFor i b body) = sunion (assigned_block cic body) [i].
  Proof. reflexivity. Qed.
  Lemma assigned_while : forall c body, assigned_stmt cic (SWhile c body) = assigned_block cic body.
  Proof. reflexivity. Qed.

  Definition block_ok (fu : nat) : Prop :=
    forall ss pe o, exec_block fu ss pe = Some o -> post (assigned_block cic ss) pe o.

  Lemma for_iter_ok : forall fu i body, block_ok fu -> forall k j pe o,
    for_iter fu i body k j pe = Some o -> post (sunion (assigned_block cic body) [i]) pe o.
  Proof.
    intros fu i body Hb. induction k as [|k IH]; intros j pe o H; cbn [for_iter] in H.
    - inversion H; subst. apply unchanged_refl.
    - destruct (exec_block fu body ((i, PT V (of_nat j)) :: pe)) as [[pe1|pe1|vs]|] eqn:E; try discriminate.
      + pose proof (Hb _ _ _ E) as P1. cbn [post] in P1.
        assert (U1 : unchanged_outside (sunion (assigned_block cic body) [i]) pe pe1).
        { intros x Hx. rewrite P1 by (intro; apply Hx; apply In_sunion; left; assumption).
          cbn [plookup]. destruct (String.eqb x i) eqn:Ei; [|reflexivity].
          apply String.eqb_eq in Ei. subst. exfalso. apply Hx. apply In_sunion. right. left. reflexivity. }
        specialize (IH (S j) pe1 o H). destruct o as [pe2|pe2|vs]; cbn [post] in *; try exact I;
          intros x Hx; rewrite IH, U1 by exact Hx; reflexivity.
      + inversion H; subst. pose proof (Hb _ _ _ E) as P1. cbn [post] in *.
        intros x Hx. rewrite P1 by (intro; apply Hx; apply In_sunion; left; assumption).
        cbn [plookup]. destruct (String.eqb x i) eqn:Ei; [|reflexivity].
        apply String.eqb_eq in Ei. subst. exfalso. apply Hx. apply In_sunion. right. left. reflexivity.
      + inversion H; subst. exact I.
  Qed.

  Lemma while_iter_ok : forall fu c body, block_ok fu -> forall k pe o,
    while_iter fu c body k pe = Some o -> post (assigned_block cic body) pe o.
  Proof.
    intros fu c body Hb. induction k as [|k IH]; intros pe o H; cbn [while_iter] in H;
      destruct (plookup V pe c) as [vc|]; try discriminate; destruct (ptruth V truth vc) as [[|]|]; try discriminate.
    - inversion H; subst. apply unchanged_refl.
    - destruct (exec_block fu body pe) as [[pe1|pe1|vs]|] eqn:E; try discriminate.
      + pose proof (Hb _ _ _ E) as P1. cbn [post] in P1. specialize (IH pe1 o H).
        destruct o as [pe2|pe2|vs]; cbn [post] in *; try exact I; intros x Hx; rewrite IH, P1 by exact Hx; reflexivity.
      + inversion H; subst. exact (Hb _ _ _ E).
      + inversion H; subst. exact I.
    - inversion H; subst. apply unchanged_refl.
  Qed.

  Lemma exec_stmt1_ok : forall fu, block_ok fu -> forall s pe o,
    exec_stmt1 fu s pe = Some o -> post (assigned_stmt cic s) pe o.
  Proof.
    intros fu Hb s pe o H. destruct s as [x e|xs e|c t f|i b body|c body| |es]; cbn [exec_stmt1] in H.
    - destruct (eval_expr pe e) as [v|]; [|discriminate]. inversion H; subst. cbn.
      intros y Hy. cbn [plookup]. destruct (String.eqb y x) eqn:E; [|reflexivity].
      apply String.eqb_eq in E. subst. exfalso. apply Hy. left. reflexivity.
    - destruct (eval_call_multi V sem globals pe e) as [vs|]; [|discriminate].
      destruct (pbind V xs vs pe) as [pe'|] eqn:E; [|discriminate]. inversion H; subst. cbn [post].
      exact (pbind_outside _ _ _ _ E).
    - rewrite assigned_if. destruct (eval_expr pe c) as [vc|] eqn:Ec; [|discriminate].
      destruct (ptruth V truth vc) as [[|]|] eqn:Et; try discriminate.
      + pose proof (Hb _ _ _ H) as P. destruct (cic c) as [[|]|] eqn:Ecc.
        * exact P.
        * rewrite (cic_sound _ _ _ _ Ecc Ec) in Et. discriminate Et.
        * destruct o; cbn [post] in *; try exact I; (eapply unchanged_weaken; [|exact P]); intros x Hx; apply In_sunion; left; exact Hx.
      + pose proof (Hb _ _ _ H) as P. destruct (cic c) as [[|]|] eqn:Ecc.
        * rewrite (cic_sound _ _ _ _ Ecc Ec) in Et. discriminate Et.
        * exact P.
        * destruct o; cbn [post] in *; try exact I; (eapply unchanged_weaken; [|exact P]); intros x Hx; apply In_sunion; right; exact Hx.
    - rewrite assigned_for. destruct (eval_expr pe b) as [vb|]; [|discriminate]. destruct (ptrip V trip vb) as [n|]; [|discriminate].
      eapply for_iter_ok; eassumption.
    - rewrite assigned_while. eapply while_iter_ok; eassumption.
    - inversion H; subst. apply unchanged_refl.
    - destruct ((fix go (l : list expr) : option (list V) :=
                   match l with
                   | [] => Some []
                   | e :: t => match eval_expr pe e, go t with
                               | Some v, Some vs => Some (tensor_of V v :: vs)
                               | _, _ => None
                               end
                   end) es); [|discriminate]. inversion H; subst. exact I.
  Qed.

  (* executing statements changes only variables in assigned_vars (of the generated analysis) *)
  Theorem assigned_vars_sound : forall fuel, block_ok fuel.
  Proof.
    induction fuel as [|fu IH]; intros ss pe o H; [discriminate|].
    revert pe o H. induction ss as [|s rest IHs]; intros pe o H.
    - cbn in H. inversion H; subst. apply unchanged_refl.
    - rewrite exec_block_cons in H. rewrite assigned_block_cons.
      destruct (exec_stmt1 fu s pe) as [[pe1|pe1|vs]|] eqn:E; try discriminate.
      + pose proof (exec_stmt1_ok fu IH _ _ _ E) as P1. cbn [post] in P1. specialize (IHs pe1 o H).
        destruct o as [pe2|pe2|vs]; cbn [post] in *; try exact I; eapply unchanged_trans; eassumption.
      + inversion H; subst. pose proof (exec_stmt1_ok fu IH _ _ _ E) as P1. cbn [post] in *.
        eapply unchanged_weaken; [|exact P1]. intros x Hx. apply In_sunion. left. exact Hx.
      + inversion H; subst. exact I.
  Qed.
End AssignedSound.
