(* C16 property theorems: statements only, each closed by `exact`, Print Assumptions beneath.
   Model: Registry/Binding.v; proofs: Registry/BindingProofs.v; registry data: Gen/TorchRegistry.v
   (regenerated from the checked tree and the installed PyTorch on every run). *)
From Coq Require Import String List Bool.
Require Import OV.Registry.Binding OV.Registry.BindingProofs OV.Gen.TorchRegistry OV.Registry.BindingRegistry.
Require Import OV.Registry.BindingSnapshots OV.Registry.BindingSnapshotsProofs.
Import ListNotations.
Open Scope string_scope.

(* General, for all schemas, signatures and conforming calls: when binds_ok holds, binding the way the
   exporter does succeeds, tensors reach input parameters, non-tensors reach parameters that accept
   them, no required parameter is unbound, only droppable arguments are dropped and every supplied
   argument is accounted for (record binding_good). *)
Theorem C16_binds_ok_sound : forall s f, binds_ok s f = true ->
  forall c, conforms s c -> exists b, bind f c = OK b /\ binding_good s f c b.
Proof. exact binds_ok_sound. Qed.
Print Assumptions C16_binds_ok_sound.

(* hypotheses satisfiable: aten::sum.dim_IntList against aten_sum_dim_IntList, call sum(x, dim, dtype=...) *)
Example C16_binds_ok_sound_inhabited :
  binds_ok ex_schema ex_sig = true /\ conforms ex_schema (mkC 2 ["dtype"]).
Proof. exact (conj ex_binds_ok ex_conforms). Qed.

Theorem C16_traced_never_drops : forall f c b, f_traced f = true -> bind f c = OK b ->
  b_dropped_pos b = [] /\ b_dropped_kw b = [].
Proof. exact traced_never_drops. Qed.
Print Assumptions C16_traced_never_drops.

(* Python's own call binding (TracedOnnxFunction.__call__) succeeds exactly when the signature binder succeeds
   with nothing dropped, and then gives the same binding. *)
Theorem C16_python_call_vs_signature : forall ps c b,
  bind_python ps c = OK b <-> (bind_signature ps c = OK b /\ b_dropped_pos b = [] /\ b_dropped_kw b = []).
Proof. exact python_call_vs_signature. Qed.
Print Assumptions C16_python_call_vs_signature.

(* Names: the accepted names are exactly the regular language of _QUALIFIED_OPERATOR_NAME_REGEX minus
   the strings ending in ".default". *)
Theorem C16_name_ok_spec : forall s, name_ok s = true <-> (in_regex s /\ ~ exists pre, s = (pre ++ ".default")%string).
Proof. exact name_ok_spec. Qed.
Print Assumptions C16_name_ok_spec.

Theorem C16_default_spelling_rejected : forall pre, name_ok (pre ++ ".default")%string = false.
Proof. exact default_spelling_rejected. Qed.
Print Assumptions C16_default_spelling_rejected.

(* Registry: whatever is registered in whatever order, a (name, real/complex) pair resolves to the
   first function registered under it, hence to at most one, and to exactly one once registered. *)
Theorem C16_first_registration_wins : forall (F : Type) (regs : list (F * string * bool)) name cx,
  resolve (register_all regs) name cx = match first_registered regs name cx with Some fn => [fn] | None => [] end.
Proof. exact first_registration_wins. Qed.
Print Assumptions C16_first_registration_wins.

Theorem C16_unique_resolution : forall (F : Type) (regs : list (F * string * bool)) fn name cx,
  In (fn, name, cx) regs -> exists fn', resolve (register_all regs) name cx = [fn'].
Proof. exact registered_resolves. Qed.
Print Assumptions C16_unique_resolution.

(* ---- exhaustive over the regenerated registry (finite domain: vm_compute, in Registry/BindingRegistry.v) ---- *)

(* every registered name is well-formed *)
Theorem C16_registry_names : forallb (fun e => name_ok (e_name e)) all = true.
Proof. exact registry_names. Qed.
Print Assumptions C16_registry_names.

(* get_torchlib_ops returns each (qualified name, real/complex) once *)
Theorem C16_registry_unique : NoDup (map (fun e => (e_name e, e_complex e)) all).
Proof. exact registry_unique. Qed.
Print Assumptions C16_registry_unique.

(* every entry has a schema in the installed PyTorch and binds_ok holds for it -- except the entries
   named by status-known findings (Gen.known_exceptions, generated from known_findings.json) *)
Theorem C16_registry_binds : forallb (fun e => entry_ok e || excepted known_exceptions e) all = true.
Proof. exact registry_binds. Qed.
Print Assumptions C16_registry_binds.

(* ... hence, for each such entry, the conclusion of the general theorem *)
Theorem C16_registry : forall e, In e all -> excepted known_exceptions e = false ->
  exists s, e_schema e = Some s /\
    forall c, conforms s c -> exists b, bind (e_sig e) c = OK b /\ binding_good s (e_sig e) c b.
Proof. exact registry_all_sound. Qed.
Print Assumptions C16_registry.

(* Entries of the pinned tree that do not bind (snapshots; replayed on the real code by the harness). *)
Theorem C16_amax_refuted : exists c, conforms amax_schema c /\ bind amax_sig c = Err (MissingRequired "dim").
Proof. exact amax_refuted. Qed.
Print Assumptions C16_amax_refuted.

Theorem C16_mean_dtype_refuted : exists c b, conforms mean_schema c /\ bind mean_sig c = OK b /\
  In "dtype" (b_dropped_kw b) /\ droppable "dtype" = false.
Proof. exact mean_refuted. Qed.
Print Assumptions C16_mean_dtype_refuted.

Theorem C16_rand_like_refuted : exists c, conforms rand_like_schema c /\
  bind rand_like_sig c = Err (UnexpectedKeyword "memory_format") /\
  exists b, bind_signature (f_params rand_like_sig) c = OK b /\ b_dropped_kw b = ["memory_format"].
Proof. exact rand_like_refuted. Qed.
Print Assumptions C16_rand_like_refuted.

(* ---- repairs: every defective signature family in its two pinned variants (Registry/BindingSnapshots.v) ---- *)

(* a conforming call on which the boolean reading of the property's clauses fails refutes the property for
   that call (so the harness's call_goodb verdicts on witness calls are verdicts about binding_good) *)
Theorem C16_call_goodb_false_refutes : forall s f c, call_goodb s f c = false ->
  ~ exists b, bind f c = OK b /\ binding_good s f c b.
Proof. exact call_goodb_false_refutes. Qed.
Print Assumptions C16_call_goodb_false_refutes.

(* for each family (amax/amin, generator keyword of the random ops, tensor.* constructors, stft, device_put,
   prims::var, repeat_interleave.Tensor, complex mean, quantized per-tensor .tensor/.tensor2): the signature as
   first read is refuted by a concrete conforming call, the repaired signature binds every conforming call well.
   Which of the two the checked tree is in is decided by the harness (variant_of on the regenerated registry);
   the registry theorem above then demands binds_ok of it unless a status-known finding names the entry. *)
Theorem C16_repairs_sound : forall fam, In fam families ->
  refuted (fam_schema fam) (fam_as_read fam) /\ binds_all (fam_schema fam) (fam_repaired fam).
Proof. exact repairs_sound. Qed.
Print Assumptions C16_repairs_sound.

(* a refuted signature never passes binds_ok: the old behaviour coming back cannot slip through the registry theorem *)
Theorem C16_refuted_not_binds_ok : forall s f, refuted s f -> binds_ok s f = false.
Proof. exact refuted_not_binds_ok. Qed.
Print Assumptions C16_refuted_not_binds_ok.

(* hypotheses of C16_repairs_sound are satisfiable: the list of families is not empty *)
Example C16_repairs_sound_inhabited : In (mkFam "aten::amin" false amin_schema amin_sig_as_read amin_sig_repaired) families.
Proof. left; reflexivity. Qed.

(* the as-read witnesses spelled out, one per failure mode *)
Theorem C16_tensor_ctor_refuted : exists c, conforms tensor_bool_schema c /\ bind tensor_bool_sig_as_read c = Err (MissingRequired "dtype").
Proof. exact tensor_bool_refuted. Qed.
Print Assumptions C16_tensor_ctor_refuted.

Theorem C16_generator_kwarg_refuted : exists c, conforms bernoulli_schema c /\ bind bernoulli_sig_as_read c = Err (UnexpectedKeyword "generator").
Proof. exact bernoulli_refuted. Qed.
Print Assumptions C16_generator_kwarg_refuted.

Theorem C16_stft_refuted : exists c, conforms stft_schema c /\ bind stft_sig_as_read c = Err TooManyPositional.
Proof. exact stft_refuted. Qed.
Print Assumptions C16_stft_refuted.

Theorem C16_device_put_refuted : exists c b, conforms device_put_schema c /\ bind device_put_sig_as_read c = OK b /\
  b_dropped_pos b = [2] /\ (exists a, nth_error (pos_args device_put_schema) 2 = Some a /\ droppable (a_name a) = false).
Proof. exact device_put_refuted. Qed.
Print Assumptions C16_device_put_refuted.

Theorem C16_quantize_per_tensor_tensor_refuted : exists c b p a, conforms quantize_per_tensor_tensor2_schema c /\
  bind quantize_per_tensor_tensor2_sig_as_read c = OK b /\ In (p, SPos 1) (b_bound b) /\
  arg_of quantize_per_tensor_tensor2_schema (SPos 1) = Some a /\ is_tensor a = true /\ p_kind p = PAttr AFloat.
Proof. exact quantize_per_tensor_tensor2_refuted. Qed.
Print Assumptions C16_quantize_per_tensor_tensor_refuted.
