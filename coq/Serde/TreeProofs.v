(* Soundness of the inclusion checker: what `includes a b = true` guarantees, for all trees and all paths. *)
From Coq Require Import ZArith List Bool String Lia.
Require Import OV.Serde.Tree.
Import ListNotations.
Open Scope Z_scope.

Lemma value_eqb_eq : forall a b, value_eqb a b = true -> a = b.
Proof.
  intros [x|x] [y|y] H; cbn in H; try discriminate.
  - apply Z.eqb_eq in H; subst; reflexivity.
  - apply String.eqb_eq in H; subst; reflexivity.
Qed.

Lemma lookup_in : forall k l c, lookup k l = Some c -> In (k, c) l.
Proof.
  induction l as [|[k' t] l IH]; intros c H; cbn in H; [discriminate|].
  destruct (String.eqb k k') eqn:E.
  - apply String.eqb_eq in E. inversion H; subst. left; reflexivity.
  - right. apply IH; assumption.
Qed.

(* the two local fixpoints of `includes`, named *)
Definition incl_fields (fa fb : list (string * tree)) : bool :=
  forallb (fun kt => match lookup (fst kt) fb with Some tb => includes (snd kt) tb | None => false end) fa.
Fixpoint incl_seq (l m : list tree) : bool :=
  match l, m with [], [] => true | x :: r, y :: s => includes x y && incl_seq r s | _, _ => false end.

Lemma includes_node : forall fa fb, includes (Node fa) (Node fb) = incl_fields fa fb.
Proof.
  intros fa fb. unfold incl_fields. cbn [includes].
  induction fa as [|[k t] fa IH]; [reflexivity|]. cbn [forallb fst snd]. rewrite <- IH. reflexivity.
Qed.
Lemma includes_seq : forall la lb, includes (Seq la) (Seq lb) = incl_seq la lb.
Proof.
  intros la. cbn [includes]. induction la as [|x la IH]; intros [|y lb]; cbn [incl_seq]; reflexivity.
Qed.

Lemma incl_seq_nth : forall la lb i c, incl_seq la lb = true -> nth_error la i = Some c ->
  exists y, nth_error lb i = Some y /\ includes c y = true.
Proof.
  induction la as [|x la IH]; intros [|y lb] i c H Hn; cbn in H; try discriminate.
  - destruct i; discriminate.
  - apply andb_true_iff in H. destruct H as [H1 H2]. destruct i as [|i]; cbn in Hn |- *.
    + inversion Hn; subst. exists y; auto.
    + eapply IH; eassumption.
Qed.
Lemma incl_seq_length : forall la lb, incl_seq la lb = true -> List.length lb = List.length la.
Proof.
  induction la as [|x la IH]; intros [|y lb] H; cbn in H; try discriminate; [reflexivity|].
  apply andb_true_iff in H. destruct H as [_ H]. cbn. f_equal. apply IH; assumption.
Qed.

(* every subtree of a reachable by a path is matched, at the same path, by a subtree of b that includes it *)
Theorem includes_get : forall p a b ta, includes a b = true -> get a p = Some ta ->
  exists tb, get b p = Some tb /\ includes ta tb = true.
Proof.
  induction p as [|s p IH]; intros a b ta H G.
  - cbn in G. inversion G; subst. exists b; auto.
  - destruct s as [k|i]; cbn [get] in G.
    + destruct a as [v|fa|la]; try discriminate.
      destruct b as [w|fb|lb]; try (cbn in H; discriminate).
      rewrite includes_node in H. unfold incl_fields in H. rewrite forallb_forall in H.
      destruct (lookup k fa) as [c|] eqn:L; [|discriminate].
      specialize (H (k, c) (lookup_in _ _ _ L)). cbn [fst snd] in H.
      destruct (lookup k fb) as [tb|] eqn:L'; [|discriminate].
      cbn [get]. rewrite L'. eapply IH; eassumption.
    + destruct a as [v|fa|la]; try discriminate.
      destruct b as [w|fb|lb]; try (cbn in H; discriminate).
      rewrite includes_seq in H.
      destruct (nth_error la i) as [c|] eqn:L; [|discriminate].
      destruct (incl_seq_nth _ _ _ _ H L) as (y & Ly & Hy).
      cbn [get]. rewrite Ly. eapply IH; eassumption.
Qed.

(* every populated scalar / bytes field of a reappears in b, at the same path, with the same value *)
Theorem includes_sound : forall a b, includes a b = true ->
  forall p v, get a p = Some (Leaf v) -> get b p = Some (Leaf v).
Proof.
  intros a b H p v G. destruct (includes_get p a b (Leaf v) H G) as (tb & Gb & I).
  destruct tb as [w|fb|lb]; cbn in I; try discriminate. apply value_eqb_eq in I. subst. assumption.
Qed.

(* ordered repeated fields keep their length (nothing is appended to or dropped from a node list, an input list, dims ...) *)
Theorem includes_seq_length : forall a b, includes a b = true ->
  forall p l, get a p = Some (Seq l) -> exists l', get b p = Some (Seq l') /\ List.length l' = List.length l.
Proof.
  intros a b H p l G. destruct (includes_get p a b (Seq l) H G) as (tb & Gb & I).
  destruct tb as [w|fb|lb]; try (cbn in I; discriminate). rewrite includes_seq in I.
  exists lb. split; [assumption | apply incl_seq_length; assumption].
Qed.

(* keyed containers of a keep all their keys in b *)
Theorem includes_keys : forall a b, includes a b = true ->
  forall p fs k c, get a p = Some (Node fs) -> lookup k fs = Some c -> exists fs' c', get b p = Some (Node fs') /\ lookup k fs' = Some c'.
Proof.
  intros a b H p fs k c G L. destruct (includes_get p a b (Node fs) H G) as (tb & Gb & I).
  destruct tb as [w|fb|lb]; try (cbn in I; discriminate). rewrite includes_node in I.
  unfold incl_fields in I. rewrite forallb_forall in I. specialize (I (k, c) (lookup_in _ _ _ L)). cbn [fst snd] in I.
  destruct (lookup k fb) as [tb|] eqn:L'; [|discriminate]. exists fb, tb; auto.
Qed.

(* the checker is not vacuous: it rejects a changed payload byte, a dropped key and a shortened list *)
Example includes_examples :
  let a := Node [("name", Leaf (VBytes "77")); ("raw", Leaf (VBytes "0000807f")); ("dims", Seq [Leaf (VInt 2)])]%string in
  includes a (Node [("extra", Leaf (VInt 1)); ("dims", Seq [Leaf (VInt 2)]); ("raw", Leaf (VBytes "0000807f")); ("name", Leaf (VBytes "77"))])%string = true
  /\ includes a (Node [("dims", Seq [Leaf (VInt 2)]); ("raw", Leaf (VBytes "0000c07f")); ("name", Leaf (VBytes "77"))])%string = false
  /\ includes a (Node [("dims", Seq [Leaf (VInt 2)]); ("name", Leaf (VBytes "77"))])%string = false
  /\ includes a (Node [("dims", Seq []); ("raw", Leaf (VBytes "0000807f")); ("name", Leaf (VBytes "77"))])%string = false.
Proof. repeat split; reflexivity. Qed.
