(* C08 (third group of families) -- correspondence checker: one `call3` per traced torch_lib call; the skeleton observed on
   the real traced graph and the output observed on onnxruntime are compared with the models of Aten3.v.
   Prints only indices (see `disagreeing3`).  No proofs in this file. *)
From Coq Require Import ZArith List Bool String QArith Qabs.
Require Import OV.Torch.Onnx OV.Torch.Onnx2 OV.Torch.Onnx3 OV.Torch.Spec OV.Torch.Spec2 OV.Torch.Spec3
               OV.Torch.Aten OV.Torch.Aten2 OV.Torch.Aten3 OV.Torch.Check OV.Torch.Upsample OV.Torch.IndexModel OV.Torch.Misc4.
Import ListNotations.
Local Open Scope Z_scope.

Inductive call3 :=
(* leading booleans: which repaired variant (proposed_fixes/ready) the observed skeleton shows; false = the code as read *)
| CAllAnyDim (gt : bool) (any : bool) (s : list Z) (dim : Z) (keepdim : bool) (fibers : option (list (list Z)))   (* fibers: rank >= 1 only *)
| CAllAnyDims (gt df : bool) (any : bool) (s : list Z) (dims : option (list Z)) (keepdim : bool)
| CAllAny (gt : bool) (any : bool) (s : list Z)
| CArg (af : bool) (is_min : bool) (s : list Z) (dim : option Z) (keepdim : bool)
| CProd (pf : bool) (s : list Z) (t : Z) (dtype : option Z)
| CProdDim (pf zf : bool) (s : list Z) (t : Z) (dim : Z) (keepdim : bool) (dtype : option Z)
| CPrimsVar (cf nf : bool) (s : list Z) (dims : list Z) (c : Q) (ssds : list Q)
| CLogSumExp (s : list Z) (dims : list Z) (keepdim : bool)
| CVar (with_mean sqrt_ : bool) (s : list Z) (dims : option (list Z)) (c : Q) (keepdim : bool) (ssds : list Q)
| CScatterSrc (sf : bool) (s : list Z) (dim : Z) (idx src : list Z)
| CScatterValue (sf : bool) (s : list Z) (dim : Z) (idx : list Z)
| CScatterAdd (uf sf : bool) (s : list Z) (dim : Z) (idx src : list Z)
| CScatterReduce (uf : bool) (s : list Z) (dim : Z) (idx src : list Z) (include_self : bool)
| CConvolution (of : bool) (s w : list Z) (has_bias : bool) (stride padding dilation : list Z) (transposed : bool) (output_padding : list Z) (groups : Z)
| CConvNd (lf bf : bool) (e : Z) (s w : list Z) (has_bias : bool) (stride padding dilation : list Z) (groups : Z)
| CUpsample (k : up_kind) (s size : list Z) (scales : list (option Q))          (* s = [N; C; spatial...] *)
| CIndex (m : list bool) (s : list Z) (idx : list (list Z))
| CIndexPut (m : list bool) (s : list Z) (idx : list (list Z)) (vrank : nat)
| CBaddbmm (zf : bool) (beta alpha : Z) (self mm : list xval)                 (* flat elements; mm = batch1 @ batch2 as torch computes it *)
| CEmbedding (rows : list (list Z)) (idx : list Z)
| CLayerNormStats (s normalized : list Z).

(* an observed float: exact value of the float32 / float64 number, or its class *)
Inductive fobs := OFin (q : Q) | OInf (negative : bool) | ONaN.
Inductive result3 :=
| R3Shape (s : list Z)
| R3ShapeT (s : list Z) (t : Z)
| R3ShapeData (s : list Z) (d : list Z)
| R3Floats (s : list Z) (v : list fobs)
| R3None
| R3Err.

(* what the model predicts *)
Inductive pred3 :=
| P3Shape (s : list Z)
| P3ShapeT (s : list Z) (t : Z)
| P3ShapeData (s : list Z) (d : list Z)
| P3Vals (sqrt_ : bool) (s : list Z) (v : list fval).

Definition b2i (b : bool) : Z := if b then 1 else 0.
Fixpoint map2x (f : xval -> xval -> xval) (a b : list xval) : list xval :=
  match a, b with x :: a', y :: b' => f x y :: map2x f a' b' | _, _ => [] end.
(* aten_baddbmm skeleton: MatMul; [CastLike alpha; Mul]; [CastLike beta; Mul]; Add -- zf: beta == 0 returns before the Add *)
Definition skel_baddbmm (zf : bool) (beta alpha : Z) : skel :=
  ([("MatMul"%string, [])] ++ (if alpha =? 1 then [] else [("CastLike"%string, [[alpha]]); ("Mul"%string, [])])
   ++ (if zf && (beta =? 0) then [] else ((if beta =? 1 then [] else [("CastLike"%string, [[beta]]); ("Mul"%string, [])]) ++ [("Add"%string, [])])))%list.
Definition run_call3 (c : call3) : option pred3 :=
  match c with
  | CAllAnyDim gt any s dim kd fibers =>
      obind (aten_allany_dim_shape s dim kd) (fun sh =>
        match fibers with
        | None => Some (P3Shape sh)
        | Some fs => Some (P3ShapeData sh (map (fun l => b2i (if any then (if gt then aten_any_fiber_fixed l else aten_any_fiber l) else aten_all_fiber l)) fs))
        end)
  | CAllAnyDims _ df _ s dims kd => option_map P3Shape (if df then aten_allany_dims_shape_fixed s dims kd else aten_allany_dims_shape s dims kd)
  | CAllAny _ _ s => option_map P3Shape (aten_allany_nodim_shape s false)
  | CArg af _ s dim kd => option_map P3Shape (if af then aten_argmax_shape_fixed s dim kd else aten_argmax_shape s dim kd)
  | CProd pf s t dt => obind (if pf then aten_prod_dtype_fixed t dt else aten_prod_dtype t dt) (fun t1 => option_map (fun sh => P3ShapeT sh t1) (reduce_shape s None false))
  | CProdDim pf zf s t dim kd dt =>
      obind (if pf then aten_prod_dtype_fixed t dt else aten_prod_dim_dtype t dt) (fun t1 =>
        option_map (fun sh => P3ShapeT sh t1) (if zf then aten_prod_dim_shape_fixed s dim kd else aten_prod_dim_shape s dim kd))
  | CPrimsVar cf nf s dims c ssds =>
      obind (prims_var_shape s dims) (fun sh =>
      let n := match torch_var_count s (Some dims) with Some n => n | None => 1 end in
      obind (if qzero c then Some n else prims_var_count cf s dims) (fun numel =>
        Some (P3Vals false sh (map (fun ssd => prims_var_val nf ssd n numel c) ssds))))
  | CLogSumExp s dims kd => option_map P3Shape (aten_logsumexp_shape s dims kd)
  | CVar _ sq s dims c kd ssds =>
      obind (aten_var_shape s dims kd) (fun sh =>
      let n := match torch_var_count s dims with Some n => n | None => 1 end in          (* what ReduceMean divides by *)
      obind (if qpos c then aten_var_count s dims else Some n) (fun numel =>
        Some (P3Vals sq sh (map (fun ssd => aten_var_val ssd n numel c) ssds))))
  | CScatterSrc sf s dim idx src => option_map P3Shape (aten_scatter_src_shape_v sf s dim idx src)
  | CScatterValue sf s dim idx => option_map P3Shape (aten_scatter_value_shape_v sf s dim idx)
  | CScatterAdd uf sf s dim idx src => option_map P3Shape (aten_scatter_add_shape_v2 uf sf s dim idx src)
  | CScatterReduce uf s dim idx src inc => option_map P3Shape (aten_scatter_reduce_shape_v uf s dim idx src inc)
  | CConvolution of s w _ st pd dl tr op g =>
      obind (aten_convolution_attrs_v of (zlen w - 2) st pd dl tr op) (fun a => option_map P3Shape (conv_shape s w g tr a))
  | CIndex m s idx => option_map P3Shape (aten_index_shape m idx s)
  | CIndexPut m s idx _ =>
      obind (bcast_all idx) (fun B => obind (aten_put_values_axes m B s) (fun _ => option_map P3Shape (aten_index_put_axes m s)))
  | CBaddbmm zf beta alpha self mm =>
      Some (P3ShapeData [] (map (fun v => match v with XFin z => z | XNaN => -999999 end) (map2x (fun a b => aten_baddbmm zf a b beta alpha) self mm)))
  | CEmbedding rows idx => option_map (fun r => P3ShapeData [] (List.concat r)) (aten_embedding rows idx)
  | CLayerNormStats s nm => option_map P3Shape (aten_layer_norm_stats s nm)
  | CUpsample k s size scales => Some (P3Shape (take 2 s ++ aten_upsample_extents k (drop 2 s) size scales)%list)
  | CConvNd lf bf e s w hb st pd dl g =>
      obind (aten_convnd_attrs_v lf bf e st pd dl hb) (fun a => option_map P3Shape (conv_shape s w g false a))
  end.

Definition skel_call3 (c : call3) : skel :=
  match c with
  | CAllAnyDim gt any _ dim kd _ => skel_allany_dim_v gt any dim kd
  | CAllAnyDims gt df any s dims kd => skel_allany_dims_v gt df any s dims kd
  | CAllAny gt any s => skel_allany_nodim_v gt any s false
  | CArg af mn s dim kd => skel_argmax_v af mn s dim kd
  | CProd pf _ t dt => skel_prod_v pf t dt
  | CProdDim pf zf s t dim kd dt => skel_prod_dim_v pf zf s t dt dim kd
  | CPrimsVar cf nf _ dims c _ => skel_prims_var cf nf dims c
  | CLogSumExp s dims kd => skel_logsumexp s dims kd
  | CVar wm sq _ dims c kd _ => skel_var wm sq dims c kd
  | CScatterSrc sf s dim idx src => skel_scatter_src_v sf s dim idx src
  | CScatterValue sf s dim idx => skel_scatter_value_v sf s dim idx
  | CScatterAdd uf sf s dim idx src => skel_scatter_add_v2 uf sf s dim idx src
  | CScatterReduce uf s dim idx src inc => skel_scatter_reduce_v uf s dim idx src inc
  | CConvolution of s w _ st pd dl tr op g =>
      match aten_convolution_attrs_v of (zlen w - 2) st pd dl tr op with
      | Some a => skel_conv_core s w g tr a
      | None => let e := zlen w - 2 in
                skel_conv_core s w g tr (conv_expand1 e st, (conv_expand1 e pd ++ conv_expand1 e pd)%list, conv_expand1 e dl, op)
      end
  | CIndex m s idx => skel_index m (match bcast_all idx with Some B => List.length B | None => O end) (List.length s)
  | CIndexPut m s idx vr => skel_index_put m (match bcast_all idx with Some B => List.length B | None => O end) (List.length s) vr
  | CBaddbmm zf beta alpha _ _ => skel_baddbmm zf beta alpha
  | CEmbedding _ _ => [("Gather"%string, [[0]])]
  | CLayerNormStats _ nm => [("LayerNormalization"%string, [[- zlen nm]; [1]])]
  | CUpsample k _ size scales => skel_upsample k size scales
  | CConvNd lf bf e s w hb st pd dl g =>
      let x := fun l => if lf then conv_expand1 e l else l in
      (skel_zero_bias_v bf e hb ++ skel_conv_core s w g false (x st, (x pd ++ x pd)%list, x dl, []))%list
  end.

(* |m - o| <= 2e-4 * |m| + 1e-5 *)
Definition qclose (m o : Q) : bool :=
  Qle_bool (Qabs (m - o)) (Qabs m * (2 # 10000) + (1 # 100000)).
Definition fclose (sqrt_ : bool) (m : fval) (o : fobs) : bool :=
  match m, o with
  | NaN, ONaN => true
  | Inf n, OInf n' => if sqrt_ then negb n && negb n' else Bool.eqb n n'
  | Inf true, ONaN => sqrt_                                      (* Sqrt(-inf) = nan *)
  | Fin q, OFin o' => if sqrt_ then (if qneg q then false else negb (qneg o') && qclose q (o' * o')) else qclose q o'
  | Fin q, ONaN => sqrt_ && qneg q                               (* Sqrt of a negative number = nan *)
  | _, _ => false
  end.
Fixpoint fclose_all (sqrt_ : bool) (ms : list fval) (os : list fobs) : bool :=
  match ms, os with
  | [], [] => true
  | m :: ms', o :: os' => fclose sqrt_ m o && fclose_all sqrt_ ms' os'
  | _, _ => false
  end.

Definition agree3 (p : pred3) (r : result3) : bool :=
  match p, r with
  | _, R3None => true
  | P3Shape x, R3Shape y => lz_eqb x y
  | P3ShapeT x t, R3ShapeT y u => lz_eqb x y && (t =? u)
  | P3ShapeData x dx, R3ShapeData y dy => lz_eqb x y && lz_eqb dx dy
  | P3Shape x, R3ShapeData y _ => lz_eqb x y
  | P3Shape x, R3ShapeT y _ => lz_eqb x y
  | P3Vals sq x v, R3Floats y o => lz_eqb x y && fclose_all sq v o
  | _, _ => false
  end.

(* verdicts as in Check.v: 0 agree; 1 skeleton differs; 2 output differs from the model; 3 the model calls the graph
   invalid but the runtime produced a value; 4 output differs from the model while the model equals torch eager *)
Definition case3 := (call3 * skel * result3 * result3)%type.
Definition verdict3 (c : case3) : Z :=
  let '(cl, sk, obs, want) := c in
  match run_call3 cl with
  | None => match obs with
            | R3Err => 0
            | _ => if skel_eqb (skel_call3 cl) sk then 3 else 1
            end
  | Some p =>
    if negb (skel_eqb (skel_call3 cl) sk) then (match obs with R3Err => 2 | _ => 1 end)
    else match obs with
         | R3Err => if agree3 p want then 4 else 2
         | _ => if agree3 p obs then 0 else if agree3 p want then 4 else 2
         end
  end.
Fixpoint verdicts3 (i : nat) (cs : list case3) : list (nat * Z) :=
  match cs with
  | [] => []
  | c :: t => let v := verdict3 c in ((if v =? 0 then [] else [(i, v)]) ++ verdicts3 (S i) t)%list
  end.
Definition disagreeing3 (cs : list case3) : list nat :=
  flat_map (fun p => [fst p; Z.to_nat (snd p)]) (verdicts3 0 cs).
