(* C08 (third group) -- scatter family (dim / rank / shape rules in front of ScatterElements) and convolution attribute lists:
   the node each aten_* function emits is accepted by the operator and has PyTorch's result shape / PyTorch's expanded
   attributes on the stated domain; `_refuted` lemmas give witnesses where the faithful model differs. *)
From Coq Require Import ZArith List Bool Lia ZifyBool.
Require Import OV.Torch.Onnx OV.Torch.Onnx2 OV.Torch.Onnx3 OV.Torch.Spec OV.Torch.Spec2 OV.Torch.Spec3
               OV.Torch.Aten OV.Torch.Aten2 OV.Torch.Aten3 OV.Torch.Lemmas OV.Torch.ShapeProofs OV.Torch.ReduceProofs.
Import ListNotations.
Local Open Scope Z_scope.

(* ------------------------------------------------------------------ scatter *)
Lemma le_except_eq : forall a x y i, le_except a i x y = all_le_except a i x y.
Proof. induction x as [|u x IH]; intros [|v y] i; reflexivity. Qed.

Lemma shape_eq_refl : forall x, shape_eq x x = true.
Proof. induction x as [|u x IH]; [reflexivity|]. cbn. rewrite IH. lia. Qed.

Lemma unsq0_ensure1 : forall x, unsq0 x = Some (ensure1 x).
Proof. intros [|u x]; [reflexivity|]. unfold unsq0. replace (zlen (u :: x) =? 0) with false by (rewrite zlen_cons; pose proof (zlen_nonneg _ x); lia). reflexivity. Qed.

Lemma ensure1_pos : forall s, 0 < zlen s -> ensure1 s = s.
Proof. intros [|u x] H; [rewrite zlen_nil in H; lia | reflexivity]. Qed.

(* the common core: ScatterElements(self, i1, i1-shaped updates) behind PyTorch's checks *)
Lemma scatter_core : forall s dim idx a out,
  0 < zlen s -> wrap_dim (zlen s) dim = Some a ->
  (if negb (zlen (ensure1 s) =? zlen (ensure1 idx)) then None
   else if negb (all_le_except a 0 (ensure1 idx) (ensure1 s)) then None else Some s) = Some out ->
  scatter_elements_shape s dim (ensure1 idx) (ensure1 idx) = Some out.
Proof.
  intros s dim idx a out Hr Ea. rewrite (ensure1_pos s Hr). unfold scatter_elements_shape.
  replace (zlen s <? 1) with false by lia. rewrite (wrap1 _ _ _ Hr Ea). cbn [obind].
  destruct (zlen s =? zlen (ensure1 idx)) eqn:E1; [|discriminate]. cbn [negb].
  replace (zlen (ensure1 idx) =? zlen s) with true by lia. cbn [negb]. rewrite shape_eq_refl. cbn [negb].
  change (le_except a 0 (ensure1 idx) s) with (all_le_except a 0 (ensure1 idx) s). destruct (all_le_except a 0 (ensure1 idx) s); [|discriminate]. cbn [negb]. intro H; exact H.
Qed.

Lemma scatter_value_correct : forall s dim idx out,
  0 < zlen s -> prodZ idx <> 0 ->
  torch_scatter_shape s dim idx None = Some out -> aten_scatter_value_shape s dim idx = Some out.
Proof.
  intros s dim idx out Hr Hn. unfold torch_scatter_shape, aten_scatter_value_shape.
  destruct (wrap_dim (zlen s) dim) as [a|] eqn:Ea; [|discriminate]. cbn [obind].
  replace (prodZ idx =? 0) with false by lia. rewrite unsq0_ensure1. cbn [obind]. intro H.
  apply (scatter_core s dim idx a out Hr Ea).
  destruct (negb (zlen (ensure1 s) =? zlen (ensure1 idx))); [discriminate|].
  destruct (negb (all_le_except a 0 (ensure1 idx) (ensure1 s))); [discriminate | exact H].
Qed.

(* index and src of one shape (the only form ScatterElements knows) *)
Lemma scatter_src_partial : forall s dim idx out,
  0 < zlen s -> prodZ idx <> 0 ->
  torch_scatter_shape s dim idx (Some idx) = Some out -> aten_scatter_src_shape s dim idx idx = Some out.
Proof.
  intros s dim idx out Hr Hn. unfold torch_scatter_shape, aten_scatter_src_shape.
  destruct (wrap_dim (zlen s) dim) as [a|] eqn:Ea; [|discriminate]. cbn [obind].
  replace (prodZ idx =? 0) with false by lia. rewrite unsq0_ensure1. cbn [obind]. intro H.
  apply (scatter_core s dim idx a out Hr Ea).
  destruct (negb (zlen (ensure1 s) =? zlen (ensure1 idx))); [discriminate|].
  destruct (negb (all_le_except a 0 (ensure1 idx) (ensure1 s))); [discriminate|].
  destruct (all_le (ensure1 idx) (ensure1 idx)); [exact H | discriminate].
Qed.

Lemma scatter_add_partial : forall s dim idx out,
  0 < zlen s -> 0 < zlen idx -> prodZ idx <> 0 ->
  torch_scatter_shape s dim idx (Some idx) = Some out -> aten_scatter_add_shape s dim idx idx = Some out.
Proof.
  intros s dim idx out Hr Hi Hn H. unfold aten_scatter_add_shape.
  pose proof (scatter_src_partial s dim idx out Hr Hn H) as H1. unfold aten_scatter_src_shape in H1.
  rewrite unsq0_ensure1 in H1. cbn [obind] in H1. rewrite (ensure1_pos idx Hi) in H1. exact H1.
Qed.

Lemma scatter_reduce_partial : forall s dim idx include_self out,
  0 < zlen s -> 0 < zlen idx -> prodZ idx <> 0 ->
  torch_scatter_shape s dim idx (Some idx) = Some out -> aten_scatter_reduce_shape s dim idx idx include_self = Some out.
Proof.
  intros s dim idx inc out Hr Hi Hn H. pose proof (scatter_add_partial s dim idx out Hr Hi Hn H) as H1.
  unfold aten_scatter_add_shape in H1. unfold aten_scatter_reduce_shape. replace (zlen s =? 0) with false by lia. cbn [obind].
  assert (out = s) as ->.
  { unfold scatter_elements_shape in H1. destruct (zlen s <? 1); [discriminate|]. destruct (norm_axis (zlen s) dim); [|discriminate]. cbn [obind] in H1.
    destruct (negb (zlen idx =? zlen s)); [discriminate|]. destruct (negb (shape_eq idx idx)); [discriminate|].
    destruct (negb (le_except z 0 idx s)); [discriminate|]. inversion H1; reflexivity. }
  destruct inc; cbn [obind]; rewrite H1; cbn [obind]; [|rewrite H1; cbn [obind]]; reflexivity.
Qed.

Lemma scatter_src_larger_refuted : exists s dim idx src out,
  torch_scatter_shape s dim idx (Some src) = Some out /\ aten_scatter_src_shape s dim idx src = None
  /\ aten_scatter_add_shape s dim idx src = None /\ aten_scatter_reduce_shape s dim idx src true = None.
Proof. exists [5], 0, [2], [3], [5]. repeat split; reflexivity. Qed.

Lemma scatter_rank0_self_refuted : exists dim idx out,
  torch_scatter_shape [] dim idx (Some idx) = Some out /\ aten_scatter_src_shape [] dim idx idx = None
  /\ aten_scatter_value_shape [] dim idx = None /\ aten_scatter_add_shape [] dim idx idx = None.
Proof. exists 0, [], []. repeat split; reflexivity. Qed.

Lemma scatter_add_rank0_index_refuted : exists s dim out,
  torch_scatter_shape s dim [] (Some []) = Some out /\ aten_scatter_src_shape s dim [] [] = Some out
  /\ aten_scatter_add_shape s dim [] [] = None /\ aten_scatter_reduce_shape s dim [] [] true = None.
Proof. exists [5], 0, [5]. repeat split; reflexivity. Qed.

(* ------------------------------------------------------------------ convolution *)
Lemma conv_out_correct : forall n k s p d, conv_out n k s p p d = torch_conv_out n k s p d.
Proof. intros. unfold conv_out, torch_conv_out. f_equal. f_equal. lia. Qed.

Lemma convT_out_correct : forall n k s p d op, convT_out n k s p p d op = torch_convT_out n k s p d op.
Proof. intros. unfold convT_out, torch_convT_out. ring. Qed.

Lemma zlen_repeat : forall A (v : A) e, 0 <= e -> zlen (repeat v (Z.to_nat e)) = e.
Proof. intros. unfold zlen. rewrite repeat_length. lia. Qed.

Lemma conv_param_expand : forall e l v, 0 <= e -> torch_conv_param e l = Some v -> conv_expand1 e l = v /\ zlen v = e.
Proof.
  intros e l v He. unfold torch_conv_param, conv_expand1. destruct l as [|x [|y t]].
  - destruct (zlen [] =? e) eqn:E; [|discriminate]. intro H; inversion H; subst. split; [reflexivity | lia].
  - intro H; inversion H; subst. split; [reflexivity | apply zlen_repeat; assumption].
  - destruct (zlen (x :: y :: t) =? e) eqn:E; [|discriminate]. intro H; inversion H; subst. split; [reflexivity | lia].
Qed.

Lemma convolution_attrs_correct : forall e stride padding dilation transposed output_padding st pd dl op,
  0 <= e -> torch_conv_params e stride padding dilation output_padding = Some (st, pd, dl, op) ->
  (transposed = false \/ zlen output_padding = e) ->
  aten_convolution_attrs e stride padding dilation transposed output_padding = Some (st, (pd ++ pd)%list, dl, output_padding)
  /\ (zlen output_padding = e -> output_padding = op).
Proof.
  intros e stride padding dilation tr opad st pd dl op He H Hop. unfold torch_conv_params in H.
  destruct (torch_conv_param e stride) as [a|] eqn:E1; [|discriminate]. cbn [obind] in H.
  destruct (torch_conv_param e padding) as [b|] eqn:E2; [|discriminate]. cbn [obind] in H.
  destruct (torch_conv_param e dilation) as [c|] eqn:E3; [|discriminate]. cbn [obind] in H.
  destruct (torch_conv_param e opad) as [d|] eqn:E4; [|discriminate]. cbn [obind] in H. inversion H; subst; clear H.
  destruct (conv_param_expand _ _ _ He E1) as [X1 L1]. destruct (conv_param_expand _ _ _ He E2) as [X2 L2].
  destruct (conv_param_expand _ _ _ He E3) as [X3 L3]. destruct (conv_param_expand _ _ _ He E4) as [X4 L4].
  split.
  - unfold aten_convolution_attrs. rewrite X1, X2, X3. unfold convT_attrs_ok, conv_attrs_ok. rewrite zlen_app, L1, L2, L3.
    replace (e =? e) with true by lia. replace (e + e =? 2 * e) with true by lia. cbn [andb Z.eqb Pos.eqb].
    destruct tr; [|reflexivity]. destruct Hop as [Hf | Hl]; [discriminate|]. rewrite Hl. replace (e =? e) with true by lia. reflexivity.
  - intro Hl. unfold torch_conv_param in E4. destruct opad as [|x [|y t]].
    + rewrite Hl in E4. replace (e =? e) with true in E4 by lia. inversion E4; reflexivity.
    + inversion E4 as [E5]. rewrite zlen_cons, zlen_nil in Hl. rewrite <- Hl. reflexivity.
    + rewrite Hl in E4. replace (e =? e) with true in E4 by lia. inversion E4; reflexivity.
Qed.

Lemma convolution_one_entry_output_padding_refuted : exists e stride padding dilation output_padding p,
  torch_conv_params e stride padding dilation output_padding = Some p /\
  aten_convolution_attrs e stride padding dilation true output_padding = None.
Proof. exists 2, [1], [0], [1], [0]. eexists. split; reflexivity. Qed.

Lemma convolution_attrs_fixed_correct : forall e stride padding dilation transposed output_padding st pd dl op,
  0 <= e -> torch_conv_params e stride padding dilation output_padding = Some (st, pd, dl, op) ->
  aten_convolution_attrs_fixed e stride padding dilation transposed output_padding = Some (st, (pd ++ pd)%list, dl, op).
Proof.
  intros e stride padding dilation tr opad st pd dl op He H. unfold torch_conv_params in H.
  destruct (torch_conv_param e stride) as [a|] eqn:E1; [|discriminate]. cbn [obind] in H.
  destruct (torch_conv_param e padding) as [b|] eqn:E2; [|discriminate]. cbn [obind] in H.
  destruct (torch_conv_param e dilation) as [c|] eqn:E3; [|discriminate]. cbn [obind] in H.
  destruct (torch_conv_param e opad) as [d|] eqn:E4; [|discriminate]. cbn [obind] in H. inversion H; subst; clear H.
  destruct (conv_param_expand _ _ _ He E1) as [X1 L1]. destruct (conv_param_expand _ _ _ He E2) as [X2 L2].
  destruct (conv_param_expand _ _ _ He E3) as [X3 L3]. destruct (conv_param_expand _ _ _ He E4) as [X4 L4].
  unfold aten_convolution_attrs_fixed, aten_convolution_attrs. rewrite X1, X2, X3, X4. unfold convT_attrs_ok, conv_attrs_ok.
  rewrite zlen_app, L1, L2, L3, L4. replace (e =? e) with true by lia. replace (e + e =? 2 * e) with true by lia. cbn [andb Z.eqb Pos.eqb].
  destruct tr; reflexivity.
Qed.

(* conv1d / conv2d / conv3d: lists of full length; conv3d needs the bias given *)
Lemma convnd_attrs_partial : forall e stride padding dilation has_bias,
  zlen stride = e -> zlen padding = e -> zlen dilation = e -> (has_bias = true \/ e <> 3) ->
  aten_convnd_attrs e stride padding dilation has_bias = Some (stride, (padding ++ padding)%list, dilation, [])
  /\ torch_conv_params e stride padding dilation [0] = Some (stride, padding, dilation, repeat 0 (Z.to_nat e)).
Proof.
  intros e st pd dl hb L1 L2 L3 Hb. assert (He : 0 <= e) by (rewrite <- L1; apply zlen_nonneg). split.
  - unfold aten_convnd_attrs, conv_attrs_ok. rewrite zlen_app, L1, L2, L3.
    replace (e =? e) with true by lia. replace (e + e =? 2 * e) with true by lia. cbn [andb].
    destruct hb; [reflexivity|]. destruct Hb as [Hb | Hb]; [discriminate|]. replace (e =? 3) with false by lia. reflexivity.
  - assert (forall l, zlen l = e -> torch_conv_param e l = Some l) as P.
    { intros l Hl. unfold torch_conv_param. destruct l as [|x [|y t]]; rewrite ?Hl; replace (e =? e) with true by lia; try reflexivity.
      rewrite zlen_cons, zlen_nil in Hl. rewrite <- Hl. reflexivity. }
    unfold torch_conv_params. rewrite (P _ L1), (P _ L2), (P _ L3). reflexivity.
Qed.

Lemma convnd_one_entry_refuted : exists e stride padding dilation p,
  torch_conv_params e stride padding dilation [0] = Some p /\ aten_convnd_attrs e stride padding dilation true = None.
Proof. exists 2, [2], [1], [1]. eexists. split; reflexivity. Qed.

Lemma conv3d_bias_omitted_refuted : exists stride padding dilation p,
  torch_conv_params 3 stride padding dilation [0] = Some p /\ aten_convnd_attrs 3 stride padding dilation false = None
  /\ aten_convnd_attrs 3 stride padding dilation true <> None.
Proof. exists [1; 1; 1], [0; 0; 0], [1; 1; 1]. eexists. repeat split; try reflexivity. vm_compute. discriminate. Qed.

Lemma convnd_attrs_fixed_correct : forall e stride padding dilation has_bias st pd dl op,
  0 <= e -> torch_conv_params e stride padding dilation [0] = Some (st, pd, dl, op) ->
  aten_convnd_attrs_fixed e stride padding dilation has_bias = Some (st, (pd ++ pd)%list, dl, []).
Proof.
  intros e stride padding dilation hb st pd dl op He H. unfold torch_conv_params in H.
  destruct (torch_conv_param e stride) as [a|] eqn:E1; [|discriminate]. cbn [obind] in H.
  destruct (torch_conv_param e padding) as [b|] eqn:E2; [|discriminate]. cbn [obind] in H.
  destruct (torch_conv_param e dilation) as [c|] eqn:E3; [|discriminate]. cbn [obind] in H.
  destruct (torch_conv_param e [0]) as [d|] eqn:E4; [|discriminate]. cbn [obind] in H. inversion H; subst; clear H.
  destruct (conv_param_expand _ _ _ He E1) as [X1 L1]. destruct (conv_param_expand _ _ _ He E2) as [X2 L2].
  destruct (conv_param_expand _ _ _ He E3) as [X3 L3].
  unfold aten_convnd_attrs_fixed, conv_attrs_ok. rewrite X1, X2, X3, zlen_app, L1, L2, L3.
  replace (e =? e) with true by lia. replace (e + e =? 2 * e) with true by lia. reflexivity.
Qed.

(* ================================================================== flagged variants used by the correspondence checker *)
Lemma convolution_attrs_v_fixed : forall e stride padding dilation transposed output_padding st pd dl op,
  0 <= e -> torch_conv_params e stride padding dilation output_padding = Some (st, pd, dl, op) ->
  aten_convolution_attrs_v true e stride padding dilation transposed output_padding = Some (st, (pd ++ pd)%list, dl, op).
Proof. exact convolution_attrs_fixed_correct. Qed.

Lemma convolution_attrs_v_as_read : forall e stride padding dilation transposed output_padding,
  aten_convolution_attrs_v false e stride padding dilation transposed output_padding
  = aten_convolution_attrs e stride padding dilation transposed output_padding.
Proof. reflexivity. Qed.

Lemma convnd_attrs_v_fixed : forall e stride padding dilation has_bias st pd dl op,
  0 <= e -> torch_conv_params e stride padding dilation [0] = Some (st, pd, dl, op) ->
  aten_convnd_attrs_v true true e stride padding dilation has_bias = Some (st, (pd ++ pd)%list, dl, []).
Proof.
  intros e stride padding dilation hb st pd dl op He H.
  rewrite <- (convnd_attrs_fixed_correct e stride padding dilation hb st pd dl op He H).
  unfold aten_convnd_attrs_v, aten_convnd_attrs_fixed, aten_convnd_attrs. rewrite Bool.orb_true_r. reflexivity.
Qed.

Lemma convnd_attrs_v_as_read : forall e stride padding dilation has_bias,
  aten_convnd_attrs_v false false e stride padding dilation has_bias = aten_convnd_attrs e stride padding dilation has_bias.
Proof. intros. unfold aten_convnd_attrs_v. rewrite Bool.orb_false_r. reflexivity. Qed.

(* C08_14: scatter_add / scatter_reduce with the Unsqueeze of scatter.src: index and src of one shape, 0-d included *)
Lemma scatter_add_v_fixed : forall s dim idx out,
  0 < zlen s -> prodZ idx <> 0 ->
  torch_scatter_shape s dim idx (Some idx) = Some out -> aten_scatter_add_shape_v true s dim idx idx = Some out.
Proof. intros. unfold aten_scatter_add_shape_v. apply scatter_src_partial; assumption. Qed.

Lemma ensure1_rank : forall x, 0 < zlen (ensure1 x).
Proof. intros [|u x]; [reflexivity | cbn [ensure1]; rewrite zlen_cons; pose proof (zlen_nonneg _ x); lia]. Qed.
Lemma ensure1_idem : forall x, ensure1 (ensure1 x) = ensure1 x.
Proof. intros [|u x]; reflexivity. Qed.
Lemma prodZ_ensure1 : forall x, prodZ (ensure1 x) = prodZ x.
Proof. intros [|u x]; reflexivity. Qed.

Lemma scatter_reduce_v_fixed : forall s dim idx include_self out,
  0 < zlen s -> prodZ idx <> 0 ->
  torch_scatter_shape s dim idx (Some idx) = Some out -> aten_scatter_reduce_shape_v true s dim idx idx include_self = Some out.
Proof.
  intros s dim idx inc out Hr Hn H. unfold aten_scatter_reduce_shape_v. replace (zlen s =? 0) with false by lia. cbn [andb negb].
  rewrite unsq0_ensure1. cbn [obind]. apply scatter_reduce_partial; [assumption | apply ensure1_rank | rewrite prodZ_ensure1; assumption |].
  unfold torch_scatter_shape in *. rewrite prodZ_ensure1, ensure1_idem. exact H.
Qed.

Lemma scatter_v_as_read : forall s dim idx src inc,
  aten_scatter_add_shape_v false s dim idx src = aten_scatter_add_shape s dim idx src /\
  aten_scatter_reduce_shape_v false s dim idx src inc = aten_scatter_reduce_shape s dim idx src inc.
Proof. intros. split; reflexivity. Qed.

(* C08_17: a 0-d self through the Reshape / Squeeze detour: every index / src PyTorch accepts beside a 0-d self *)
Lemma scatter_scalar_core : forall dim a p, wrap_dim 0 dim = Some a -> scatter_elements_shape [1] dim [p] [p] = Some [1].
Proof.
  intros dim a p H. unfold wrap_dim in H. cbn in H. destruct ((-1 <=? dim) && (dim <? 1)) eqn:E; [|discriminate].
  assert (dim = -1 \/ dim = 0) as [-> | ->] by lia; unfold scatter_elements_shape, norm_axis; cbn; rewrite Z.eqb_refl; reflexivity.
Qed.

Lemma scatter_src_zero_dim_fixed : forall dim idx out,
  (zlen idx <= 1) -> torch_scatter_shape [] dim idx (Some idx) = Some out -> aten_scatter_src_shape_v true [] dim idx idx = Some out.
Proof.
  intros dim idx out Hi H. unfold torch_scatter_shape in H. destruct (wrap_dim (zlen []) dim) as [a|] eqn:Ea; [|discriminate]. cbn [obind] in H.
  assert (out = []) as ->.
  { destruct (prodZ idx =? 0); [inversion H; reflexivity|]. destruct (negb _); [discriminate|]. destruct (negb _); [discriminate|].
    destruct (all_le _ _); [inversion H; reflexivity | discriminate]. }
  unfold aten_scatter_src_shape_v, scalar_detour. cbn [andb zlen length Z.of_nat Z.eqb]. rewrite reshape_flat. cbn [obind prodZ fold_right].
  unfold aten_scatter_src_shape. rewrite unsq0_ensure1. cbn [obind].
  destruct idx as [|p [|q t]].
  - cbn [ensure1]. rewrite (scatter_scalar_core dim a 1 Ea). reflexivity.
  - cbn [ensure1]. rewrite (scatter_scalar_core dim a p Ea). reflexivity.
  - rewrite !zlen_cons in Hi. pose proof (zlen_nonneg _ t). lia.
Qed.

Lemma scatter_value_zero_dim_fixed : forall dim idx out,
  (zlen idx <= 1) -> torch_scatter_shape [] dim idx None = Some out -> aten_scatter_value_shape_v true [] dim idx = Some out.
Proof.
  intros dim idx out Hi H. unfold torch_scatter_shape in H. destruct (wrap_dim (zlen []) dim) as [a|] eqn:Ea; [|discriminate]. cbn [obind] in H.
  assert (out = []) as ->.
  { destruct (prodZ idx =? 0); [inversion H; reflexivity|]. destruct (negb _); [discriminate|]. destruct (negb _); [discriminate|]. inversion H; reflexivity. }
  unfold aten_scatter_value_shape_v, scalar_detour. cbn [andb zlen length Z.of_nat Z.eqb]. rewrite reshape_flat. cbn [obind prodZ fold_right].
  unfold aten_scatter_value_shape. rewrite unsq0_ensure1. cbn [obind].
  destruct idx as [|p [|q t]].
  - cbn [ensure1]. rewrite (scatter_scalar_core dim a 1 Ea). reflexivity.
  - cbn [ensure1]. rewrite (scatter_scalar_core dim a p Ea). reflexivity.
  - rewrite !zlen_cons in Hi. pose proof (zlen_nonneg _ t). lia.
Qed.

Lemma scatter_v_rank_pos : forall sf s dim idx src, 0 < zlen s ->
  aten_scatter_src_shape_v sf s dim idx src = aten_scatter_src_shape s dim idx src /\
  aten_scatter_value_shape_v sf s dim idx = aten_scatter_value_shape s dim idx.
Proof.
  intros sf s dim idx src H. unfold aten_scatter_src_shape_v, aten_scatter_value_shape_v, scalar_detour.
  replace (zlen s =? 0) with false by lia. rewrite Bool.andb_false_r. split; reflexivity.
Qed.
