(* Proofs about Model C: the graph built from a straight-line trace computes the direct reading of the
   trace (`build_computes_trace`), and its default value names are pairwise distinct
   (`names_unique_one_graph`); a child builder that restarts the counter redefines outer names
   (`names_unique_across_subgraphs_refuted`). *)
From Coq Require Import String List Bool Arith ZArith Lia.
Require Import OV.Graph.Syntax OV.Graph.Sem OV.Graph.SemProofs OV.Graph.Wf.
Require Import OV.Builder.Strings OV.Builder.StringsProofs OV.Builder.Naming OV.Builder.NamingProofs OV.Builder.Trace.
Import ListNotations.
Local Open Scope list_scope.

(* ------------------------------------------------------------------ straight traces have no renames *)
Lemma straight_renames : forall tr, straight tr = true -> renames_calls tr = [].
Proof.
  induction tr as [|c r IH]; simpl; intro H; auto.
  apply andb_true_iff in H as [Hc Hr]. rewrite (IH Hr), app_nil_r.
  destruct c as [st dom op args attrs subs outs|]; [|discriminate].
  destruct subs; [reflexivity|discriminate].
Qed.

(* ------------------------------------------------------------------ state bookkeeping, renames = [] *)
Section State.
  Variable cf : bcfg.

  Lemma fresh_nil : forall s g,
    fresh [] s g = (BSt (b_names s ++ [g]) (b_cache s) (b_total s) (b_nnames s) (b_anon s), g).
  Proof. reflexivity. Qed.

  Lemma fresh_many_nil : forall gens s,
    fresh_many [] s gens = (BSt (b_names s ++ gens) (b_cache s) (b_total s) (b_nnames s) (b_anon s), gens).
  Proof.
    induction gens as [|g r IH]; intros s; simpl.
    - rewrite app_nil_r. destruct s; reflexivity.
    - rewrite IH. simpl. now rewrite <- app_assoc.
  Qed.

  Lemma assoc_str_app : forall A k (C D : list (string * A)) x,
    assoc_str k C = Some x -> assoc_str k (C ++ D) = Some x.
  Proof.
    induction C as [|[k' v] C IH]; simpl; intros D x H; [discriminate|].
    destruct (String.eqb k k'); auto.
  Qed.

  Lemma assoc_str_new : forall A k (C : list (string * A)) x,
    assoc_str k C = None -> assoc_str k (C ++ [(k, x)]) = Some x.
  Proof.
    induction C as [|[k' v] C IH]; simpl; intros x H.
    - now rewrite String.eqb_refl.
    - destruct (String.eqb k k'); [discriminate|auto].
  Qed.

  Lemma assoc_str_In : forall A k (C : list (string * A)) x, assoc_str k C = Some x -> In (k, x) C.
  Proof.
    induction C as [|[k' v] C IH]; simpl; intros x H; [discriminate|].
    destruct (String.eqb k k') eqn:E.
    - apply String.eqb_eq in E. inversion H; subst. now left.
    - right. auto.
  Qed.

  (* promote only ever appends to the cache; afterwards the literal's key is bound to the returned name *)
  Lemma promote_spec : forall s l s' n, promote s l = (s', n) ->
    b_names s' = b_names s /\ b_total s' = b_total s /\ b_nnames s' = b_nnames s /\
    (exists D, b_cache s' = b_cache s ++ D) /\
    (exists l0, assoc_str (l_key l) (b_cache s') = Some (n, l0)).
  Proof.
    intros s l s' n H. unfold promote in H.
    destruct (assoc_str (l_key l) (b_cache s)) as [[n0 l0]|] eqn:E.
    - inversion H; subst. repeat split; auto. exists []. now rewrite app_nil_r. exists l0. auto.
    - inversion H; subst. cbn. repeat split; auto.
      + eexists. reflexivity.
      + eexists. now apply assoc_str_new.
  Qed.

  (* resolving operands that need no CastLike only ever appends to the constant cache *)
  Lemma resolve_plain_state : forall args st s local s' local' ins pre,
    forallb plain_operand args = true ->
    resolve cf st s local args = (s', local', ins, pre) ->
    pre = [] /\ local' = local /\ b_names s' = b_names s /\ b_total s' = b_total s /\
    b_nnames s' = b_nnames s /\ (exists D, b_cache s' = b_cache s ++ D).
  Proof.
    induction args as [|a r IH]; intros st s local s' local' ins pre Hp Hr.
    - simpl in Hr. inversion Hr; subst. repeat split; auto. exists []. now rewrite app_nil_r.
    - simpl in Hp. apply andb_true_iff in Hp as [Ha Hp].
      destruct a as [id | l | l like | ]; try discriminate; simpl in Hr.
      + destruct (resolve cf st s local r) as [[[s1 l1] ins1] pre1] eqn:Er.
        inversion Hr; subst. exact (IH _ _ _ _ _ _ _ Hp Er).
      + destruct (promote s l) as [s0 n] eqn:Epr.
        destruct (resolve cf st s0 local r) as [[[s1 l1] ins1] pre1] eqn:Er.
        inversion Hr; subst.
        destruct (promote_spec s l s0 n Epr) as (Q1 & Q2 & Q3 & [D0 Q4] & _).
        destruct (IH _ _ _ _ _ _ _ Hp Er) as (P1 & P2 & P3 & P4 & P5 & [D1 P6]).
        repeat split; auto; try congruence.
        exists (D0 ++ D1). rewrite P6, Q4. now rewrite app_assoc.
      + destruct (resolve cf st s local r) as [[[s1 l1] ins1] pre1] eqn:Er.
        inversion Hr; subst. exact (IH _ _ _ _ _ _ _ Hp Er).
  Qed.

  Lemma out_names_length : forall st op c outs,
    List.length (out_names st op c outs) = n_outs_of outs.
  Proof.
    intros st op c [n|ns]; simpl.
    - unfold value_names. destruct n as [|[|n]]; simpl; auto. now rewrite map_length, seq_length.
    - unfold explicit_names. now rewrite map_length.
  Qed.

  (* what one straight call does to the state *)
  Lemma build_call_straight : forall st dom op args attrs outs s local s' local' ns,
    straight_call (COp st dom op args attrs [] outs) = true ->
    build_call cf [] (COp st dom op args attrs [] outs) s local = (s', local', ns) ->
    exists s2 ins,
      resolve cf st s local args = (s2, local, ins, []) /\
      let onames := out_names st op (cnt cf s2 local) outs in
      ns = [Node dom op ins onames attrs []] /\ local' = S local /\
      b_names s' = b_names s ++ onames /\ b_cache s' = b_cache s2 /\ b_total s' = S (b_total s) /\
      b_nnames s' = b_nnames s ++ [node_name st op (cnt cf s2 local)].
  Proof.
    intros st dom op args attrs outs s local s' local' ns Hs Hb.
    simpl in Hs. apply andb_true_iff in Hs as [Hs Hp].
    cbn [build_call] in Hb.
    destruct (resolve cf st s local args) as [[[s2 local2] ins] pre] eqn:Er.
    destruct (resolve_plain_state args st s local s2 local2 ins pre Hp Er) as (P1 & P2 & P3 & P4 & P5 & P6).
    subst pre local2. rewrite fresh_many_nil in Hb. inversion Hb; subst. cbn.
    exists s2, ins. repeat split; auto; congruence.
  Qed.

  Lemma build_calls_ext : forall tr s local sf nodes,
    straight tr = true -> build_calls cf [] tr s local = (sf, nodes) ->
    exists M D, b_names sf = b_names s ++ M /\ b_cache sf = b_cache s ++ D.
  Proof.
    induction tr as [|c r IH]; intros s local sf nodes Hs Hb.
    - simpl in Hb. inversion Hb; subst. exists [], []. now rewrite !app_nil_r.
    - simpl in Hs. apply andb_true_iff in Hs as [Hc Hr].
      cbn [build_calls] in Hb.
      destruct (build_call cf [] c s local) as [[s1 local1] ns] eqn:Ec.
      destruct (build_calls cf [] r s1 local1) as [s2 ns'] eqn:Er. inversion Hb; subst.
      destruct c as [st dom op args attrs subs outs|]; [|discriminate].
      destruct subs; [|discriminate].
      destruct (build_call_straight _ _ _ _ _ _ _ _ _ _ _ Hc Ec) as (s2' & ins & R & _ & _ & N1 & C1 & _).
      assert (Hp : forallb plain_operand args = true).
      { simpl in Hc. now apply andb_true_iff in Hc as [_ ?]. }
      destruct (resolve_plain_state args st s local _ _ _ _ Hp R) as (_ & _ & _ & _ & _ & [D0 C0]).
      destruct (IH _ _ _ _ Hr Er) as (M & D & N2 & C2).
      eexists. eexists. rewrite N2, C2, N1, C1, C0. rewrite <- !app_assoc. split; reflexivity.
  Qed.

End State.

(* ------------------------------------------------------------------ the semantic argument *)
Section Computes.
  Variable V : Type.
  Variable sem : string -> string -> list (string * attrv) -> list (option V) -> option (list V).
  Variable truth : V -> option bool.
  Variable trip : V -> option nat.
  Variable of_nat : nat -> V.
  Variable of_bool : bool -> V.
  Variable lim : nat.
  Variable lit_val : string -> V.
  Variable cf : bcfg.

  Notation enode ev := (eval_node V sem truth trip of_nat of_bool lim ev).
  Notation runn ev := (run V sem truth trip of_nat of_bool lim ev).

  Lemma eval_plain_node : forall ev e dom op ins outs attrs subs,
    is_if dom op = false -> is_loop dom op = false ->
    enode ev e (Node dom op ins outs attrs subs) =
    match lookup_opts e ins with
    | Some vs => match sem dom op attrs vs with Some rs => bind outs rs e | None => None end
    | None => None
    end.
  Proof. intros. unfold eval_node. now rewrite H, H0. Qed.

  Lemma bind_spec : forall xs (vs : list V) e,
    bind xs vs e = if Nat.eqb (List.length xs) (List.length vs) then Some (combine xs vs ++ e) else None.
  Proof.
    induction xs as [|x xs IH]; destruct vs as [|v vs]; simpl; intros e; auto.
    rewrite IH. destruct (Nat.eqb (List.length xs) (List.length vs)); reflexivity.
  Qed.

  Lemma lookup_combine_notin : forall xs (vs : list V) e x,
    ~ In x xs -> lookup (combine xs vs ++ e) x = lookup e x.
  Proof.
    induction xs as [|y xs IH]; destruct vs as [|v vs]; simpl; intros e x H; auto.
    destruct (String.eqb x y) eqn:E.
    - apply String.eqb_eq in E. subst. exfalso. auto.
    - apply IH. auto.
  Qed.

  Lemma lookup_combine_nth : forall xs (vs : list V) e j x v,
    NoDup xs -> nth_error xs j = Some x -> nth_error vs j = Some v ->
    lookup (combine xs vs ++ e) x = Some v.
  Proof.
    induction xs as [|y xs IH]; intros vs e j x v Hn Hx Hv.
    - destruct j; discriminate.
    - destruct vs as [|w vs]; [destruct j; discriminate|].
      inversion Hn; subst. destruct j as [|j]; simpl in *.
      + inversion Hx; inversion Hv; subst. now rewrite String.eqb_refl.
      + destruct (String.eqb x y) eqn:E.
        * apply String.eqb_eq in E. subst. exfalso. apply H1. eapply nth_error_In; eauto.
        * eapply IH; eauto.
  Qed.

  (* values created so far are bound under their names; cached literals under their initializer names *)
  Definition val_inv (N : list string) (E : list V) (e : env V) : Prop :=
    List.length E = List.length N /\
    forall id v, nth_error E id = Some v -> lookup e (nth id N "?undefined"%string) = Some v.
  Definition cache_ok (C : list (string * (string * lit))) (e : env V) : Prop :=
    forall k n l0, assoc_str k C = Some (n, l0) -> lookup e n = Some (lit_val (l_val l0)).
  (* literals that share a cache key denote the same tensor (C12: 0.0 / -0.0 before its fix) *)
  Definition lit_ok (C : list (string * (string * lit))) (l : lit) : Prop :=
    forall n l0, assoc_str (l_key l) C = Some (n, l0) -> lit_val (l_val l0) = lit_val (l_val l).

  Definition arg_lits (args : list operand) : list lit :=
    flat_map (fun a => match a with OLit l => [l] | OLitCast l _ => [l] | _ => [] end) args.

  Lemma resolve_plain : forall args st s local s' local' ins pre,
    forallb plain_operand args = true ->
    resolve cf st s local args = (s', local', ins, pre) ->
    pre = [] /\ local' = local /\ b_names s' = b_names s /\ b_total s' = b_total s /\
    b_nnames s' = b_nnames s /\ (exists D, b_cache s' = b_cache s ++ D) /\
    forall Cf E e D', Cf = b_cache s' ++ D' -> val_inv (b_names s) E e ->
      forallb (operand_ok (List.length (b_names s))) args = true ->
      cache_ok Cf e -> Forall (lit_ok Cf) (arg_lits args) ->
      exists vs, replay_args V sem lit_val E args = Some vs /\ lookup_opts e ins = Some vs.
  Proof.
    induction args as [|a r IH]; intros st s local s' local' ins pre Hp Hr.
    - simpl in Hr. inversion Hr; subst. repeat split; auto. exists []. now rewrite app_nil_r.
      intros. exists []. auto.
    - simpl in Hp. apply andb_true_iff in Hp as [Ha Hp].
      destruct a as [id | l | l like | ]; try discriminate; simpl in Hr.
      + (* a value *)
        destruct (resolve cf st s local r) as [[[s1 l1] ins1] pre1] eqn:Er.
        inversion Hr; subst. destruct (IH _ _ _ _ _ _ _ Hp Er) as (P1 & P2 & P3 & P4 & P5 & P6 & P7).
        repeat split; auto. intros Cf E e D' HC Hv Hok Hc Hl.
        simpl in Hok. apply andb_true_iff in Hok as [Hid Hok]. apply Nat.ltb_lt in Hid.
        destruct (P7 Cf E e D' HC Hv Hok Hc Hl) as [vs [R1 R2]].
        destruct Hv as [HlenE Hv].
        destruct (nth_error E id) as [v|] eqn:En; [|apply nth_error_None in En; lia].
        exists (Some v :: vs). simpl. rewrite En, R1. split; auto.
        unfold name_of. rewrite (Hv id v En), R2. reflexivity.
      + (* a literal *)
        destruct (promote s l) as [s0 n] eqn:Epr.
        destruct (resolve cf st s0 local r) as [[[s1 l1] ins1] pre1] eqn:Er.
        inversion Hr; subst.
        destruct (promote_spec s l s0 n Epr) as (Q1 & Q2 & Q3 & [D0 Q4] & [l0 Q5]).
        destruct (IH _ _ _ _ _ _ _ Hp Er) as (P1 & P2 & P3 & P4 & P5 & [D1 P6] & P7).
        repeat split; auto; try congruence.
        { exists (D0 ++ D1). rewrite P6, Q4. now rewrite app_assoc. }
        intros Cf E e D' HC Hv Hok Hc Hl.
        simpl in Hok. simpl in Hl. inversion Hl as [|? ? Hl1 Hl2]; subst.
        rewrite <- Q1 in Hv, Hok.
        destruct (P7 _ E e D' eq_refl Hv Hok Hc Hl2) as [vs [R1 R2]].
        exists (Some (lit_val (l_val l)) :: vs). simpl. rewrite R1. split; auto.
        assert (A : assoc_str (l_key l) (b_cache s' ++ D') = Some (n, l0)).
        { rewrite P6. rewrite <- app_assoc. now apply assoc_str_app. }
        rewrite (Hc _ _ _ A), (Hl1 _ _ A), R2. reflexivity.
      + (* omitted *)
        destruct (resolve cf st s local r) as [[[s1 l1] ins1] pre1] eqn:Er.
        inversion Hr; subst. destruct (IH _ _ _ _ _ _ _ Hp Er) as (P1 & P2 & P3 & P4 & P5 & P6 & P7).
        repeat split; auto. intros Cf E e D' HC Hv Hok Hc Hl.
        simpl in Hok.
        destruct (P7 Cf E e D' HC Hv Hok Hc Hl) as [vs [R1 R2]].
        exists (None :: vs). simpl. rewrite R1, R2. auto.
  Qed.

  Lemma NoDup_app_disjoint : forall A (a b : list A), NoDup (a ++ b) -> forall x, In x a -> ~ In x b.
  Proof.
    induction a as [|y a IH]; simpl; intros b Hn x Hx Hb; [contradiction|].
    inversion Hn; subst. destruct Hx as [->|Hx].
    - apply H1. apply in_or_app. now right.
    - eapply IH; eauto.
  Qed.

  Definition cache_names (C : list (string * (string * lit))) : list string := map (fun x => fst (snd x)) C.

  (* the generalised statement: running the built nodes from an environment that agrees with the
     replay environment gives an environment that agrees with the replay environment afterwards, and
     fails exactly when the direct reading fails *)
  Lemma build_run : forall tr ev s local sf nodes E e,
    straight tr = true ->
    ids_ok (List.length (b_names s)) tr = true ->
    build_calls cf [] tr s local = (sf, nodes) ->
    val_inv (b_names s) E e ->
    cache_ok (b_cache sf) e ->
    Forall (lit_ok (b_cache sf)) (flat_map call_lits tr) ->
    NoDup (b_names sf ++ cache_names (b_cache sf)) ->
    match replay_calls V sem lit_val E tr with
    | Some E' => exists e', runn ev e nodes = Some e' /\ val_inv (b_names sf) E' e'
    | None => runn ev e nodes = None
    end.
  Proof.
    induction tr as [|c r IH]; intros ev s local sf nodes E e Hs Hids Hb Hv Hc Hl Hn.
    - simpl in Hb. inversion Hb; subst. simpl. exists e. auto.
    - simpl in Hs. apply andb_true_iff in Hs as [Hsc Hsr].
      cbn [build_calls] in Hb.
      destruct (build_call cf [] c s local) as [[s1 local1] ns] eqn:Ec.
      destruct (build_calls cf [] r s1 local1) as [s2 ns'] eqn:Er. inversion Hb; subst s2 nodes. clear Hb.
      destruct c as [st dom op args attrs subs outs|]; [|discriminate].
      destruct subs; [|discriminate].
      destruct (build_call_straight cf _ _ _ _ _ _ _ _ _ _ _ Hsc Ec) as (s2 & ins & R & Hns & Hloc & N1 & C1 & _).
      set (onames := out_names st op (cnt cf s2 local) outs) in *. subst local1.
      pose proof Hsc as Hsc'. simpl in Hsc'. apply andb_true_iff in Hsc' as [Hsc' Hp].
      apply andb_true_iff in Hsc' as [Hif Hloop]. apply negb_true_iff in Hif, Hloop.
      destruct (resolve_plain args st s local _ _ _ _ Hp R) as (_ & _ & N0 & _ & _ & [D0 C0] & Hargs).
      destruct (build_calls_ext cf _ _ _ _ _ Hsr Er) as (M & D & N2 & C2).
      cbn [ids_ok] in Hids. apply andb_true_iff in Hids as [Hida Hidr].
      cbn [flat_map] in Hl. apply Forall_app in Hl as [Hl1 Hl2].
      assert (HCf : b_cache sf = b_cache s2 ++ D) by (rewrite C2, C1; reflexivity).
      destruct (Hargs (b_cache sf) E e D HCf Hv Hida Hc Hl1) as [vs [R1 R2]].
      subst ns. cbn [replay_calls replay_call]. rewrite R1.
      cbn [app run]. rewrite (eval_plain_node ev e dom op ins onames attrs [] Hif Hloop), R2.
      destruct (sem dom op attrs vs) as [rs|]; [|reflexivity].
      assert (Hlen_on : List.length onames = n_outs_of outs) by (unfold onames; apply out_names_length).
      rewrite bind_spec.
      assert (Hb2 : Nat.eqb (@List.length vname onames) (List.length rs) = Nat.eqb (List.length rs) (n_outs_of outs)).
      { rewrite Nat.eqb_sym. f_equal. exact Hlen_on. }
      rewrite Hb2.
      destruct (Nat.eqb (List.length rs) (n_outs_of outs)) eqn:Elen; [|reflexivity].
      apply Nat.eqb_eq in Elen.
      (* facts about names *)
      assert (HN : b_names sf = (b_names s ++ onames) ++ M) by (rewrite N2, N1; reflexivity).
      assert (Hnd_names : NoDup (b_names sf)).
      { apply NoDup_app_l in Hn. exact Hn. }
      assert (Hnd_on : NoDup onames).
      { rewrite HN in Hnd_names. apply NoDup_app_l in Hnd_names. now apply NoDup_app_r in Hnd_names. }
      assert (Hdisj : forall x, In x (b_names s) -> ~ In x onames).
      { rewrite HN in Hnd_names. apply NoDup_app_l in Hnd_names. now apply NoDup_app_disjoint. }
      destruct Hv as [HlenE Hv].
      apply (IH ev s1 (S local) sf ns' (E ++ rs) (combine onames rs ++ e)); auto.
      + assert (HL : List.length (b_names s1) = List.length (b_names s) + n_outs_of outs).
        { rewrite N1, app_length. f_equal. exact Hlen_on. }
        rewrite HL. destruct outs; exact Hidr.
      + (* the values *)
        split.
        * rewrite N1, !app_length. pose proof Hlen_on as HL'. cbv zeta in *. unfold vname in *. lia.
        * intros id v Hid. rewrite N1. fold onames.
          destruct (Nat.lt_ge_cases id (List.length E)) as [Hlt|Hge].
          -- rewrite nth_error_app1 in Hid by auto.
             rewrite app_nth1 by lia. rewrite lookup_combine_notin; auto.
             apply Hdisj. apply nth_In. lia.
          -- rewrite nth_error_app2 in Hid by auto.
             rewrite app_nth2 by lia. rewrite <- HlenE.
             assert (Hj : id - List.length E < List.length onames).
             { rewrite Hlen_on, <- Elen. apply nth_error_Some. congruence. }
             eapply lookup_combine_nth; eauto. apply nth_error_nth'. exact Hj.
      + (* cached literals are not shadowed *)
        intros k n l0 Hk. rewrite lookup_combine_notin; eauto.
        intro Hin. apply (NoDup_app_disjoint _ _ _ Hn n).
        * rewrite HN. apply in_or_app. left. apply in_or_app. now right.
        * apply assoc_str_In in Hk. unfold cache_names. apply in_map_iff. exists (k, (n, l0)). auto.
  Qed.

  (* initializers of the built graph, as the outer environment of the evaluation *)
  Definition init_env (C : list (string * (string * lit))) : env V :=
    map (fun x => (fst (snd x), lit_val (l_val (snd (snd x))))) C.

  Lemma lookup_init_env : forall C k n l0,
    NoDup (cache_names C) -> In (k, (n, l0)) C -> lookup (init_env C) n = Some (lit_val (l_val l0)).
  Proof.
    induction C as [|[k' [n' l']] C IH]; simpl; intros k n l0 Hn Hin; [contradiction|].
    inversion Hn; subst. destruct (String.eqb n n') eqn:E.
    - apply String.eqb_eq in E. subst n'. destruct Hin as [Hin|Hin].
      + inversion Hin; subst. reflexivity.
      + exfalso. apply H1. unfold cache_names. apply in_map_iff. exists (k, (n, l0)). auto.
    - destruct Hin as [Hin|Hin].
      + inversion Hin; subst. rewrite String.eqb_refl in E. discriminate.
      + eapply IH; eauto.
  Qed.

  Lemma lookups_outs : forall N E e outs,
    val_inv N E e -> forallb (fun i => Nat.ltb i (List.length N)) outs = true ->
    lookups e (map (fun i => nth i N "?undefined"%string) outs) = nth_all V E outs.
  Proof.
    intros N E e outs [Hlen Hv]. induction outs as [|i r IH]; simpl; intro H; auto.
    apply andb_true_iff in H as [Hi Hr]. apply Nat.ltb_lt in Hi.
    destruct (nth_error E i) as [v|] eqn:En; [|apply nth_error_None in En; lia].
    rewrite (Hv i v En), (IH Hr). reflexivity.
  Qed.

  (* build_computes_trace: for every straight-line trace (any length, any operators / functions as
     abstract kernels, literal operands through the constant cache, explicit or default output names,
     any scopes) whose value and initializer names are pairwise distinct and whose literals agree per
     cache key, evaluating the built graph = the direct reading of the trace, including failure *)
  Theorem build_computes_trace : forall fuel ins tr outs args,
    straight tr = true ->
    ids_ok (List.length ins) tr = true ->
    let sf := fst (build_state cf ins tr) in
    forallb (fun i => Nat.ltb i (List.length (b_names sf))) outs = true ->
    NoDup (b_names sf ++ cache_names (b_cache sf)) ->
    Forall (lit_ok (b_cache sf)) (flat_map call_lits tr) ->
    List.length args = List.length ins ->
    eval_graph V sem truth trip of_nat of_bool lim (S fuel) (init_env (b_cache sf)) (build cf ins tr outs) args =
    replay V sem lit_val tr args outs.
  Proof.
    intros fuel ins tr outs args Hs Hids sf Houts Hn Hl Hlen.
    unfold build. unfold sf in *. unfold build_state in *. rewrite (straight_renames tr Hs) in *.
    destruct (build_calls cf [] tr (init_state ins) 0) as [s nodes] eqn:Eb. cbn [fst] in *.
    change (eval_graph V sem truth trip of_nat of_bool lim (S fuel)) with
      (eval_body V sem truth trip of_nat of_bool lim (eval_graph V sem truth trip of_nat of_bool lim fuel)).
    unfold eval_body. cbn [g_ins g_nodes g_outs].
    rewrite bind_spec.
    assert (Hb : Nat.eqb (@List.length vname ins) (List.length args) = true) by (apply Nat.eqb_eq; symmetry; exact Hlen).
    rewrite Hb.
    set (outer := init_env (b_cache s)).
    set (e0 := combine ins args ++ outer).
    destruct (build_calls_ext cf _ _ _ _ _ Hs Eb) as (M & D & HN & HC). cbn [init_state b_names b_cache] in HN, HC.
    assert (Hnd_names : NoDup (b_names s)) by (eapply NoDup_app_l; eauto).
    assert (Hnd_ins : NoDup ins) by (rewrite HN in Hnd_names; eapply NoDup_app_l; eauto).
    assert (Hv : val_inv ins args e0).
    { split; [exact Hlen|]. intros id v Hid. unfold e0.
      eapply lookup_combine_nth; eauto. apply nth_error_nth'. rewrite <- Hlen. apply nth_error_Some. congruence. }
    assert (Hc : cache_ok (b_cache s) e0).
    { intros k n l0 Hk. unfold e0. rewrite lookup_combine_notin.
      - apply (lookup_init_env _ k); [eapply NoDup_app_r; eauto | now apply assoc_str_In].
      - intro Hin. apply (NoDup_app_disjoint _ _ _ Hn n).
        + rewrite HN. apply in_or_app. now left.
        + apply assoc_str_In in Hk. unfold cache_names. apply in_map_iff. exists (k, (n, l0)). auto. }
    pose proof (build_run tr (eval_graph V sem truth trip of_nat of_bool lim fuel) (init_state ins) 0 s nodes args e0
                          Hs Hids Eb Hv Hc Hl Hn) as H.
    unfold replay. destruct (replay_calls V sem lit_val args tr) as [E'|].
    - destruct H as [e' [Hr Hv']]. unfold e0 in Hr. unfold vname in *. rewrite Hr. unfold name_of. now apply lookups_outs.
    - unfold e0 in H. unfold vname in *. now rewrite H.
  Qed.
End Computes.

(* ------------------------------------------------------------------ names_unique_one_graph *)
Definition default_plain_call (c : call) : bool :=
  match c with
  | COp _ _ op _ _ _ (ODefault _) => plain_op op
  | _ => false
  end.

Fixpoint allocs_from (c : nat) (tr : list call) : list alloc :=
  match tr with
  | COp st _ op _ _ _ (ODefault n) :: r => Alloc st op c n :: allocs_from (S c) r
  | _ :: r => allocs_from (S c) r
  | [] => []
  end.

Lemma allocs_counts : forall tr c, forallb default_plain_call tr = true ->
  map a_count (allocs_from c tr) = seq c (List.length tr).
Proof.
  induction tr as [|x r IH]; simpl; intros c H; auto.
  apply andb_true_iff in H as [Hx Hr].
  destruct x as [st dom op args attrs subs [n|ns]|]; try discriminate. simpl. now rewrite IH.
Qed.

Lemma allocs_plain : forall tr c, forallb default_plain_call tr = true ->
  Forall (fun a => plain_op (a_op a) = true) (allocs_from c tr).
Proof.
  induction tr as [|x r IH]; simpl; intros c H; [constructor|].
  apply andb_true_iff in H as [Hx Hr].
  destruct x as [st dom op args attrs subs [n|ns]|]; try discriminate. constructor; auto.
Qed.

Section Unique.
  Variable cf : bcfg.

  Lemma build_calls_outputs : forall tr s local sf nodes,
    straight tr = true -> forallb default_plain_call tr = true ->
    build_calls cf [] tr s local = (sf, nodes) ->
    flat_map n_outs nodes = flat_map alloc_names (allocs_from (cnt cf s local) tr).
  Proof.
    induction tr as [|c r IH]; intros s local sf nodes Hs Hd Hb.
    - simpl in Hb. inversion Hb; subst. reflexivity.
    - simpl in Hs, Hd. apply andb_true_iff in Hs as [Hsc Hsr]. apply andb_true_iff in Hd as [Hdc Hdr].
      cbn [build_calls] in Hb.
      destruct (build_call cf [] c s local) as [[s1 local1] ns] eqn:Ec.
      destruct (build_calls cf [] r s1 local1) as [s2 ns'] eqn:Er. inversion Hb; subst s2 nodes. clear Hb.
      destruct c as [st dom op args attrs subs [n|names]|]; try discriminate.
      destruct subs; [|discriminate].
      destruct (build_call_straight cf _ _ _ _ _ _ _ _ _ _ _ Hsc Ec) as (s2 & ins & R & Hns & Hloc & N1 & C1 & T1 & _).
      assert (Hp : forallb plain_operand args = true).
      { simpl in Hsc. now apply andb_true_iff in Hsc as [_ ?]. }
      destruct (resolve_plain_state cf args st s local _ _ _ _ Hp R) as (_ & _ & _ & T0 & _).
      assert (Hcnt : cnt cf s2 local = cnt cf s local) by (unfold cnt; now rewrite T0).
      assert (Hcnt1 : cnt cf s1 local1 = S (cnt cf s local)).
      { unfold cnt. rewrite T1, Hloc. destruct (shared_counter cf); reflexivity. }
      subst ns. rewrite flat_map_app. cbn [flat_map n_outs app allocs_from].
      rewrite app_nil_r, (IH _ _ _ _ Hsr Hdr Er), Hcnt1, Hcnt. reflexivity.
  Qed.

  (* names_unique_one_graph: in one graph, the value names generated for any straight-line sequence of
     calls with default output naming are pairwise distinct, whatever the scopes, the operands and the
     numbers of outputs are *)
  Theorem names_unique_one_graph : forall ins tr,
    straight tr = true -> forallb default_plain_call tr = true ->
    NoDup (flat_map n_outs (snd (build_state cf ins tr))).
  Proof.
    intros ins tr Hs Hd. unfold build_state. rewrite (straight_renames tr Hs).
    destruct (build_calls cf [] tr (init_state ins) 0) as [sf nodes] eqn:Eb. cbn [snd].
    rewrite (build_calls_outputs tr _ _ _ _ Hs Hd Eb).
    apply names_unique_allocs.
    - now apply allocs_plain.
    - rewrite allocs_counts by auto. apply seq_NoDup.
  Qed.
End Unique.

(* ------------------------------------------------------------------ across subgraphs *)
Local Open Scope string_scope.
(* a = op.Add(x, x); If(c, then_branch = subgraph(lambda op: op.Add(a, a))) *)
Definition w_subgraph_trace : list call :=
  [COp [] "" "Add" [OVal 0; OVal 0] [] [] (ODefault 1);
   COp [] "" "If" [OVal 1] []
       [("then_branch", Sub [] [COp [] "" "Add" [OVal 2; OVal 2] [] [] (ODefault 1)] [3] [""])]
       (ODefault 1)].

Definition sub_defs (g : graph) : list string :=
  flat_map (fun n => flat_map (fun kg => flat_map n_outs (g_nodes (snd kg))) (n_subs n)) (g_nodes g).

(* names_unique_across_subgraphs: refuted on the pinned tree (the child builder restarts the counter):
   the then-branch defines v_Add_0 again, which ONNX forbids (wf_graphb rejects the graph); with the
   counter shared by the builder tree the same trace gives distinct names *)
Theorem names_unique_across_subgraphs_refuted :
  let g := build bcfg_pinned ["x"; "c"] w_subgraph_trace [4] in
  In "v_Add_0" (flat_map n_outs (g_nodes g)) /\ In "v_Add_0" (sub_defs g) /\ wf_graphb g = false /\
  wf_graphb (build bcfg_fixed ["x"; "c"] w_subgraph_trace [4]) = true.
Proof. vm_compute. repeat split; auto. Qed.

(* the hypotheses of build_computes_trace are satisfiable: scopes, a literal used twice through the cache,
   explicit and default output names, a two-output call *)
Definition lit2 : lit := Lit "k0" (LNFixed "const_2.0_f32") "float32:():00000040".
Definition ex_trace : list call :=
  [COp [] "" "Add" [OVal 0; OVal 1] [] [] (ODefault 1);
   COp ["enc"] "" "Mul" [OVal 2; OLit lit2] [] [] (ONamed ["t0"]);
   COp ["enc"; "layers.0"] "" "Split" [OVal 3] [("num_outputs", AInt 2%Z)] [] (ODefault 2);
   COp [] "c18.fn" "scaled" [OVal 4; OLit lit2; ONone] [("alpha", AFloat 1056964608%Z)] [] (ODefault 1)].

Example ex_trace_computes : forall V sem truth trip of_nat of_bool lim lit_val cf fuel a b,
  eval_graph V sem truth trip of_nat of_bool lim (S fuel)
             (init_env V lit_val (b_cache (fst (build_state cf ["x"; "y"] ex_trace))))
             (build cf ["x"; "y"] ex_trace [6; 5]) [a; b] =
  replay V sem lit_val ex_trace [a; b] [6; 5].
Proof.
  intros. apply build_computes_trace; try reflexivity.
  - destruct cf as [[|]]; vm_compute; apply nodup_strb_NoDup; reflexivity.
  - assert (E : b_cache (fst (build_state cf ["x"; "y"] ex_trace)) = [("k0", ("const_2.0_f32", lit2))]).
    { destruct cf as [[|]]; reflexivity. }
    rewrite E. repeat constructor; intros n l0 H; vm_compute in H; inversion H; reflexivity.
Qed.

Example ex_trace_graph :
  build bcfg_pinned ["x"; "y"] ex_trace [6; 5] =
  Graph ["x"; "y"] ["const_2.0_f32"]
    [Node "" "Add" [Some "x"; Some "y"] ["v_Add_0"] [] [];
     Node "" "Mul" [Some "v_Add_0"; Some "const_2.0_f32"] ["v_enc.t0"] [] [];
     Node "" "Split" [Some "v_enc.t0"] ["v_enc.layers.0.Split_2_0"; "v_enc.layers.0.Split_2_1"] [("num_outputs", AInt 2%Z)] [];
     Node "c18.fn" "scaled" [Some "v_enc.layers.0.Split_2_0"; Some "const_2.0_f32"; None] ["v_scaled_3"]
          [("alpha", AFloat 1056964608%Z)] []]
    ["v_scaled_3"; "v_enc.layers.0.Split_2_1"].
Proof. reflexivity. Qed.

(* hypotheses of names_unique_one_graph / of the name-injectivity theorems are satisfiable *)
Definition ex_default_trace : list call :=
  [COp ["enc"] "" "Split" [OVal 0] [("num_outputs", AInt 3%Z)] [] (ODefault 3);
   COp ["enc"] "" "Split" [OVal 1] [("num_outputs", AInt 2%Z)] [] (ODefault 2);
   COp [] "" "Add" [OVal 4; OLit lit2] [] [] (ODefault 1);
   COp ["a.b"] "c18.fn" "scaled" [OVal 6] [] [] (ODefault 1)].
Example ex_default_trace_ok :
  straight ex_default_trace = true /\ forallb default_plain_call ex_default_trace = true /\
  flat_map n_outs (snd (build_state bcfg_pinned ["x"] ex_default_trace)) =
  ["v_enc.Split_0_0"; "v_enc.Split_0_1"; "v_enc.Split_0_2"; "v_enc.Split_1_0"; "v_enc.Split_1_1"; "v_Add_2"; "v_a.b.scaled_3"].
Proof. vm_compute. repeat split; reflexivity. Qed.
