(* C19 model: GELU fusions.
     ort_fusions/gelu.py      GeluTanhFusion -> com.microsoft.FastGelu ; GeluErfFusion -> com.microsoft.Gelu
     ort_fusions/erfgelu.py   erf_gelu_pattern_1 / _2 -> com.microsoft.Gelu
     ort_fusions/bias_gelu.py Gelu(Add(input, bias)) -> com.microsoft.BiasGelu
   Scalars: an arbitrary [fops]; erf and tanh abstract; the numeric constants are abstract elements
   (half, one = f1, sqrt2, s2pi = sqrt(2/pi), k = 0.044715): the identities need no relation between them,
   except the FastGelu kernel form which needs C = k * s2pi.  No proofs here. *)
From Coq Require Import List Bool.
Require Import OV.Fusion.Field.
Import ListNotations.

Section Sem.
  Variable F : Type.
  Variable o : fops F.
  Variables erf tanh : F -> F.
  Variables half sqrt2 s2pi k : F.
  Notation "x + y" := (fadd o x y).
  Notation "x * y" := (fmul o x y).
  Notation "x / y" := (fdiv o x y).
  Notation one := (f1 o).

  (* documented functions of the fused operators *)
  Definition gelu_spec (x : F) : F := half * x * (one + erf (x / sqrt2)).                 (* Gelu: 0.5*x*(1+erf(x/sqrt(2))) *)
  Definition fastgelu_spec (x : F) : F := half * x * (one + tanh (s2pi * (x + k * pow o x 3))).
  (* the form the ORT CPU kernel evaluates: x*(0.5 + 0.5*tanh(x*(C*x*x + B))), B = sqrt(2/pi), C = 0.044715*B *)
  Definition fastgelu_kernel (B C : F) (x : F) : F := x * (half + half * tanh (x * (C * x * x + B))).

  (* gelu.py GeluErfFusion.pattern: t1 = x / sqrt2; t2 = Erf(t1); t3 = t2 + 1; t4 = x * t3; t4 * 0.5 *)
  Definition gelu_erf_pattern (x : F) : F := (x * (erf (x / sqrt2) + one)) * half.
  (* erfgelu.py: 0.5 * (x * (Erf(x / sqrt2) + 1.0))   and   x * (0.5 * (Erf(x / sqrt2) + 1.0)) *)
  Definition erf_gelu_pattern_1 (x : F) : F := half * (x * (erf (x / sqrt2) + one)).
  Definition erf_gelu_pattern_2 (x : F) : F := x * (half * (erf (x / sqrt2) + one)).
  (* gelu.py GeluTanhFusion.pattern: t1 = x^3; t2 = k*t1; t3 = x + t2; t4 = s2pi*t3; t5 = tanh t4; t6 = t5 + 1;
     t7 = 0.5 * t6; x * t7 *)
  Definition gelu_tanh_pattern (x : F) : F := x * (half * (tanh (s2pi * (x + k * pow o x 3)) + one)).

  (* --- BiasGelu, on one row of the input (its last axis) and a rank-1 bias.
     ONNX (multidirectional) broadcasting of Add along that axis: *)
  Definition badd (row bias : list F) : option (list F) :=
    if Nat.eqb (length row) (length bias) then Some (map2 (fadd o) row bias)
    else match row, bias with
         | [a], _ => Some (map (fun b => a + b) bias)
         | _, [b] => Some (map (fun a => a + b) row)
         | _, _ => None
         end.
  Definition bias_gelu_pattern (row bias : list F) : option (list F) :=
    match badd row bias with Some s => Some (map gelu_spec s) | None => None end.
  (* com.microsoft.BiasGelu: "bias: 1D, size must equal the last dimension of the input" (kernel: INVALID_ARGUMENT otherwise) *)
  Definition bias_gelu_fused (row bias : list F) : option (list F) :=
    if Nat.eqb (length row) (length bias) then Some (map gelu_spec (map2 (fadd o) row bias)) else None.
End Sem.

(* BiasGeluFusion.check (since fix 08...: the last-dimension test; before it only approximate and the rank of bias):
     approximate == "tanh" -> fail;  bias not known to be 1-D -> fail;
     input shape unknown or rank 0 -> fail;  input.shape[-1] and bias.shape[0] not provably equal -> fail.
   Shapes: None = unknown; dims are integers (the harness encodes a named symbolic dim as a distinct negative number,
   an unnamed one is never generated). *)
From Coq Require Import ZArith.
Inductive approx := ApproxAbsent | ApproxNone | ApproxTanh.
Definition bias_gelu_check_old (a : approx) (bias_shape : option (list Z)) : bool :=
  match a with ApproxTanh => false | _ => match bias_shape with Some [_] => true | _ => false end end.
Definition bias_gelu_check (a : approx) (bias_shape input_shape : option (list Z)) : bool :=
  bias_gelu_check_old a bias_shape &&
  match bias_shape, input_shape with
  | Some [b], Some ish => match rev ish with last :: _ => Z.eqb last b | [] => false end
  | _, _ => false
  end.

Definition bias_gelu_case := (approx * option (list Z) * option (list Z) * bool)%type.
Definition bias_gelu_agrees (c : bias_gelu_case) : bool :=
  let '(a, b, i, obs) := c in Bool.eqb (bias_gelu_check a b i) obs.
