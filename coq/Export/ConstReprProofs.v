(* Proofs about Export/ConstRepr.v: an inlined literal denotes a tensor of the same shape, payload and type. *)
From Coq Require Import List ZArith Bool Arith Lia.
Import ListNotations.
Require Import OV.Export.ConstRepr.

Theorem const_repr_preserves : forall ht d dims data l,
  wf_tensor dims data -> const_repr ht d dims data = Some l ->
  literal_dims l = dims /\ literal_data l = data /\ literal_dtype l = d.
Proof.
  intros ht d dims data l Hwf H. unfold const_repr in H.
  destruct (ht && inlinable_dtype d); [|discriminate].
  destruct dims as [|n [|m rest]].
  - destruct data as [|x [|y t]]; try discriminate.
    injection H as H. subst. simpl. auto.
  - destruct (n <? 5); [|discriminate]. injection H as H. subst. simpl.
    unfold wf_tensor, numel in Hwf. simpl in Hwf. rewrite Nat.mul_1_r in Hwf. rewrite Hwf. auto.
  - discriminate.
Qed.

(* only tensors of rank 0 or 1 with fewer than 5 elements, of type FLOAT or INT64, are inlined *)
Theorem const_repr_domain : forall ht d dims data l,
  const_repr ht d dims data = Some l ->
  ht = true /\ d <> OTHER /\ (dims = [] \/ exists n, dims = [n] /\ n < 5).
Proof.
  intros ht d dims data l H. unfold const_repr in H.
  destruct ht; [|discriminate]. destruct d; simpl in H; try discriminate;
  (split; [reflexivity|]; split; [discriminate|]);
  (destruct dims as [|n [|m rest]]; [left; reflexivity | | discriminate];
   right; exists n; split; [reflexivity|]; destruct (n <? 5) eqn:E; [apply Nat.ltb_lt; exact E|discriminate]).
Qed.

(* the rule distinguishes a one-element vector from a scalar *)
Theorem const_repr_keeps_rank_of_singleton : forall d x,
  d <> OTHER ->
  const_repr true d [1] [x] = Some (LList d [x]) /\ const_repr true d [] [x] = Some (LScalar d x) /\
  literal_dims (LList d [x]) <> literal_dims (LScalar d x).
Proof. intros d x H. destruct d; try congruence; simpl; repeat split; discriminate. Qed.

(* ---- the repaired rule ---------------------------------------------------------------------------------- *)
Theorem const_repr_fx_as_read : forall ht d dims data, const_repr_fx false false ht d dims data = const_repr ht d dims data.
Proof. intros. unfold const_repr_fx. destruct (const_repr ht d dims data); reflexivity. Qed.

(* whatever the repaired rule inlines, the rule as read inlines identically: every theorem about const_repr applies *)
Theorem const_repr_fx_sub : forall fin ne ht d dims data l,
  const_repr_fx fin ne ht d dims data = Some l -> const_repr ht d dims data = Some l.
Proof.
  intros fin ne ht d dims data l H. unfold const_repr_fx in H. destruct (const_repr ht d dims data) as [l0|]; [|discriminate].
  destruct (fin && has_nonfinite d (literal_data l0)); [discriminate|].
  destruct (ne && match l0 with LList _ [] => true | _ => false end); [discriminate|]. exact H.
Qed.

(* with both repairs: the literal has no nan / inf element and is not the empty list *)
Theorem const_repr_fx_printable : forall ht d dims data l,
  const_repr_fx true true ht d dims data = Some l ->
  has_nonfinite d (literal_data l) = false /\ (forall e, l <> LList e []).
Proof.
  intros ht d dims data l H. unfold const_repr_fx in H. destruct (const_repr ht d dims data) as [l0|]; [|discriminate].
  cbn [andb] in H. destruct (has_nonfinite d (literal_data l0)) eqn:E1; [discriminate|].
  destruct l0 as [e x|e [|x xs]]; try discriminate; inversion H; subst; (split; [exact E1|intros e' C; discriminate C]).
Qed.

(* as read, the rule inlines nan (printed as the bare name `nan`) and the empty vector (printed `[]`) *)
Theorem const_repr_unprintable_refuted :
  const_repr true FLOAT [] [2143289344%Z] = Some (LScalar FLOAT 2143289344%Z) /\ has_nonfinite FLOAT [2143289344%Z] = true /\
  const_repr true FLOAT [0] [] = Some (LList FLOAT []) /\
  const_repr_fx true true true FLOAT [] [2143289344%Z] = None /\ const_repr_fx true true true FLOAT [0] [] = None.
Proof. vm_compute. repeat split. Qed.
