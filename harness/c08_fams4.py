"""C08 helper: the fourth group of modelled torch_lib functions (coq/Torch/IndexModel.v, Misc4.v; checked through coq/Torch/Check3.v):
aten_index / aten_index_put with integer index tensors, aten_baddbmm alpha-beta handling, aten_embedding, native_layer_norm statistics shapes."""
from __future__ import annotations

import math

import numpy as np

from harness.c08_exec import spec
from harness.c08_fams import Fam, arr, b, flat_ints, llz, lz, numel, z
from harness.c08_fams3 import r3shape
from harness.c08_gen import rand_shape, tensor


def sh(t):
    return list(t["shape"])


def mask_lit(indices):
    return "[" + "; ".join("true" if i is not None else "false" for i in indices) + "]"


def _proj(sk):
    """index / index_put: the nodes that carry the axis bookkeeping (the Shape / Max / Expand / Concat plumbing of the index tensors is left out)"""
    return [(o, ints) for o, ints in sk if o in ("Transpose", "Gather", "GatherND", "ScatterND") or (o == "Unsqueeze" and ints != [[-1]])]


# ----------------------------------------------------------------------------- generators

def _index_args(rng, i, unique_first=False):
    r = rng.choice([1, 2, 2, 3, 3, 4])
    s = [rng.randint(2, 4) for _ in range(r)]
    k = rng.choice([1, 1, 2, 2, 3]) if r >= 3 else rng.choice([1, 1, 2][:r + 1 if r < 2 else 3])
    k = min(k, r)
    pos = sorted(rng.sample(range(r), k))
    if i % 4 == 0 and r >= 3 and k >= 2:
        pos = [0, r - 1] + pos[2:] if k > 2 else [0, r - 1]                  # index tensors that are not adjacent
        pos = sorted(set(pos))
    last = pos[-1]
    bshape = [] if i % 7 == 3 else [rng.randint(1, 3) for _ in range(rng.choice([1, 1, 2]))]
    if unique_first:
        bshape = [rng.randint(1, s[pos[0]])]
    indices = []
    for p in range(last + 1):
        if p not in pos:
            indices.append(None)
            continue
        n = s[p]
        ish = list(bshape)
        if p != pos[0] and ish and rng.random() < 0.4:
            ish = ish[1:] if rng.random() < 0.5 else [1] + ish[1:]            # broadcast against the others
        cnt = numel(ish)
        if unique_first and p == pos[0]:
            data = rng.sample(range(n), cnt)
        else:
            data = [rng.randint(-n, n - 1) for _ in range(cnt)]
        indices.append(spec("int64", ish, data))
    if rng.random() < 0.3:
        indices += [None] * rng.randint(0, r - len(indices))                 # explicit trailing None
    return s, pos, bshape, indices


def gen_index(rng, n):
    for i in range(n):
        s, pos, bshape, indices = _index_args(rng, i)
        yield [tensor(rng, s, "float32", kind="iota"), indices], {}


def gen_index_put(rng, n):
    for i in range(n):
        acc = i % 2 == 0
        s, pos, bshape, indices = _index_args(rng, i, unique_first=not acc)
        k = len(pos)
        contiguous = pos == list(range(pos[0], pos[0] + k))
        bs = list(np.broadcast_shapes(*[tuple(sh(t)) for t in indices if t is not None]))
        rest = [s[p] for p in range(len(s)) if p not in pos]
        v = (s[:pos[0]] + bs + s[pos[-1] + 1:]) if contiguous else (bs + rest)
        cut = rng.randint(0, len(v)) if i % 3 == 0 else 0
        vs = [(1 if rng.random() < 0.25 else e) for e in v[cut:]]
        yield [tensor(rng, s, "float32", kind="rand"), indices, tensor(rng, vs, "float32", kind="iota"), acc], {}


def gen_baddbmm(rng, n):
    for i in range(n):
        bsz, p, q, r = rng.randint(1, 2), rng.randint(1, 3), rng.randint(1, 3), rng.randint(1, 3)
        beta = [1, 0, 2, -1, 0, 3][i % 6]
        alpha = [1, 2, 1, -3, 1, 0][i % 6]
        self_sh = [[bsz, p, r], [p, r], [r], [1, 1, r]][i % 4]
        x = tensor(rng, self_sh, "float32", kind="rand")
        if i % 6 == 4:
            x["data"][0] = float("nan")                                       # beta = 0 with a non-finite self
        if i % 12 == 7:
            x["data"][-1] = float("inf")
        yield [x, tensor(rng, [bsz, p, q], "float32", kind="rand"), tensor(rng, [bsz, q, r], "float32", kind="rand")], {"beta": beta, "alpha": alpha}


def gen_embedding(rng, n):
    for i in range(n):
        rows, width = rng.randint(1, 6), rng.randint(1, 4)
        ish = rand_shape(rng, max_rank=2, allow_zero=(i % 5 == 0))
        idx = spec("int64", ish, [rng.randrange(rows) for _ in range(numel(ish))])
        yield [tensor(rng, [rows, width], "float32", kind="iota"), idx], {}


def gen_layer_norm(rng, n):
    for i in range(n):
        s = rand_shape(rng, allow_zero=False, min_rank=1)
        k = rng.randint(1, len(s))
        nm = s[len(s) - k:]
        x = tensor(rng, s, "float32", kind="rand")
        yield [x, nm, tensor(rng, nm, "float32", kind="rand"), tensor(rng, nm, "float32", kind="rand"), 1e-5], {}


# ----------------------------------------------------------------------------- families

def build(torch):
    A = torch.ops.aten
    F = []

    def idx_shapes(a):
        return llz([sh(t) for t in a[1] if t is not None])

    F.append(Fam("index", "aten_index", lambda x, idx: A.index(x, idx), gen_index,
                 lambda a, k: f"(CIndex {mask_lit(a[1])} {lz(sh(a[0]))} {idx_shapes(a)})", lambda a, k, out: r3shape(out),
                 lambda a, k: (len(sh(a[0])), mask_lit(a[1])), chk=3, quick=70, thorough=700,
                 floors={"two or more index tensors": (lambda a, k: sum(t is not None for t in a[1]) >= 2, 12),
                         "index tensors not adjacent": (lambda a, k: "true; false; true" in mask_lit(a[1]) or "true; false; false; true" in mask_lit(a[1]), 4),
                         "leading None": (lambda a, k: a[1][0] is None, 10),
                         "index tensors of different shapes": (lambda a, k: len({tuple(sh(t)) for t in a[1] if t is not None}) >= 2, 4)}))
    F[-1].finding = lambda a, k, want, desc: None
    F[-1].skel_filter = _proj
    F.append(Fam("index_put", "aten_index_put", lambda x, idx, v, acc: A.index_put(x, idx, v, acc), gen_index_put,
                 lambda a, k: f"(CIndexPut {mask_lit(a[1])} {lz(sh(a[0]))} {idx_shapes(a)} {len(sh(a[2]))})", lambda a, k, out: r3shape(out),
                 lambda a, k: (len(sh(a[0])), mask_lit(a[1]), a[3], len(sh(a[2]))), chk=3, quick=70, thorough=700,
                 floors={"accumulate": (lambda a, k: a[3], 15), "two or more index tensors": (lambda a, k: sum(t is not None for t in a[1]) >= 2, 10),
                         "values of lower rank": (lambda a, k: len(sh(a[2])) < len(sh(a[0])), 8), "leading None": (lambda a, k: a[1][0] is None, 8)}))
    F[-1].finding = lambda a, k, want, desc: None
    F[-1].skel_filter = _proj

    def xv(v):
        v = float(v)
        return "XNaN" if (v != v or math.isinf(v)) else f"(XFin {z(int(v))})"

    def bad_call(a, k):
        x, b1, b2 = arr(a[0]), arr(a[1]), arr(a[2])
        mm = np.matmul(b1.astype(np.float64), b2.astype(np.float64))
        xs = np.broadcast_to(x, mm.shape)
        return (f"(CBaddbmm {{F1}} {z(k['beta'])} {z(k['alpha'])} [" + "; ".join(xv(v) for v in xs.reshape(-1).tolist()) + "] ["
                + "; ".join(xv(v) for v in mm.reshape(-1).tolist()) + "])")

    def bad_res(a, k, out):
        o = np.asarray(out, dtype=np.float64).reshape(-1).tolist()
        return "(R3ShapeData [] " + lz([-999999 if (v != v or math.isinf(v)) else int(v) for v in o]) + ")"

    F.append(Fam("baddbmm", "aten_baddbmm", lambda s, b1, b2, beta=1, alpha=1: torch.baddbmm(s, b1, b2, beta=beta, alpha=alpha), gen_baddbmm,
                 bad_call, bad_res, lambda a, k: (len(sh(a[0])), k["beta"], k["alpha"]), chk=3, quick=36, thorough=360,
                 floors={"beta 0": (lambda a, k: k["beta"] == 0, 2), "alpha not 1": (lambda a, k: k["alpha"] != 1, 8)}))
    F[-1].finding = lambda a, k, want, desc: ("beta-zero-non-finite-self" if k["beta"] == 0 and any(v != v or math.isinf(v) for v in a[0]["data"]) else None)
    F[-1].flags = lambda a, k, ops, sk=None: (k["beta"] == 0 and "Add" not in ops, False)

    F.append(Fam("embedding", "aten_embedding", lambda w, i: A.embedding(w, i), gen_embedding,
                 lambda a, k: f"(CEmbedding {llz([flat_ints(r) for r in arr(a[0])])} {lz(a[1]['data'])})",
                 lambda a, k, out: "(R3ShapeData [] " + lz(flat_ints(out)) + ")", lambda a, k: (len(sh(a[1])), numel(sh(a[1])) == 0),
                 chk=3, quick=24, thorough=240))
    F[-1].finding = lambda a, k, want, desc: None

    F.append(Fam("native_layer_norm", "aten_native_layer_norm", lambda x, nm, w, bb, eps: list(A.native_layer_norm(x, nm, w, bb, eps)), gen_layer_norm,
                 lambda a, k: f"(CLayerNormStats {lz(sh(a[0]))} {lz(a[1])})", lambda a, k, out: r3shape(out[1]),
                 lambda a, k: (len(sh(a[0])), len(a[1])), chk=3, quick=24, thorough=240,
                 floors={"every dimension normalised": (lambda a, k: len(a[1]) == len(sh(a[0])), 2)}))
    F[-1].finding = lambda a, k, want, desc: None
    F[-1].shape_only = True
    return F
