(* Proofs about Export/Unique.v: the Python names handed out by the unique-name wrapper are pairwise distinct for
   distinct ONNX names, every ONNX name keeps the name it got, and the names are valid Python identifiers that are not
   keywords whenever the wrapped renamer produces such names (the clean-up does: Export/CleanupProofs.v). *)
From Coq Require Import List String Ascii Bool Arith Lia.
Require Import OV.Export.Cleanup OV.Export.CleanupProofs OV.Export.Unique.
Import ListNotations.
Local Open Scope string_scope.

Lemma fresh_from_spec : forall fuel proposed used c y,
  fresh_from fuel proposed used c = Some y -> ~ In y used /\ exists k, y = suffixed proposed k.
Proof.
  induction fuel as [|f IH]; intros proposed used c y H; [discriminate|]. cbn [fresh_from] in H.
  destruct (memb (suffixed proposed c) used) eqn:E.
  - apply (IH _ _ _ _ H).
  - inversion H; subst y. split; [apply memb_false_In; exact E|]. exists c. reflexivity.
Qed.

Lemma uniq_one_spec : forall proposed used y, uniq_one proposed used = Some y ->
  ~ In y used /\ (y = proposed \/ exists k, y = suffixed proposed k).
Proof.
  intros proposed used y H. unfold uniq_one in H. destruct (memb proposed used) eqn:E.
  - destruct (fresh_from_spec _ _ _ _ _ H) as [A B]. split; [exact A|right; exact B].
  - inversion H; subst y. split; [apply memb_false_In; exact E|left; reflexivity].
Qed.

Lemma amem_In : forall x m, amem x m = true <-> In x (map fst m).
Proof.
  induction m as [|[k v] t IH]; cbn [amem map fst]; [split; [discriminate|contradiction]|].
  rewrite orb_true_iff, IH. split.
  - intros [H|H]; [left; symmetry; apply String.eqb_eq; exact H|right; exact H].
  - intros [H|H]; [left; apply String.eqb_eq; symmetry; exact H|right; exact H].
Qed.

Lemma nodup_snd_inj : forall (m : list (string * string)), NoDup (map snd m) -> forall a b y, In (a, y) m -> In (b, y) m -> a = b.
Proof.
  induction m as [|[k v] t IH]; intros B a b y Ha Hb; [contradiction|]. cbn [map snd] in B. inversion B; subst.
  destruct Ha as [Ha|Ha]; destruct Hb as [Hb|Hb].
  - inversion Ha; inversion Hb; subst; reflexivity.
  - inversion Ha; subst. exfalso. apply H1. apply in_map_iff. exists (b, y). split; [reflexivity|exact Hb].
  - inversion Hb; subst. exfalso. apply H1. apply in_map_iff. exists (a, y). split; [reflexivity|exact Ha].
  - apply (IH H2 a b y Ha Hb).
Qed.
Lemma nodup_fst_fun : forall (m : list (string * string)), NoDup (map fst m) -> forall a y z, In (a, y) m -> In (a, z) m -> y = z.
Proof.
  induction m as [|[k v] t IH]; intros A a y z Ha Hb; [contradiction|]. cbn [map fst] in A. inversion A; subst.
  destruct Ha as [Ha|Ha]; destruct Hb as [Hb|Hb].
  - inversion Ha; inversion Hb; subst; reflexivity.
  - inversion Ha; subst. exfalso. apply H1. apply in_map_iff. exists (a, z). split; [reflexivity|exact Hb].
  - inversion Hb; subst. exfalso. apply H1. apply in_map_iff. exists (a, y). split; [reflexivity|exact Ha].
  - apply (IH H2 a y z Ha Hb).
Qed.

Section UniqueProofs.
  Variable base : string -> string.

  (* the state of the wrapper: no ONNX name twice, no Python name twice, every Python name handed out is in `used` *)
  Definition wf_state (assigned : list (string * string)) (used : list string) : Prop :=
    NoDup (map fst assigned) /\ NoDup (map snd assigned) /\ (forall y, In y (map snd assigned) -> In y used).

  Lemma uniq_go_wf : forall seq assigned used m,
    wf_state assigned used -> uniq_go base seq assigned used = Some m ->
    NoDup (map fst m) /\ NoDup (map snd m) /\
    (forall p, In p assigned -> In p m) /\ (forall x, In x seq -> In x (map fst m)) /\
    (forall x y, In (x, y) m -> In (x, y) assigned \/ y = base x \/ exists k, y = suffixed (base x) k).
  Proof.
    induction seq as [|x t IH]; intros assigned used m (W1 & W2 & W3) H; cbn [uniq_go] in H.
    - inversion H; subst m. repeat split; try assumption; [tauto|contradiction|]. intros a b Hab. left. exact Hab.
    - destruct (amem x assigned) eqn:Ea.
      + destruct (IH assigned used m (conj W1 (conj W2 W3)) H) as (A & B & C & D & E). repeat split; try assumption.
        intros z [<-|Hz]; [|apply D; exact Hz]. apply amem_In in Ea. apply in_map_iff in Ea. destruct Ea as ([k v] & Ek & Hin).
        cbn [fst] in Ek. subst k. apply in_map_iff. exists (x, v). split; [reflexivity|apply C; exact Hin].
      + destruct (uniq_one (base x) used) as [y|] eqn:Eu; [|discriminate].
        destruct (uniq_one_spec _ _ _ Eu) as [Hfresh Hshape].
        assert (W' : wf_state ((x, y) :: assigned) (y :: used)).
        { repeat split; cbn [map fst snd].
          - constructor; [|exact W1]. intros C. apply amem_In in C. rewrite Ea in C. discriminate.
          - constructor; [|exact W2]. intros C. apply Hfresh. apply W3. exact C.
          - intros z [<-|Hz]; [left; reflexivity|right; apply W3; exact Hz]. }
        destruct (IH _ _ m W' H) as (A & B & C & D & E). repeat split; try assumption.
        * intros p Hp. apply C. right. exact Hp.
        * intros z [<-|Hz]; [|apply D; exact Hz]. apply in_map_iff. exists (x, y). split; [reflexivity|apply C; left; reflexivity].
        * intros a b Hab. destruct (E a b Hab) as [[Heq|Hin]|Hr]; [|left; exact Hin|right; exact Hr].
          inversion Heq; subst a b. right. exact Hshape.
  Qed.

  (* distinct ONNX names never share a Python name, and one ONNX name has one Python name *)
  Theorem uniq_map_injective : forall seq m, uniq_map base seq = Some m ->
    (forall a b y, In (a, y) m -> In (b, y) m -> a = b) /\ (forall a y z, In (a, y) m -> In (a, z) m -> y = z) /\
    (forall x, In x seq -> exists y, In (x, y) m).
  Proof.
    intros seq m H. unfold uniq_map in H.
    destruct (uniq_go_wf seq [] [] m) as (A & B & _ & D & _); [repeat split; try constructor; contradiction|exact H|].
    split; [exact (nodup_snd_inj m B)|split; [exact (nodup_fst_fun m A)|]].
    intros x Hx. specialize (D x Hx). apply in_map_iff in D. destruct D as ([k v] & Ek & Hin). cbn [fst] in Ek. subst k. exists v. exact Hin.
  Qed.

  (* every name handed out is the base name or the base name with `_<digits>` appended *)
  Theorem uniq_map_shape : forall seq m x y, uniq_map base seq = Some m -> In (x, y) m ->
    y = base x \/ exists k, y = suffixed (base x) k.
  Proof.
    intros seq m x y H Hin. unfold uniq_map in H.
    destruct (uniq_go_wf seq [] [] m) as (_ & _ & _ & _ & E); [repeat split; try constructor; contradiction|exact H|].
    destruct (E x y Hin) as [[]|Hr]. exact Hr.
  Qed.
End UniqueProofs.

(* ---- identifiers ------------------------------------------------------------------------------------------ *)
Lemma sall_app : forall p a b, sall p (a ++ b) = sall p a && sall p b.
Proof. induction a as [|c r IH]; intros b; cbn [sall append]; [reflexivity|]. rewrite IH, andb_assoc. reflexivity. Qed.

Lemma digit_alnum : forall c, is_digit c = true -> is_alnum c || is_us c = true.
Proof. intros c H. unfold is_alnum. rewrite H, orb_true_r. reflexivity. Qed.

Section Identifiers.
  Variable kw : list string.
  Hypothesis Hkw : kw_wf kw = true.

  Lemma suffixed_pyname : forall s k, pynameb kw s = true -> pynameb kw (suffixed s k) = true.
  Proof.
    intros s k H. unfold pynameb in *. apply andb_true_iff in H. destruct H as [Hid _]. apply andb_true_iff. split.
    - destruct s as [|c r]; [discriminate|]. unfold suffixed. cbn [append identb] in *. apply andb_true_iff in Hid. destruct Hid as [H1 H2].
      rewrite H1. cbn [andb]. rewrite sall_app, H2. cbn [andb append sall]. replace (is_alnum "_"%char || is_us "_"%char) with true by reflexivity. cbn [andb].
      apply (sall_impl is_digit); [apply digit_alnum|]. apply string_of_uint_digits.
    - apply negb_true_iff. destruct (memb (suffixed s k) kw) eqn:E; [|reflexivity].
      destruct (kw_member_alpha kw Hkw _ E) as [_ Hal]. unfold suffixed in Hal. rewrite sall_app in Hal.
      apply andb_true_iff in Hal. destruct Hal as [_ Hal]. cbn [append sall] in Hal. replace (is_alpha "_"%char) with false in Hal by reflexivity. discriminate.
  Qed.

  (* the wrapper keeps names usable as Python variables *)
  Theorem uniq_map_pynames : forall base seq m, (forall x, In x seq -> pynameb kw (base x) = true) ->
    uniq_map base seq = Some m -> forall x y, In x seq -> In (x, y) m -> pynameb kw y = true.
  Proof.
    intros base seq m Hb H x y Hx Hin. destruct (uniq_map_shape base seq m x y H Hin) as [->|[k ->]].
    - apply Hb. exact Hx.
    - apply suffixed_pyname. apply Hb. exact Hx.
  Qed.

  (* with the exporter's clean-up as the wrapped renamer: for every sequence of non-empty names *)
  Corollary uniq_cleanup_pynames : forall seq m, ~ In "" seq -> uniq_map (cleanup kw) seq = Some m ->
    forall x y, In x seq -> In (x, y) m -> pynameb kw y = true.
  Proof.
    intros seq m Hne H. apply (uniq_map_pynames (cleanup kw) seq m); [|exact H].
    intros x Hx. apply (cleanup_valid_identifier kw Hkw). intros C. subst x. contradiction.
  Qed.
End Identifiers.

(* the witness of the clean-up's non-injectivity, through the wrapper: a.b and a_b get distinct names *)
Example uniq_example : uniq_names ["a.b"; "a_b"; "x"] ["a_b"; "a_b"; "x"] = Some ["a_b"; "a_b_0"; "x"].
Proof. vm_compute. reflexivity. Qed.

Require Import OV.Gen.ExportTables.
Lemma kwlist_wf : kw_wf kwlist = true.
Proof. vm_compute. reflexivity. Qed.

(* with the keyword table of the source *)
Theorem uniq_cleanup_pynames_kwlist : forall seq m, ~ In "" seq -> uniq_map (cleanup kwlist) seq = Some m ->
  forall x y, In x seq -> In (x, y) m -> pynameb kwlist y = true.
Proof. exact (uniq_cleanup_pynames kwlist kwlist_wf). Qed.
