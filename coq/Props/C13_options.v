(* C13 property theorems about the MEANING of the structure-changing export options (partial).  Statements only.
   What the options print is modelled by Export/EmitCF.v `export_cf` and compared with the real exporter on the AST
   (harness/c13_cf.py); here: what the printed forms denote in Script/PySem.v.
   NOT proved: a round-trip theorem for whole programs exported with these options (the soundness theorem of
   Props/C13_nested.v has the options off); FLOAT vector literals (Script.Syntax has no literal for them);
   skip_initializers: a parameter of the enclosing make_model is a Python closure variable holding a tensor, and
   Script/PySem.v has no tensor-valued globals (its globals are literals), so "the parameter denotes the initializer"
   cannot be stated in that semantics -- the emitted structure is compared, the value is observed by the round-trip
   oracle through make_model(<initializer values>). *)
From Coq Require Import List String ZArith Bool.
Import ListNotations.
Require Import OV.Gen.ExportTables OV.Gen.ScriptTables OV.Graph.Syntax OV.Script.Syntax OV.Script.Translate OV.Script.PySem
               OV.Export.EmitCF OV.Export.EmitCFProofs.
Local Open Scope string_scope.

(* the full statement for inline_const, every literal kind: kept visible *)
Definition C13_inline_literal_denotes_full : Prop :=
  forall (V : Type) sem globals fx a l v (pe : penv V),
    const_lit_fx fx a = Some l -> sem "" "Constant" [("value", a)] [] = Some [v] ->
    option_map (tensor_of V) (eval_expr V sem globals pe (ilit_expr l)) = Some v.

(* inline_const with the non-finite repair: the literal printed for an inlined INT64 scalar, finite FLOAT scalar or
   INT64 vector evaluates to the tensor of the dropped Constant; premise: the byte encoding of the attribute and the
   value encoding of the script literal denote the same tensor *)
Theorem C13_inline_literal_denotes_partial :
  forall (V : Type) sem globals fx a l sl v (pe : penv V),
    fx_finite fx = true -> const_lit_fx fx a = Some l -> script_lit l = Some sl ->
    sem "" "Constant" [("value", lit_attr sl)] [] = sem "" "Constant" [("value", a)] [] ->
    sem "" "Constant" [("value", a)] [] = Some [v] ->
    eval_expr V sem globals pe (ilit_expr l) = Some (PS V sl v).
Proof. exact inline_literal_denotes. Qed.
Print Assumptions C13_inline_literal_denotes_partial.

(* use_operators: `a <op> b` evaluates to the call of the ONNX operator the converter's table gives for <op> ... *)
Theorem C13_operator_expression_denotes_call :
  forall (V : Type) sem globals cls opname a b (pe : penv V) va vb,
    lookup_assoc cls primop_map = Some opname -> String.eqb cls "Mod" = false ->
    eval_expr V sem globals pe a = Some va -> eval_expr V sem globals pe b = Some vb -> is_scalar V va && is_scalar V vb = false ->
    eval_expr V sem globals pe (EBin cls a b) = eval_expr V sem globals pe (ECall (COp opname) [Some a; Some b] []).
Proof. exact binop_denotes_call. Qed.
Print Assumptions C13_operator_expression_denotes_call.

Theorem C13_comparison_expression_denotes_call :
  forall (V : Type) sem globals cls opname a b (pe : penv V) va vb,
    lookup_assoc cls primop_map = Some opname -> String.eqb opname "NotEqual" = false ->
    eval_expr V sem globals pe a = Some va -> eval_expr V sem globals pe b = Some vb -> is_scalar V va && is_scalar V vb = false ->
    eval_expr V sem globals pe (ECmp cls a b) = eval_expr V sem globals pe (ECall (COp opname) [Some a; Some b] []).
Proof. exact cmpop_denotes_call. Qed.
Print Assumptions C13_comparison_expression_denotes_call.

(* ... and for every entry of the exporter's operator table (regenerated from the source) that operator is the entry's
   own one, except the dead entry "Lesser" (no ONNX operator of that name: it never fires) *)
Theorem C13_operator_table_reads_back : forallb operator_entry_okb use_operators_table = true.
Proof. exact operator_table_reads_back. Qed.
Print Assumptions C13_operator_table_reads_back.
