(* C08 -- view-like operators and reductions: the shape produced by the emitted ONNX operators equals
   PyTorch's result shape, for every rank and extent (these operators do not move data in row-major order,
   or move it by the same kernel once perm / axes / repeats agree). *)
From Coq Require Import ZArith List Bool Lia ZifyBool.
Require Import OV.Torch.Onnx OV.Torch.Spec OV.Torch.Aten OV.Torch.Lemmas.
Import ListNotations.
Local Open Scope Z_scope.

Definition shape_ok (s : list Z) : Prop := Forall (fun d => 0 <= d) s.
Definition shape_pos (s : list Z) : Prop := Forall (fun d => 0 < d) s.

(* ------------------------------------------------------------------ has / In *)
Lemma has_In : forall v l, has v l = true <-> In v l.
Proof.
  intros v l. unfold has. rewrite existsb_exists. split.
  - intros [x [Hx He]]. apply Z.eqb_eq in He. subst. assumption.
  - intro H. exists v. split; [assumption | apply Z.eqb_refl].
Qed.
Lemma has_false : forall v l, has v l = false <-> ~ In v l.
Proof. intros. rewrite <- has_In. destruct (has v l); split; congruence. Qed.

Lemma filter_id : forall (f : Z -> bool) l, (forall x, In x l -> f x = true) -> filter f l = l.
Proof.
  induction l; intro H; [reflexivity|]. cbn. rewrite (H a (or_introl eq_refl)). f_equal. apply IHl. intros; apply H; right; assumption.
Qed.
Lemma map_id_on : forall (f : Z -> Z) l, (forall x, In x l -> f x = x) -> map f l = l.
Proof.
  induction l; intro H; [reflexivity|]. cbn. rewrite (H a (or_introl eq_refl)). f_equal. apply IHl. intros; apply H; right; assumption.
Qed.
Lemma existsb_false : forall (f : Z -> bool) l, (forall x, In x l -> f x = false) -> existsb f l = false.
Proof.
  induction l; intro H; [reflexivity|]. cbn. rewrite (H a (or_introl eq_refl)). apply IHl. intros; apply H; right; assumption.
Qed.

(* ------------------------------------------------------------------ squeeze.dim / unsqueeze *)
Lemma remove_at_none : forall s i d, d < i -> remove_at s i [d] = s.
Proof.
  induction s as [|x s IH]; intros i d H; [reflexivity|].
  cbn [remove_at has existsb]. replace (i =? d) with false by lia. cbn [orb]. f_equal. apply IH. lia.
Qed.

Lemma remove_at_single : forall s i d, 0 <= d - i < zlen s ->
  remove_at s i [d] = take (d - i) s ++ drop (d - i + 1) s.
Proof.
  induction s as [|x s IH]; intros i d H; [rewrite zlen_nil in H; lia|].
  cbn [remove_at has existsb]. rewrite zlen_cons in H.
  destruct (i =? d) eqn:E; cbn [orb].
  - assert (d = i) by lia. subst d. rewrite remove_at_none by lia.
    replace (i - i) with 0 by lia. reflexivity.
  - rewrite (IH (i + 1) d) by lia.
    replace (d - (i + 1)) with (d - i - 1) by lia.
    unfold take, drop.
    replace (Z.to_nat (d - i)) with (S (Z.to_nat (d - i - 1))) by lia.
    replace (Z.to_nat (d - i + 1)) with (S (Z.to_nat (d - i - 1 + 1))) by lia.
    reflexivity.
Qed.

Lemma squeeze_dim_correct : forall s dim,
  (zlen s = 0 \/ exists d, wrap_dim (zlen s) dim = Some d /\ nthZ s d = Some 1) ->
  wrap_dim (zlen s) dim <> None ->
  aten_squeeze_dim s dim = torch_squeeze_dim s dim.
Proof.
  intros s dim H Hw. unfold aten_squeeze_dim, torch_squeeze_dim.
  destruct (zlen s =? 0) eqn:E.
  - destruct s; [|rewrite zlen_cons in E; pose proof (zlen_nonneg _ s); lia].
    destruct (wrap_dim (zlen []) dim) eqn:Ew; [|congruence]. cbn [obind].
    unfold nthZ. destruct (z <? 0); [reflexivity|]. destruct (Z.to_nat z); reflexivity.
  - destruct H as [H | [d [Hd Hn]]]; [lia|].
    rewrite Hd. cbn [obind]. rewrite Hn.
    pose proof (zlen_nonneg _ s). rewrite wrap_dim_norm_axis in Hd by lia.
    unfold squeeze_axes. cbn [omap_all]. rewrite Hd. cbn [obind forallb]. rewrite Hn. cbn [andb].
    pose proof (norm_axis_range _ _ _ Hd) as [Hr _].
    rewrite (remove_at_single s 0 d) by lia. replace (d - 0) with d by lia. reflexivity.
Qed.

Lemma insert_ones_none : forall (fuel : nat) s i d, d < i -> (length s <= fuel)%nat -> insert_ones s i [d] fuel = s.
Proof.
  induction fuel; intros s i d H Hf.
  - destruct s; [reflexivity|]. cbn [length] in Hf. lia.
  - cbn [insert_ones has existsb]. replace (i =? d) with false by lia. cbn [orb].
    destruct s; [reflexivity|]. f_equal. apply IHfuel; [lia|]. cbn [length] in Hf. lia.
Qed.

Lemma insert_ones_single : forall (fuel : nat) s i d, 0 <= d - i <= zlen s -> Z.of_nat fuel = zlen s + 1 ->
  insert_ones s i [d] fuel = take (d - i) s ++ 1 :: drop (d - i) s.
Proof.
  induction fuel; intros s i d H Hf; [pose proof (zlen_nonneg _ s); lia|].
  cbn [insert_ones has existsb].
  destruct (i =? d) eqn:E; cbn [orb].
  - assert (d = i) by lia. subst d. replace (i - i) with 0 by lia.
    rewrite insert_ones_none; [reflexivity | lia | unfold zlen in Hf; lia].
  - destruct s as [|x s]; [rewrite zlen_nil in H; lia|]. rewrite zlen_cons in H, Hf.
    rewrite (IHfuel s (i + 1) d) by lia.
    replace (d - (i + 1)) with (d - i - 1) by lia. unfold take, drop.
    replace (Z.to_nat (d - i)) with (S (Z.to_nat (d - i - 1))) by lia. reflexivity.
Qed.

Lemma unsqueeze_correct : forall s dim, aten_unsqueeze s dim = torch_unsqueeze s dim.
Proof.
  intros s dim. unfold aten_unsqueeze, torch_unsqueeze, unsqueeze_axes.
  pose proof (zlen_nonneg _ s) as Hs.
  change (zlen [dim]) with 1. cbn [omap_all].
  rewrite wrap_dim_norm_axis by lia.
  destruct (norm_axis (zlen s + 1) dim) as [d|] eqn:E; [|reflexivity]. cbn [obind nodupZ existsb negb andb].
  pose proof (norm_axis_range _ _ _ E) as [Hr _].
  rewrite (insert_ones_single _ s 0 d) by lia. replace (d - 0) with d by lia. reflexivity.
Qed.

(* ------------------------------------------------------------------ t *)
Lemma t_correct : forall s out, torch_t s = Some out -> aten_t s = Some out.
Proof.
  intros s out. unfold torch_t, aten_t.
  destruct s as [|a [|b [|c s]]]; intro H; inversion H; subst; try reflexivity.
Qed.

(* ------------------------------------------------------------------ expand *)
Lemma expand_rev_bcast : forall size s out,
  expand_rev s size = Some out ->
  bcast_rev s (map (fun t => if t =? -1 then 1 else t) size) = Some out /\
  existsb (fun t => t <? 0) (map (fun t => if t =? -1 then 1 else t) size) = false.
Proof.
  induction size as [|t size IH]; intros s out H.
  - destruct s; [|discriminate]. inversion H; subst. split; reflexivity.
  - cbn [expand_rev] in H. destruct s as [|d s].
    + destruct (t <? 0) eqn:Et; [discriminate|].
      destruct (expand_rev [] size) eqn:E; [|discriminate]. inversion H; subst; clear H.
      destruct (IH [] l E) as [Hb He]. cbn [map existsb bcast_rev].
      replace (t =? -1) with false by lia. rewrite Et. cbn [orb]. split; [|assumption].
      destruct (map (fun t0 => if t0 =? -1 then 1 else t0) size); cbn [bcast_rev] in Hb; inversion Hb; reflexivity.
    + destruct (expand_rev s size) eqn:E.
      2:{ destruct (if t =? -1 then Some d else if t <? 0 then None else if d =? t then Some t else if d =? 1 then Some t else None); discriminate. }
      destruct (IH s l E) as [Hb He]. cbn [map existsb bcast_rev]. rewrite Hb, He.
      destruct (t =? -1) eqn:E1.
      * inversion H; subst. split; [|reflexivity]. unfold bdim. destruct (d =? 1) eqn:?; [replace d with 1 by lia; reflexivity|]. reflexivity.
      * destruct (t <? 0) eqn:E2; [discriminate|]. cbn [orb]. split; [|reflexivity].
        unfold bdim. destruct (d =? t) eqn:E3; [inversion H; subst; replace d with t by lia; reflexivity|].
        destruct (d =? 1) eqn:E4; [|discriminate]. inversion H; subst. reflexivity.
Qed.

Lemma expand_correct : forall s size out, torch_expand s size = Some out -> aten_expand s size = Some out.
Proof.
  intros s size out. unfold torch_expand, aten_expand, expand_shape, expand_size.
  destruct (expand_rev (rev s) (rev size)) eqn:E; [|discriminate]. cbn [option_map]. intro H; inversion H; subst; clear H.
  destruct (expand_rev_bcast _ _ _ E) as [Hb He].
  assert (existsb (fun t => t <? 0) (map (fun t => if t =? -1 then 1 else t) size) = false) as ->.
  { apply existsb_false. intros x Hx.
    destruct (x <? 0) eqn:Ex; [|reflexivity]. exfalso.
    assert (existsb (fun t => t <? 0) (map (fun t => if t =? -1 then 1 else t) (rev size)) = true); [|congruence].
    apply existsb_exists. exists x. split; [|assumption]. rewrite map_rev. apply -> in_rev. assumption. }
  rewrite <- map_rev. rewrite Hb. reflexivity.
Qed.

(* ------------------------------------------------------------------ view / reshape *)
Lemma view_correct : forall s size out, torch_view s size = Some out -> aten_view s size = Some out.
Proof.
  intros s size out. unfold torch_view, aten_view, infer_size, reshape_shape.
  destruct (existsb (fun t => t <? -1) size); [discriminate|].
  destruct (1 <? count_of (-1) size)%nat; [discriminate|].
  cbn [andb].
  set (newsize := prodZ (filter (fun t => negb (t =? -1)) size)).
  destruct ((prodZ s =? newsize) || (has (-1) size && (0 <? newsize) && (prodZ s mod newsize =? 0))) eqn:E; [|discriminate].
  destruct (has (-1) size) eqn:Hinf.
  - destruct (newsize =? 0) eqn:E0; [discriminate|]. intro H; inversion H; subst out; clear H.
    assert (has 0 size = false) as ->.
    { apply has_false. intro Hin. assert (newsize = 0); [|lia].
      unfold newsize. clear - Hin. induction size; [destruct Hin|].
      cbn [filter]. destruct Hin as [-> | Hin].
      - cbn [Z.eqb negb]. apply Z.mul_0_l.
      - destruct (negb (a =? -1)); [|apply IHsize; assumption].
        change (prodZ (a :: filter (fun t => negb (t =? -1)) size)) with (a * prodZ (filter (fun t => negb (t =? -1)) size)).
        rewrite IHsize by assumption. lia. }
    cbn [andb orb].
    assert (prodZ s mod newsize =? 0 = true) as ->; [|reflexivity].
    cbn [andb] in E. destruct (prodZ s =? newsize) eqn:E1; [|cbn [orb] in E; lia].
    replace (prodZ s) with newsize by lia. rewrite Z.mod_same by lia. reflexivity.
  - intro H; inversion H; subst out; clear H. cbn [andb orb] in E. rewrite Bool.orb_false_r in E.
    rewrite Bool.andb_false_r.
    assert (prodZ size = newsize) as ->.
    { unfold newsize. rewrite filter_id; [reflexivity|]. intros x Hx. apply has_false in Hinf.
      destruct (x =? -1) eqn:Ex; [|reflexivity]. exfalso. apply Hinf. replace (-1) with x by lia. assumption. }
    replace (newsize =? prodZ s) with true by lia. reflexivity.
Qed.

(* allowzero = 0 agrees as long as no requested extent is 0 *)
Lemma resolve_zeros_id : forall tgt ins, ~ In 0 tgt -> resolve_zeros ins tgt = Some tgt.
Proof.
  induction tgt as [|t tgt IH]; intros ins H; [reflexivity|]. cbn [resolve_zeros].
  replace (t =? 0) with false by (assert (t <> 0) by (intro; apply H; left; lia); lia).
  rewrite IH; [reflexivity|]. intro; apply H; right; assumption.
Qed.

Lemma reshape_correct : forall s size out, ~ In 0 size -> torch_view s size = Some out -> aten_reshape s size = Some out.
Proof.
  intros s size out H0 H. apply view_correct in H. unfold aten_view, aten_reshape, reshape_shape in *.
  destruct (existsb (fun t => t <? -1) size); [discriminate|].
  destruct (1 <? count_of (-1) size)%nat; [discriminate|].
  assert (has 0 size = false) as Hz by (apply has_false; assumption). rewrite Hz in H. cbn [andb] in *.
  rewrite resolve_zeros_id by assumption. assumption.
Qed.

Lemma reshape_zero_refuted : exists s size out, torch_view s size = Some out /\ aten_reshape s size <> Some out.
Proof. exists [3; 0], [0; 0], [0; 0]. vm_compute. split; [reflexivity | discriminate]. Qed.

(* ------------------------------------------------------------------ repeat / tile *)
Lemma zlen_repeat : forall (v : Z) k, 0 <= k -> zlen (repeat v (Z.to_nat k)) = k.
Proof. intros. unfold zlen. rewrite repeat_length. lia. Qed.

Lemma bcast_rev_ones : forall (s : list Z) (k : nat), (length s <= k)%nat -> shape_ok s ->
  bcast_rev s (repeat 1 k) = Some (s ++ repeat 1 (k - length s)).
Proof.
  induction s as [|d s IH]; intros k Hk Hs.
  - cbn [bcast_rev length app]. rewrite Nat.sub_0_r. reflexivity.
  - destruct k; [cbn [length] in Hk; lia|]. cbn [repeat bcast_rev length].
    inversion Hs; subst. rewrite IH by (cbn [length] in Hk; try assumption; lia).
    unfold bdim. destruct (d =? 1) eqn:E; [replace d with 1 by lia; reflexivity|reflexivity].
Qed.

Lemma rev_repeat : forall (v : Z) k, rev (repeat v k) = repeat v k.
Proof. induction k; [reflexivity|]. cbn [repeat rev]. rewrite IHk. clear. induction k; [reflexivity|]. cbn [repeat app]. rewrite IHk. reflexivity. Qed.

Lemma expand_ones : forall s k, zlen s <= k -> shape_ok s -> expand_shape s (ones k) = Some (pad_ones (k - zlen s) s).
Proof.
  intros s k Hk Hs. unfold expand_shape, ones, pad_ones.
  rewrite existsb_false by (intros x Hx; apply repeat_spec in Hx; subst; reflexivity).
  rewrite rev_repeat. rewrite bcast_rev_ones.
  - cbn [option_map]. rewrite rev_app_distr, rev_repeat, rev_involutive. rewrite rev_length. do 3 f_equal. unfold zlen in *. lia.
  - rewrite rev_length. unfold zlen in Hk. lia.
  - unfold shape_ok in *. apply Forall_rev. assumption.
Qed.

Lemma zlen_zip_pad : forall s k, 0 <= k -> zlen (pad_ones k s) = k + zlen s.
Proof. intros. unfold pad_ones. rewrite zlen_app, zlen_repeat by lia. reflexivity. Qed.

Lemma repeat_correct : forall s reps out, shape_ok s -> torch_repeat s reps = Some out -> aten_repeat s reps = Some out.
Proof.
  intros s reps out Hs. unfold torch_repeat, aten_repeat.
  destruct ((zlen reps <? zlen s) || existsb (fun t => t <? 0) reps) eqn:E; [discriminate|].
  intro H; inversion H; subst out; clear H.
  pose proof (zlen_nonneg _ s) as Hn.
  destruct reps as [|r0 reps].
  - rewrite zlen_nil in *. destruct s; [reflexivity|]. rewrite zlen_cons in E. pose proof (zlen_nonneg _ s). lia.
  - rewrite expand_ones by (try assumption; lia). cbn [obind]. unfold tile_shape.
    rewrite zlen_zip_pad by lia.
    replace (zlen (r0 :: reps) =? zlen (r0 :: reps) - zlen s + zlen s) with true by lia.
    assert (forallb (fun t => 0 <=? t) (r0 :: reps) = true) as ->; [|reflexivity].
    apply forallb_forall. intros x Hx. destruct (0 <=? x) eqn:Ex; [reflexivity|]. exfalso.
    assert (existsb (fun t => t <? 0) (r0 :: reps) = true) by (apply existsb_exists; exists x; split; [assumption|lia]).
    destruct (zlen (r0 :: reps) <? zlen s); cbn [orb] in E; congruence.
Qed.

Lemma tile_correct : forall s dims out, shape_ok s -> torch_tile s dims = Some out -> aten_tile s dims = Some out.
Proof.
  intros s dims out Hs. unfold torch_tile, aten_tile.
  pose proof (zlen_nonneg _ s) as Hn. pose proof (zlen_nonneg _ dims) as Hd.
  destruct (0 <? zlen s - zlen dims) eqn:E1.
  - (* dims shorter: padded with ones, no expansion of self needed *)
    unfold torch_repeat. rewrite zlen_zip_pad by lia.
    replace (zlen s - zlen dims + zlen dims <? zlen s) with false by lia. cbn [orb].
    destruct (existsb (fun t => t <? 0) (pad_ones (zlen s - zlen dims) dims)) eqn:E; [discriminate|].
    intro H; inversion H; subst out; clear H.
    replace (zlen s - zlen dims + zlen dims - zlen s) with 0 by lia. cbn [pad_ones Z.to_nat repeat app].
    unfold tile_shape, ones. fold (pad_ones (zlen s - zlen dims) dims). rewrite zlen_zip_pad by lia.
    replace (zlen s - zlen dims + zlen dims =? zlen s) with true by lia.
    assert (forallb (fun t => 0 <=? t) (pad_ones (zlen s - zlen dims) dims) = true) as ->; [|reflexivity].
    apply forallb_forall. intros x Hx. destruct (0 <=? x) eqn:Ex; [reflexivity|]. exfalso.
    assert (existsb (fun t => t <? 0) (pad_ones (zlen s - zlen dims) dims) = true) by (apply existsb_exists; exists x; split; [assumption|lia]).
    congruence.
  - assert (pad_ones (zlen s - zlen dims) dims = dims) as -> by (unfold pad_ones; replace (Z.to_nat (zlen s - zlen dims)) with O by lia; reflexivity).
    destruct (zlen s - zlen dims <? 0) eqn:E2.
    + (* dims longer: self reshaped with leading ones (allowzero), then Tile *)
      intro H. unfold reshape_shape.
      assert (Hnn : forall x, In x (ones (- (zlen s - zlen dims)) ++ s) -> 0 <= x).
      { intros x Hx. apply in_app_or in Hx. destruct Hx as [Hx | Hx].
        - unfold ones in Hx. apply repeat_spec in Hx. lia.
        - unfold shape_ok in Hs. rewrite Forall_forall in Hs. apply Hs. assumption. }
      rewrite existsb_false by (intros x Hx; specialize (Hnn x Hx); lia).
      assert (count_of (-1) (ones (- (zlen s - zlen dims)) ++ s) = O) as ->.
      { unfold count_of. replace (filter (Z.eqb (-1)) (ones (- (zlen s - zlen dims)) ++ s)) with (@nil Z); [reflexivity|].
        symmetry. clear - Hnn. induction (ones (- (zlen s - zlen dims)) ++ s); [reflexivity|].
        cbn [filter]. replace (-1 =? a) with false by (specialize (Hnn a (or_introl eq_refl)); lia).
        apply IHl. intros; apply Hnn; right; assumption. }
      cbn [Nat.ltb Nat.leb].
      assert (has (-1) (ones (- (zlen s - zlen dims)) ++ s) = false) as Hm1 by (apply has_false; intro Hx; specialize (Hnn _ Hx); lia).
      rewrite Hm1. rewrite Bool.andb_false_r.
      rewrite prodZ_app. assert (prodZ (ones (- (zlen s - zlen dims))) = 1) as ->.
      { unfold ones. generalize (Z.to_nat (- (zlen s - zlen dims))). induction n; [reflexivity|]. cbn [repeat]. rewrite prodZ_cons, IHn. reflexivity. }
      replace (1 * prodZ s =? prodZ s) with true by lia. cbn [obind].
      unfold torch_repeat in H. unfold tile_shape. rewrite zlen_app. unfold ones. rewrite zlen_repeat by lia.
      replace (zlen dims =? - (zlen s - zlen dims) + zlen s) with true by lia.
      destruct ((zlen dims <? zlen s) || existsb (fun t => t <? 0) dims) eqn:E; [discriminate|].
      assert (forallb (fun t => 0 <=? t) dims = true) as ->.
      { apply forallb_forall. intros x Hx. destruct (0 <=? x) eqn:Ex; [reflexivity|]. exfalso.
        assert (existsb (fun t => t <? 0) dims = true) by (apply existsb_exists; exists x; split; [assumption|lia]).
        destruct (zlen dims <? zlen s); cbn [orb] in E; congruence. }
      cbn [andb]. rewrite <- H. unfold pad_ones. replace (- (zlen s - zlen dims)) with (zlen dims - zlen s) by lia. reflexivity.
    + assert (zlen s = zlen dims) by lia.
      unfold torch_repeat, tile_shape. replace (zlen dims <? zlen s) with false by lia. cbn [orb].
      replace (zlen dims =? zlen s) with true by lia.
      destruct (existsb (fun t => t <? 0) dims) eqn:E; [discriminate|].
      intro H'; inversion H'; subst out; clear H'.
      replace (zlen dims - zlen s) with 0 by lia. cbn [pad_ones Z.to_nat repeat app].
      assert (forallb (fun t => 0 <=? t) dims = true) as ->; [|reflexivity].
      apply forallb_forall. intros x Hx. destruct (0 <=? x) eqn:Ex; [reflexivity|]. exfalso.
      assert (existsb (fun t => t <? 0) dims = true) by (apply existsb_exists; exists x; split; [assumption|lia]).
      congruence.
Qed.

(* ------------------------------------------------------------------ reductions: dim / keepdim bookkeeping *)
Lemma reduce_shape_correct : forall s dims keepdim out,
  0 < zlen s -> torch_reduce_shape s dims keepdim = Some out -> reduce_shape s dims keepdim = Some out.
Proof.
  intros s dims keepdim out Hr. unfold torch_reduce_shape, reduce_shape.
  destruct dims as [[|d ds]|]; try (intro H; exact H).
  rewrite (omap_all_ext _ _ (wrap_dim (zlen s)) (norm_axis (zlen s))) by (intros; apply wrap_dim_norm_axis; assumption).
  destruct (omap_all (norm_axis (zlen s)) (d :: ds)); [|discriminate]. cbn [obind].
  destruct (nodupZ l); [|discriminate]. intro H; exact H.
Qed.

Lemma reduce_rank0 : forall dims keepdim out, torch_reduce_shape [] dims keepdim = Some out -> out = [].
Proof.
  intros dims keepdim out. unfold torch_reduce_shape.
  destruct dims as [[|d ds]|]; try (intro H; inversion H; reflexivity).
  destruct (omap_all (wrap_dim (zlen [])) (d :: ds)); [|discriminate]. cbn [obind].
  destruct (nodupZ l); [|discriminate]. intro H; inversion H; reflexivity.
Qed.

Lemma sum_dim_correct : forall s dims keepdim out,
  torch_reduce_shape s dims keepdim = Some out -> aten_sum_dim s dims keepdim = Some out.
Proof.
  intros s dims keepdim out H. unfold aten_sum_dim. destruct (zlen s =? 0) eqn:E.
  - destruct s; [|rewrite zlen_cons in E; pose proof (zlen_nonneg _ s); lia].
    rewrite (reduce_rank0 _ _ _ H). reflexivity.
  - pose proof (zlen_nonneg _ s). apply reduce_shape_correct; [lia | assumption].
Qed.

Lemma mean_dim_correct : forall s dims keepdim out,
  torch_reduce_shape s (Some dims) keepdim = Some out -> aten_mean_dim s dims keepdim = Some out.
Proof.
  intros s dims keepdim out H. unfold aten_mean_dim. destruct (zlen s =? 0) eqn:E.
  - destruct s; [|rewrite zlen_cons in E; pose proof (zlen_nonneg _ s); lia].
    rewrite (reduce_rank0 _ _ _ H). reflexivity.
  - pose proof (zlen_nonneg _ s). apply reduce_shape_correct; [lia | assumption].
Qed.

Lemma amax_correct : forall s dims keepdim out,
  (0 < zlen s \/ dims = Some [] \/ dims = None) ->
  torch_reduce_shape s dims keepdim = Some out -> aten_amax s dims keepdim = Some out.
Proof.
  intros s dims keepdim out [Hr | [-> | ->]] H; unfold aten_amax.
  - apply reduce_shape_correct; assumption.
  - exact H.
  - exact H.
Qed.

(* ------------------------------------------------------------------ permute *)
Lemma nodupZ_NoDup : forall l, nodupZ l = true -> NoDup l.
Proof.
  induction l; intro H; [constructor|]. cbn [nodupZ] in H. apply andb_prop in H. destruct H as [H1 H2].
  constructor; [|apply IHl; assumption].
  intro Hin. apply has_In in Hin. unfold has in Hin. rewrite Hin in H1. discriminate.
Qed.

Lemma iota_In : forall r i, In i (iota r) <-> 0 <= i < r.
Proof.
  intros r i. unfold iota. rewrite in_map_iff. split.
  - intros [k [<- Hk]]. apply in_seq in Hk. lia.
  - intro H. exists (Z.to_nat i). split; [lia|]. apply in_seq. lia.
Qed.
Lemma iota_length : forall r, 0 <= r -> length (iota r) = Z.to_nat r.
Proof. intros. unfold iota. rewrite map_length, seq_length. reflexivity. Qed.

Lemma omap_all_In : forall A B (f : A -> option B) l r y, omap_all f l = Some r -> In y r -> exists x, In x l /\ f x = Some y.
Proof.
  induction l; intros r y H Hy; cbn in H.
  - inversion H; subst. destruct Hy.
  - destruct (f a) eqn:Ef; [|discriminate]. destruct (omap_all f l) eqn:El; [|discriminate]. inversion H; subst.
    destruct Hy as [<- | Hy]; [exists a; split; [left; reflexivity | assumption]|].
    destruct (IHl _ _ eq_refl Hy) as [x [Hx Hfx]]. exists x. split; [right; assumption | assumption].
Qed.

Lemma omap_all_map : forall A B (f : A -> option B) (g : A -> B) l, (forall x, In x l -> f x = Some (g x)) -> omap_all f l = Some (map g l).
Proof.
  induction l; intro H; [reflexivity|]. cbn. rewrite (H a (or_introl eq_refl)). rewrite IHl; [reflexivity|].
  intros; apply H; right; assumption.
Qed.

Lemma wrap_dim_val : forall r a x, 0 < r -> wrap_dim r a = Some x -> x = (if a <? 0 then a + r else a) /\ 0 <= x < r.
Proof.
  intros r a x Hr H. rewrite wrap_dim_norm_axis in H by assumption.
  pose proof (norm_axis_range _ _ _ H) as [H1 [H2 H3]]. split; [|assumption].
  unfold norm_axis in H. destruct ((- r <=? a) && (a <? r)); [|discriminate]. inversion H; reflexivity.
Qed.

Lemma omap_wrap : forall r dims p, 0 < r -> omap_all (wrap_dim r) dims = Some p ->
  p = map (fun a => if a <? 0 then a + r else a) dims /\ (forall x, In x p -> 0 <= x < r).
Proof.
  intros r dims. induction dims as [|d dims IH]; intros p Hr H; cbn in H.
  - inversion H; subst. split; [reflexivity | intros x []].
  - destruct (wrap_dim r d) eqn:Ed; [|discriminate]. destruct (omap_all (wrap_dim r) dims) eqn:El; [|discriminate].
    inversion H; subst; clear H. destruct (IH l Hr eq_refl) as [-> Hin]. destruct (wrap_dim_val _ _ _ Hr Ed) as [-> Hz].
    split; [reflexivity|]. intros x [<- | Hx]; [assumption | apply Hin; assumption].
Qed.

Lemma is_perm_of_nodup : forall r p, 0 <= r -> zlen p = r -> nodupZ p = true -> (forall x, In x p -> 0 <= x < r) -> is_perm r p = true.
Proof.
  intros r p Hr Hl Hnd Hin. unfold is_perm. replace (zlen p =? r) with true by lia. cbn [andb].
  apply forallb_forall. intros i Hi. apply has_In.
  assert (incl (iota r) p) as Hincl; [|apply Hincl; assumption].
  apply NoDup_length_incl.
  - apply nodupZ_NoDup; assumption.
  - rewrite iota_length by assumption. unfold zlen in Hl. lia.
  - intros x Hx. apply iota_In. apply Hin. assumption.
Qed.

Lemma permute_correct : forall s dims out, torch_permute s dims = Some out -> aten_permute s dims = Some out.
Proof.
  intros s dims out. unfold torch_permute, aten_permute.
  destruct (zlen dims =? zlen s) eqn:El; [|discriminate]. cbn [negb].
  destruct (omap_all (wrap_dim (zlen s)) dims) as [p|] eqn:Ep; [|discriminate]. cbn [obind].
  destruct (nodupZ p) eqn:Hnd; [|discriminate]. intro H.
  destruct dims as [|d0 dims'].
  - destruct s; [|rewrite zlen_cons, zlen_nil in El; pose proof (zlen_nonneg _ s); lia].
    cbn in Ep. inversion Ep; subst. cbn in H. exact H.
  - assert (Hr : 0 < zlen s) by (rewrite zlen_cons in El; pose proof (zlen_nonneg _ dims'); lia).
    destruct (omap_wrap _ _ _ Hr Ep) as [Hp Hin].
    assert (permute_perm (d0 :: dims') = p) as ->.
    { unfold permute_perm. replace (zlen (d0 :: dims')) with (zlen s) by lia. symmetry. assumption. }
    unfold transpose_shape. rewrite is_perm_of_nodup; try assumption; [lia|].
    apply omap_all_length in Ep. unfold zlen in *. lia.
Qed.

(* ------------------------------------------------------------------ transpose *)
Lemma omap_all_compose : forall A B C (h : B -> option C) (f : A -> B) l, omap_all h (map f l) = omap_all (fun x => h (f x)) l.
Proof. induction l; [reflexivity|]. cbn. rewrite IHl. reflexivity. Qed.

Lemma transpose_correct : forall s d0 d1 out, torch_transpose s d0 d1 = Some out -> aten_transpose s d0 d1 = Some out.
Proof.
  intros s d0 d1 out. unfold torch_transpose, aten_transpose.
  destruct (wrap_dim (zlen s) d0) as [a|] eqn:Ea; [|discriminate]. cbn [obind].
  destruct (wrap_dim (zlen s) d1) as [b|] eqn:Eb; [|discriminate]. cbn [obind].
  destruct (zlen s =? 0) eqn:E0; [intro H; exact H|].
  pose proof (zlen_nonneg _ s) as Hn. assert (Hr : 0 < zlen s) by lia.
  rewrite wrap_dim_norm_axis in Ea, Eb by assumption.
  unfold transpose_perm. rewrite Ea, Eb. cbn [obind].
  pose proof (norm_axis_range _ _ _ Ea) as [Har _]. pose proof (norm_axis_range _ _ _ Eb) as [Hbr _].
  unfold swap_at.
  destruct (nthZ_some _ s a Har) as [x Hx]. destruct (nthZ_some _ s b Hbr) as [y Hy]. rewrite Hx, Hy.
  intro H; inversion H; subst out; clear H.
  unfold transpose_shape.
  set (f := fun i => if i =? a then b else if i =? b then a else i).
  assert (Hf : forall i, 0 <= i < zlen s -> 0 <= f i < zlen s /\ f (f i) = i).
  { intros i Hi. unfold f. repeat case_if; lia. }
  assert (is_perm (zlen s) (map f (iota (zlen s))) = true) as ->.
  { unfold is_perm. unfold zlen at 1. rewrite map_length, iota_length by lia. replace (Z.of_nat (Z.to_nat (zlen s)) =? zlen s) with true by lia.
    cbn [andb]. apply forallb_forall. intros i Hi. apply has_In. apply iota_In in Hi.
    destruct (Hf i Hi) as [H1 H2]. rewrite <- H2. apply in_map. apply iota_In. assumption. }
  rewrite omap_all_compose. apply omap_all_map.
  intros i Hi. apply iota_In in Hi. unfold f.
  destruct (i =? a) eqn:E1; [assumption|].
  destruct (i =? b) eqn:E2; [assumption|].
  destruct (nthZ_some _ s i Hi) as [d Hd]. rewrite Hd. reflexivity.
Qed.

(* ------------------------------------------------------------------ flatten *)
Definition flat_form (s : list Z) (a b : Z) : list Z :=
  take a s ++ [prodZ (take (b - a + 1) (drop a s))] ++ drop (b + 1) s.

Lemma shape_pos_In : forall s x, shape_pos s -> In x s -> 0 < x.
Proof. intros s x H. unfold shape_pos in H. rewrite Forall_forall in H. apply H. Qed.
Lemma In_take : forall A n (l : list A) x, In x (take n l) -> In x l.
Proof. intros A n l x H. rewrite <- (take_drop _ n l). apply in_or_app. left. assumption. Qed.
Lemma In_drop : forall A n (l : list A) x, In x (drop n l) -> In x l.
Proof. intros A n l x H. rewrite <- (take_drop _ n l). apply in_or_app. right. assumption. Qed.

Lemma split3 : forall (s : list Z) a b, 0 <= a -> a <= b ->
  s = take a s ++ take (b - a + 1) (drop a s) ++ drop (b + 1) s.
Proof.
  intros s a b Ha Hb. rewrite <- (take_drop _ a s) at 1. f_equal.
  rewrite <- (take_drop _ (b - a + 1) (drop a s)) at 1. f_equal.
  rewrite drop_drop by lia. f_equal. lia.
Qed.

Lemma flat_form_same : forall s a, 0 <= a < zlen s -> flat_form s a a = s.
Proof.
  intros s a Ha. unfold flat_form. replace (a - a + 1) with 1 by lia.
  destruct (nthZ_some _ s a Ha) as [x Hx]. rewrite (nthZ_app_drop _ _ _ _ Hx).
  change (take 1 (x :: drop (a + 1) s)) with [x]. change (prodZ [x]) with (x * 1). rewrite Z.mul_1_r.
  rewrite <- (take_drop _ a s) at 3. rewrite (nthZ_app_drop _ _ _ _ Hx). reflexivity.
Qed.

Lemma filter_app' : forall A (f : A -> bool) l1 l2, filter f (l1 ++ l2) = filter f l1 ++ filter f l2.
Proof. induction l1; intro l2; [reflexivity|]. cbn [app filter]. destruct (f a); [cbn [app]; f_equal|]; apply IHl1. Qed.

Lemma reshape_infer_middle : forall s a b,
  shape_pos s -> 0 <= a -> a <= b ->
  reshape_shape s (take a s ++ [-1] ++ drop (b + 1) s) false = Some (flat_form s a b).
Proof.
  intros s a b Hs Ha Hb. unfold reshape_shape.
  set (hd := take a s). set (tl_ := drop (b + 1) s).
  assert (Hhd : forall x, In x hd -> 0 < x) by (intros x Hx; apply (shape_pos_In s); [assumption | apply In_take in Hx; assumption]).
  assert (Htl : forall x, In x tl_ -> 0 < x) by (intros x Hx; apply (shape_pos_In s); [assumption | apply In_drop in Hx; assumption]).
  assert (Hall : forall x, In x (hd ++ [-1] ++ tl_) -> 0 < x \/ x = -1).
  { intros x Hx. apply in_app_or in Hx. destruct Hx as [Hx | Hx]; [left; apply Hhd; assumption|].
    apply in_app_or in Hx. destruct Hx as [[<- | []] | Hx]; [right; reflexivity | left; apply Htl; assumption]. }
  rewrite existsb_false by (intros x Hx; destruct (Hall x Hx); lia).
  assert (Hf1 : forall l, (forall x, In x l -> 0 < x) -> filter (Z.eqb (-1)) l = []).
  { induction l; intro H; [reflexivity|]. cbn [filter]. replace (-1 =? a0) with false by (specialize (H a0 (or_introl eq_refl)); lia).
    apply IHl. intros; apply H; right; assumption. }
  assert (count_of (-1) (hd ++ [-1] ++ tl_) = 1%nat) as ->.
  { unfold count_of. rewrite !filter_app'. rewrite (Hf1 hd Hhd), (Hf1 tl_ Htl). reflexivity. }
  cbn [Nat.ltb Nat.leb andb].
  rewrite resolve_zeros_id by (intro H0; destruct (Hall 0 H0); lia).
  assert (has (-1) (hd ++ [-1] ++ tl_) = true) as -> by (apply has_In; apply in_or_app; right; left; reflexivity).
  assert (Hf2 : forall l, (forall x, In x l -> 0 < x) -> filter (fun t => negb (t =? -1)) l = l).
  { intros l H. apply filter_id. intros x Hx. specialize (H x Hx). replace (x =? -1) with false by lia. reflexivity. }
  rewrite !filter_app'. rewrite (Hf2 hd Hhd), (Hf2 tl_ Htl). change (filter (fun t => negb (t =? -1)) [-1]) with (@nil Z). cbn [app].
  rewrite prodZ_app.
  set (mid := take (b - a + 1) (drop a s)).
  assert (Htot : prodZ s = prodZ hd * prodZ mid * prodZ tl_).
  { rewrite (split3 s a b Ha Hb) at 1. rewrite !prodZ_app. fold hd mid tl_. ring. }
  assert (Hph : 0 < prodZ hd) by (apply prodZ_pos; apply Forall_forall; assumption).
  assert (Hpt : 0 < prodZ tl_) by (apply prodZ_pos; apply Forall_forall; assumption).
  assert (Hne : prodZ hd * prodZ tl_ <> 0) by nia.
  assert (Hdiv : prodZ s = prodZ mid * (prodZ hd * prodZ tl_)) by (rewrite Htot; ring).
  replace (prodZ hd * prodZ tl_ =? 0) with false by lia.
  rewrite Hdiv. rewrite Z.mod_mul by assumption. cbn [Z.eqb negb orb].
  rewrite Z.div_mul by assumption.
  f_equal. unfold flat_form. fold hd mid tl_. rewrite !map_app.
  rewrite (map_id_on _ hd) by (intros x Hx; specialize (Hhd x Hx); replace (x =? -1) with false by lia; reflexivity).
  cbn [map Z.eqb Pos.eqb app].
  rewrite (map_id_on _ tl_) by (intros x Hx; specialize (Htl x Hx); replace (x =? -1) with false by lia; reflexivity).
  reflexivity.
Qed.

Lemma flatten_axis_fast1 : forall x s', flatten_axis (x :: s') 1 = Some (flat_form (x :: s') 1 (zlen (x :: s') - 1)).
Proof.
  intros x s'. unfold flatten_axis, flat_form. rewrite zlen_cons. pose proof (zlen_nonneg _ s') as Hn.
  replace ((- (1 + zlen s') <=? 1) && (1 <=? 1 + zlen s')) with true by lia. cbn [Z.ltb Z.compare].
  change (take 1 (x :: s')) with [x]. change (drop 1 (x :: s')) with s'.
  change (prodZ [x]) with (x * 1). rewrite Z.mul_1_r.
  rewrite (take_all _ (1 + zlen s' - 1 - 1 + 1) s') by lia.
  rewrite (drop_all _ (1 + zlen s' - 1 + 1) (x :: s')) by (rewrite zlen_cons; lia). reflexivity.
Qed.

Lemma flatten_axis_fast0 : forall s axis, 2 <= zlen s -> (axis = -1 \/ axis = zlen s - 1) ->
  flatten_axis s axis = Some (flat_form s 0 (zlen s - 2)).
Proof.
  intros s axis Hr Hax. unfold flatten_axis, flat_form.
  replace ((- zlen s <=? axis) && (axis <=? zlen s)) with true by lia.
  replace (if axis <? 0 then axis + zlen s else axis) with (zlen s - 1) by (destruct Hax; subst; case_if; lia).
  rewrite (take_neg _ 0 s) by lia. rewrite (drop_neg _ 0 s) by lia. cbn [app].
  replace (zlen s - 2 - 0 + 1) with (zlen s - 1) by lia. replace (zlen s - 2 + 1) with (zlen s - 1) by lia.
  destruct (nthZ_some _ s (zlen s - 1) ltac:(lia)) as [z Hz]. rewrite (nthZ_app_drop _ _ _ _ Hz).
  rewrite (drop_all _ (zlen s - 1 + 1) s) by lia. change (prodZ [z]) with (z * 1). rewrite Z.mul_1_r. reflexivity.
Qed.

(* PyTorch's result in closed form (rank >= 1) *)
Lemma torch_flatten_form : forall s start end_ out, 0 < zlen s ->
  torch_flatten s start end_ = Some out ->
  exists a b, norm_axis (zlen s) start = Some a /\ norm_axis (zlen s) end_ = Some b /\ a <= b /\ out = flat_form s a b.
Proof.
  intros s start end_ out Hr. unfold torch_flatten. rewrite !wrap_dim_norm_axis by assumption.
  destruct (norm_axis (zlen s) start) as [a|] eqn:Ea; [|discriminate]. cbn [obind].
  destruct (norm_axis (zlen s) end_) as [b|] eqn:Eb; [|discriminate]. cbn [obind].
  destruct (b <? a) eqn:E1; [discriminate|]. replace (zlen s =? 0) with false by lia.
  pose proof (norm_axis_range _ _ _ Ea) as [Har _].
  destruct (a =? b) eqn:E2; intro H; inversion H; subst out; clear H; exists a, b; repeat split; try lia.
  assert (a = b) by lia. subst b. symmetry. apply flat_form_same. assumption.
Qed.

Lemma flatten_correct : forall s start end_ out,
  shape_pos s -> torch_flatten s start end_ = Some out -> aten_flatten s start end_ = Some out.
Proof.
  intros s start end_ out Hs H. pose proof (zlen_nonneg _ s) as Hn.
  destruct (zlen s =? 0) eqn:E0.
  - (* rank 0: reshape to [-1] *)
    destruct s; [|rewrite zlen_cons in E0; pose proof (zlen_nonneg _ s); lia].
    unfold torch_flatten, wrap_dim in H. rewrite zlen_nil in H. cbn [Z.max Z.compare Z.opp] in H.
    destruct ((-1 <=? start) && (start <? 1)) eqn:E1; [|discriminate]. cbn [obind] in H.
    destruct ((-1 <=? end_) && (end_ <? 1)) eqn:E2; [|discriminate]. cbn [obind] in H.
    destruct ((if end_ <? 0 then end_ + 1 else end_) <? (if start <? 0 then start + 1 else start)); [discriminate|].
    cbn in H. inversion H; subst out; clear H.
    unfold aten_flatten, flatten_fast1, flatten_fast0. rewrite zlen_nil. cbn [Z.eqb].
    replace (start =? 1) with false by lia. cbn [andb].
    replace ((end_ =? -2) || (end_ =? 0 - 2)) with false by lia. rewrite Bool.andb_false_r.
    rewrite slice_axis_step1. cbn [obind]. rewrite zlen_nil.
    replace ((if end_ <? 0 then 0 + end_ else end_) <? 0 - 1) with false by (case_if; lia).
    cbn [obind]. unfold take, drop. rewrite skipn_nil, firstn_nil. reflexivity.
  - assert (Hr : 0 < zlen s) by lia.
    destruct (torch_flatten_form _ _ _ _ Hr H) as [a [b [Ea [Eb [Hab ->]]]]].
    pose proof (norm_axis_range _ _ _ Ea) as [Har [Hav Hsr]]. pose proof (norm_axis_range _ _ _ Eb) as [Hbr [Hbv Her]].
    unfold aten_flatten.
    destruct (zlen s =? 1) eqn:E1.
    + (* rank 1: Identity *) assert (a = 0) by lia. assert (b = 0) by lia. subst. rewrite flat_form_same by lia. reflexivity.
    + destruct (flatten_fast1 (zlen s) start end_) eqn:F1.
      * unfold flatten_fast1 in F1. assert (start = 1) by lia. subst start.
        assert (a = 1) by lia. assert (b = zlen s - 1) by lia. subst a b.
        destruct s as [|x s']; [rewrite zlen_nil in Hr; lia|]. apply flatten_axis_fast1.
      * destruct (flatten_fast0 (zlen s) start end_) eqn:F0.
        -- unfold flatten_fast0 in F0. assert (start = 0) by lia. subst start.
           assert (a = 0) by lia. assert (b = zlen s - 2) by lia. subst a b.
           apply flatten_axis_fast0; lia.
        -- (* general path: Shape, Slice(s), Concat, Reshape *)
           assert (Hb' : (if end_ <? 0 then zlen s + end_ else end_) = b) by (case_if; lia).
           rewrite Hb'. rewrite slice_axis_step1. cbn [obind].
           assert (sl_lo (zlen s) 0 = 0) as -> by (unfold sl_lo, clampZ; repeat case_if; lia).
           assert (sl_lo (zlen s) start = a) as -> by (unfold sl_lo, clampZ; repeat case_if; lia).
           rewrite (drop_neg _ 0 s) by lia. replace (a - 0) with a by lia.
           assert (Htail : (if b <? zlen s - 1 then slice_axis s (b + 1) (zlen s) 1 else Some []) = Some (drop (b + 1) s)).
           { destruct (b <? zlen s - 1) eqn:Eb1.
             - rewrite slice_axis_step1.
               assert (sl_lo (zlen s) (b + 1) = b + 1) as -> by (unfold sl_lo, clampZ; repeat case_if; lia).
               assert (sl_lo (zlen s) (zlen s) = zlen s) as -> by (unfold sl_lo, clampZ; repeat case_if; lia).
               rewrite take_all; [reflexivity|]. rewrite zlen_drop by lia. lia.
             - rewrite drop_all by lia. reflexivity. }
           rewrite Htail. cbn [obind]. apply reshape_infer_middle; [assumption | lia | lia].
Qed.

Lemma flatten_zero_dim_refuted : exists s start end_ out,
  torch_flatten s start end_ = Some out /\ exists other, aten_flatten s start end_ = Some other /\ other <> out.
Proof. exists [2; 3; 4; 0], 1, 2, [2; 12; 0]. split; [reflexivity|]. exists [2; 0; 4]. split; [reflexivity | discriminate]. Qed.

(* ------------------------------------------------------------------ cat *)
Lemma same_except_refl : forall a s, same_except a s s = true.
Proof.
  intros a s. unfold same_except. rewrite Z.eqb_refl. cbn [andb]. apply forallb_forall.
  intros i Hi. apply iota_In in Hi. destruct (i =? a); [reflexivity|]. cbn [orb].
  destruct (nthZ_some _ s i Hi) as [x ->]. apply Z.eqb_refl.
Qed.

Lemma replace_at_same : forall s a d, nthZ s a = Some d -> replace_at s a d = s.
Proof.
  intros s a d H. unfold replace_at. rewrite <- (take_drop _ a s) at 3. rewrite (nthZ_app_drop _ _ _ _ H). reflexivity.
Qed.

Lemma filter_id_gen : forall A (f : A -> bool) l, (forall x, In x l -> f x = true) -> filter f l = l.
Proof.
  induction l; intro H; [reflexivity|]. cbn. rewrite (H a (or_introl eq_refl)). f_equal. apply IHl. intros; apply H; right; assumption.
Qed.

Lemma cat_correct : forall ss dim out,
  (forall s, In s ss -> legacy_empty s = false) ->
  torch_cat_shape ss dim = Some out -> aten_cat ss dim = Some out.
Proof.
  intros ss dim out Hle. unfold torch_cat_shape, aten_cat.
  destruct ss as [|s0 rest]; [discriminate|].
  assert (Hf : forall f, (forall s, f s = negb (legacy_empty s)) -> filter f (s0 :: rest) = s0 :: rest).
  { intros f Hfe. apply filter_id_gen. intros x Hx. rewrite Hfe, (Hle x Hx). reflexivity. }
  rewrite (Hf (fun s => negb (is_legacy_empty s))) by reflexivity.
  rewrite (Hf (fun s => negb (legacy_empty s))) by reflexivity.
  destruct (wrap_dim (zlen s0) dim) as [a|] eqn:Ea; [|discriminate]. cbn [obind].
  destruct (zlen s0 =? 0) eqn:E0; [discriminate|].
  pose proof (zlen_nonneg _ s0) as Hn. rewrite wrap_dim_norm_axis in Ea by lia.
  pose proof (norm_axis_range _ _ _ Ea) as [Har _].
  destruct (forallb (same_except a s0) rest) eqn:Hse; [|discriminate]. intro H; inversion H; subst out; clear H.
  destruct rest as [|s1 rest].
  - cbn [map fold_right]. destruct (nthZ_some _ s0 a Har) as [d Hd]. rewrite Hd. rewrite Z.add_0_r.
    rewrite replace_at_same by assumption. reflexivity.
  - unfold concat_shapes. rewrite Ea. cbn [obind].
    assert (forallb (same_except a s0) (s0 :: s1 :: rest) = true) as ->; [|reflexivity].
    cbn [forallb] in *. rewrite same_except_refl. cbn [andb]. assumption.
Qed.

Lemma cat_fixed_correct : forall ss dim out, torch_cat_shape ss dim = Some out -> aten_cat_fixed ss dim = Some out.
Proof.
  intros ss dim out H. destruct ss as [|s0 rest]; [discriminate|].
  unfold aten_cat_fixed. change (fun s => negb (legacy_empty s)) with (fun s => negb (is_legacy_empty s)).
  destruct (filter (fun s => negb (is_legacy_empty s)) (s0 :: rest)) as [|x r] eqn:Ef.
  - unfold torch_cat_shape in H. rewrite Ef in H. exact H.
  - assert (Hall : forall s, In s (x :: r) -> legacy_empty s = false).
    { intros s Hs. rewrite <- Ef in Hs. apply filter_In in Hs. destruct Hs as [_ Hs]. destruct (legacy_empty s) eqn:E; [|reflexivity].
      change (is_legacy_empty s) with (legacy_empty s) in Hs. rewrite E in Hs. discriminate. }
    assert (Hid : filter (fun s => negb (is_legacy_empty s)) (x :: r) = x :: r).
    { apply filter_id_gen. intros s Hs. change (is_legacy_empty s) with (legacy_empty s). rewrite (Hall s Hs). reflexivity. }
    assert (H' : torch_cat_shape (x :: r) dim = Some out).
    { unfold torch_cat_shape in *. rewrite Ef in H. rewrite Hid. exact H. }
    pose proof (cat_correct (x :: r) dim out Hall H') as Hc. unfold aten_cat in Hc.
    change (fun s => negb (legacy_empty s)) with (fun s => negb (is_legacy_empty s)) in Hc. rewrite Hid in Hc.
    destruct r; exact Hc.
Qed.

(* ------------------------------------------------------------------ unflatten *)
Lemma count_of_app : forall v a b, count_of v (a ++ b) = (count_of v a + count_of v b)%nat.
Proof. intros. unfold count_of. rewrite filter_app', app_length. reflexivity. Qed.
Lemma count_of_pos : forall l, (forall x, In x l -> 0 < x) -> count_of (-1) l = O.
Proof.
  induction l; intro H; [reflexivity|]. unfold count_of in *. cbn [filter].
  replace (-1 =? a) with false by (specialize (H a (or_introl eq_refl)); lia). apply IHl. intros; apply H; right; assumption.
Qed.
Lemma existsb_app' : forall (f : Z -> bool) a b, existsb f (a ++ b) = existsb f a || existsb f b.
Proof. intros. apply existsb_app. Qed.
Lemma has_app : forall v a b, has v (a ++ b) = has v a || has v b.
Proof. intros. unfold has. apply existsb_app. Qed.
Lemma has_pos_false : forall v l, v <= 0 -> (forall x, In x l -> 0 < x) -> has v l = false.
Proof. intros v l Hv H. apply has_false. intro Hin. specialize (H v Hin). lia. Qed.

Lemma reshape_unflatten : forall s hd tl_ sizes n sz,
  (forall x, In x hd -> 0 < x) -> (forall x, In x tl_ -> 0 < x) -> 0 < n ->
  prodZ s = prodZ hd * n * prodZ tl_ ->
  infer_size sizes n = Some sz ->
  reshape_shape s (hd ++ sizes ++ tl_) true = Some (hd ++ sz ++ tl_).
Proof.
  intros s hd tl_ sizes n sz Hhd Htl Hn Htot. unfold infer_size, reshape_shape.
  destruct (existsb (fun t => t <? -1) sizes) eqn:Elt; [discriminate|].
  destruct (1 <? count_of (-1) sizes)%nat eqn:Ecnt; [discriminate|].
  set (newsize := prodZ (filter (fun t => negb (t =? -1)) sizes)).
  destruct ((n =? newsize) || (has (-1) sizes && (0 <? newsize) && (n mod newsize =? 0))) eqn:Eok; [|discriminate].
  assert (Hph : 0 < prodZ hd) by (apply prodZ_pos; apply Forall_forall; assumption).
  assert (Hpt : 0 < prodZ tl_) by (apply prodZ_pos; apply Forall_forall; assumption).
  assert (Hnz : newsize <> 0).
  { destruct (n =? newsize) eqn:E1; [lia|]. cbn [orb] in Eok. lia. }
  rewrite !existsb_app'. rewrite Elt.
  rewrite (existsb_false _ hd) by (intros x Hx; specialize (Hhd x Hx); lia).
  rewrite (existsb_false _ tl_) by (intros x Hx; specialize (Htl x Hx); lia). cbn [orb].
  rewrite !count_of_app, (count_of_pos hd Hhd), (count_of_pos tl_ Htl). rewrite Nat.add_0_r. cbn [plus]. rewrite Ecnt.
  assert (Hz : has 0 sizes = false).
  { apply has_false. intro Hin. apply Hnz. unfold newsize. clear - Hin. induction sizes; [destruct Hin|].
    cbn [filter]. destruct Hin as [-> | Hin].
    - cbn [Z.eqb negb]. apply Z.mul_0_l.
    - destruct (negb (a =? -1)); [|apply IHsizes; assumption].
      change (prodZ (a :: filter (fun t => negb (t =? -1)) sizes)) with (a * prodZ (filter (fun t => negb (t =? -1)) sizes)).
      rewrite IHsizes by assumption. lia. }
  rewrite !has_app. rewrite Hz. rewrite (has_pos_false 0 hd), (has_pos_false 0 tl_) by (try assumption; lia).
  cbn [orb andb].
  rewrite (has_pos_false (-1) hd), (has_pos_false (-1) tl_) by (try assumption; lia). rewrite Bool.orb_false_r. cbn [orb].
  assert (Hf2 : forall l, (forall x, In x l -> 0 < x) -> filter (fun t => negb (t =? -1)) l = l).
  { intros l H. apply filter_id. intros x Hx. specialize (H x Hx). replace (x =? -1) with false by lia. reflexivity. }
  destruct (has (-1) sizes) eqn:Hinf.
  - rewrite !filter_app', (Hf2 hd Hhd), (Hf2 tl_ Htl). rewrite !prodZ_app. fold newsize.
    assert (Hmod : n mod newsize = 0).
    { destruct (n =? newsize) eqn:E1; [replace n with newsize by lia; apply Z.mod_same; assumption|]. cbn [orb andb] in Eok. lia. }
    assert (Hne : prodZ hd * (newsize * prodZ tl_) <> 0) by nia.
    replace (prodZ hd * (newsize * prodZ tl_) =? 0) with false by lia.
    assert (Hn' : n = newsize * (n / newsize)) by (pose proof (Z.div_mod n newsize Hnz); lia).
    assert (Hdiv : prodZ s = (n / newsize) * (prodZ hd * (newsize * prodZ tl_))) by (rewrite Htot; rewrite Hn' at 1; ring).
    rewrite Hdiv. rewrite Z.mod_mul by assumption. cbn [Z.eqb negb orb].
    rewrite Z.div_mul by assumption.
    intro H. destruct (newsize =? 0) eqn:E0; [lia|]. inversion H; subst sz; clear H.
    f_equal. rewrite !map_app.
    rewrite (map_id_on _ hd) by (intros x Hx; specialize (Hhd x Hx); replace (x =? -1) with false by lia; reflexivity).
    rewrite (map_id_on _ tl_) by (intros x Hx; specialize (Htl x Hx); replace (x =? -1) with false by lia; reflexivity).
    reflexivity.
  - intro H; inversion H; subst sz; clear H. cbn [andb orb] in Eok. rewrite Bool.orb_false_r in Eok.
    assert (prodZ sizes = newsize) as Hps.
    { unfold newsize. rewrite filter_id; [reflexivity|]. intros x Hx. apply has_false in Hinf.
      destruct (x =? -1) eqn:Ex; [|reflexivity]. exfalso. apply Hinf. replace (-1) with x by lia. assumption. }
    rewrite !prodZ_app. rewrite Hps, Htot.
    replace (prodZ hd * (newsize * prodZ tl_) =? prodZ hd * n * prodZ tl_) with true by (assert (n = newsize) by lia; subst; lia).
    reflexivity.
Qed.

Lemma unflatten_correct : forall s dim sizes out,
  shape_pos s -> zlen s <= INT64_MAX ->
  torch_unflatten s dim sizes = Some out -> aten_unflatten s dim sizes = Some out.
Proof.
  intros s dim sizes out Hs Hmax. unfold torch_unflatten, aten_unflatten.
  pose proof (zlen_nonneg _ s) as Hn.
  destruct (zlen s =? 0) eqn:E0; [discriminate|].
  destruct sizes as [|z0 sizes']; [discriminate|]. set (sizes := z0 :: sizes') in *.
  destruct (wrap_dim (zlen s) dim) as [d|] eqn:Ed; [|discriminate]. cbn [obind].
  rewrite wrap_dim_norm_axis in Ed by lia. pose proof (norm_axis_range _ _ _ Ed) as [Hdr [Hdv Hdd]].
  destruct (nthZ s d) as [n|] eqn:En; [|discriminate]. cbn [obind].
  destruct (infer_size sizes n) as [sz|] eqn:Ei; [|discriminate]. cbn [obind].
  intro H; inversion H; subst out; clear H.
  assert (Hd' : (if dim <? 0 then zlen s + dim else dim) = d) by (case_if; lia). rewrite Hd'.
  rewrite !slice_axis_step1. cbn [obind].
  assert (sl_lo (zlen s) 0 = 0) as -> by (unfold sl_lo, clampZ; repeat case_if; lia).
  assert (sl_lo (zlen s) d = d) as -> by (unfold sl_lo, clampZ; repeat case_if; lia).
  assert (sl_lo (zlen s) (d + 1) = d + 1) as -> by (unfold sl_lo, clampZ; repeat case_if; lia).
  rewrite (drop_neg _ 0 s) by lia. replace (d - 0) with d by lia.
  assert (Htail : take (sl_lo (zlen s) INT64_MAX - (d + 1)) (drop (d + 1) s) = drop (d + 1) s).
  { unfold sl_lo, clampZ, INT64_MAX in *. repeat case_if; try lia;
    apply take_all; rewrite zlen_drop by lia; lia. }
  rewrite Htail.
  assert (Htgt : (if d =? 0 then sizes ++ drop (d + 1) s
                  else if d =? zlen s - 1 then take d s ++ sizes else take d s ++ sizes ++ drop (d + 1) s)
                 = take d s ++ sizes ++ drop (d + 1) s).
  { destruct (d =? 0) eqn:E1; [replace d with 0 by lia; rewrite take_neg by lia; reflexivity|].
    destruct (d =? zlen s - 1) eqn:E2; [|reflexivity]. rewrite (drop_all _ (d + 1) s) by lia. rewrite app_nil_r. reflexivity. }
  rewrite Htgt.
  apply reshape_unflatten with (n := n).
  - intros x Hx. apply (shape_pos_In s); [assumption | apply In_take in Hx; assumption].
  - intros x Hx. apply (shape_pos_In s); [assumption | apply In_drop in Hx; assumption].
  - apply (shape_pos_In s); [assumption|]. unfold nthZ in En. destruct (d <? 0); [discriminate|]. apply nth_error_In in En. assumption.
  - rewrite <- (take_drop _ d s) at 1. rewrite (nthZ_app_drop _ _ _ _ En). rewrite prodZ_app, prodZ_cons. ring.
  - assumption.
Qed.
