(* C10 -- _c_api_utils.call_onnx_api as a small state machine over the part of the graph it touches: the list of graph
   inputs (names, order, and a code for the type/shape each value carries), the graph outputs, the initializer table
   (insertion-ordered dict name -> tensor).  No proofs in this file. *)
From Coq Require Import ZArith List Bool String.
Import ListNotations.
Local Open Scope Z_scope.

Record tensor := Tensor { t_size : Z; t_id : Z; t_ty : Z }.   (* number of elements; identity of the payload; dtype/shape code *)
Record gsig := GSig {
  g_inputs : list (string * Z);            (* graph.inputs, in order: name, code of the value's type and shape *)
  g_outputs : list string;
  g_inits : list (string * tensor) }.      (* graph.initializers, in dict order *)

Definition smemb (x : string) (l : list string) : bool := existsb (String.eqb x) l.
Fixpoint remove_key (k : string) (l : list (string * tensor)) : list (string * tensor) :=
  match l with
  | [] => []
  | (k', v) :: r => if String.eqb k' k then remove_key k r else (k', v) :: remove_key k r
  end.
(* dict assignment d[k] = v: an existing key keeps its position, a new key goes to the end *)
Fixpoint assign_key (k : string) (v : tensor) (l : list (string * tensor)) : list (string * tensor) :=
  match l with
  | [] => [(k, v)]
  | (k', v') :: r => if String.eqb k' k then (k, v) :: r else (k', v') :: assign_key k v r
  end.

(* the loop before the call: every saved initializer becomes a graph input (unless it is one); the big ones lose their
   value and leave the table *)
Fixpoint prepare (limit : Z) (saved : list (string * tensor)) (g : gsig) : gsig :=
  match saved with
  | [] => g
  | (k, v) :: r =>
    let ins := if smemb k (map fst (g_inputs g)) then g_inputs g else (g_inputs g ++ [(k, t_ty v)])%list in
    let its := if t_size v >? limit then remove_key k (g_inits g) else g_inits g in
    prepare limit r (GSig ins (g_outputs g) its)
  end.

(* the `finally` block.  from_saved = true: the code as it stands (iterates the tuple saved before the call);
   false: seeded variant C10-2 / C15-2 (iterates the table as it is now: popped initializers are never put back) *)
Definition restore (from_saved : bool) (saved : list (string * tensor)) (n0 : nat) (g : gsig) : gsig :=
  let src := if from_saved then saved else g_inits g in
  GSig (firstn n0 (g_inputs g)) (g_outputs g)
       (fold_left (fun its kv => assign_key (fst kv) (snd kv) its) src (g_inits g)).

(* what func sees, and the graph afterwards -- the same for every outcome of func (return / exception): `finally` *)
Definition call_onnx_api (from_saved : bool) (limit : Z) (g : gsig) : gsig * gsig :=
  let saved := g_inits g in
  let g1 := prepare limit saved g in
  (g1, restore from_saved saved (List.length (g_inputs g)) g1).

Fixpoint lookup_init (k : string) (l : list (string * tensor)) : option tensor :=
  match l with [] => None | (k', v) :: r => if String.eqb k' k then Some v else lookup_init k r end.
Definition keys (l : list (string * tensor)) : list string := map fst l.

(* correspondence: (limit, graph before, what func saw, graph after) observed on the real code *)
Definition tensor_eqb (a b : tensor) : bool := (t_size a =? t_size b) && (t_id a =? t_id b) && (t_ty a =? t_ty b).
Fixpoint ilist_eqb (a b : list (string * Z)) : bool :=
  match a, b with [], [] => true | (x, u) :: a', (y, w) :: b' => String.eqb x y && (u =? w) && ilist_eqb a' b' | _, _ => false end.
Fixpoint slist_eqb (a b : list string) : bool :=
  match a, b with [], [] => true | x :: a', y :: b' => String.eqb x y && slist_eqb a' b' | _, _ => false end.
Fixpoint inits_eqb (a b : list (string * tensor)) : bool :=
  match a, b with
  | [], [] => true
  | (k, v) :: a', (k', v') :: b' => String.eqb k k' && tensor_eqb v v' && inits_eqb a' b'
  | _, _ => false
  end.
Definition gsig_eqb (a b : gsig) : bool :=
  ilist_eqb (g_inputs a) (g_inputs b) && slist_eqb (g_outputs a) (g_outputs b) && inits_eqb (g_inits a) (g_inits b).
Fixpoint capi_disagreeing (i : nat) (cs : list (Z * gsig * gsig * gsig)) : list nat :=
  match cs with
  | [] => []
  | (limit, g, seen, after) :: r =>
    (let '(g1, g2) := call_onnx_api true limit g in
     (* func sees the initializers that kept their value (the others are value-less inputs) *)
     if gsig_eqb g1 seen && gsig_eqb g2 after then [] else [i]) ++ capi_disagreeing (S i) r
  end.

(* witnesses *)
Definition big := Tensor 4096 1 7.
Definition small := Tensor 4 2 8.
Definition w_capi : gsig := GSig [("x"%string, 5)] ["y"%string] [("w_big"%string, big); ("w_small"%string, small)].
