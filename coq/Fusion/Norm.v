(* C19 model: normalisation fusions.
     onnxscript/rewriter/ort_fusions/rms_normalization.py          (RmsNormFusion -> SimplifiedLayerNormalization)
     onnxscript/rewriter/rules/fusion/_rms_normalization.py        (RmsNormFusion -> RMSNormalization, opset 23)
     onnxscript/rewriter/rules/fusion/_layer_norm.py               (LayerNormFusion, LayerNormBiasFusion)
     onnxscript/rewriter/ort_fusions/skip_normalization.py         (SkipRmsNormFusion, SkipLayerNormFusion)
   Part 1: what the matched sub-expression computes and what the fused operator is documented to compute, on one
   row (the last axis) of the input, over an arbitrary [fops].  Casts are the identity on F.
   Part 2: the side conditions (`check`) and the attributes produced by `rewrite`, executable, used by the
   correspondence check.  No proofs in this file. *)
From Coq Require Import List ZArith Bool.
Require Import OV.Fusion.Field.
Import ListNotations.

(* ------------------------------------------------------------------------------------------------ part 1 *)
Section Sem.
  Variable F : Type.
  Variable o : fops F.
  Variable sqrt : F -> F.             (* ONNX Sqrt: abstract, no property is needed *)
  Notation "x + y" := (fadd o x y).
  Notation "x * y" := (fmul o x y).
  Notation "x - y" := (fsub o x y).
  Notation "x / y" := (fdiv o x y).

  (* --- RMS.  pattern (both rule files):
        x_square = Pow(x, 2); mean_square = ReduceMean(x_square, [-1], keepdims=1)
        rms = Sqrt(mean_square + epsilon); normalized = Mul(x, Reciprocal(rms))
        return Mul(normalized, scale)  [mul_order=True]  |  Mul(scale, normalized)  [mul_order=False] *)
  Definition rms_of (x : list F) (eps : F) : F := sqrt (mean o (map (fun v => pow o v 2) x) + eps).
  Definition rms_pattern (mul_order : bool) (x scale : list F) (eps : F) : list F :=
    let normalized := smap (fmul o) x (recip o (rms_of x eps)) in
    if mul_order then vmul o normalized scale else vmul o scale normalized.

  (* RMSNormalization-23 function body (= ORT SimplifiedLayerNormalization):
        XSquared = Mul(X, X); XSquaredMean = ReduceMean<axes=normalized_axes>(XSquared)
        RMS = Sqrt(XSquaredMean + epsilon); Normalized = Div(X, RMS); Y = Mul(Normalized, Scale) *)
  Definition rms_spec (x scale : list F) (eps : F) : list F :=
    let rmsv := sqrt (mean o (map (fun v => v * v) x) + eps) in
    vmul o (smap (fdiv o) x rmsv) scale.

  (* --- LayerNormalization.  pattern (_layer_norm.py):
        mean = ReduceMean(x); deviation = x - mean
        deviation_squared = Mul(deviation, deviation) | Pow(deviation, 2)
        variance = ReduceMean(deviation_squared); std_dev = Sqrt(variance + epsilon)
        normalized = Mul(deviation, Reciprocal(std_dev)) | Div(deviation, std_dev)
        return Mul(normalized, scale) *)
  Inductive sq_alt := SqMul | SqPow.
  Inductive norm_alt := NormRecip | NormDiv.
  Definition deviation (x : list F) : list F := smap (fsub o) x (mean o x).
  Definition ln_pattern (sq : sq_alt) (nm : norm_alt) (x scale : list F) (eps : F) : list F :=
    let d := deviation x in
    let dd := match sq with SqMul => vmul o d d | SqPow => map (fun v => pow o v 2) d end in
    let std := sqrt (mean o dd + eps) in
    let normalized := match nm with NormRecip => smap (fmul o) d (recip o std) | NormDiv => smap (fdiv o) d std end in
    vmul o normalized scale.

  (* ONNX LayerNormalization-17 function body:
        Mean = ReduceMean(X); D = X - Mean; DD = D * D; Var = ReduceMean(DD); VarEps = Var + epsilon
        StdDev = Sqrt(VarEps); InvStdDev = Reciprocal(StdDev); Normalized = D * InvStdDev
        NormalizedScaled = Normalized * Scale; Y = NormalizedScaled + B *)
  Definition ln_spec (x scale : list F) (bias : option (list F)) (eps : F) : list F :=
    let d := deviation x in
    let std := sqrt (mean o (vmul o d d) + eps) in
    let ns := vmul o (smap (fmul o) d (recip o std)) scale in
    match bias with Some b => vadd o ns b | None => ns end.

  (* LayerNormBiasFusion: LayerNormalization(x, scale) + bias *)
  Definition ln_bias_pattern (x scale b : list F) (eps : F) : list F := vadd o (ln_spec x scale None eps) b.

  (* --- Skip normalisations.  pattern (skip_normalization.py), has_bias/bias_pre_add select the variant:
        [pre]  input = Add(input, bias)
               skip_sum = Add(skip, input) | Add(input, skip)
        [post] skip_sum = Add(skip_sum, bias)
        normalized = (Simplified)LayerNormalization(skip_sum, gamma[, beta]);   return normalized, skip_sum *)
  Inductive bias_mode := NoBias | PreBias | PostBias.
  Definition skip_sum (bm : bias_mode) (skip_first : bool) (input skip bias : list F) : list F :=
    let inp := match bm with PreBias => vadd o input bias | _ => input end in
    let s := if skip_first then vadd o skip inp else vadd o inp skip in
    match bm with PostBias => vadd o s bias | _ => s end.
  Definition skip_rms_pattern bm sf input skip gamma bias eps : list F * list F :=
    let s := skip_sum bm sf input skip bias in (rms_spec s gamma eps, s).
  Definition skip_ln_pattern bm sf input skip gamma beta bias eps : list F * list F :=
    let s := skip_sum bm sf input skip bias in (ln_spec s gamma (Some beta) eps, s).

  (* com.microsoft Skip(Simplified)LayerNormalization: output 0 = norm(input + skip + bias), output 3
     (input_skip_bias_sum) = input + skip + bias; bias optional *)
  Definition skip_total (input skip : list F) (bias : option (list F)) : list F :=
    match bias with Some b => vadd o (vadd o input skip) b | None => vadd o input skip end.
  Definition skip_rms_spec input skip gamma bias eps : list F * list F :=
    let s := skip_total input skip bias in (rms_spec s gamma eps, s).
  Definition skip_ln_spec input skip gamma beta bias eps : list F * list F :=
    let s := skip_total input skip bias in (ln_spec s gamma (Some beta) eps, s).
  Definition bias_arg (bm : bias_mode) (bias : list F) : option (list F) :=
    match bm with NoBias => None | _ => Some bias end.
End Sem.

(* ------------------------------------------------------------------------------------------------ part 2 *)
(* ir.DataType codes that occur *)
Inductive dtype := FLOAT | FLOAT16 | BFLOAT16 | DOUBLE | INT32 | INT64.
Definition dtype_code (d : dtype) : Z :=
  match d with FLOAT => 1 | FLOAT16 => 10 | BFLOAT16 => 16 | DOUBLE => 11 | INT32 => 6 | INT64 => 7 end%Z.
Definition is_float_type (d : dtype) : bool := match d with FLOAT | FLOAT16 | BFLOAT16 | DOUBLE => true | _ => false end.
Definition is_fp_type (d : dtype) : bool := match d with FLOAT | DOUBLE => true | _ => false end.

(* The repair of C19:*:epsilon-or-scale-rank-exceeds-input-rank (fix 4146a4e): _ir_utils.broadcast_keeps_rank
   (value, reference): the rank of value is known and is <= 1 or <= the known rank of reference.  Ranks: None = unknown. *)
Definition keeps_rank (v x : option nat) : bool :=
  match v with
  | None => false
  | Some r => (r <=? 1)%nat || match x with Some rx => (r <=? rx)%nat | None => false end
  end.
(* rank of the NumPy broadcast of the pattern's result: x against epsilon and scale (and bias) *)
Definition bc_rank (rx re rs : nat) : nat := Nat.max rx (Nat.max re rs).

(* RmsNormFusion.check / rewrite (identical in both files).  eps_float_singleton: get_singleton_value(epsilon)
   is a python float.  [rank_guard] = false: as read at bbeff32 (the ranks of epsilon / scale are never looked at);
   true: with the repair.  The harness probes which one each of the three rule files is.
   Result: None = no fusion; Some (axis, stash_type). *)
Definition rms_check_rewrite (rank_guard : bool) (xdt sdt : dtype) (compute : option dtype) (eps_float_singleton : bool)
                             (rx re rs : option nat) : option (Z * Z) :=
  let stash := match compute with Some c => c | None => xdt end in
  if eps_float_singleton && is_float_type xdt && is_float_type sdt && is_fp_type stash
     && (negb rank_guard || (keeps_rank re rx && keeps_rank rs rx))
  then Some ((-1)%Z, dtype_code stash) else None.

(* LayerNormFusion.check / rewrite: x.dtype in {FLOAT, DOUBLE}; epsilon a singleton constant *)
Definition ln_check_rewrite (rank_guard : bool) (xdt : dtype) (eps_singleton : bool) (rx re rs : option nat) : option (Z * Z) :=
  if is_fp_type xdt && eps_singleton && (negb rank_guard || (keeps_rank re rx && keeps_rank rs rx))
  then Some ((-1)%Z, dtype_code xdt) else None.
(* LayerNormBiasFusion: no check as read; the repair refuses a bias that would add dimensions *)
Definition ln_bias_check (rank_guard : bool) (rx rb : option nat) : bool := negb rank_guard || keeps_rank rb rx.

(* _fusion_utils.check_shape_bool: bind the symbolic names in order; a dim is an integer (static size) here,
   symbolic dims of the instance are encoded by the harness as distinct negative numbers. *)
Definition bindings := list (nat * Z).          (* name index -> dim *)
Fixpoint lookup (b : bindings) (k : nat) : option Z :=
  match b with [] => None | (k', v) :: t => if Nat.eqb k k' then Some v else lookup t k end.
Fixpoint bind_dims (b : bindings) (actual : list Z) (names : list nat) : option bindings :=
  match actual, names with
  | [], [] => Some b
  | a :: at', n :: nt =>
      match lookup b n with
      | None => bind_dims ((n, a) :: b) at' nt
      | Some v => if Z.eqb a v then bind_dims b at' nt else None
      end
  | _, _ => None                                   (* rank mismatch *)
  end.
Definition check_shape (b : option bindings) (shape : option (list Z)) (names : list nat) : option bindings :=
  match b, shape with Some b', Some s => bind_dims b' s names | _, _ => None end.

(* names: B=0 S=1 D=2 *)
Definition skip_check (has_bias is_ln : bool) (input skip gamma beta bias : option (list Z)) (stash_type : Z) : bool :=
  let b0 := Some [] in
  let b1 := check_shape b0 input [0; 1; 2]%nat in
  let b2 := check_shape b1 skip [0; 1; 2]%nat in
  let b3 := check_shape b2 gamma [2]%nat in
  let b4 := if is_ln then check_shape b3 beta [2]%nat else b3 in
  let b5 := if has_bias then check_shape b4 bias [2]%nat else b4 in
  match b5 with Some _ => Z.eqb stash_type 1 | None => false end.

(* what Skip(Simplified)LayerNormalization documents for its operands: input [B,S,D], skip of the same shape, gamma / beta /
   bias 1-D of the hidden size D *)
Definition zshape_eqb (a b : list Z) : bool :=
  (fix go (a b : list Z) : bool := match a, b with [], [] => true | x :: a', y :: b' => Z.eqb x y && go a' b' | _, _ => false end) a b.
Definition skip_op_ok (is_ln : bool) (input skip gamma : list Z) (beta bias : option (list Z)) : bool :=
  match input with
  | [_; _; d] =>
      zshape_eqb skip input && zshape_eqb gamma [d]
      && (if is_ln then match beta with Some b => zshape_eqb b [d] | None => false end else true)
      && match bias with Some b => zshape_eqb b [d] | None => true end
  | _ => false
  end.

(* correspondence cases *)
Definition oz2_eqb (a b : option (Z * Z)) : bool :=
  match a, b with
  | Some (x, y), Some (x', y') => Z.eqb x x' && Z.eqb y y'
  | None, None => true
  | _, _ => false
  end.
Inductive norm_case :=
  | CRms (rank_guard : bool) (xdt sdt : dtype) (compute : option dtype) (eps_ok : bool) (rx re rs : option nat) (observed : option (Z * Z))
  | CLn (rank_guard : bool) (xdt : dtype) (eps_ok : bool) (rx re rs : option nat) (observed : option (Z * Z))
  | CLnBias (rank_guard : bool) (rx rb : option nat) (observed : bool)
  | CSkip (has_bias is_ln : bool) (input skip gamma beta bias : option (list Z)) (stash : Z) (observed : bool).
Definition norm_agrees (c : norm_case) : bool :=
  match c with
  | CRms g x s cd e rx re rs obs => oz2_eqb (rms_check_rewrite g x s cd e rx re rs) obs
  | CLn g x e rx re rs obs => oz2_eqb (ln_check_rewrite g x e rx re rs) obs
  | CLnBias g rx rb obs => Bool.eqb (ln_bias_check g rx rb) obs
  | CSkip hb ln i s g be bi st obs => Bool.eqb (skip_check hb ln i s g be bi st) obs
  end.
Fixpoint disagreeing {A} (agrees : A -> bool) (i : nat) (cs : list A) : list nat :=
  match cs with [] => [] | c :: t => (if agrees c then [] else [i]) ++ disagreeing agrees (S i) t end.
