(* C13 (session 6): inline_const -- (1) the printed literal text is read back as the literal (exact for integers; for
   floats under the measured round-trip hypothesis of the printer), (2) a call whose operands are literals evaluates the
   kernel on the tensors the operands denote (so the line printed for a node with inlined operands means the node),
   under the kernel law "CastLike to a tensor of the same element type is the identity". *)
From Coq Require Import List String ZArith Bool Lia DecimalString DecimalZ.
Require Import OV.Graph.Syntax OV.Graph.Sem OV.Script.Syntax OV.Script.Translate OV.Gen.ScriptTables OV.Script.PySem
               OV.Export.Emit OV.Export.EmitProofs OV.Export.EmitCF OV.Export.EmitCFProofs OV.Export.InlineText.
Import ListNotations.
Local Open Scope string_scope.

Theorem int_text_exact : forall z, int_of_text (int_text z) = Some z.
Proof.
  intros z. unfold int_of_text, int_text. rewrite NilEmpty.isi. cbn [option_map]. rewrite DecimalZ.of_to. reflexivity.
Qed.

Example literal_text_instances :
  int_text 0 = "0" /\ int_text (-12) = "-12" /\ int_text 9223372036854775807 = "9223372036854775807" /\
  int_of_text "1.5" = None /\ int_of_text "1e-05" = None /\ int_of_text "-7" = Some (-7)%Z.
Proof. vm_compute. repeat split. Qed.

Section TextProofs.
  Variable float_text : Z -> string.
  Variable float_of_text : string -> option Z.
  (* measured by the harness on every sampled FLOAT constant: the printed text, read by Python and rounded to float32,
     has the bits of the constant; and it is not the text of an integer *)
  Hypothesis float_roundtrip : forall b, nonfinite_b b = false -> float_of_text (float_text b) = Some b.
  Hypothesis float_text_not_int : forall b, nonfinite_b b = false -> int_of_text (float_text b) = None.

  Lemma read_scalar_int : forall z, read_scalar float_of_text (int_text z) = Some (inl z).
  Proof. intros z. unfold read_scalar. rewrite int_text_exact. reflexivity. Qed.
  Lemma read_scalar_float : forall b, nonfinite_b b = false -> read_scalar float_of_text (float_text b) = Some (inr b).
  Proof. intros b H. unfold read_scalar. rewrite (float_text_not_int b H), (float_roundtrip b H). reflexivity. Qed.

  Lemma read_ints_text : forall zs, read_ints float_of_text (map int_text zs) = Some zs.
  Proof. induction zs as [|z t IH]; [reflexivity|]. cbn [map read_ints]. rewrite read_scalar_int, IH. reflexivity. Qed.
  Lemma read_floats_text : forall bs, existsb nonfinite_b bs = false -> read_floats float_of_text (map float_text bs) = Some bs.
  Proof.
    induction bs as [|b t IH]; intros H; [reflexivity|]. cbn [existsb] in H. apply orb_false_iff in H. destruct H as [H1 H2].
    cbn [map read_floats]. rewrite (read_scalar_float b H1), (IH H2). reflexivity.
  Qed.

  Theorem literal_text_reads_back : forall l,
    lit_finiteb l = true -> lit_nonemptyb l = true -> read_lit float_of_text (text_of float_text l) = Some l.
  Proof.
    intros [z|b|zs|bs] Hf Hn; cbn [text_of read_lit lit_finiteb lit_nonemptyb] in *.
    - rewrite read_scalar_int. reflexivity.
    - apply negb_true_iff in Hf. rewrite (read_scalar_float b Hf). reflexivity.
    - destruct zs as [|z t]; [discriminate Hn|]. cbn [map]. rewrite read_scalar_int.
      change (int_text z :: map int_text t) with (map int_text (z :: t)). rewrite read_ints_text. reflexivity.
    - destruct bs as [|b t]; [discriminate Hn|]. apply negb_true_iff in Hf. cbn [map].
      pose proof Hf as Hf'. cbn [existsb] in Hf'. apply orb_false_iff in Hf'. rewrite (read_scalar_float b (proj1 Hf')).
      change (float_text b :: map float_text t) with (map float_text (b :: t)). rewrite (read_floats_text _ Hf). reflexivity.
  Qed.
End TextProofs.

(* the repaired _get_const_repr (C13_04 + C13_09) only prints literals in the domain of the theorem *)
Theorem repaired_literals_in_domain : forall fx a l,
  fx_finite fx = true -> fx_nonempty fx = true -> const_lit_fx fx a = Some l -> lit_finiteb l = true /\ lit_nonemptyb l = true.
Proof.
  intros fx a l Hf Hn H. unfold const_lit_fx in H. destruct (const_lit a) as [l0|]; [|discriminate H].
  destruct (lit_okb fx l0) eqn:Hok; [|discriminate H]. inversion H; subst l0. unfold lit_okb in Hok. rewrite Hf, Hn in Hok. cbn [andb] in Hok.
  apply andb_true_iff in Hok. destruct Hok as [H1 H2]. apply negb_true_iff in H1. apply negb_true_iff in H2.
  destruct l as [z|b|zs|bs]; cbn [lit_finiteb lit_nonemptyb]; split; try reflexivity.
  - rewrite H1. reflexivity.
  - destruct zs; [discriminate H2 | reflexivity].
  - rewrite H1. reflexivity.
  - destruct bs; [discriminate H2 | reflexivity].
Qed.

(* ---- a call with literal operands ------------------------------------------------------------------------------ *)
Section InlineCall.
  Variable V : Type.
  Variable sem : string -> string -> list (string * attrv) -> list (option V) -> option (list V).
  Variable globals : list (string * lit).
  (* every tensor has one element type in the graphs this is used for (operands bound to the same type variable of a
     type-correct node have the same element type): CastLike then returns its first operand *)
  Hypothesis castlike_id : forall v y, sem "" "CastLike" [] [Some v; Some y] = Some [v].

  Lemma promote_args_castlike : forall (args : list (option (pval V))) plan all,
    promote_args V sem args plan all = Some (map (option_map (tensor_of V)) args).
  Proof.
    induction args as [|a t IH]; intros plan all.
    - destruct plan; reflexivity.
    - destruct plan as [|p pt]; cbn [promote_args map]; rewrite IH; [reflexivity|].
      destruct a as [pv|]; [|destruct p; reflexivity]. destruct p as [j|]; [|reflexivity].
      destruct (nth j all None) as [y|]; [|reflexivity]. unfold sem1. rewrite castlike_id. reflexivity.
  Qed.

  Definition plan_ok (op : string) (vals : list (option (pval V))) : Prop :=
    match lookup_assoc op op_typevars with
    | None => True
    | Some tvs => cast_plan tvs (map (option_map (is_scalar V)) vals) <> None
    end.

  Lemma promoted_castlike : forall op vals, plan_ok op vals -> promoted V sem op vals = Some (map (option_map (tensor_of V)) vals).
  Proof.
    intros op vals H. unfold promoted, plan_ok in *. destruct (lookup_assoc op op_typevars) as [tvs|]; [|reflexivity].
    destruct (cast_plan tvs (map (option_map (is_scalar V)) vals)) as [plan|]; [|contradiction H; reflexivity].
    apply promote_args_castlike.
  Qed.

  (* whether an operand is a variable holding a tensor or a literal denoting it, the call applies the kernel to the tensors *)
  Theorem inline_call_denotes : forall (pe : penv V) op args kws vals,
    eval_args V sem globals pe args = Some vals -> plan_ok op vals ->
    eval_expr V sem globals pe (ECall (COp op) args kws) =
    option_map (PT V) (sem1 V sem "" op (map kw_attr kws) (map (option_map (tensor_of V)) vals)).
  Proof.
    intros pe op args kws vals He Hp. rewrite eval_expr_op_eq, He, (promoted_castlike op vals Hp). reflexivity.
  Qed.

  (* the line with inlined operands against the line with variables: same value when the operands denote the same tensors *)
  Theorem inline_call_same : forall (pe pe' : penv V) op args args' kws vals vals',
    eval_args V sem globals pe args = Some vals -> eval_args V sem globals pe' args' = Some vals' ->
    map (option_map (tensor_of V)) vals = map (option_map (tensor_of V)) vals' ->
    plan_ok op vals -> plan_ok op vals' ->
    eval_expr V sem globals pe (ECall (COp op) args kws) = eval_expr V sem globals pe' (ECall (COp op) args' kws).
  Proof.
    intros pe pe' op args args' kws vals vals' H1 H2 E P1 P2.
    rewrite (inline_call_denotes pe op args kws vals H1 P1), (inline_call_denotes pe' op args' kws vals' H2 P2), E. reflexivity.
  Qed.
End InlineCall.
