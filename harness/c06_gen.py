"""C06 generators: (pattern description, host description, commute?, tag) streams.

1. corpus/C06/*.json (minimised past failures and hand-written feature cases) -- always first;
2. random patterns over the alphabet {unary Relu/Neg, commutative Add/Mul, non-commutative Sub, 2-output Split}
   x features {repeated var, const, attr const/var, allow_other_inputs/attributes, optional input, OrValue,
   2 outputs, named outputs, several output nodes}, each with hosts obtained by instantiating the pattern and
   mutating the instance (the near misses are where the matcher's rules interact), and random hosts;
3. thorough: a bounded-exhaustive sweep of small patterns x all small hosts, larger random patterns/hosts.
"""
from __future__ import annotations

import copy
import glob
import itertools
import json
import os

UNARY = ["Relu", "Neg"]
COMM = ["Add", "Mul"]
NONCOMM = ["Sub"]
TWO_OUT = ["Split"]
ARITY = {"Relu": 1, "Neg": 1, "Add": 2, "Mul": 2, "Sub": 2, "Split": 1}
NOUT = {"Split": 2}
VARS = ["x", "y", "z"]

HERE = os.path.dirname(os.path.dirname(os.path.abspath(__file__)))

# (rel_tol, abs_tol) given in the pattern; None = the default of pattern.Constant (1e-5, 1e-8)
TOLERANCES = [(None, None), (None, None), (1e-3, None), (None, 0.5), (1e-2, 1e-4), (1e-9, 0.05), (None, 1e-4)]


def boundary_values(c, rel, abs_):
    """float32 host constants on both sides of the tolerance around c, in the relative and in the absolute regime:
    c +- f * t for f in {0.5, 0.8, 1.25, 2} and t in {rel*|c|, abs} -- and the same with the two tolerances read in
    each other's role (rel as an absolute bound, abs*|c|), so that a mix-up of the two is on a different side.
    Values closer than 3% to the effective bound are left out (float32 storage / double rounding)."""
    import numpy as np
    rel = 1e-5 if rel is None else rel
    abs_ = 1e-8 if abs_ is None else abs_
    scales = sorted({t for t in (rel * abs(c), abs_, rel, abs_ * abs(c)) if t > 0})
    out = [float(np.float32(c))]
    for t in scales:
        for f in (0.5, 0.8, 1.25, 2.0):
            for sgn in (1, -1):
                v = float(np.float32(c + sgn * f * t))
                eff = max(rel * max(abs(c), abs(v)), abs_)
                if eff > 0 and 0.97 < abs(v - c) / eff < 1.03:
                    continue
                if v not in out:
                    out.append(v)
    return out


# ----------------------------------------------------------------------------- corpus

def corpus():
    for f in sorted(glob.glob(os.path.join(HERE, "corpus", "C06", "*.json"))):
        doc = json.load(open(f))
        for c in doc["cases"]:
            yield c["p"], c["h"], bool(c.get("commute")), "corpus:" + os.path.basename(f)


# ----------------------------------------------------------------------------- random patterns

class PatGen:
    def __init__(self, rng, max_nodes, feats):
        self.rng = rng
        self.max_nodes = max_nodes
        self.feats = feats          # set of enabled features
        self.nodes = []
        self.ors = []
        self.params = []
        self.budget = max_nodes

    def nout(self, j):
        o = self.nodes[j].get("outs", 1)
        return o if isinstance(o, int) else len(o)

    def var(self):
        rng = self.rng
        name = rng.choice(VARS[: 2 if "repeated-var" in self.feats else 3])
        if name not in self.params:
            self.params.append(name)
        return ["var", name]

    def value(self, depth, allow_or=True):
        rng = self.rng
        r = rng.random()
        if depth < 3 and r < 0.5 and (self.budget > 0 or self.nodes):
            if self.nodes and (self.budget <= 0 or rng.random() < 0.35):
                multi = [k for k in range(len(self.nodes)) if self.nout(k) > 1]
                j = rng.choice(multi) if multi and rng.random() < 0.6 else rng.randrange(len(self.nodes))   # share a pattern node
            else:
                j = self.node(depth)
            return ["out", j, rng.randrange(self.nout(j))]
        r = rng.random()
        if "const" in self.feats and r < 0.2:
            c = rng.choice([1.0, 0.0, 2.0, 1000.0, -2500.0, [1.0, 2.0]])
            tol = rng.choice(TOLERANCES)
            return ["const", c, tol[0], tol[1]]
        if "any" in self.feats and r < 0.3:
            return ["any"]
        if "or" in self.feats and allow_or and r < 0.55 and depth < 3:
            k = len(self.ors)
            self.ors.append(None)
            alts = [self.value(depth + 1, allow_or=rng.random() < 0.2) for _ in range(rng.choice([2, 2, 3]))]
            o = {"alts": alts}
            if rng.random() < 0.3:
                o["name"] = "o%d" % k
            if rng.random() < 0.4:
                o["tagv"] = "tag%d" % k
                if rng.random() < 0.5:
                    o["tags"] = [10 + i for i in range(len(alts))]
            self.ors[k] = o
            return ["or", k]
        if "optional" in self.feats and r < 0.62:
            return ["ovar", rng.choice(["u", "w"])]
        return self.var()

    def node(self, depth):
        rng = self.rng
        self.budget -= 1
        ops = UNARY + COMM + NONCOMM + (TWO_OUT * 4 if "2-outputs" in self.feats else [])
        op = rng.choice(ops)
        nd = {"op": op}
        ins = [self.value(depth + 1) for _ in range(ARITY[op])]
        if "optional" in self.feats and rng.random() < 0.3:
            ins.append(rng.choice([None, ["ovar", "u"], ["any"]]))
        nd["ins"] = ins
        if op in NOUT:
            nd["outs"] = NOUT[op] if rng.random() < 0.6 else (["s0", None] if "named-output" in self.feats else 1)
        elif "named-output" in self.feats and rng.random() < 0.3:
            nd["outs"] = ["t%d" % len(self.nodes)]
        if "other-inputs" in self.feats and rng.random() < 0.4:
            nd["other_ins"] = rng.choice([True, True, False])
        if "attrs" in self.feats and rng.random() < 0.5:
            a = rng.choice([[["axis", ["c", 1]]], [["axis", ["v", "a"]]], [["axis", ["ov", "a"]]], [["mode", ["c", "k"]]],
                            [["axis", ["c", 1]], ["perm", ["c", [1, 0]]]], [["axis", ["av", None, True]]], [["axis", ["v", "x"]]]])
            nd["attrs"] = a
            for _, ap in a:
                if ap[0] == "v" and ap[1] not in self.params:
                    self.params.append(ap[1])
        if "attrs" in self.feats and rng.random() < 0.3:
            nd["other_attrs"] = False
        if "domain" in self.feats and rng.random() < 0.3:
            nd["dom"] = "custom"
        self.nodes.append(nd)
        return len(self.nodes) - 1

    def pattern(self):
        rng = self.rng
        root = self.node(0)
        outs = [["out", root, 0]]
        if self.nout(root) > 1 and rng.random() < 0.7:
            outs.append(["out", root, 1])
        if "multi-root" in self.feats and len(self.nodes) > 1 and rng.random() < 0.7:
            j = rng.randrange(len(self.nodes) - 1)
            outs.append(["out", j, rng.randrange(self.nout(j))])
            if rng.random() < 0.3:
                outs.reverse()
        return {"params": list(self.params), "nodes": self.nodes, "ors": self.ors, "outs": outs}


ALL_FEATS = ["repeated-var", "const", "any", "or", "optional", "2-outputs", "named-output", "other-inputs", "attrs", "domain", "multi-root"]


def random_pattern(rng, max_nodes):
    k = rng.choice([0, 1, 1, 2, 2, 3, 4])
    feats = set(rng.sample(ALL_FEATS, k))
    if rng.random() < 0.5:
        feats.add("repeated-var")
    return PatGen(rng, max_nodes, feats).pattern()


# ----------------------------------------------------------------------------- hosts from a pattern

class Inst:
    """Instantiate a pattern description as a host graph (choosing alternatives), with optional perturbations."""

    def __init__(self, rng, pdesc, perturb):
        self.rng = rng
        self.p = pdesc
        self.perturb = perturb
        self.next = 0
        self.inputs = []
        self.consts = {}
        self.nodes = []
        self.var_val = {}
        self.node_of = {}            # pattern node -> host node index
        self.or_val = {}

    def fresh(self):
        self.next += 1
        return self.next - 1

    def new_input(self):
        v = self.fresh()
        self.inputs.append(v)
        return v

    def new_const(self, c):
        v = self.fresh()
        self.consts[v] = c
        return v

    def hit(self, p=0.12):
        return self.perturb and self.rng.random() < p

    def value(self, d):
        rng = self.rng
        if d is None:
            return self.new_input() if self.hit(0.2) else None
        k = d[0]
        if k == "any":
            return rng.choice([None, self.new_input()]) if self.hit(0.3) else self.new_input()
        if k in ("var", "ovar"):
            if k == "ovar" and rng.random() < 0.4:
                if d[1] not in self.var_val:
                    self.var_val[d[1]] = None
                    return None
            if d[1] in self.var_val and not self.hit():
                return self.var_val[d[1]]
            v = self.new_input() if rng.random() < 0.8 or not self.nodes else rng.choice(self.nodes[rng.randrange(len(self.nodes))]["outs"])
            self.var_val.setdefault(d[1], v)
            return v
        if k == "const":
            c = d[1]
            if self.hit(0.3):
                return self.new_input()
            if isinstance(c, list):
                cc = list(c)
                if self.hit(0.3):
                    cc = rng.choice([cc[:-1], cc + [3.0], [x + 1.0 for x in cc], cc[0]] + reshaped(cc))
                return self.new_const(cc)
            delta = rng.choice([0.0, 0.0, 1e-6, 1e-9, 1e-2, 0.25, 1.0, -1e-6]) if self.perturb else 0.0
            if self.hit(0.1):
                return self.new_const(rng.choice(["other", [c], {"shape": [1, 1], "data": [c]}, {"shape": [], "data": [c]}]))
            if self.perturb and rng.random() < 0.5:
                return self.new_const(rng.choice(boundary_values(c, d[2], d[3])))     # either side of the tolerance
            return self.new_const(c + delta)
        if k == "out":
            n = self.node(d[1])
            outs = self.nodes[n]["outs"]
            if self.hit(0.12):
                return rng.choice(outs)                  # another output of the same node
            return outs[d[2]] if d[2] < len(outs) else outs[0]
        if k == "or":
            if d[1] in self.or_val and not self.hit():
                return self.or_val[d[1]]
            o = self.p["ors"][d[1]]
            v = self.value(rng.choice(o["alts"]))
            self.or_val.setdefault(d[1], v)
            return v
        raise ValueError(d)

    def node(self, j, force_new=False):
        rng = self.rng
        if j in self.node_of and not force_new and not self.hit(0.1):
            return self.node_of[j]
        nd = self.p["nodes"][j]
        ins = [self.value(i) for i in nd["ins"]]
        while ins and ins[-1] is None and rng.random() < 0.7:
            ins.pop()                                  # trailing None omitted
        if self.hit(0.15):
            ins.append(self.new_input())               # an extra input
        if self.hit(0.08) and ins:
            ins.pop()
        if self.hit(0.1) and len(ins) == 2:
            ins.reverse()
        op = nd["op"]
        if self.hit(0.08):
            op = rng.choice(UNARY + COMM + NONCOMM + TWO_OUT)
        outs = nd.get("outs", 1)
        nout = outs if isinstance(outs, int) else len(outs)
        if self.perturb and rng.random() < 0.15:
            nout = rng.choice([1, 2, 3])
        elif op in NOUT and rng.random() < 0.5:
            nout = max(nout, NOUT[op])
        attrs = []
        for name, ap in nd.get("attrs", []):
            if ap[0] == "c":
                val = ap[1]
                if self.hit(0.25):
                    val = rng.choice([0, 2, "k", "j", [1, 0], [0, 1]])
                if not self.hit(0.1):
                    attrs.append([name, val])
            else:
                if ap[0] in ("ov", "av") and rng.random() < 0.4:
                    continue
                if not self.hit(0.1):
                    attrs.append([name, rng.choice([1, 1, 2])])
        if self.hit(0.2) or (not self.perturb and rng.random() < 0.2):
            attrs.append(["extra", 5])
        dom = nd.get("dom") or ""
        if self.hit(0.08):
            dom = "custom" if dom == "" else ""
        hn = {"op": op, "dom": dom, "attrs": attrs, "ins": ins, "outs": [self.fresh() for _ in range(nout)]}
        self.nodes.append(hn)
        self.node_of.setdefault(j, len(self.nodes) - 1)
        return len(self.nodes) - 1

    def host(self):
        rng = self.rng
        gouts = []
        for o in self.p["outs"]:
            v = self.value(o)
            if v is not None and v not in gouts:
                gouts.append(v)
        # pattern nodes only reachable through unchosen alternatives are sometimes instantiated too
        for j in range(len(self.p["nodes"])):
            if j not in self.node_of and rng.random() < 0.3:
                self.node(j)
        if self.perturb:
            produced = [o for n in self.nodes for o in n["outs"]]
            r = rng.random()
            if r < 0.2 and produced:
                v = rng.choice(produced)                # an intermediate value that is also a graph output
                if v not in gouts:
                    gouts.append(v)
            elif r < 0.45 and produced:
                v = rng.choice(produced)                # an extra consumer of an intermediate value
                self.nodes.append({"op": rng.choice(UNARY), "dom": "", "attrs": [], "ins": [v], "outs": [self.fresh()]})
                gouts.append(self.nodes[-1]["outs"][0])
        if not gouts:
            gouts = [self.nodes[-1]["outs"][0]] if self.nodes else []
        return {"nodes": self.nodes, "inputs": self.inputs, "outs": gouts, "consts": {str(k): v for k, v in self.consts.items()}}


def toposort_ok(h):
    seen = set(h["inputs"]) | {int(k) for k in h["consts"]}
    for n in h["nodes"]:
        for i in n["ins"]:
            if i is not None and i not in seen:
                return False
        seen.update(n["outs"])
    return True


def random_host(rng, max_nodes):
    n = rng.randint(1, max_nodes)
    inputs = [0, 1]
    consts = {"2": 1.0}
    nxt = 3
    avail = [0, 1, 2]
    nodes = []
    for _ in range(n):
        op = rng.choice(UNARY + COMM + NONCOMM + TWO_OUT)
        k = ARITY[op] + (1 if rng.random() < 0.1 else 0)
        ins = [rng.choice(avail[-5:] if rng.random() < 0.7 else avail) for _ in range(k)]
        nout = NOUT.get(op, 1)
        outs = list(range(nxt, nxt + nout))
        nxt += nout
        attrs = [["axis", rng.choice([1, 2])]] if rng.random() < 0.2 else []
        nodes.append({"op": op, "dom": "", "attrs": attrs, "ins": ins, "outs": outs})
        avail += outs
    gouts = [nodes[-1]["outs"][0]]
    if rng.random() < 0.3:
        v = rng.choice(avail[3:])
        if v not in gouts:
            gouts.append(v)
    return {"nodes": nodes, "inputs": inputs, "outs": gouts, "consts": consts}


def hosts_for(rng, pdesc, n_exact, n_perturbed, n_random, max_random_nodes=4):
    out = []
    for _ in range(n_exact):
        out.append(Inst(rng, pdesc, False).host())
    for _ in range(n_perturbed):
        out.append(Inst(rng, pdesc, True).host())
    for _ in range(n_random):
        out.append(random_host(rng, max_random_nodes))
    return [h for h in out if h["nodes"] and toposort_ok(h)]


def lift(rng, h):
    """Move a prefix of the host's nodes (and the values they need) into an enclosing graph: the matched graph
    becomes the then-branch of an If node and uses those values as values of another graph."""
    h = copy.deepcopy(h)
    k = rng.randint(0, max(0, len(h["nodes"]) - 1))
    outer, inner = h["nodes"][:k], h["nodes"][k:]
    produced_inner = {o for n in inner for o in n["outs"]}
    if any(o not in produced_inner for o in h["outs"]):
        return None                                  # an output of the branch must be computed in the branch
    needed_outer = {i for n in outer for i in n["ins"] if i is not None}
    oi = [v for v in h["inputs"] if v in needed_outer or rng.random() < 0.6]
    oc = {kk: c for kk, c in h["consts"].items() if int(kk) in needed_outer or rng.random() < 0.5}
    h["outer_nodes"] = outer
    h["nodes"] = inner
    h["outer_inputs"] = oi
    h["inputs"] = [v for v in h["inputs"] if v not in oi]
    h["outer_consts"] = oc
    h["consts"] = {kk: c for kk, c in h["consts"].items() if kk not in oc}
    if not (h["outer_nodes"] or h["outer_inputs"] or h["outer_consts"]):
        return None
    return h


def swapped(rng, pdesc):
    """The description with the operands of a random subset of its commutative binary nodes swapped."""
    d = copy.deepcopy(pdesc)
    for nd in d["nodes"]:
        if nd["op"] in COMM and not nd.get("dom") and len(nd["ins"]) == 2 and rng.random() < 0.6:
            nd["ins"].reverse()
    return d


def commutable(pdesc):
    return any(nd["op"] in COMM and not nd.get("dom") for nd in pdesc["nodes"])


# ----------------------------------------------------------------------------- the stream

def cases(ctx):
    rng = ctx.rng
    yield from corpus()
    yield from const_family(ctx)
    yield from tolerance_family(ctx)
    yield from list_const_family(ctx)
    yield from domain_family(ctx)
    yield from or_scope_family(ctx)
    yield from committed_family(ctx)
    yield from sweep(ctx)
    if ctx.tier == "quick":
        n_pat, hosts = 200, (1, 4, 1)
    else:
        n_pat, hosts = 1500, (2, 6, 2)
    rate = {"coq_rate": 0.6 if ctx.tier == "quick" else 0.3}
    for i in range(n_pat):
        p = random_pattern(rng, 3)
        commute = commutable(p) and rng.random() < 0.3
        hs = hosts_for(rng, p, *hosts)
        if commute:
            hs += hosts_for(rng, swapped(rng, p), 2, 2, 0)
        for h in hs:
            yield p, h, commute, "random3", rate
            if rng.random() < 0.15:
                hl = lift(rng, h)
                if hl is not None:
                    yield p, hl, commute, "nested", rate
    if ctx.tier == "thorough":
        for i in range(400):
            p = random_pattern(rng, 8)
            for h in hosts_for(rng, p, 1, 3, 1, max_random_nodes=20):
                yield p, h, False, "random8", rate


# ----------------------------------------------------------------------------- the bounded-exhaustive family

def _params(nodes, ors, outs):
    names = []

    def visit(v):
        if v is None:
            return
        if v[0] == "var" and v[1] not in names:
            names.append(v[1])
        if v[0] == "or":
            for a in ors[v[1]]["alts"]:
                visit(a)

    for nd in nodes:
        for i in nd["ins"]:
            visit(i)
        for _, a in nd.get("attrs", []):
            if a[0] == "v" and a[1] not in names:
                names.append(a[1])
    for o in outs:
        visit(o)
    return names


def _pat(nodes, outs=None, ors=()):
    ors = list(ors)
    if outs is None:
        outs = [["out", len(nodes) - 1, 0]]
    return {"params": _params(nodes, ors, outs), "nodes": nodes, "ors": ors, "outs": outs}


def exhaustive_patterns():
    """Patterns with <= 3 node patterns over {unary Relu/Neg, commutative Add, non-commutative Sub, 2-output Split}
    x the features of the property's quantifier, enumerated explicitly (deterministic order)."""
    X, Y = ["var", "x"], ["var", "y"]
    C1 = ["const", 1.0, None, None]
    ANY = ["any"]
    leaves = [X, Y, C1, ANY]
    pats = []
    # ---- one node
    for a in leaves:
        pats.append(_pat([{"op": "Relu", "ins": [a]}]))
        pats.append(_pat([{"op": "Split", "ins": [a], "outs": 2}], [["out", 0, 0], ["out", 0, 1]]))
    for op in ("Add", "Sub"):
        for a in leaves:
            for b in leaves:
                pats.append(_pat([{"op": op, "ins": [a, b]}]))
    # one node x features
    for op, ins in (("Relu", [X]), ("Sub", [X, Y]), ("Sub", [X, X])):
        for attrs in ([["axis", ["c", 1]]], [["axis", ["v", "a"]]], [["axis", ["ov", "a"]]], [["axis", ["c", 1]], ["mode", ["c", "k"]]],
                      [["axis", ["v", "x"]]], []):
            for oa in (None, False):
                if not attrs and oa is None:
                    continue
                pats.append(_pat([{"op": op, "ins": ins, "attrs": attrs, "other_attrs": oa}]))
        pats.append(_pat([{"op": op, "ins": ins, "other_ins": True}]))
        pats.append(_pat([{"op": op, "ins": ins + [None]}]))
        pats.append(_pat([{"op": op, "ins": ins + [["ovar", "u"]]}]))
        pats.append(_pat([{"op": op, "ins": ins + [["ovar", "u"]], "other_ins": True}]))
        pats.append(_pat([{"op": op, "ins": ins, "dom": "custom"}]))
        pats.append(_pat([{"op": op, "ins": ins, "outs": ["t"]}]))
        pats.append(_pat([{"op": op, "ins": ins, "outs": 2}], [["out", 0, 0]]))
    pats.append(_pat([{"op": "Sub", "ins": [["const", 1.0, 1e-3, None], ["const", [1.0, 2.0], None, 0.5]]}]))
    # ---- two nodes: child then root
    children = [{"op": "Relu", "ins": [X]}, {"op": "Relu", "ins": [Y]}, {"op": "Add", "ins": [X, Y]}, {"op": "Sub", "ins": [X, Y]},
                {"op": "Split", "ins": [X], "outs": 2}, {"op": "Split", "ins": [X], "outs": ["s0", None]}]
    for ch in children:
        k = 2 if ch["op"] == "Split" else 1
        for i in range(k):
            o = ["out", 0, i]
            pats.append(_pat([ch, {"op": "Relu", "ins": [o]}]))
            pats.append(_pat([ch, {"op": "Neg", "ins": [o]}], [["out", 1, 0], o]))             # two outputs, one output node
            for op in ("Add", "Sub"):
                for other in (X, Y, C1, o):
                    pats.append(_pat([ch, {"op": op, "ins": [o, other]}]))
                    pats.append(_pat([ch, {"op": op, "ins": [other, o]}]))
        if k == 2:
            for op in ("Add", "Sub"):
                pats.append(_pat([ch, {"op": op, "ins": [["out", 0, 0], ["out", 0, 1]]}]))
                pats.append(_pat([ch, {"op": op, "ins": [["out", 0, 1], ["out", 0, 0]]}]))
    # ---- three nodes
    unary_kids = [{"op": "Relu", "ins": [X]}, {"op": "Relu", "ins": [Y]}, {"op": "Neg", "ins": [X]}, {"op": "Split", "ins": [X], "outs": 2}]
    for a in unary_kids:
        for b in unary_kids:
            for op in ("Add", "Sub"):
                pats.append(_pat([a, b, {"op": op, "ins": [["out", 0, 0], ["out", 1, 0]]}]))
    for a in unary_kids:                                     # chains and diamonds over one shared grandchild
        for mid in ("Relu", "Neg"):
            pats.append(_pat([a, {"op": mid, "ins": [["out", 0, 0]]}, {"op": "Relu", "ins": [["out", 1, 0]]}]))
            for op in ("Add", "Sub"):
                pats.append(_pat([a, {"op": mid, "ins": [["out", 0, 0]]}, {"op": op, "ins": [["out", 1, 0], ["out", 0, 0]]}]))
                pats.append(_pat([a, {"op": mid, "ins": [["out", 0, 0]]}, {"op": op, "ins": [["out", 0, 0], ["out", 1, 0]]}]))
    # several output nodes
    pats.append(_pat([{"op": "Relu", "ins": [X]}, {"op": "Neg", "ins": [X]}], [["out", 0, 0], ["out", 1, 0]]))
    pats.append(_pat([{"op": "Relu", "ins": [X]}, {"op": "Relu", "ins": [Y]}], [["out", 0, 0], ["out", 1, 0]]))
    pats.append(_pat([{"op": "Relu", "ins": [X]}, {"op": "Neg", "ins": [["out", 0, 0]]}, {"op": "Sub", "ins": [["out", 0, 0], Y]}],
                     [["out", 1, 0], ["out", 2, 0]]))
    pats.append(_pat([{"op": "Relu", "ins": [X]}, {"op": "Relu", "ins": [Y]}, {"op": "Relu", "ins": [["var", "z"]]}],
                     [["out", 0, 0], ["out", 1, 0], ["out", 2, 0]]))
    # ---- OrValue
    for tag in (None, "tag"):
        for name in (None, "o"):
            base = {"name": name, "tagv": tag}
            # dispatch on the operator
            pats.append(_pat([{"op": "Relu", "ins": [X]}, {"op": "Neg", "ins": [X]}, {"op": "Sub", "ins": [["or", 0], Y]}],
                             ors=[dict(base, alts=[["out", 0, 0], ["out", 1, 0]])]))
            # backtracking: same operator twice / a variable among the alternatives
            pats.append(_pat([{"op": "Relu", "ins": [X]}, {"op": "Relu", "ins": [Y]}, {"op": "Sub", "ins": [["or", 0], Y]}],
                             ors=[dict(base, alts=[["out", 0, 0], ["out", 1, 0]])]))
            pats.append(_pat([{"op": "Relu", "ins": [X]}, {"op": "Sub", "ins": [["or", 0], X]}],
                             ors=[dict(base, alts=[["out", 0, 0], Y])]))
            pats.append(_pat([{"op": "Relu", "ins": [X]}, {"op": "Sub", "ins": [["or", 0], X]}],
                             ors=[dict(base, alts=[Y, ["out", 0, 0]], tags=[7, 9] if tag else None)]))
            # a pattern node shared between an alternative and the rest (DESIGN 7, F16)
            pats.append(_pat([{"op": "Relu", "ins": [X]}, {"op": "Neg", "ins": [["out", 0, 0]]}, {"op": "Add", "ins": [["or", 0], ["out", 0, 0]]}],
                             ors=[dict(base, alts=[["out", 1, 0], Y])]))
            pats.append(_pat([{"op": "Relu", "ins": [X]}, {"op": "Neg", "ins": [["out", 0, 0]]}, {"op": "Add", "ins": [["out", 0, 0], ["or", 0]]}],
                             ors=[dict(base, alts=[["out", 1, 0], ["const", 1.0, None, None]])]))
            pats.append(_pat([{"op": "Split", "ins": [X], "outs": 2}, {"op": "Neg", "ins": [["out", 0, 1]]}, {"op": "Sub", "ins": [["or", 0], ["out", 0, 0]]}],
                             ors=[dict(base, alts=[["out", 1, 0], ["out", 0, 1]])]))
    return pats


def exhaustive_hosts(max_nodes):
    """All host graphs with <= max_nodes nodes over {Relu, Add, Sub, Split}, inputs drawn from two graph inputs, one
    constant and earlier results; every value without a consumer is a graph output."""
    ops = [("Relu", 1, 1), ("Add", 2, 1), ("Sub", 2, 1), ("Split", 1, 2)]
    out = []

    def rec(nodes, avail, nxt):
        if nodes:
            used = {i for n in nodes for i in n["ins"]}
            produced = [o for n in nodes for o in n["outs"]]
            gouts = [o for o in produced if o not in used] or [produced[-1]]
            out.append({"nodes": copy.deepcopy(nodes), "inputs": [0, 1], "outs": gouts, "consts": {"2": 1.0}})
        if len(nodes) == max_nodes:
            return
        for op, ar, no in ops:
            for ins in itertools.product(avail, repeat=ar):
                outs = list(range(nxt, nxt + no))
                rec(nodes + [{"op": op, "dom": "", "attrs": [], "ins": list(ins), "outs": outs}], avail + outs, nxt + no)

    rec([], [0, 1, 2], 3)
    return out


def host_variants(rng, h):
    """Feature variants of a plain host: attributes, an extra / a missing input, a domain, an intermediate value
    that is also a graph output."""
    hs = []
    h2 = copy.deepcopy(h)
    for n in h2["nodes"]:
        r = rng.random()
        if r < 0.35:
            n["attrs"] = [["axis", rng.choice([1, 2])]]
        elif r < 0.5:
            n["attrs"] = [["axis", 1], ["mode", rng.choice(["k", "j"])]]
        elif r < 0.6:
            n["attrs"] = [["extra", 5]]
        r = rng.random()
        if r < 0.15:
            n["ins"] = n["ins"] + [rng.choice([0, 1, None])]
        elif r < 0.22 and len(n["ins"]) > 1:
            n["ins"] = n["ins"][:-1]
        if rng.random() < 0.1:
            n["dom"] = "custom"
        if rng.random() < 0.15 and n["op"] != "Split":
            n["outs"] = n["outs"] + [max(o for m in h2["nodes"] for o in m["outs"]) + 10 + len(hs)]
    hs.append(h2)
    if any(2 in n["ins"] for n in h["nodes"]):       # the constant operand: a 1-element vector, another value, nearly 1
        for c in ([1.0], rng.choice([1.5, "other", [1.0, 2.0]]), rng.choice([1.000001, 1.0 + 1e-3]),
                  rng.choice([{"shape": [1, 1], "data": [1.0]}, {"shape": [], "data": [1.0]}, {"shape": [1], "data": [1.0]}])):
            hc = copy.deepcopy(h)
            hc["consts"] = {"2": c}
            hs.append(hc)
    h3 = copy.deepcopy(h)
    produced = [o for n in h3["nodes"] for o in n["outs"]]
    extra = [o for o in produced if o not in h3["outs"]]
    if extra:
        h3["outs"] = h3["outs"] + [rng.choice(extra)]
        hs.append(h3)
    return hs


def _feature_key(p):
    f = set()
    for nd in p["nodes"]:
        f.add({"Add": "bin", "Sub": "bin", "Split": "split"}.get(nd["op"], "un"))
        for _, a in nd.get("attrs", []):
            f.add("attr:" + a[0])
        for k in ("other_attrs", "other_ins", "dom"):
            if nd.get(k) is not None:
                f.add(f"{k}={nd[k]}")
        outs = nd.get("outs", 1)
        f.add("outs:%s" % (outs if isinstance(outs, int) else "named"))
        for i in nd["ins"]:
            if i is None or i[0] in ("const", "any", "ovar"):
                f.add("in:" + ("none" if i is None else i[0]))
    for o in p.get("ors", []):
        f.add("or:" + ",".join(a[0] for a in o["alts"]) + (":tag" if o.get("tagv") else "") + (":name" if o.get("name") else ""))
    f.add("nout:%d" % len(p["outs"]))
    return "|".join(sorted(f))


def const_family(ctx):
    """Constant patterns against host constants on both sides of the stated tolerance, the constant as first and as
    second operand, with and without commute=True."""
    rng = ctx.rng
    X = ["var", "x"]
    pats = []
    for c in (0.0, 1.0, 1000.0, -2500.0, 1e-3):
        for rel, abs_ in [(None, None), (1e-3, None), (None, 1e-4), (1e-2, 1e-6), (1e-9, 0.05), (0.0, 1e-6)]:
            K = ["const", c, rel, abs_]
            for op in ("Add", "Mul", "Sub"):
                pats.append((_pat([{"op": op, "ins": [X, K]}]), c, rel, abs_))
                pats.append((_pat([{"op": op, "ins": [K, X]}]), c, rel, abs_))
            pats.append((_pat([{"op": "Relu", "ins": [X]}, {"op": "Add", "ins": [["out", 0, 0], K]}]), c, rel, abs_))
    pats.append((_pat([{"op": "Add", "ins": [X, ["const", [0.0, 1000.0], None, None]]}]), None, None, None))
    if ctx.tier == "quick":
        pats = rng.sample(pats, 40)
    for p, c, rel, abs_ in pats:
        root_op = p["nodes"][-1]["op"]
        if c is None:
            vals = [[0.0, 1000.0], [5e-9, 1000.008], [2e-8, 1000.0], [0.0, 1000.0125], [5e-6, 1000.0]]
        else:
            vals = boundary_values(c, rel, abs_)
            if ctx.tier == "quick":
                vals = vals[:1] + rng.sample(vals[1:], min(len(vals) - 1, 10))
        hosts = []
        for v in vals:
            for order in ((0, 1), (1, 0)):
                ins = [[0, 2][k] for k in order]
                if len(p["nodes"]) == 2:
                    nodes = [{"op": "Relu", "dom": "", "attrs": [], "ins": [0], "outs": [3]},
                             {"op": root_op, "dom": "", "attrs": [], "ins": [[3, 2][k] for k in order], "outs": [4]}]
                    outs = [4]
                else:
                    nodes = [{"op": root_op, "dom": "", "attrs": [], "ins": ins, "outs": [3]}]
                    outs = [3]
                hosts.append({"nodes": nodes, "inputs": [0], "outs": outs, "consts": {"2": v}})
        for h in hosts:
            yield p, h, False, "const-boundary", {"coq_rate": 0.5}
            if commutable(p):
                yield p, h, True, "const-boundary-commute", {"coq_rate": 0.5}


def reshaped(elems):
    """The same elements (row-major) as tensors of other shapes -- and of the same shape in the second encoding."""
    n = len(elems)
    out = [{"shape": [n], "data": list(elems)},                       # rank 1, written as a tensor: the same constant
           {"shape": [n, 1], "data": list(elems)}, {"shape": [1, n], "data": list(elems)},
           {"shape": [1, 1, n], "data": list(elems)}, {"shape": [n, 1, 1], "data": list(elems)}]
    if n == 1:
        out += [elems[0], {"shape": [], "data": list(elems)}]         # 0-d
    for a in range(2, n):
        if n % a == 0:
            out.append({"shape": [a, n // a], "data": list(elems)})
    return out


def _f32_ord(x):
    import numpy as np
    i = int(np.float32(x).view(np.int32))
    return i if i >= 0 else -(i & 0x7FFFFFFF)


def _f32_of_ord(k):
    import numpy as np
    i = k if k >= 0 else ((-k) | 0x80000000) - (1 << 32)
    return float(np.array([i], dtype=np.int64).astype(np.int32).view(np.float32)[0])


def exact_close(v, c, rel, abs_):
    from fractions import Fraction
    v, c, rel, abs_ = Fraction(v), Fraction(c), Fraction(rel), Fraction(abs_)
    return abs(v - c) <= max(rel * max(abs(v), abs(c)), abs_)


def tight_boundary_values(c, rel, abs_, stats=None):
    """float32 host constants AT the tolerance bound around the pattern constant c, on both sides of c: the last float32
    value that is within the tolerance, its inner neighbour, the first one that is not, its outer neighbour (found by
    bisection over the float32 ordinals with exact rational arithmetic; the set of close values is an interval).
    math.isclose rounds (rel_tol * x and a - b in double): values on which its verdict differs from the exact one are left
    out and counted -- the model (and the property's "within the stated tolerance") reads the bound exactly.  With
    dyadic tolerances and constants every double operation is exact and the bound itself is a float32 value."""
    import math
    import numpy as np
    rel = 1e-5 if rel is None else rel
    abs_ = 1e-8 if abs_ is None else abs_
    c32 = float(np.float32(c))
    out = []
    if not exact_close(c32, c, rel, abs_):
        return out
    eff = max(rel * abs(c), abs_)
    for sgn in (1, -1):
        far = float(np.float32(c + sgn * (4 * eff + abs(c) * 1e-6 + 1e-30)))
        k = 0
        while exact_close(far, c, rel, abs_) and k < 40:
            far = float(np.float32(c + sgn * (abs(far - c) * 4 + 1e-30)))
            k += 1
        if exact_close(far, c, rel, abs_) or not math.isfinite(far):
            continue
        lo, hi = _f32_ord(c32), _f32_ord(far)          # lo close, hi not close
        step = 1 if hi > lo else -1
        while abs(hi - lo) > 1:
            mid = (lo + hi) // 2
            if exact_close(_f32_of_ord(mid), c, rel, abs_):
                lo = mid
            else:
                hi = mid
        for o in (lo - step, lo, hi, hi + step):
            v = _f32_of_ord(o)
            if not math.isfinite(v):
                continue
            if math.isclose(v, c, rel_tol=rel, abs_tol=abs_) != exact_close(v, c, rel, abs_):
                if stats is not None:
                    stats["rounding_excluded"] = stats.get("rounding_excluded", 0) + 1
                continue
            if v not in out:
                out.append(v)
    return out


TIGHT_CONSTS = [0.0, 1.0, -1.0, 1000.0, -2500.0, 1e-3, 1024.0, 0.5, 3.0, -0.75, 1e6]
TIGHT_TOLS = [(None, None), (1e-3, None), (None, 1e-4), (1e-2, 1e-6), (1e-9, 0.05), (0.0, 1e-6), (0.0, 0.0),
              (2.0 ** -10, 2.0 ** -12), (2.0 ** -7, 0.0), (0.0, 2.0 ** -4), (2.0 ** -10, None), (1e-5, 1e-8), (1e-8, 1e-5)]
TIGHT_STATS = {}


def tolerance_family(ctx):
    """Scalar constants AT the tolerance bound (last float32 value inside, first outside, and their neighbours; both
    signs of the deviation and of the constant, zero, relative and absolute regime, exact (0, 0) tolerances, dyadic
    tolerances where the bound itself is hit), the constant as first and as second operand, with and without
    commute=True (the swapped copies are made by Constant.clone, which must keep both tolerances in their roles)."""
    rng = ctx.rng
    X = ["var", "x"]
    combos = [(c, t) for c in TIGHT_CONSTS for t in TIGHT_TOLS]
    if ctx.tier == "quick":
        combos = rng.sample(combos, 36)
    TIGHT_STATS.clear()
    TIGHT_STATS.update({"rounding_excluded": 0, "values": 0, "inside": 0, "outside": 0, "on_the_bound": 0})
    from fractions import Fraction
    for c, (rel, abs_) in combos:
        K = ["const", c, rel, abs_]
        vals = tight_boundary_values(c, rel, abs_, TIGHT_STATS)
        r = 1e-5 if rel is None else rel
        a = 1e-8 if abs_ is None else abs_
        for v in vals:
            TIGHT_STATS["values"] += 1
            inside = exact_close(v, c, r, a)
            TIGHT_STATS["inside" if inside else "outside"] += 1
            d = abs(Fraction(v) - Fraction(c))
            if d != 0 and d == max(Fraction(r) * max(abs(Fraction(v)), abs(Fraction(c))), Fraction(a)):
                TIGHT_STATS["on_the_bound"] += 1
        ops = ["Add", "Mul", "Sub"] if ctx.tier != "quick" else [rng.choice(["Add", "Mul"]), "Sub"]
        for op in ops:
            for kfirst in (False, True):
                p = _pat([{"op": op, "ins": [K, X] if kfirst else [X, K]}])
                for v in vals:
                    for order in ((0, 2), (2, 0)):
                        h = {"nodes": [{"op": op, "dom": "", "attrs": [], "ins": list(order), "outs": [3]}],
                             "inputs": [0], "outs": [3], "consts": {"2": v}}
                        yield p, h, False, "tolerance-bound", {"coq_rate": 1.0}
                        if commutable(p):
                            yield p, h, True, "tolerance-bound-commute", {"coq_rate": 1.0}


def list_const_family(ctx):
    """List-valued constants: op(x, [..]) / op([..], x) / below another node / as an OrValue alternative / with stated
    tolerances / with commute=True, against hosts whose constant operand has the SAME elements as a rank-1 tensor (both
    encodings), as tensors of ranks 2 and 3 ([n,1], [1,n], [1,1,n], [n,1,1], [a,b]), as a 0-d tensor (one-element
    lists), with another length, with one element off / at the tolerance bound, and a non-constant operand.  Documented
    meaning: a list constant matches a rank-1 tensor of exactly that length whose elements agree within tolerance."""
    rng = ctx.rng
    X, Y = ["var", "x"], ["var", "y"]
    lists = [[0.0, 0.0], [1.0, 2.0], [5.0], [0.0], [1.0, 2.0, 3.0, 4.0], [0.0, 1000.0], [1.0, 1.0, 1.0]]
    tols = [(None, None), (1e-3, None), (None, 0.5), (0.0, 0.0)]
    pats = []
    for L in lists:
        for rel, abs_ in tols:
            K = ["const", L, rel, abs_]
            pats.append((_pat([{"op": "Add", "ins": [X, K]}]), L, rel, abs_, False))
            pats.append((_pat([{"op": "Add", "ins": [K, X]}]), L, rel, abs_, True))
            pats.append((_pat([{"op": "Sub", "ins": [X, K]}]), L, rel, abs_, False))
            pats.append((_pat([{"op": "Relu", "ins": [X]}, {"op": "Mul", "ins": [["out", 0, 0], K]}]), L, rel, abs_, True))
            pats.append((_pat([{"op": "Relu", "ins": [X]}, {"op": "Sub", "ins": [Y, ["or", 0]]}],
                              ors=[{"alts": [K, ["out", 0, 0]], "tagv": "tg"}]), L, rel, abs_, False))
    if ctx.tier == "quick":
        pats = rng.sample(pats, 30)
    for p, L, rel, abs_, commute in pats:
        n = len(L)
        consts = [list(L)] + reshaped(L)
        consts += [list(L[:-1]) if n > 1 else [], list(L) + [L[-1]], [x + 1.0 for x in L], list(L[:-1]) + [L[-1] + 0.25]]
        consts += [{"shape": [n, 1], "data": [x + 1.0 for x in L]}, "other"]
        for v in tight_boundary_values(L[-1], rel, abs_)[:4]:          # the last element at the tolerance bound
            consts.append(list(L[:-1]) + [v])
            consts.append({"shape": [1, n], "data": list(L[:-1]) + [v]})
        if ctx.tier == "quick":
            consts = consts[:2] + rng.sample(consts[2:], min(len(consts) - 2, 9))
        root = p["nodes"][-1]
        kpos = [i for i, a in enumerate(root["ins"]) if a[0] in ("const", "or")][0]
        for cst in consts + [None]:
            for order in ((0, 1), (1, 0)):
                if len(p["nodes"]) == 2 and not p["ors"]:
                    other, nodes = 3, [{"op": "Relu", "dom": "", "attrs": [], "ins": [0], "outs": [3]}]
                else:
                    other, nodes = 0, []
                ins = [None, None]
                ins[kpos] = 2
                ins[1 - kpos] = other
                ins = [ins[k] for k in order]
                nodes = nodes + [{"op": root["op"], "dom": "", "attrs": [], "ins": ins, "outs": [4]}]
                h = {"nodes": nodes, "inputs": [0] if cst is not None else [0, 2], "outs": [4],
                     "consts": {"2": cst} if cst is not None else {}}
                yield p, h, False, "list-const", {"coq_rate": 1.0}
                if commute and commutable(p):
                    yield p, h, True, "list-const-commute", {"coq_rate": 1.0}


def domain_family(ctx):
    """Domain and operator given by PREFIX patterns (pattern.torch_module_op = domain "pkg.torch*", a user-made
    OpsetPatternBuilder(PrefixPattern(..)), .submodule(name) = operator prefix) and by _domain=: the prefix-domain node
    as root / interior node / one of several output nodes / OrValue alternative, against hosts whose node has every
    combination of domain in {the prefix, prefix + suffix, a proper prefix of it, "", other case, another domain} and
    operator in {the name, name + suffix, a proper prefix, another}.  Nodes made by another opset builder are not in
    GraphPattern._nodes; with commute=True and a commutative node in the pattern the rule set cannot be built."""
    rng = ctx.rng
    X, Y = ["var", "x"], ["var", "y"]
    T = "pkg.torch"
    pats = [
        (_pat([{"op": "mod_", "prefix": True, "dom_prefix": T, "ins": [X]}]), T, "mod_"),
        (_pat([{"op": "Silu", "dom_prefix": T, "ins": [X]}]), T, "Silu"),
        (_pat([{"op": "Relu", "ins": [X]}, {"op": "mod_", "prefix": True, "dom_prefix": T, "ins": [["out", 0, 0]]}]), T, "mod_"),
        (_pat([{"op": "Silu", "dom_prefix": T, "ins": [X]}, {"op": "Relu", "ins": [["out", 0, 0]]}]), T, "Silu"),
        (_pat([{"op": "Silu", "dom_prefix": T, "ins": [X]}, {"op": "Sub", "ins": [["out", 0, 0], Y]}]), T, "Silu"),
        (_pat([{"op": "Silu", "dom_prefix": "custom", "ins": [X]}]), "custom", "Silu"),
        (_pat([{"op": "Silu", "dom_prefix": "", "ins": [X]}]), "", "Silu"),                       # the empty prefix: any domain
        (_pat([{"op": "Silu", "dom_prefix": T, "dom": "custom", "ins": [X]}]), "custom", "Silu"),  # _domain= overrides the builder's
        (_pat([{"op": "mod_", "prefix": True, "dom": "custom", "ins": [X]}]), "custom", "mod_"),
        (_pat([{"op": "Silu", "dom_prefix": T, "ins": [X]}, {"op": "Neg", "ins": [X]}], [["out", 0, 0], ["out", 1, 0]]), T, "Silu"),
        (_pat([{"op": "Neg", "ins": [X]}, {"op": "Silu", "dom_prefix": T, "ins": [X]}], [["out", 0, 0], ["out", 1, 0]]), T, "Silu"),
        (_pat([{"op": "Silu", "dom_prefix": T, "ins": [X]}, {"op": "Relu", "ins": [X]}, {"op": "Sub", "ins": [["or", 0], Y]}],
              ors=[{"alts": [["out", 0, 0], ["out", 1, 0]], "tagv": "tg"}]), T, "Silu"),
        (_pat([{"op": "Silu", "dom_prefix": T, "ins": [X], "attrs": [["axis", ["v", "a"]]], "other_attrs": False}]), T, "Silu"),
    ]
    # commute=True with a commutative node next to a node of another opset builder
    cpats = [_pat([{"op": "Add", "ins": [X, Y]}, {"op": "mod_", "prefix": True, "dom_prefix": T, "ins": [["out", 0, 0]]}]),
             _pat([{"op": "Silu", "dom_prefix": T, "ins": [X]}, {"op": "Add", "ins": [["out", 0, 0], Y]}])]
    for p, dom, opn in pats:
        doms = [dom, dom + ".v2", dom + "x", dom[:-1] if dom else "q", "", dom.capitalize() if dom else "Q", "other"]
        ops = [opn, opn + "a", opn[:-1], "x" + opn, "Relu"]
        doms = list(dict.fromkeys(doms))
        combos = [(d, o) for d in doms for o in ops]
        if ctx.tier == "quick":
            combos = combos[:2] + rng.sample(combos[2:], 10)
        j = [k for k, nd in enumerate(p["nodes"]) if nd.get("dom_prefix") is not None or nd.get("prefix")][0]
        for d, o in combos:
            inst = Inst(rng, p, False)
            h = inst.host()
            hn = h["nodes"][inst.node_of[j]] if j in inst.node_of else None
            if hn is None or not toposort_ok(h):
                continue
            hn["dom"], hn["op"] = d, o
            yield p, h, False, "prefix-domain", {"coq_rate": 1.0}
            if rng.random() < 0.3:
                h2 = double_host(rng, p, False)
                if h2["nodes"] and toposort_ok(h2):
                    yield p, h2, False, "prefix-domain", {"coq_rate": 1.0}
    for p in cpats:
        for h in hosts_for(rng, p, 2, 2, 0):
            yield p, h, False, "prefix-domain", {"coq_rate": 1.0}
            yield p, h, True, "prefix-domain-commute", {"coq_rate": 1.0}


def or_scope_family(ctx):
    """Named variables shared between the outside and the inside of OrValue alternatives, the outside use matched before and
    after the OrValue is entered: root(v, OR(inner1(..), inner2(..))) and root(OR(..), v) for every way of naming the leaves
    with x / y, against hosts root'(a, inner'(b, c)) for EVERY assignment of three graph inputs to the leaves (so each
    binding conflict between the scopes occurs), backtracking (same operator in both alternatives) and dispatching
    (different operators) ORs alike."""
    rng = ctx.rng
    X, Y = ["var", "x"], ["var", "y"]
    pats = []
    for alt_ops in (("Mul", "Mul"), ("Mul", "Add")):
        for outer in (X, Y):
            for a1 in ((X, Y), (Y, X), (X, X)):
                for a2 in ((Y, X), (X, Y), (Y, Y)):
                    for or_first in (False, True):
                        nodes = [{"op": alt_ops[0], "ins": list(a1)}, {"op": alt_ops[1], "ins": list(a2)},
                                 {"op": "Sub", "ins": [["or", 0], outer] if or_first else [outer, ["or", 0]]}]
                        pats.append({"params": ["x", "y"], "nodes": nodes, "ors": [{"alts": [["out", 0, 0], ["out", 1, 0]]}],
                                     "outs": [["out", 2, 0]]})
    if ctx.tier == "quick":
        pats = rng.sample(pats, 18)
    for p in pats:
        or_first = p["nodes"][2]["ins"][0][0] == "or"
        for inner in sorted({p["nodes"][0]["op"], p["nodes"][1]["op"]}):
            for a in range(3):
                for b in range(3):
                    for c in range(3):
                        h = {"nodes": [{"op": inner, "dom": "", "attrs": [], "ins": [b, c], "outs": [3]},
                                       {"op": "Sub", "dom": "", "attrs": [], "ins": [3, a] if or_first else [a, 3], "outs": [4]}],
                             "inputs": [0, 1, 2], "outs": [4], "consts": {}}
                        yield p, h, False, "or-scope", {"coq_rate": 0.3, "cache_host": True}


def sweep(ctx):
    """(pattern, host, commute, tag, options) over the bounded-exhaustive family; quick = a seeded slice."""
    rng = ctx.rng
    pats = exhaustive_patterns()
    small = exhaustive_hosts(2)
    three = exhaustive_hosts(3)[len(small):]
    if ctx.tier == "quick":
        # a slice that keeps every feature combination of the family: one pattern per combination, then a random rest
        groups = {}
        for p in pats:
            groups.setdefault(_feature_key(p), []).append(p)
        picked = [rng.choice(groups[k]) for k in sorted(groups)]
        rest = [p for p in pats if not any(p is q for q in picked)]
        pats = picked + rng.sample(rest, max(0, 80 - len(picked)))
        hosts = rng.sample(small, 30) + rng.sample(three, 40)
        rate = 0.25
    else:
        hosts = small + rng.sample(three, 400)
        rate = 0.03
    extra = []
    for h in rng.sample(hosts, min(len(hosts), 30 if ctx.tier == "quick" else 150)):
        extra += host_variants(rng, h)
    four = []
    for _ in range(20 if ctx.tier == "quick" else 200):
        four.append(random_host(rng, 4))
    hosts = hosts + extra + [h for h in four if toposort_ok(h)]
    for p in pats:
        commute = commutable(p)
        for h in hosts:
            yield p, h, False, "sweep", {"coq_rate": rate, "cache_host": True}
        if commute:
            for h in rng.sample(hosts, min(len(hosts), 40 if ctx.tier == "quick" else 300)):
                yield p, h, True, "sweep-commute", {"coq_rate": rate, "cache_host": True}


def double_host(rng, pdesc, perturb):
    """Two instantiations of the pattern in one graph (sharing the values of some variables): several candidates for
    every output node after the first, so that the order of the candidate tuples matters."""
    i1 = Inst(rng, pdesc, False)
    h1 = i1.host()
    i2 = Inst(rng, pdesc, perturb)
    i2.next = i1.next
    if rng.random() < 0.7:
        i2.var_val = {k: v for k, v in i1.var_val.items() if rng.random() < 0.7}
    h2 = i2.host()
    first, second = (h1, h2) if rng.random() < 0.5 or any(v in {o for n in h1["nodes"] for o in n["outs"]}
                                                            for v in i2.var_val.values() if v is not None) else (h2, h1)
    consts = dict(h1["consts"])
    consts.update(h2["consts"])
    return {"nodes": first["nodes"] + second["nodes"], "inputs": sorted(set(h1["inputs"]) | set(h2["inputs"])),
            "outs": list(dict.fromkeys(first["outs"] + second["outs"])), "consts": consts}


def committed_family(ctx):
    """OrValue together with every other feature (constant / two-output / attribute / optional-input alternatives, nested
    and shared OrValues, name and tag, OrValue below several output nodes, commute), hosts instantiated through each
    alternative, perturbed (the committed first alternative whose bindings clash later), and doubled (several candidates
    per output node); and OR-free patterns with several output nodes and shared interior nodes on doubled hosts."""
    rng = ctx.rng
    X, Y, Z = ["var", "x"], ["var", "y"], ["var", "z"]
    C1 = ["const", 1.0, 1e-3, None]
    pats = []

    def add(nodes, ors=(), outs=None, commute=False):
        pats.append((_pat(nodes, outs, ors), commute))

    for tag in (None, "tg"):
        for name in (None, "o"):
            b = {"name": name, "tagv": tag}
            # a constant / a variable among the alternatives (the variable always matches: later alternatives are dead)
            add([{"op": "Relu", "ins": [X]}, {"op": "Sub", "ins": [["or", 0], Y]}], [dict(b, alts=[C1, ["out", 0, 0]])])
            add([{"op": "Relu", "ins": [X]}, {"op": "Sub", "ins": [Y, ["or", 0]]}], [dict(b, alts=[["out", 0, 0], C1, X])])
            # outputs of a two-output node as alternatives; a two-output node against a one-output node
            add([{"op": "Split", "ins": [X], "outs": 2}, {"op": "Add", "ins": [["or", 0], Y]}], [dict(b, alts=[["out", 0, 1], ["out", 0, 0]])])
            add([{"op": "Split", "ins": [X], "outs": 2}, {"op": "Relu", "ins": [X]}, {"op": "Neg", "ins": [["or", 0]]}],
                [dict(b, alts=[["out", 0, 1], ["out", 1, 0]])])
            # the same operator with different attribute patterns (backtracking), attribute variable shared with the outside
            add([{"op": "Relu", "ins": [X], "attrs": [["axis", ["c", 1]]]}, {"op": "Relu", "ins": [X], "attrs": [["axis", ["v", "a"]]], "other_attrs": False},
                 {"op": "Neg", "ins": [["or", 0]], "attrs": [["axis", ["ov", "a"]]]}], [dict(b, alts=[["out", 0, 0], ["out", 1, 0]])])
            # optional / None inputs and allow_other_inputs inside alternatives
            add([{"op": "Add", "ins": [X, ["ovar", "u"]]}, {"op": "Add", "ins": [X, Y, None], "other_ins": None},
                 {"op": "Sub", "ins": [["or", 0], X]}], [dict(b, alts=[["out", 0, 0], ["out", 1, 0]])])
            add([{"op": "Relu", "ins": [X], "other_ins": True}, {"op": "Relu", "ins": [Y, ["ovar", "u"]]},
                 {"op": "Sub", "ins": [X, ["or", 0]]}], [dict(b, alts=[["out", 1, 0], ["out", 0, 0]])])
            # nested and shared OrValues
            add([{"op": "Relu", "ins": [X]}, {"op": "Neg", "ins": [X]}, {"op": "Sub", "ins": [["or", 1], Y]}],
                [{"alts": [["out", 0, 0], ["out", 1, 0]]}, dict(b, alts=[["or", 0], Y])])
            add([{"op": "Relu", "ins": [X]}, {"op": "Neg", "ins": [X]}, {"op": "Sub", "ins": [["or", 0], ["or", 0]]}],
                [dict(b, alts=[["out", 0, 0], ["out", 1, 0]])])
            # the committed first alternative whose binding clashes later (Witness.p_choice) and its mirror
            add([{"op": "Neg", "ins": [X]}, {"op": "Neg", "ins": [X]}, {"op": "Neg", "ins": [["out", 1, 0]]},
                 {"op": "Add", "ins": [["or", 0], X]}], [dict(b, alts=[["out", 0, 0], ["out", 2, 0]])])
            add([{"op": "Neg", "ins": [X]}, {"op": "Neg", "ins": [X]}, {"op": "Neg", "ins": [["out", 1, 0]]},
                 {"op": "Sub", "ins": [X, ["or", 0]]}], [dict(b, alts=[["out", 2, 0], ["out", 0, 0]])])
            # OrValue below several output nodes; an alternative that is itself an output (its producer is an output node
            # reached only through the OrValue)
            add([{"op": "Relu", "ins": [X]}, {"op": "Neg", "ins": [X]}, {"op": "Sub", "ins": [["or", 0], Y]}, {"op": "Add", "ins": [X, Y]}],
                [dict(b, alts=[["out", 0, 0], ["out", 1, 0]])], outs=[["out", 2, 0], ["out", 3, 0]])
            add([{"op": "Relu", "ins": [X]}, {"op": "Neg", "ins": [["out", 0, 0]]}, {"op": "Sub", "ins": [["or", 0], ["out", 0, 0]]}],
                [dict(b, alts=[["out", 1, 0], Y])], outs=[["out", 2, 0], ["out", 1, 0]])
            # commute over an OrValue
            add([{"op": "Relu", "ins": [X]}, {"op": "Neg", "ins": [X]}, {"op": "Add", "ins": [["or", 0], Y]}],
                [dict(b, alts=[["out", 0, 0], ["out", 1, 0]])], commute=True)
            add([{"op": "Relu", "ins": [X]}, {"op": "Mul", "ins": [["or", 0], C1]}], [dict(b, alts=[["out", 0, 0], Y])], commute=True)
    # OR-free, several output nodes, shared interior nodes
    T = ["out", 0, 0]
    add([{"op": "Relu", "ins": [X]}, {"op": "Neg", "ins": [T]}, {"op": "Sub", "ins": [T, Y]}], outs=[["out", 1, 0], ["out", 2, 0]])
    add([{"op": "Relu", "ins": [X]}, {"op": "Neg", "ins": [T]}, {"op": "Neg", "ins": [T]}], outs=[["out", 1, 0], ["out", 2, 0]])
    add([{"op": "Split", "ins": [X], "outs": 2}, {"op": "Relu", "ins": [["out", 0, 0]]}, {"op": "Neg", "ins": [["out", 0, 1]]}, {"op": "Add", "ins": [Y, Z]}],
        outs=[["out", 1, 0], ["out", 2, 0], ["out", 3, 0]])
    add([{"op": "Relu", "ins": [X], "attrs": [["axis", ["v", "a"]]]}, {"op": "Relu", "ins": [Y], "attrs": [["axis", ["v", "a"]]]}],
        outs=[["out", 0, 0], ["out", 1, 0]])
    add([{"op": "Add", "ins": [X, C1]}, {"op": "Add", "ins": [X, ["ovar", "u"], None]}], outs=[["out", 0, 0], ["out", 1, 0]])
    add([{"op": "Relu", "prefix": True, "ins": [X]}, {"op": "Neg", "prefix": True, "ins": [X]}], outs=[["out", 0, 0], ["out", 1, 0]])
    if ctx.tier == "quick":
        pats = rng.sample(pats, 34)
        n_exact, n_pert, n_double = 4, 5, 3
    else:
        n_exact, n_pert, n_double = 10, 14, 8
    for p, commute in pats:
        hs = hosts_for(rng, p, n_exact, n_pert, 0)
        for k in range(n_double):
            h = double_host(rng, p, k % 2 == 1)
            if h["nodes"] and toposort_ok(h):
                hs.append(h)
        if commute:
            hs += hosts_for(rng, swapped(rng, p), 2, 2, 0)
        for h in hs:
            yield p, h, commute, "committed", {"coq_rate": 0.5}
