"""Typed random program generator for the ONNX Script subset (shared by C01 and C02).

A program is plain JSON-able data (dicts / lists / tuples turned into lists):

    expr  ::= ["var", x] | ["lit", v] | ["glob", name] | ["un", op, e] | ["bin", op, a, b] | ["cmp", op, a, b]
            | ["call", opname, [arg|None...], [[kw, attr]...]]       op.<opname>(args, kw=attr)
            | ["fcall", fname, [arg...], [[kw, attr]...]]            call of another script function
            | ["sub", base, [idx...]]                                base[idx, ...]   (subscript stream only)
    idx   ::= ["i", int] | ["all"] | ["s", lo|None, hi|None, step|None]   lo/hi/step: ["lit", int] or an INT64 scalar expression
    attr  ::= ["v", python value] | ["ref", attribute-parameter name]
    stmt  ::= ["assign", x, e] | ["tassign", [x...], e] | ["if", e, [stmt...], [stmt...]]
            | ["for", i, e, [stmt...]] | ["while", c, [stmt...]] | ["break_if", c] | ["return", [e...]]
    prog  ::= {"name", "tparams": [[name, dt, sc]...], "aparams": [[name, kind, default|None]...],
               "body": [stmt...], "rets": [[dt, sc]...], "subs": [prog...], "globals": {name: value},
               "rank": r, "deco": "default_opset" | "plain"}

dt in F (float32) I (int64) B (bool); sc (shape class) in "S" (the program's common shape, rank `rank`),
"0" (scalar), "V4", "V2" (vectors of that length), "T1".."T3" (subscript stream: a tensor of that rank whose extents are
not tracked -- the result of a subscript; combined only with scalars, reduced, returned or subscripted again with slices).

Printers: to_source (a Python module text), to_coq (a Script.Syntax literal).  `mutate` produces the
near-miss stream (one grammar-violating edit of the source text).
"""
from __future__ import annotations

import copy

FLOAT, INT64, BOOL = 1, 7, 9
DT_ANN = {"F": "FLOAT", "I": "INT64", "B": "BOOL"}
DT_ONNX = {"F": FLOAT, "I": INT64, "B": BOOL}

# names that collide with what the converter generates, to stress _generate_unique_name
COLLIDERS = ["tmp", "cond", "const", "tmp_0", "const_cast", "return_val", "cond_in", "cond_out", "loop_bound",
             "x_0", "z_1", "const_0", "tmp_1", "cond_1"]
PLAIN = ["a", "b", "t", "u", "w", "z", "y", "s", "r", "q"]


def ann(dt, sc, rank):
    base = DT_ANN[dt]
    if sc == "0" or (sc == "S" and rank == 0):
        return base
    if sc == "V4":
        return base + "[4]"
    if sc == "V2":
        return base + "[2]"
    if sc == "TX":
        return base + "[...]"            # unknown rank (corpus only)
    if sc.startswith("T"):
        return base + "[" + ", ".join(["None"] * int(sc[1:])) + "]"
    dims = ["'D0'", "'D1'", "'D2'"][:rank]
    return base + "[" + ", ".join(dims) + "]"


# ----------------------------------------------------------------------------- generator

class Gen:
    def __init__(self, rng, depth=2, rich=True, allow_float_mod=True, helper=None, subs=False):
        self.subs = subs             # subscript stream: tensor subscripts occur as expressions
        self.min_dims = [0, 0, 0]    # least extent of each axis of the common shape S (constant integer indices)
        self.rng = rng
        self.maxdepth = depth
        self.types = {}          # name -> (dt, sc)   (fixed per name for the whole program)
        self.flags = {}          # name -> "loopvar" | "litvar" | "attr" | "glob"
        self.rank = rng.choice([0, 1, 1, 2, 2, 3])
        self.counter = 0
        self.attrs = []          # [name, kind, default]
        self.globals = {}
        self.helper = helper     # a generated sub-program or None
        self.rich = rich
        self.allow_float_mod = allow_float_mod
        self.features = set()

    # -- names
    def new_name(self, dt, sc, hint=None):
        rng = self.rng
        for _ in range(50):
            if hint:
                n = hint
                hint = None
            elif rng.random() < 0.15:
                n = rng.choice(COLLIDERS)
            else:
                n = rng.choice(PLAIN)
                if rng.random() < 0.3:
                    n += str(rng.randrange(3))
            if n not in self.types and n not in self.globals:
                self.types[n] = (dt, sc)
                return n
        self.counter += 1
        n = f"v{self.counter}"
        self.types[n] = (dt, sc)
        return n

    def vars_of(self, env, dt, sc, kinds=("plain",)):
        res = []
        for n in env:
            if self.types[n] != (dt, sc):
                continue
            k = self.flags.get(n, "plain")
            if k in kinds:
                res.append(n)
        return sorted(res)

    # -- literals
    def lit(self, dt):
        rng = self.rng
        if dt == "F":
            return rng.choice([0.0, 1.0, 2.0, 0.5, -1.0, 3.0, 0.25, -2.0, 4.0])
        if dt == "I":
            return rng.choice([0, 1, 2, 3, -1, -2, 5])
        return rng.choice([True, False])

    # -- expressions.  want (dt, sc); `env` = set of definitely-defined names
    def expr(self, env, dt, sc, depth, top=False):
        rng = self.rng
        if sc.startswith("T"):
            return self.t_expr(env, dt, sc, depth)
        cands = self.vars_of(env, dt, sc)
        if depth <= 0:
            if cands:
                return ["var", self.pick_recent(cands, env)]
            return self.leaf(env, dt, sc)
        roll = rng.random()
        if roll < 0.22 and cands and not top:
            return ["var", self.pick_recent(cands, env)]
        if dt == "B":
            return self.bool_expr(env, sc, depth)
        return self.num_expr(env, dt, sc, depth)

    def pick_recent(self, cands, env):
        # bias towards recently assigned variables (env is an ordered dict name -> stamp)
        cands = sorted(cands, key=lambda n: env[n])
        w = [1 + 2 * i for i in range(len(cands))]
        return self.rng.choices(cands, weights=w)[0]

    def leaf(self, env, dt, sc):
        """An expression of the wanted type built from parameters only (always possible)."""
        rng = self.rng
        cands = self.vars_of(env, dt, sc)
        if cands:
            return ["var", rng.choice(cands)]
        # derive from any tensor of another type / shape class
        if sc == "0":
            src = self.any_tensor(env)
            if dt == "B":
                return ["cmp", ">", ["call", "ReduceSum", [self.as_num(src)], [["keepdims", ["v", 0]]]], ["lit", 0]]
            red = ["call", "ReduceSum", [self.as_num(src)], [["keepdims", ["v", 0]]]]
            sdt = self.num_dt(src)
            if sdt == dt:
                return red
            return ["call", "Cast", [red], [["to", ["v", DT_ONNX[dt]]]]]
        if sc == "S":
            c = [n for n in sorted(env) if self.types[n][1] == "S" and self.flags.get(n, "plain") == "plain"]
            if c:
                n = rng.choice(c)
                return self.convert(["var", n], self.types[n][0], dt)
            # expand a scalar to S is not possible without a shape: use a scalar (S-shaped programs always have an S param)
            raise RuntimeError("no S-shaped value")
        if sc.startswith("T"):
            e = self.sub_expr(env, dt, int(sc[1:]), 1)
            if e is None:
                raise RuntimeError("no subscriptable value")
            return e
        if sc in ("V4", "V2"):
            k = 4 if sc == "V4" else 2
            s = self.leaf(env, dt if dt != "B" else "F", "0")
            e = ["call", "Expand", [s, ["lit", [k]]], []]
            if dt == "B":
                return ["cmp", ">", e, ["lit", 0.0]]
            return e
        raise RuntimeError(sc)

    def any_tensor(self, env):
        c = [n for n in sorted(env) if self.flags.get(n, "plain") == "plain"]
        return ["var", self.rng.choice(c)]

    def num_dt(self, e):
        assert e[0] == "var"
        return self.types[e[1]][0]

    def as_num(self, e):
        dt = self.num_dt(e)
        if dt == "B":
            return ["call", "Cast", [e], [["to", ["v", INT64]]]]
        return e

    def convert(self, e, frm, to):
        if frm == to:
            return e
        if to == "B":
            return ["cmp", ">", e, ["lit", 0 if frm == "I" else 0.0]]
        return ["call", "Cast", [e], [["to", ["v", DT_ONNX[to]]]]]

    def operand(self, env, dt, sc, depth, allow_lit=True, allow_special=True):
        """An operand next to a tensor operand of type (dt, sc'): may be a literal, a literal variable,
        an attribute parameter, a global constant, a loop variable or a scalar broadcast."""
        rng = self.rng
        if sc.startswith("T"):
            # the extents of a subscript result are not tracked: only scalars / literals are combined with it
            if rng.random() < 0.5:
                self.features.add("literal-operand")
                return ["lit", self.lit(dt)]
            return self.expr(env, dt, "0", max(depth - 1, 0))
        r = rng.random()
        if allow_lit and r < 0.30:
            self.features.add("literal-operand")
            if dt == "I" and rng.random() < 0.1:
                return ["lit", float(rng.choice([2, 3]))]           # integral float literal next to an int tensor
            if dt == "F" and rng.random() < 0.35:
                return ["lit", rng.choice([1, 2, 3, -1])]           # int literal next to a float tensor
            return ["lit", self.lit(dt)]
        if allow_special and r < 0.42 and dt in ("F", "I"):
            okdt = ("F", "I") if dt == "F" else ("I",)
            sp = [n for n in sorted(env) if self.flags.get(n) in ("litvar", "attr", "glob") and self.types[n][0] in okdt]
            if dt == "I":
                sp += [n for n in sorted(env) if self.flags.get(n) == "loopvar"]
            if sp:
                n = rng.choice(sp)
                self.features.add("operand-" + self.flags[n])
                return ["glob", n] if self.flags[n] == "glob" else ["var", n]
        if sc != "0" and r < 0.55:
            return self.expr(env, dt, "0", depth - 1)
        return self.expr(env, dt, sc, depth - 1)

    def num_expr(self, env, dt, sc, depth):
        rng = self.rng
        choices = ["bin", "bin", "bin", "callbin", "unary", "where", "special"]
        if sc == "0":
            choices += ["reduce", "reduce", "size"]
        if dt == "F":
            choices += ["activation", "clip", "castfrom"]
        else:
            choices += ["castfrom"]
        if self.helper is not None and depth >= 1:
            choices += ["fcall"]
        if self.subs and dt in ("F", "I"):
            if sc == "0":
                choices += ["subred"] * 5
            elif sc == "S" and self.rank >= 1:
                choices += ["subfull"] * 2
        kind = rng.choice(choices)
        if kind == "subred":
            return self.subred(env, dt, depth)
        if kind == "subfull":
            return self.subfull(env, dt, depth)
        if kind == "bin":
            ops = ["+", "-", "*", "+", "-"]
            if dt == "F":
                ops += ["/", "**", "%"]
            else:
                ops += ["%", "/"]
            op = rng.choice(ops)
            a = self.expr(env, dt, sc, depth - 1)
            if op == "/":
                b = ["lit", rng.choice([2.0, 4.0, 0.5]) if dt == "F" else rng.choice([2, 3, -2])]
            elif op == "**":
                b = ["lit", rng.choice([2, 2.0, 3])]
            elif op == "%":
                if dt == "F":
                    if self.allow_float_mod and rng.random() < 0.25:
                        # F11: float tensor % float tensor (strictly positive divisor)
                        d = self.expr(env, "F", sc if rng.random() < 0.5 else "0", depth - 1)
                        b = ["bin", "+", ["call", "Abs", [d], []], ["lit", 1.0]]
                        self.features.add("float-mod-tensor")
                    else:
                        b = ["lit", rng.choice([2.0, 3.0, 4.0])]
                        self.features.add("float-mod-literal")
                else:
                    b = ["lit", rng.choice([2, 3, -3])]
            elif op == "*":
                b = self.operand(env, dt, sc, depth) if rng.random() < 0.8 else ["lit", self.lit(dt)]
            else:
                b = self.operand(env, dt, sc, depth)
            if op in "+-*" and rng.random() < 0.3:
                a, b = b, a    # literal / special operand on the left
            if a[0] in ("lit", "glob") and b[0] in ("lit", "glob"):
                a = self.expr(env, dt, sc, 0)
            if self.is_py(a) and self.is_py(b):
                a = self.leaf(env, dt, sc)
            return ["bin", op, a, b]
        if kind == "callbin":
            op = rng.choice(["Add", "Sub", "Mul", "Max", "Min"])
            a = self.expr(env, dt, sc, depth - 1)
            b = self.operand(env, dt, sc, depth)
            args = [a, b]
            if op in ("Max", "Min") and rng.random() < 0.3:
                args.append(self.operand(env, dt, sc, depth))
            if rng.random() < 0.3:
                args[0], args[1] = args[1], args[0]
            if all(self.is_py(x) for x in args):
                args[0] = self.leaf(env, dt, sc)
            return ["call", op, args, []]
        if kind == "unary":
            a = self.expr(env, dt, sc, depth - 1)
            if rng.random() < 0.4:
                return ["un", "-", a]
            ops = ["Neg", "Abs", "Identity", "Sign"] + (["Relu", "Floor", "Ceil"] if dt == "F" else [])
            return ["call", rng.choice(ops), [a], []]
        if kind == "where":
            c = self.expr(env, "B", sc if rng.random() < 0.6 else "0", depth - 1)
            a = self.expr(env, dt, sc, depth - 1)
            b = self.operand(env, dt, sc, depth, allow_special=False)
            return ["call", "Where", [c, a, b], []]
        if kind == "reduce":
            src_sc = rng.choice(["S", "S", "V4", "0"])
            try:
                a = self.expr(env, dt, src_sc, depth - 1)
            except RuntimeError:
                a = self.expr(env, dt, "0", depth - 1)
            return ["call", "ReduceSum", [a], [["keepdims", ["v", 0]]]]
        if kind == "size":
            t = self.any_tensor(env)
            e = ["call", "Size", [t], []]
            return e if dt == "I" else ["call", "Cast", [e], [["to", ["v", FLOAT]]]]
        if kind == "activation":
            a = self.expr(env, dt, sc, depth - 1)
            op = rng.choice(["LeakyRelu", "ThresholdedRelu", "HardSigmoid"])
            fattrs = [a_ for a_ in self.attrs if a_[1] == "float"]
            if fattrs and rng.random() < 0.6:
                self.features.add("attr-as-attr")
                val = ["ref", rng.choice(fattrs)[0]]
            else:
                val = ["v", rng.choice([0.5, 0.25, 1.0, 2.0])]
            kws = [["alpha", val]]
            if op == "HardSigmoid" and rng.random() < 0.5:
                kws.append(["beta", ["v", rng.choice([0.5, 0.25])]])
            return ["call", op, [a], kws]
        if kind == "clip":
            a = self.expr(env, dt, sc, depth - 1)
            lo = rng.choice([None, ["lit", -1.0], ["lit", 0.0], ["lit", 0]])
            hi = rng.choice([None, ["lit", 2.0], ["lit", 6.0], ["lit", 3]])
            if lo is None and hi is None:
                hi = ["lit", 1.0]
            if hi is None:
                return ["call", "Clip", [a, lo], []]
            if lo is None:
                self.features.add("none-input")
            return ["call", "Clip", [a, lo, hi], []]
        if kind == "castfrom":
            src = rng.choice([d for d in "FIB" if d != dt])
            a = self.expr(env, src, sc, depth - 1)
            if rng.random() < 0.3 and self.vars_of(env, dt, sc):
                return ["call", "CastLike", [a, ["var", rng.choice(self.vars_of(env, dt, sc))]], []]
            return ["call", "Cast", [a], [["to", ["v", DT_ONNX[dt]]]]]
        if kind == "special":
            # loop variable / attribute parameter promoted to a tensor through an op
            lv = [n for n in sorted(env) if self.flags.get(n) == "loopvar"]
            if lv and sc == "0":
                self.features.add("loopvar-use")
                e = ["call", "Cast", [["var", rng.choice(lv)]], [["to", ["v", DT_ONNX[dt]]]]]
                return e
            return self.num_expr(env, dt, sc, depth - 1) if depth > 1 else self.leaf(env, dt, sc)
        if kind == "fcall":
            h = self.helper
            if (dt, sc) in [tuple(r) for r in h["rets"]] and len(h["rets"]) == 1:
                return self.fcall(env, depth)
            return self.leaf(env, dt, sc)
        raise AssertionError(kind)


    # -- subscripts (subscript stream).  Index forms that property C11 records as known defects are not generated:
    #    no tensor (rank >= 1) indices at all, a negative-step slice never has a negative or run-time start, a negative
    #    integer index only when it is the only index that is not a bare `:`.
    SUB_LITS = [0, 0, 1, 2, 3, -1, -2, 5, -5]

    def dyn_bound(self, env):
        """An INT64 scalar expression for a slice bound (a tensor in the graph; a tensor or a Python int eagerly), or None."""
        rng = self.rng
        c = [(n, "tensor") for n in self.vars_of(env, "I", "0")]
        c += [(n, "loopvar") for n in sorted(env) if self.flags.get(n) == "loopvar"]
        if rng.random() < 0.25:
            c += [(n, "attr") for n in sorted(env) if self.flags.get(n) == "attr" and self.types[n][0] == "I"
                  and self.attr_role(n) == "value"]
            c += [(n, "glob") for n in sorted(env) if self.flags.get(n) == "glob" and self.types[n][0] == "I"]
        if not c:
            return None
        n, kind = rng.choice(c)
        self.features.add("sub-bound-" + kind)
        v = ["glob", n] if kind == "glob" else ["var", n]
        r = rng.random()
        if r < 0.6:
            return v
        return ["bin", "+" if r < 0.8 else "-", v, ["lit", 1]]

    def attr_role(self, name):
        for a_ in self.attrs:
            if a_[0] == name:
                return a_[3]
        return None

    def slice_bound(self, env, allow_dyn=True):
        rng = self.rng
        r = rng.random()
        if r < 0.3:
            return None
        if r < 0.72 or not allow_dyn:
            return ["lit", rng.choice(self.SUB_LITS)]
        d = self.dyn_bound(env)
        return d if d is not None else ["lit", rng.choice(self.SUB_LITS)]

    def slice_idx(self, env):
        rng = self.rng
        step = rng.choice([None] * 6 + [1, 2, 2, -1, -1, -2])
        if step is None or step > 0:
            lo, hi = self.slice_bound(env), self.slice_bound(env)
        else:
            lo = rng.choice([None, None, 0, 1, 2, 3, 5])
            lo = None if lo is None else ["lit", lo]
            hi = self.slice_bound(env)
            self.features.add("sub-negative-step")
        if lo is None and hi is None and step is None:
            return ["all"]
        return ["s", lo, hi, None if step is None else ["lit", step]]

    def sub_expr(self, env, dt, want_rank, depth):
        """base[idx, ...] of element type dt and rank want_rank (0 = every axis indexed by an integer), or None."""
        rng = self.rng
        cands = []
        for n in sorted(env):
            if self.flags.get(n, "plain") != "plain":
                continue
            ndt, nsc = self.types[n]
            if ndt == "B":
                continue
            if nsc == "S" and self.rank >= 1:
                cands.append((n, self.rank, [None] * self.rank))
            elif nsc in ("V4", "V2"):
                cands.append((n, 1, [4 if nsc == "V4" else 2]))
            elif nsc.startswith("T"):
                cands.append((n, int(nsc[1:]), None))
        ok = [c for c in cands if (c[1] >= want_rank if c[2] is not None else c[1] == want_rank)]
        if not ok:
            return None
        same = [c for c in ok if self.types[c[0]][0] == dt]
        n, R, dims = rng.choice(same) if same and rng.random() < 0.85 else rng.choice(ok)
        base = self.convert(["var", n], self.types[n][0], dt)
        if base[0] == "var" and self.types[n][1] == "S" and depth >= 2 and rng.random() < 0.12:
            base = ["bin", rng.choice(["+", "*"]), base, ["lit", self.lit(dt)]]     # (x + 1.0)[...]
            self.features.add("sub-of-expression")
        n_int = R - want_rank
        int_axes = sorted(rng.sample(range(R), n_int))
        L = max(int_axes[-1] + 1 if int_axes else 1, rng.randrange(1, R + 1))
        neg_alone = n_int == 1 and rng.random() < 0.25
        idxs = []
        for ax in range(L):
            if ax in int_axes:
                known = dims[ax]
                if neg_alone:
                    k = -rng.choice([1, 2] if known is None or known >= 2 else [1])
                    need = -k
                else:
                    k = rng.randrange(0, min(3, known) if known is not None else 3)
                    need = k + 1
                if dims[ax] is None:
                    self.min_dims[ax] = max(self.min_dims[ax], need)
                idxs.append(["i", k])
            elif neg_alone:
                idxs.append(["all"])
            else:
                idxs.append(self.slice_idx(env) if rng.random() < 0.8 else ["all"])
        if all(i[0] == "all" for i in idxs) and rng.random() < 0.85:
            i0 = self.slice_idx(env)
            idxs[rng.randrange(len(idxs))] = i0 if i0[0] != "all" else ["s", None, ["lit", rng.choice(self.SUB_LITS)], None]
        self.features.add("subscript")
        if n_int:
            self.features.add("sub-int-index" + ("-negative" if neg_alone else ""))
        if len(idxs) > 1:
            self.features.add("sub-multi-axis")
        return ["sub", base, idxs]

    def t_expr(self, env, dt, sc, depth):
        """An expression of the untracked-extent class sc = "T<rank>"."""
        rng = self.rng
        r = int(sc[1:])
        cands = self.vars_of(env, dt, sc)
        roll = rng.random()
        if cands and (depth <= 0 or roll < 0.2):
            return ["var", self.pick_recent(cands, env)]
        if not cands or roll < 0.6 or depth <= 0:
            e = self.sub_expr(env, dt, r, depth)
            if e is not None:
                return e
            raise RuntimeError("no subscriptable value")
        a = ["var", self.pick_recent(cands, env)] if rng.random() < 0.7 else self.t_expr(env, dt, sc, depth - 1)
        kind = rng.choice(["bin", "bin", "unary", "callbin"])
        if kind == "unary":
            if rng.random() < 0.4:
                return ["un", "-", a]
            return ["call", rng.choice(["Neg", "Abs", "Identity"] + (["Relu"] if dt == "F" else [])), [a], []]
        b = self.operand(env, dt, sc, depth)
        if kind == "bin":
            e = ["bin", rng.choice(["+", "-", "*"]), a, b]
            if rng.random() < 0.25:
                e[2], e[3] = e[3], e[2]
            return e
        return ["call", rng.choice(["Add", "Sub", "Mul", "Max", "Min"]), [a, b], []]

    def subred(self, env, dt, depth):
        """A scalar computed from a subscript: the element itself, the sum or the element count of a slice."""
        rng = self.rng
        roll = rng.random()
        if roll < 0.2:
            e = self.sub_expr(env, dt, 0, depth)
            if e is not None:
                self.features.add("sub-all-int")
                return e
        r = rng.randrange(1, self.rank + 1)
        tv = self.vars_of(env, dt, "T%d" % r)
        inner = ["var", self.pick_recent(tv, env)] if tv and rng.random() < 0.4 else self.sub_expr(env, dt, r, depth)
        if inner is None:
            return self.leaf(env, dt, "0")
        if roll < 0.45:
            e = ["call", "Size", [inner], []]
            return e if dt == "I" else ["call", "Cast", [e], [["to", ["v", FLOAT]]]]
        return ["call", "ReduceSum", [inner], [["keepdims", ["v", 0]]]]

    def subfull(self, env, dt, depth):
        """A subscript that keeps the whole common shape: x[:], x[0:], x[:9], x[-9::1], ... (extents are <= 4)."""
        rng = self.rng
        c = [n for n in self.vars_of(env, dt, "S")]
        if not c:
            return self.leaf(env, dt, "S")
        full = [["all"], ["s", ["lit", 0], None, None], ["s", None, ["lit", 9], None], ["s", ["lit", -9], None, ["lit", 1]],
                ["s", None, None, ["lit", 1]], ["s", ["lit", -9], ["lit", 9], None]]
        L = rng.randrange(1, self.rank + 1)
        idxs = [copy.deepcopy(rng.choice(full)) for _ in range(L)]
        self.features.add("subscript")
        self.features.add("sub-full-extent")
        return ["sub", ["var", self.pick_recent(c, env)], idxs]

    def sub_stmt(self, env):
        """An assignment whose right-hand side is built around a subscript."""
        rng = self.rng
        dt = rng.choice(["F", "F", "I"])
        roll = rng.random()
        if roll < 0.7:
            r = rng.randrange(1, self.rank + 1)
            sc = "T%d" % r
            existing = [n for n in self.vars_of(env, dt, sc) if n not in self.frozen]
            if existing and rng.random() < 0.4:
                v = self.pick_recent(existing, env)
                e = self.t_expr(env, dt, sc, 2)
            else:
                e = self.sub_expr(env, dt, r, 2)
                if e is None:
                    return self.assign_stmt(env)
                v = self.new_name(dt, sc, hint=rng.choice(["w", "h", "sl", "part", "row"]) if rng.random() < 0.6 else None)
        else:
            e = self.subred(env, dt, 2)
            existing = [n for n in self.vars_of(env, dt, "0") if n not in self.frozen and n not in self.bounded and not n.startswith("_p_")]
            if existing and rng.random() < 0.5:
                v = self.pick_recent(existing, env)
            else:
                v = self.new_name(dt, "0")
        self.touch(env, v)
        return [["assign", v, e]]

    def is_py(self, e):
        """Is this operand a plain Python value in eager mode (literal, literal variable, attribute, loop variable)?"""
        if e[0] in ("lit", "glob"):
            return True
        if e[0] == "var" and self.flags.get(e[1]) in ("litvar", "attr", "loopvar"):
            return True
        return False

    def fcall(self, env, depth):
        h = self.helper
        args = []
        for (_n, pdt, psc) in h["tparams"]:
            args.append(self.expr(env, pdt, psc, depth - 1))
        kws = []
        for (an, kind, default) in h["aparams"]:
            if default is None or self.rng.random() < 0.6:
                mine = [a_ for a_ in self.attrs if a_[1] == kind]
                if mine and self.rng.random() < 0.5:
                    kws.append([an, ["ref", self.rng.choice(mine)[0]]])
                else:
                    kws.append([an, ["v", {"float": 0.5, "int": 2, "bool": True}[kind]]])
        self.features.add("subfunction-call")
        return ["fcall", h["name"], args, kws]

    def bool_expr(self, env, sc, depth):
        rng = self.rng
        kind = rng.choice(["cmp", "cmp", "cmp", "logic", "not", "callcmp", "battr"])
        if kind == "battr":
            b = [n for n in sorted(env) if self.flags.get(n) == "attr" and self.types[n][0] == "B"]
            if b and sc == "0":
                self.features.add("bool-attr-cond")
                # a bool attribute is a python bool in eager mode: combine it with a tensor
                return ["bin", "&", self.expr(env, "B", "0", depth - 1) if depth > 1 else self.leaf(env, "B", "0"), ["var", rng.choice(b)]]
            kind = "cmp"
        if kind in ("cmp", "callcmp"):
            dt = rng.choice(["F", "I"])
            a = self.expr(env, dt, sc, depth - 1)
            b = self.operand(env, dt, sc, depth)
            if kind == "cmp":
                op = rng.choice(["<", "<=", ">", ">=", "==", "!="])
                if rng.random() < 0.25 and not self.is_py(b):
                    a, b = b, a
                if self.is_py(a) and self.is_py(b):
                    a = self.leaf(env, dt, sc)
                return ["cmp", op, a, b]
            op = rng.choice(["Less", "Greater", "Equal", "LessOrEqual", "GreaterOrEqual"])
            if self.is_py(a) and self.is_py(b):
                a = self.leaf(env, dt, sc)
            return ["call", op, [a, b], []]
        if kind == "logic":
            a = self.expr(env, "B", sc, depth - 1)
            b = self.expr(env, "B", sc, depth - 1)
            if rng.random() < 0.5:
                return ["bin", rng.choice(["&", "|"]), a, b]
            return ["call", rng.choice(["And", "Or", "Xor"]), [a, b], []]
        if kind == "not":
            a = self.expr(env, "B", sc, depth - 1)
            return ["call", "Not", [a], []]
        raise AssertionError(kind)

    def cond(self, env, depth=2):
        """Scalar boolean condition for if / break; sometimes `not <tensor>` (python bool in eager mode)."""
        battr = [n for n in sorted(env) if self.flags.get(n) == "attr" and self.types[n][0] == "B"]
        if battr and self.rng.random() < 0.2:
            self.features.add("bool-attr-as-if-test")
            return ["var", self.rng.choice(battr)]
        e = self.expr(env, "B", "0", depth)
        if self.rng.random() < 0.12:
            self.features.add("not-in-condition")
            return ["un", "not", e]
        return e

    # -- statements
    def block(self, env, depth, n, in_loop=False, must_assign=None):
        """Generate n statements; returns (stmts, env_after).  env: ordered dict name -> stamp."""
        rng = self.rng
        stmts = []
        env = dict(env)
        for k in range(n):
            roll = rng.random()
            if self.subs and rng.random() < 0.38:
                s = self.sub_stmt(env)
            elif depth > 0 and roll < 0.18:
                s = self.if_stmt(env, depth)
            elif depth > 0 and roll < 0.30:
                s = self.for_stmt(env, depth)
            elif depth > 0 and roll < 0.38:
                s = self.while_stmts(env, depth)
            elif roll < 0.45 and self.rich:
                s = self.tuple_stmt(env)
            elif roll < 0.50:
                s = self.alias_stmt(env)
            elif roll < 0.54 and not in_loop:
                s = self.litvar_stmt(env)
            else:
                s = self.assign_stmt(env, prefer_existing=in_loop or rng.random() < 0.5)
            for st in s:
                stmts.append(st)
        if must_assign:
            for v in must_assign:
                dt, sc = self.types[v]
                e = self.num_or_bool_update(env, v)
                stmts.append(["assign", v, e])
                self.touch(env, v)
        return stmts, env

    def touch(self, env, name):
        self.counter += 1
        env[name] = self.counter

    def bounded_expr(self, env):
        """An int64 scalar expression whose value stays within 0..3 (usable as a loop bound)."""
        rng = self.rng
        bs = [n for n in self.vars_of(env, "I", "0") if n in self.bounded]
        r = rng.random()
        if not bs or r < 0.15:
            return ["call", "Constant", [], [["value_int", ["v", rng.choice([0, 1, 2, 3])]]]]
        b = ["var", rng.choice(bs)]
        if r < 0.45:
            return b
        if r < 0.75:
            return ["call", "Min", [["bin", "+", b, ["lit", 1]], ["lit", 3]], []]
        return ["call", "Max", [["bin", "-", b, ["lit", 1]], ["lit", 0]], []]

    def num_or_bool_update(self, env, v):
        dt, sc = self.types[v]
        if v in self.bounded:
            self.features.add("bounded-int-update")
            return self.bounded_expr(env)
        if dt == "B":
            return ["bin", self.rng.choice(["&", "|"]), ["var", v], self.expr(env, "B", sc, 1)]
        return ["bin", self.rng.choice(["+", "-", "+"]), ["var", v], self.operand(env, dt, sc, 2)]

    def assign_stmt(self, env, prefer_existing=False):
        rng = self.rng
        existing = [n for n in sorted(env) if self.flags.get(n, "plain") == "plain" and not n.startswith("_p_")]
        existing = [n for n in existing if n not in self.frozen]
        if existing and prefer_existing and rng.random() < 0.75:
            v = self.pick_recent(existing, env)
            dt, sc = self.types[v]
            if v in self.bounded or (rng.random() < 0.6 and dt != "B"):
                e = self.num_or_bool_update(env, v)       # x = x op e  (loop carried when inside a loop)
            else:
                e = self.expr(env, dt, sc, 2, top=True)
        else:
            dt = rng.choice(["F", "F", "F", "I", "I", "B"])
            scs = ["S", "S", "0", "0"] + (["V4"] if self.rich else [])
            sc = rng.choice(scs)
            try:
                e = self.expr(env, dt, sc, 2, top=True)
            except RuntimeError:
                sc = "0"
                e = self.expr(env, dt, sc, 2, top=True)
            v = self.new_name(dt, sc)
        self.touch(env, v)
        return [["assign", v, e]]

    def alias_stmt(self, env):
        """t = x  (plain name copy: the new variable is bound to the same ONNX value)."""
        c = [n for n in sorted(env) if self.flags.get(n, "plain") == "plain"]
        if not c:
            return self.assign_stmt(env)
        src = self.rng.choice(c)
        dt, sc = self.types[src]
        same = [n for n in c if self.types[n] == (dt, sc) and n != src and n not in self.frozen and not n.startswith("_p_")]
        same = [n for n in same if (n in self.bounded) <= (src in self.bounded)]
        if same and self.rng.random() < 0.4:
            v = self.rng.choice(same)
        else:
            v = self.new_name(dt, sc)
            if src in self.bounded:
                self.bounded.add(v)
        self.touch(env, v)
        self.features.add("alias-assign")
        return [["assign", v, ["var", src]]]

    def litvar_stmt(self, env):
        dt = self.rng.choice(["F", "I"])
        v = self.new_name(dt, "0", hint=self.rng.choice(["k0", "c0", "one", "lim"]))
        self.flags[v] = "litvar"
        self.touch(env, v)
        self.features.add("literal-variable")
        return [["assign", v, ["lit", self.lit(dt)]]]

    def tuple_stmt(self, env):
        rng = self.rng
        kind = rng.choice(["split", "topk", "fcall2"])
        if kind == "fcall2" and self.helper is not None and len(self.helper["rets"]) == 2:
            e = self.fcall(env, 2)
            names = [self.new_name(*r) for r in self.helper["rets"]]
            for n_ in names:
                self.touch(env, n_)
            self.features.add("tuple-assign-subfunction")
            return [["tassign", names, e]]
        try:
            v = self.expr(env, "F", "V4", 1)
        except RuntimeError:
            return self.assign_stmt(env)
        if kind == "topk":
            iattrs = [a_ for a_ in self.attrs if a_[1] == "int" and a_[3] == "binary"]
            kws = []
            if iattrs and rng.random() < 0.6:
                kws = [["largest", ["ref", iattrs[0][0]]]]
                self.features.add("attr-as-attr")
            elif rng.random() < 0.4:
                kws = [["largest", ["v", rng.choice([0, 1])]]]
            n1 = self.new_name("F", "V2")
            n2 = self.new_name("I", "V2")
            self.touch(env, n1)
            self.touch(env, n2)
            self.features.add("multi-output-topk")
            return [["tassign", [n1, n2], ["call", "TopK", [v, ["lit", [2]]], kws]]]
        n1 = self.new_name("F", "V2")
        n2 = self.new_name("F", "V2")
        self.touch(env, n1)
        self.touch(env, n2)
        self.features.add("multi-output-split")
        return [["tassign", [n1, n2], ["call", "Split", [v], [["num_outputs", ["v", 2]]]]]]

    def if_stmt(self, env, depth):
        rng = self.rng
        pre = []
        # condition: expression, variable, or a constant global
        roll = rng.random()
        if roll < 0.08 and self.globals_ok:
            g = rng.choice(["G_T", "G_F"])
            self.globals[g] = (g == "G_T")
            c = ["glob", g]
            self.features.add("constant-if")
        elif roll < 0.45:
            cn = self.new_name("B", "0", hint=rng.choice(["cond", "c", "flag0", "p"]))
            pre.append(["assign", cn, self.expr(env, "B", "0", 2, top=True)])
            self.touch(env, cn)
            c = ["var", cn]
        else:
            c = self.cond(env)
        # variables assigned in both branches / one branch
        n1 = rng.choice([1, 1, 2, 3])
        n2 = rng.choice([0, 1, 1, 2])
        existing = [n for n in sorted(env) if self.flags.get(n, "plain") == "plain" and n not in self.frozen and not n.startswith("_p_")]
        must = []
        if existing and rng.random() < 0.8:
            must = [self.pick_recent(existing, env)]
        shape = rng.choice(["both", "both", "then-only", "else-only", "new-both"])
        then_must = must if shape in ("both", "then-only") else []
        else_must = must if shape in ("both", "else-only") else []
        newv = None
        if shape == "new-both":
            dt = rng.choice(["F", "I"])
            sc = rng.choice(["S", "0"])
            newv = self.new_name(dt, sc)
        tb, env_t = self.block(env, depth - 1, n1, must_assign=then_must)
        eb, env_e = self.block(env, depth - 1, n2, must_assign=else_must)
        if newv:
            dt, sc = self.types[newv]
            try:
                tb.append(["assign", newv, self.expr(env_t, dt, sc, 2, top=True)])
                eb.append(["assign", newv, self.expr(env_e, dt, sc, 2, top=True)])
                self.touch(env_t, newv)
                self.touch(env_e, newv)
            except RuntimeError:
                pass
        if not tb:
            tb, env_t = self.block(env, 0, 1)
        # definitely defined afterwards: defined before, or in both branches
        for n in list(env_t):
            if n in env_e:
                env[n] = max(env_t[n], env_e[n])
        self.features.add("if-" + shape)
        self.features.add("if-depth-%d" % (self.maxdepth - depth + 1))
        return pre + [["if", c, tb, eb]]

    def loop_body(self, env, depth, extra_tail=None):
        rng = self.rng
        existing = [n for n in sorted(env) if self.flags.get(n, "plain") == "plain" and n not in self.frozen and not n.startswith("_p_")]
        must = [self.pick_recent(existing, env)] if existing else []
        if len(existing) > 1 and rng.random() < 0.4:
            m2 = self.pick_recent(existing, env)
            if m2 not in must:
                must.append(m2)
        body, env_b = self.block(env, depth - 1, rng.choice([0, 1, 1, 2]), in_loop=True, must_assign=must)
        return body, env_b

    def for_stmt(self, env, depth):
        rng = self.rng
        pre = []
        roll = rng.random()
        ints = self.vars_of(env, "I", "0")
        ints = [n for n in ints if n in self.bounded]
        if roll < 0.4 or not ints:
            bound = ["lit", rng.choice([0, 1, 2, 3])]
        elif roll < 0.8:
            bound = ["var", rng.choice(ints)]
            self.features.add("for-bound-var")
        else:
            bound = ["bin", "+", ["var", rng.choice(ints)], ["lit", 1]]
            self.features.add("for-bound-expr")
        iv = self.new_name("I", "0", hint=rng.choice(["i", "j", "i", "idx"]))
        self.flags[iv] = "loopvar"
        env_in = dict(env)
        self.touch(env_in, iv)
        frozen_before = set(self.frozen)
        if bound[0] != "lit":
            # keep the bound variable unchanged inside the loop (trip count is fixed up-front in both readings anyway)
            pass
        body, env_b = self.loop_body(env_in, depth)
        if rng.random() < 0.3:
            cb = self.new_name("B", "0", hint=rng.choice(["brk", "stop", "cond"]))
            body.append(["assign", cb, self.expr(env_b, "B", "0", 2, top=True)])
            body.append(["break_if", cb])
            self.features.add("for-break")
        self.frozen = frozen_before
        self.features.add("for")
        self.features.add("loop-depth-%d" % (self.maxdepth - depth + 1))
        return pre + [["for", iv, bound, body]]

    def while_stmts(self, env, depth):
        rng = self.rng
        k = self.new_name("I", "0", hint=rng.choice(["k", "cnt", "n0"]))
        c = self.new_name("B", "0", hint=rng.choice(["go", "more", "cond"]))
        lim = rng.choice([1, 2, 3])
        ints = [n for n in self.vars_of(env, "I", "0") if n in self.bounded]
        pre = []
        if ints and rng.random() < 0.5:
            # count down from a bounded integer parameter (alias of a graph input as initial loop state)
            src = rng.choice(ints)
            pre.append(["assign", k, ["var", src]])
            test = lambda: ["cmp", ">", ["var", k], ["lit", 0]]
            step = ["assign", k, ["bin", "-", ["var", k], ["lit", 1]]]
            self.features.add("while-countdown")
        else:
            pre.append(["assign", k, ["call", "Constant", [], [["value_int", ["v", 0]]]]])
            test = lambda: ["cmp", "<", ["var", k], ["lit", lim]]
            step = ["assign", k, ["bin", "+", ["var", k], ["lit", 1]]]
        self.touch(env, k)
        pre.append(["assign", c, test()])
        self.touch(env, c)
        frozen_before = set(self.frozen)
        self.frozen = self.frozen | {k, c}
        body, env_b = self.loop_body(env, depth)
        self.frozen = frozen_before
        body.append(step)
        t = test()
        if rng.random() < 0.4:
            t = ["bin", "&", t, self.expr(env_b, "B", "0", 2)]
            self.features.add("while-data-cond")
        body.append(["assign", c, t])
        if rng.random() < 0.2:
            cb = self.new_name("B", "0", hint="stop")
            body.append(["assign", cb, self.expr(env_b, "B", "0", 2, top=True)])
            body.append(["break_if", cb])
            self.features.add("while-break")
        self.features.add("while")
        self.features.add("loop-depth-%d" % (self.maxdepth - depth + 1))
        return pre + [["while", c, body]]

    # -- whole program
    def program(self, name="f", n_stmts=None, is_helper=False):
        rng = self.rng
        self.frozen = set()
        self.bounded = set()
        self.globals_ok = not is_helper
        env = {}
        tparams = []
        # at least one S-shaped float parameter
        nt = rng.choice([1, 2, 2, 3]) if not is_helper else rng.choice([1, 2])
        pnames = ["x", "y", "n", "m", "v", "p"]
        first = self.new_name("F", "S", hint="x")
        tparams.append([first, "F", "S"])
        for j_ in range(nt - 1):
            kind = rng.choice(["FS", "IS", "I0", "F0", "B0", "FV4", "I0"])
            if self.subs and j_ == 0 and rng.random() < 0.7:
                kind = "I0"          # an INT64 scalar input to slice with
            if is_helper and kind == "FV4":
                kind = "FS"
            dt, sc = kind[0], kind[1:]
            hint = {"FS": "y", "IS": "m", "I0": "n", "F0": "s", "B0": "flag", "FV4": "v"}[kind]
            nm = self.new_name(dt, sc, hint=hint if hint not in self.types else None)
            tparams.append([nm, dt, sc])
            if kind == "I0":
                self.bounded.add(nm)
        for (nm, dt, sc) in tparams:
            self.touch(env, nm)
        na = rng.choice([0, 0, 1, 1, 2])
        for _ in range(na):
            kind = rng.choice(["float", "float", "int", "bool"])
            nm = self.new_name({"float": "F", "int": "I", "bool": "B"}[kind], "0",
                               hint={"float": "alpha", "int": "kk", "bool": "bf"}[kind] if rng.random() < 0.8 else None)
            if kind == "float":
                default = rng.choice([None, 0.5, 1.0, 0.25, 2.0])
                role = "value"
            elif kind == "int":
                role = rng.choice(["binary", "value"])
                default = rng.choice([None, 0, 1]) if role == "binary" else rng.choice([None, 0, 1, 2, -1])
            else:
                default = rng.choice([None, True, False])
                role = "value"
            self.attrs.append([nm, kind, default, role])
            self.flags[nm] = "attr"
            self.touch(env, nm)
        # python requires non-default parameters first: order attrs without default first
        self.attrs.sort(key=lambda a_: a_[2] is not None)
        if self.subs and rng.random() < 0.3:
            g = "LO"
            self.globals[g] = rng.choice([0, 1, 2])
            self.types[g] = ("I", "0")
            self.flags[g] = "glob"
            self.touch(env, g)
        if not is_helper and rng.random() < 0.25:
            g = "K2"
            self.globals[g] = rng.choice([2.0, 0.5, 3])
            self.types[g] = ("F" if isinstance(self.globals[g], float) else "I", "0")
            self.flags[g] = "glob"
            self.touch(env, g)
        n = n_stmts if n_stmts is not None else rng.choice([2, 3, 4, 5, 6])
        body, env2 = self.block(env, 0 if is_helper else self.maxdepth, n)
        # return 1..3 values, biased to recently assigned variables; sometimes a parameter or a duplicate
        outs = [n_ for n_ in sorted(env2) if self.flags.get(n_, "plain") == "plain"]
        k = rng.choice([1, 1, 2, 2, 3]) if not is_helper else rng.choice([1, 1, 1, 2])
        rets, rtypes = [], []
        for i in range(k):
            r = rng.random()
            if r < 0.7:
                v = self.pick_recent(outs, env2)
                rets.append(["var", v])
                rtypes.append(list(self.types[v]))
            elif r < 0.8 and rets:
                rets.append(copy.deepcopy(rets[0]))       # duplicate output
                rtypes.append(list(rtypes[0]))
                self.features.add("duplicate-return")
            elif r < 0.9:
                v = tparams[0][0] if tparams[0][0] in env2 else self.pick_recent(outs, env2)
                rets.append(["var", v])
                rtypes.append(list(self.types[v]))
                self.features.add("return-parameter")
            else:
                dt = rng.choice(["F", "I"])
                sc = rng.choice(["S", "0"])
                rets.append(self.expr(env2, dt, sc, 2, top=True))
                rtypes.append([dt, sc])
                self.features.add("return-expression")
        body.append(["return", rets])
        prog = {"name": name, "tparams": tparams, "aparams": [a_[:3] for a_ in self.attrs], "attr_roles": {a_[0]: a_[3] for a_ in self.attrs},
                "body": body, "rets": rtypes, "subs": [self.helper] if self.helper else [], "globals": dict(self.globals),
                "rank": self.rank, "deco": "plain" if (rng.random() < 0.2 and uses_op(body)) else "default_opset",
                "bounded": sorted(self.bounded), "features": sorted(self.features)}
        if self.subs:
            prog["stream"] = "subscript"
            prog["min_dims"] = list(self.min_dims[:self.rank])
        return prog


def uses_op(body):
    found = [False]

    def ve(e):
        if e is None:
            return
        if e[0] == "call":
            found[0] = True
        if e[0] in ("un",):
            ve(e[2])
        if e[0] in ("bin", "cmp"):
            ve(e[2]); ve(e[3])
        if e[0] in ("call", "fcall"):
            for a in e[2]:
                ve(a)
        if e[0] == "sub":
            ve(e[1])
            for i in e[2]:
                if i[0] == "s":
                    for c in i[1:4]:
                        ve(c)

    def vs(s):
        if s[0] == "assign":
            ve(s[2])
        elif s[0] == "tassign":
            ve(s[2])
        elif s[0] == "if":
            ve(s[1]); [vs(x) for x in s[2]]; [vs(x) for x in s[3]]
        elif s[0] == "for":
            ve(s[2]); [vs(x) for x in s[3]]
        elif s[0] == "while":
            [vs(x) for x in s[2]]
        elif s[0] == "return":
            [ve(x) for x in s[1]]
    for s in body:
        vs(s)
    return found[0]


def gen_program(rng, idx=0, depth=2, straight=False):
    """One random program (with possibly one helper sub-function)."""
    helper = None
    if not straight and rng.random() < 0.3:
        hg = Gen(rng, depth=0, rich=False, allow_float_mod=False)
        helper = hg.program(name=f"helper{idx}", n_stmts=rng.choice([1, 2, 3]), is_helper=True)
    g = Gen(rng, depth=0 if straight else depth, helper=helper)
    if helper is not None:
        g.rank = helper["rank"]
    p = g.program(name=f"f{idx}")
    return p


def has_subscript(p):
    return p.get("stream") == "subscript"


def gen_subscript_program(rng, idx=0, depth=2):
    """One random program of the subscript stream: the same typed grammar, with tensor subscripts as expressions at
    every nesting position (top level, then/else branches, loop bodies, after the control-flow statement)."""
    for _ in range(20):
        g = Gen(rng, depth=depth, subs=True)
        g.rank = rng.choice([1, 2, 2, 3])
        p = g.program(name=f"g{idx}", n_stmts=rng.choice([2, 3, 3, 4, 5]))
        if "subscript" in p["features"]:
            break
    if rng.random() < 0.35:
        add_decoy_globals(p, rng)
    return p


def assigned_names(p):
    """Python names the body assigns (loop variables included)."""
    out = []

    def vs(stmts):
        for s in stmts:
            if s[0] == "assign":
                out.append(s[1])
            elif s[0] == "tassign":
                out.extend(s[1])
            elif s[0] == "if":
                vs(s[2]); vs(s[3])
            elif s[0] == "for":
                out.append(s[1]); vs(s[3])
            elif s[0] == "while":
                vs(s[2])
    vs(p["body"])
    return sorted(set(out))


def all_names(p):
    return set(assigned_names(p)) | {t[0] for t in p["tparams"]} | {a[0] for a in p["aparams"]} | set(p["globals"]) \
        | {h["name"] for h in p["subs"]} | {p["name"]} | set(MODULE_NAMES)


def add_decoy_globals(p, rng):
    """Module-level names that coincide with a local variable or a parameter of the function.  In Python a name that is
    a parameter or is assigned anywhere in the function is local to it: the module-level object is never read."""
    locs = [n for n in assigned_names(p) if n not in p["globals"]]
    params = [t[0] for t in p["tparams"]] + [a[0] for a in p["aparams"]]
    picks = []
    if locs:
        picks += rng.sample(locs, min(len(locs), rng.choice([1, 1, 2])))
    if params and rng.random() < 0.6:
        picks.append(rng.choice(params))
    for n in picks:
        p["globals"][n] = rng.choice([2.0, 3, True, False, 0.5, 0])
    if picks:
        p["features"] = sorted(set(p["features"]) | {"decoy-global"})
        p["decoys"] = sorted(picks)


# ----------------------------------------------------------------------------- python source printer

_PREC = {"|": 1, "&": 2, "cmp": 3, "+": 4, "-": 4, "*": 5, "/": 5, "%": 5, "@": 5, "neg": 6, "**": 7}


def pylit(v):
    if isinstance(v, bool):
        return "True" if v else "False"
    if isinstance(v, float):
        return repr(v)
    if isinstance(v, int):
        return repr(v)
    if isinstance(v, list):
        return "[" + ", ".join(pylit(x) for x in v) + "]"
    if isinstance(v, str):
        return repr(v)
    raise TypeError(v)


def src_expr(e, ctx=0):
    k = e[0]
    if k == "var" or k == "glob":
        return e[1]
    if k == "lit":
        s = pylit(e[1])
        if s.startswith("-") and ctx > 0:
            return "(" + s + ")"
        return s
    if k == "un":
        if e[1] == "-":
            return "(-" + src_expr(e[2], 9) + ")"
        return "(not " + src_expr(e[2], 9) + ")"
    if k == "bin":
        return "(" + src_expr(e[2], 9) + " " + e[1] + " " + src_expr(e[3], 9) + ")"
    if k == "cmp":
        return "(" + src_expr(e[2], 9) + " " + e[1] + " " + src_expr(e[3], 9) + ")"
    if k in ("call", "fcall"):
        parts = ["None" if a is None else src_expr(a) for a in e[2]]
        for kw, av in e[3]:
            parts.append(f"{kw}={av[1] if av[0] == 'ref' else pylit(av[1])}")
        head = ("op." + e[1]) if k == "call" else e[1]
        return head + "(" + ", ".join(parts) + ")"
    if k == "sub":
        base = src_expr(e[1], 9)
        if e[1][0] not in ("var", "glob", "call", "fcall", "sub") and not base.startswith("("):
            base = "(" + base + ")"
        return base + "[" + ", ".join(src_index(i) for i in e[2]) + "]"
    raise TypeError(e)


def src_index(i):
    if i[0] == "i":
        return repr(int(i[1]))
    if i[0] == "all":
        return ":"
    comp = ["" if c is None else strip_parens(src_expr(c)) for c in i[1:4]]
    return comp[0] + ":" + comp[1] + ("" if i[3] is None else ":" + comp[2])


def strip_parens(s):
    if s.startswith("(") and s.endswith(")"):
        # only strip when the outer parens match each other
        d = 0
        for i, ch in enumerate(s):
            if ch == "(":
                d += 1
            elif ch == ")":
                d -= 1
                if d == 0 and i != len(s) - 1:
                    return s
        return s[1:-1]
    return s


def src_block(stmts, ind):
    lines = []
    pad = "    " * ind
    for s in stmts:
        k = s[0]
        if k == "assign":
            lines.append(f"{pad}{s[1]} = {strip_parens(src_expr(s[2]))}")
        elif k == "tassign":
            lines.append(f"{pad}{', '.join(s[1])} = {src_expr(s[2])}")
        elif k == "if":
            lines.append(f"{pad}if {strip_parens(src_expr(s[1]))}:")
            lines += src_block(s[2], ind + 1)
            if s[3]:
                lines.append(f"{pad}else:")
                lines += src_block(s[3], ind + 1)
        elif k == "for":
            lines.append(f"{pad}for {s[1]} in range({strip_parens(src_expr(s[2]))}):")
            lines += src_block(s[3], ind + 1)
        elif k == "while":
            lines.append(f"{pad}while {s[1]}:")
            lines += src_block(s[2], ind + 1)
        elif k == "break_if":
            lines.append(f"{pad}if {s[1]}:")
            lines.append(f"{pad}    break")
        elif k == "return":
            lines.append(f"{pad}return " + ", ".join(strip_parens(src_expr(x)) for x in s[1]))
        elif k == "raw":
            for ln in s[1]:
                lines.append(pad + ln)
        else:
            raise TypeError(s)
    return lines


def src_function(p, annotate=True):
    params = []
    for (n, dt, sc) in p["tparams"]:
        params.append(f"{n}: {ann(dt, sc, p['rank'])}" if annotate else n)
    for (n, kind, default) in p["aparams"]:
        params.append(f"{n}: {kind}" + ("" if default is None else f" = {pylit(default)}"))
    rets = [ann(dt, sc, p["rank"]) for (dt, sc) in p["rets"]]
    ret = rets[0] if len(rets) == 1 else "(" + ", ".join(rets) + ")"
    deco = "@script(default_opset=op)" if p["deco"] == "default_opset" else "@script()"
    head = f"{deco}\ndef {p['name']}({', '.join(params)})" + (f" -> {ret}" if annotate else "") + ":"
    return head + "\n" + "\n".join(src_block(p["body"], 1)) + "\n"


HEADER = ("from onnxscript import script, FLOAT, INT64, BOOL\n"
          "from onnxscript import opset18 as op\n\n")


def to_source(p):
    txt = HEADER
    for g, v in sorted(p["globals"].items()):
        txt += f"{g} = {pylit(v)}\n"
    txt += "\n"
    for h in p["subs"]:
        txt += src_function(h) + "\n\n"
    txt += src_function(p)
    return txt


# ----------------------------------------------------------------------------- structural class of a program (evidence keys)

def shape_key(p):
    def ks(stmts, d):
        out = []
        for s in stmts:
            if s[0] == "if":
                out.append("I" + str(d) + "(" + ks(s[2], d + 1) + "|" + ks(s[3], d + 1) + ")")
            elif s[0] == "for":
                out.append("F" + str(d) + "(" + ks(s[3], d + 1) + ")")
            elif s[0] == "while":
                out.append("W" + str(d) + "(" + ks(s[2], d + 1) + ")")
            elif s[0] == "break_if":
                out.append("b")
            elif s[0] == "tassign":
                out.append("t")
            elif s[0] == "return":
                out.append("r%d" % len(s[1]))
            else:
                out.append("a")
        return "".join(out)
    return ks(p["body"], 0) + "/p%d/a%d/s%d" % (len(p["tparams"]), len(p["aparams"]), len(p["subs"])) + ("/sub" if has_subscript(p) else "")


# ----------------------------------------------------------------------------- near misses (one grammar-violating edit)

NEAR_MISS_KINDS = [
    "undefined-on-one-path", "return-in-branch", "unsupported-statement", "comparison-chain", "non-range-loop",
    "break-not-last", "nested-function-shadow", "multi-assignment", "boolop-and", "return-none", "undefined-variable",
    "while-expression-test", "tuple-to-single", "augmented-assign", "for-tuple-target", "unconditional-break",
    "range-two-args", "starred-call", "lambda-expr", "return-in-loop", "break-on-expression", "if-expression",
    "bad-attribute-type", "subscript-store", "while-else", "for-else", "loop-without-state", "if-without-output",
]


def mutate(p, kind, rng):
    """Return source text of program p with one grammar-violating mutation of the given kind."""
    q = copy.deepcopy(p)
    body = q["body"]
    ret = body[-1]
    core = body[:-1]
    x = q["tparams"][0][0]
    pos = rng.randrange(len(core) + 1)

    def raw(*lines):
        return ["raw", list(lines)]

    if kind == "undefined-on-one-path":
        # a fresh variable assigned in the then-branch only and used afterwards
        core.insert(pos, ["if", ["cmp", ">", ["call", "ReduceSum", [["var", x]], [["keepdims", ["v", 0]]]], ["lit", 0.0]],
                          [["assign", "_nm_u", ["bin", "+", ["var", x], ["lit", 1.0]]]], []])
        ret[1][0] = ["var", "_nm_u"]
    elif kind == "return-in-branch":
        core.insert(pos, ["if", ["cmp", ">", ["call", "ReduceSum", [["var", x]], [["keepdims", ["v", 0]]]], ["lit", 0.0]],
                          [["return", copy.deepcopy(ret[1])]], []])
    elif kind == "return-in-loop":
        core.insert(pos, ["for", "_nm_i", ["lit", 2], [["return", copy.deepcopy(ret[1])]]])
    elif kind == "unsupported-statement":
        core.insert(pos, rng.choice([raw("assert True"), raw("pass"), raw("del " + x), raw("import math"), raw("global G"),
                                     raw("with open('f') as _nm_f:", "    pass"), raw("try:", "    pass", "except Exception:", "    pass"),
                                     raw("raise ValueError('no')"), raw(f"{x}.foo = 1"), raw("continue") if False else raw("yield 1")]))
    elif kind == "comparison-chain":
        core.insert(pos, ["raw", [f"_nm_c = 0.0 < {x} < 1.0"]])
    elif kind == "non-range-loop":
        core.insert(pos, rng.choice([raw(f"for _nm_i in {x}:", f"    {x} = {x} + 1.0"),
                                     raw("for _nm_i in [0, 1]:", f"    {x} = {x} + 1.0"),
                                     raw("for _nm_i in enumerate(range(2)):", f"    {x} = {x} + 1.0"),
                                     raw("for _nm_i in op.Range(0, 2, 1):", f"    {x} = {x} + 1.0")]))
    elif kind == "break-not-last":
        core.insert(pos, raw("for _nm_i in range(3):", f"    _nm_b = op.ReduceSum({x}, keepdims=0) > 0.0",
                             "    if _nm_b:", "        break", f"    {x} = {x} + 1.0"))
    elif kind == "unconditional-break":
        core.insert(pos, raw("for _nm_i in range(3):", f"    {x} = {x} + 1.0", "    break"))
    elif kind == "break-on-expression":
        core.insert(pos, raw("for _nm_i in range(3):", f"    {x} = {x} + 1.0", f"    if op.ReduceSum({x}, keepdims=0) > 0.0:", "        break"))
    elif kind == "nested-function-shadow":
        core.insert(pos, raw(f"def _nm_inner({x}):", f"    {x} = {x} + 1.0", f"    return {x}", f"{x} = _nm_inner({x})"))
    elif kind == "multi-assignment":
        core.insert(pos, raw(f"_nm_a = _nm_b = {x} + 1.0"))
    elif kind == "boolop-and":
        core.insert(pos, raw(f"_nm_c = ({x} > 0.0) and ({x} < 1.0)"))
    elif kind == "if-expression":
        core.insert(pos, raw(f"_nm_c = {x} if True else {x} + 1.0"))
    elif kind == "lambda-expr":
        core.insert(pos, raw(f"_nm_c = (lambda t: t)({x})"))
    elif kind == "return-none":
        ret[:] = ["raw", ["return"]]
    elif kind == "undefined-variable":
        core.insert(pos, raw(f"_nm_c = {x} + _nm_undefined"))
    elif kind == "while-expression-test":
        core.insert(pos, raw(f"while op.ReduceSum({x}, keepdims=0) < 3.0:", f"    {x} = {x} + 1.0"))
    elif kind == "tuple-to-single":
        core.insert(pos, raw(f"_nm_c = {x}, {x}"))
    elif kind == "augmented-assign":
        core.insert(pos, raw(f"{x} += 1.0"))
    elif kind == "for-tuple-target":
        core.insert(pos, raw("for _nm_i, _nm_j in range(2):", f"    {x} = {x} + 1.0"))
    elif kind == "range-two-args":
        core.insert(pos, raw("for _nm_i in range(0, 2):", f"    {x} = {x} + 1.0"))
    elif kind == "starred-call":
        core.insert(pos, raw(f"_nm_c = op.Add(*[{x}, {x}])"))
    elif kind == "unknown-op":
        core.insert(pos, raw(f"_nm_c = op.NoSuchOperator({x})"))
    elif kind == "bad-attribute-type":
        core.insert(pos, raw(f"_nm_c = op.ReduceSum({x}, keepdims={x})"))
    elif kind == "subscript-store":
        core.insert(pos, raw(f"{x}[0] = 1.0"))
    elif kind == "while-else":
        core.insert(pos, raw(f"_nm_g = op.ReduceSum({x}, keepdims=0) < 0.0", "while _nm_g:", f"    {x} = {x} + 1.0",
                             f"    _nm_g = op.ReduceSum({x}, keepdims=0) < 0.0", "else:", f"    {x} = {x} - 1.0"))
    elif kind == "for-else":
        core.insert(pos, raw("for _nm_i in range(2):", f"    {x} = {x} + 1.0", "else:", f"    {x} = {x} - 1.0"))
    elif kind == "loop-without-state":
        core.insert(pos, raw("for _nm_i in range(2):", f"    _nm_dead = {x} + 1.0"))
    elif kind == "if-without-output":
        core.insert(pos, raw(f"if op.ReduceSum({x}, keepdims=0) > 0.0:", f"    _nm_dead = {x} + 1.0"))
    else:
        raise KeyError(kind)
    q["body"] = core + [ret]
    return to_source(q)


# ----------------------------------------------------------------------------- near misses aimed at name resolution
#
# A variable assigned on only one path and used afterwards, whose name also denotes something else the converter can
# resolve: a module-level global, a closure variable, a module-level script function, a name the converter generates.
# In Python a name assigned anywhere in a function is local to it, so on the other path the variable is unbound
# (UnboundLocalError): the program is outside the subset whatever the enclosing module contains, and must be refused.

NAME_WHERE = ["if-then-only", "if-else-only", "if-no-else", "nested-if", "for-body-only", "while-body-only"]
NAME_CLASH = ["none", "module-global-float", "module-global-int", "module-global-array", "closure", "sub-function",
              "generated-name"]
GENERATED_NAMES = ["cond", "cond_in", "cond_out", "tmp", "return_val", "loop_bound", "const", "{x}_1", "{x}_0", "tmp_0"]


def name_near_miss(p, where, clash, rng):
    """Source text of program p with a one-path assignment of a variable whose name clashes as `clash`.
    Returns (source, variable name)."""
    q = copy.deepcopy(p)
    body = q["body"]
    ret = body[-1]
    core = body[:-1]
    x = q["tparams"][0][0]
    taken = all_names(q)

    def fresh(cands):
        for c in cands:
            if c not in taken:
                return c
        k = 0
        while f"{cands[0]}_{k}" in taken:
            k += 1
        return f"{cands[0]}_{k}"
    pre_lines, post = [], None
    if clash == "none":
        v = fresh(["_nm_v"])
    elif clash == "module-global-float":
        v = fresh(["scale", "gain", "factor"])
        pre_lines = [f"{v} = {rng.choice(['2.0', '0.5', '-1.0'])}"]
    elif clash == "module-global-int":
        v = fresh(["limit", "count", "width"])
        pre_lines = [f"{v} = {rng.choice(['6', '0', '1'])}"]
    elif clash == "module-global-array":
        v = fresh(["bias", "offset", "weights"])
        pre_lines = ["import numpy as np", f"{v} = np.array([0.5], dtype=np.float32)"]
    elif clash == "closure":
        v = fresh(["scale", "gain", "factor"])
    elif clash == "sub-function":
        v = fresh(["shadowed_fn", "other_fn"])
        pre_lines = ["@script(default_opset=op)", f"def {v}(a: FLOAT[...]) -> FLOAT[...]:", "    return op.Neg(a)"]
    elif clash == "generated-name":
        cands = [g.format(x=x) for g in GENERATED_NAMES]
        rng.shuffle(cands)
        v = fresh(cands)
    else:
        raise KeyError(clash)
    test = f"op.ReduceSum({x}, keepdims=0) > 0.0"
    asg = f"{v} = {x} + 1.0"
    other = f"_nm_o = -{x}"
    if where == "if-then-only":
        lines = [f"if {test}:", "    " + asg, "else:", "    " + other]
    elif where == "if-else-only":
        lines = [f"if {test}:", "    " + other, "else:", "    " + asg]
    elif where == "if-no-else":
        lines = [f"if {test}:", "    " + asg]
    elif where == "nested-if":
        lines = [f"_nm_y = {x} * 1.0", f"if {test}:", f"    if op.ReduceSum({x}, keepdims=0) > 10.0:", "        " + asg,
                 "    else:", f"        _nm_y = -{x}", "else:", "    " + asg]
    elif where == "for-body-only":
        lines = [f"for _nm_i in range(op.Size({x})):", "    " + asg]
    elif where == "while-body-only":
        lines = [f"_nm_g = {test}", "while _nm_g:", "    " + asg, f"    _nm_g = op.ReduceSum({v}, keepdims=0) < 0.0"]
    else:
        raise KeyError(where)
    core.insert(rng.randrange(len(core) + 1), ["raw", lines])
    ret[1][0] = ["bin", "*", ["var", v], ["var", x]]
    q["body"] = core + [ret]
    if clash == "closure":
        txt = HEADER
        for g, val in sorted(q["globals"].items()):
            txt += f"{g} = {pylit(val)}\n"
        txt += "\n"
        for h in q["subs"]:
            txt += src_function(h) + "\n\n"
        txt += "def _nm_make():\n    " + v + " = 2.0\n"
        txt += "".join("    " + ln + "\n" for ln in src_function(q).rstrip("\n").split("\n"))
        txt += f"    return {q['name']}\n\n{q['name']} = _nm_make()\n"
        return txt, v
    txt = to_source(q)
    if pre_lines:
        marker = "\n@script"
        k = txt.index(marker)
        txt = txt[:k] + "\n" + "\n".join(pre_lines) + "\n" + txt[k:]
    return txt, v


# ----------------------------------------------------------------------------- Coq printer (OV.Script.Syntax literals)

import struct as _struct

_BIN = {"+": "Add", "-": "Sub", "*": "Mult", "/": "Div", "%": "Mod", "**": "Pow", "&": "BitAnd", "|": "BitOr", "@": "MatMult"}
_CMP = {"<": "Lt", "<=": "LtE", ">": "Gt", ">=": "GtE", "==": "Eq", "!=": "NotEq"}


def _cs(s):
    return '"' + s.replace('"', '""') + '"'


def _cz(n):
    n = int(n)
    return f"({n})%Z" if n < 0 else f"{n}%Z"


def f32_bits(x):
    return _struct.unpack("<I", _struct.pack("<f", float(x)))[0]


def coq_lit(v):
    if isinstance(v, bool):
        return f"(LBool {'true' if v else 'false'})"
    if isinstance(v, int):
        return f"(LInt {_cz(v)})"
    if isinstance(v, float):
        return f"(LFloat {_cz(f32_bits(v))})"
    if isinstance(v, list):
        return "(LInts [" + "; ".join(_cz(x) for x in v) + "])"
    raise TypeError(v)


def coq_attrv(v):
    if isinstance(v, bool):
        return f"(AInt {_cz(int(v))})"
    if isinstance(v, int):
        return f"(AInt {_cz(v)})"
    if isinstance(v, float):
        return f"(AFloat {_cz(f32_bits(v))})"
    if isinstance(v, list):
        return "(AInts [" + "; ".join(_cz(x) for x in v) + "])"
    raise TypeError(v)


def coq_expr(e):
    k = e[0]
    if k in ("var", "glob"):
        return f"(EVar {_cs(e[1])})"
    if k == "lit":
        return f"(ELit {coq_lit(e[1])})"
    if k == "un":
        return f"(EUn {_cs('USub' if e[1] == '-' else 'Not')} {coq_expr(e[2])})"
    if k == "bin":
        return f"(EBin {_cs(_BIN[e[1]])} {coq_expr(e[2])} {coq_expr(e[3])})"
    if k == "cmp":
        return f"(ECmp {_cs(_CMP[e[1]])} {coq_expr(e[2])} {coq_expr(e[3])})"
    if k in ("call", "fcall"):
        args = "[" + "; ".join("None" if a is None else f"Some {coq_expr(a)}" for a in e[2]) + "]"
        kws = "[" + "; ".join(f"({_cs(kw)}, {('KName ' + _cs(av[1])) if av[0] == 'ref' else ('KLit ' + coq_attrv(av[1]))})" for kw, av in e[3]) + "]"
        head = f"(COp {_cs(e[1])})" if k == "call" else f"(CFun {_cs(e[1])})"
        return f"(ECall {head} {args} {kws})"
    raise TypeError(e)


def coq_block(stmts):
    return "[" + "; ".join(coq_stmt(s) for s in stmts) + "]"


def coq_stmt(s):
    k = s[0]
    if k == "assign":
        return f"(SAssign {_cs(s[1])} {coq_expr(s[2])})"
    if k == "tassign":
        return f"(STuple [{'; '.join(_cs(x) for x in s[1])}] {coq_expr(s[2])})"
    if k == "if":
        return f"(SIf {coq_expr(s[1])} {coq_block(s[2])} {coq_block(s[3])})"
    if k == "for":
        return f"(SFor {_cs(s[1])} {coq_expr(s[2])} {coq_block(s[3])})"
    if k == "while":
        return f"(SWhile {_cs(s[1])} {coq_block(s[2])})"
    if k == "break_if":
        return f"(SIf (EVar {_cs(s[1])}) [SBreak] [])"
    if k == "return":
        return f"(SReturn [{'; '.join(coq_expr(x) for x in s[1])}])"
    raise TypeError(s)


def coq_func(p):
    tps = "[" + "; ".join(_cs(n) for (n, _d, _s) in p["tparams"]) + "]"
    kinds = {"float": "AKFloat", "int": "AKInt", "bool": "AKBool"}
    aps = "[" + "; ".join(f"({_cs(n)}, {kinds[k]}, {'false' if d is None else 'true'})" for (n, k, d) in p["aparams"]) + "]"
    return f"(Build_func {_cs(p['name'])} {tps} {aps} {coq_block(p['body'])})"


MODULE_NAMES = ["script", "FLOAT", "INT64", "BOOL", "op"]


def analysis_globals(p):
    """name -> truth value of every module-level name visible to the function (what AstAnalyzer is given)."""
    g = {n: True for n in MODULE_NAMES}
    for h in p["subs"]:
        g[h["name"]] = True
    for k, v in p["globals"].items():
        g[k] = bool(v)
    return g


def coq_globals(p, fp=None):
    """Truth values of the module-level names as the Coq side (cic_of) gets them.  When the real analyzer excludes the
    function's parameters from the constant-condition test (repaired code; decided by probing it), the parameters of
    `fp` are removed: a parameter shadows a module global of the same name."""
    g = analysis_globals(p)
    if fp is not None:
        from harness import c01_run
        if c01_run.constant_if_excludes_parameters():
            for n in [t[0] for t in fp["tparams"]] + [a[0] for a in fp["aparams"]]:
                g.pop(n, None)
    return "[" + "; ".join(f"({_cs(k)}, {'true' if v else 'false'})" for k, v in sorted(g.items())) + "]"


def load_corpus():
    """Minimised past failures / named shapes (corpus/C01/corpus.json), run first on every check."""
    import json
    import os
    path = os.path.join(os.path.dirname(os.path.dirname(os.path.abspath(__file__))), "corpus", "C01", "corpus.json")
    if not os.path.exists(path):
        return []
    return json.load(open(path))


def load_subscript_corpus():
    """Named shapes of the subscript stream (corpus/C01/subscript.json): slices in sibling scopes, zero upper bounds."""
    import json
    import os
    path = os.path.join(os.path.dirname(os.path.dirname(os.path.abspath(__file__))), "corpus", "C01", "subscript.json")
    if not os.path.exists(path):
        return []
    return json.load(open(path))
