(* C19 model: rotary embedding fusions.
     rules/fusion/_rotary_embedding.py   RotaryEmbedding23Fusion, PartialRotaryEmbedding23Fusion (ONNX opset 23 op)
     ort_fusions/rotary_embedding.py     RotaryEmbeddingFusion (replaced by a *function* whose body is the matched
                                         pattern, `as_function=True`: equal by construction), PartialRotaryEmbeddingFusion
   One row of the last axis (head_size D) of x, with the matching rows of the cos / sin operands.  No proofs here. *)
From Coq Require Import List Bool Arith ZArith.
Require Import OV.Fusion.Field.
Import ListNotations.

Section Sem.
  Variable F : Type.
  Variable o : fops F.
  Notation "x + y" := (fadd o x y).
  Notation "x * y" := (fmul o x y).
  Notation "x - y" := (fsub o x y).

  (* ONNX Slice on one axis, step 1, non-negative start/end (end is clamped to the length) *)
  Definition slice (l : list F) (s e : nat) : list F := firstn (Nat.min e (length l) - s) (skipn s l).

  (* _rotate_half_pattern: Concat(Neg(Slice(x, start2, end2)), Slice(x, start1, end1)) *)
  Definition rotate_half (x : list F) (s1 e1 s2 e2 : nat) : list F :=
    map (fopp o) (slice x s2 e2) ++ slice x s1 e1.
  (* x * cos + rotate_half(x) * sin *)
  Definition rope_pattern (x cos sin : list F) (s1 e1 s2 e2 : nat) : list F :=
    vadd o (vmul o x cos) (vmul o (rotate_half x s1 e1 s2 e2) sin).

  (* ONNX RotaryEmbedding-23 (= com.microsoft.RotaryEmbedding), interleaved = 0, caches of length h = rotary_dim / 2:
       x1 = x[0:h]; x2 = x[h:2h]; real = cos*x1 - sin*x2; imag = sin*x1 + cos*x2; Y = real ++ imag ++ x[2h:]   *)
  Definition rope_spec (x c s : list F) : list F :=
    let h := length c in
    let x1 := firstn h x in
    let x2 := firstn h (skipn h x) in
    map2 (fsub o) (vmul o c x1) (vmul o s x2) ++ vadd o (vmul o s x1) (vmul o c x2) ++ skipn (2 * h) x.

  (* RotaryEmbedding23Fusion: cos = Cos(Concat(freqs, freqs)), sin = Sin(Concat(freqs, freqs)); the rewrite passes
     Cos(freqs), Sin(freqs): with c = map cos freqs and s = map sin freqs the operands of the pattern are c ++ c, s ++ s. *)
  Definition rope23_pattern (x c s : list F) (s1 e1 s2 e2 : nat) : list F :=
    rope_pattern x (c ++ c) (s ++ s) s1 e1 s2 e2.

  (* Partial rotary: Concat(RotaryEmbedding(Slice(x, 0, end1)), Slice(x, start2, MAX)) -> RotaryEmbedding(x, rotary_embedding_dim = end1) *)
  Definition partial_pattern (x c s : list F) (end1 start2 : nat) : list F :=
    rope_spec (slice x 0 end1) c s ++ slice x start2 (length x).
End Sem.

(* RotaryEmbedding(23)Fusion.check: x of rank 4 with static dims 1 and 3; the four Slice bounds *)
Definition rot_check (rank : nat) (dim1 dim3 : option Z) (s1 e1 s2 e2 : Z) : option Z :=
  match rank, dim1, dim3 with
  | 4%nat, Some nh, Some hs =>
      let half := (hs / 2)%Z in
      if (s1 =? 0)%Z && (e1 =? half)%Z && (s2 =? half)%Z && (hs <=? e2)%Z then Some nh else None   (* num_heads *)
  | _, _, _ => None
  end.

(* Partial*Fusion.check: end1 = start2, no rotary_embedding_dim yet, interleaved absent or 0; result: rotary_embedding_dim *)
Definition partial_check (end1 start2 : Z) (has_dim_attr : bool) (interleaved : option Z) : option Z :=
  if (end1 =? start2)%Z && negb has_dim_attr && match interleaved with Some v => (v =? 0)%Z | None => true end
  then Some end1 else None.

(* ---- RotaryEmbedding23Fusion.rewrite and the batch of the cos / sin caches (C19:rules.fusion:rotary_embedding:freqs-batch-broadcast).
   Dim codes as in Attn.v: static n >= 0; NAMED symbolic dim <= -2 (one code per name); UNNAMED dim -1.
   _ir_utils.same_dim: both static and equal, or both named with the same name; an unnamed dim is the same as nothing. *)
Definition same_dim (a b : Z) : bool := Z.eqb a b && negb (Z.eqb a (-1)).
(* [repaired] = false: the rewrite as read at bbeff32 (freqs passed on as they are); true: fix c0398a5 -- freqs are expanded to
   the batch of x unless freqs has rank 3 and its batch dim is the same as x's.  Result: is an Expand emitted? *)
Definition rope23_expands (repaired : bool) (freqs : option (list Z)) (x_batch : Z) : bool :=
  repaired && negb (match freqs with Some [fb; _; _] => same_dim fb x_batch | _ => false end).
(* run-time batch of the cache the fused node receives: Expand(freqs, [B,1,1]) broadcasts (NumPy) *)
Definition cache_batch_after (expands : bool) (fb_rt xb_rt : Z) : Z := if expands then Z.max fb_rt xb_rt else fb_rt.
(* the pattern's Mul(x, Unsqueeze(cos, 1)) broadcasts the batch: well-formed with result batch B iff fb is 1 or B;
   the opset-23 operator (no position_ids) takes caches of shape (batch_size, sequence_length, head_size / 2) exactly *)
Definition rope23_pattern_ok (fb_rt xb_rt : Z) : bool := (fb_rt =? 1)%Z || (fb_rt =? xb_rt)%Z.
Definition rope23_operator_ok (cache_b xb_rt : Z) : bool := (cache_b =? xb_rt)%Z.

Definition oz_eqb (a b : option Z) : bool :=
  match a, b with Some x, Some y => Z.eqb x y | None, None => true | _, _ => false end.
Inductive rot_case :=
  | CRot (rank : nat) (dim1 dim3 : option Z) (s1 e1 s2 e2 : Z) (observed : option Z)
  | CPartial (end1 start2 : Z) (has_dim : bool) (interleaved : option Z) (observed : option Z)
  | CRopeExpand (repaired : bool) (freqs : option (list Z)) (x_batch : Z) (observed_expand : bool).
Definition rot_agrees (c : rot_case) : bool :=
  match c with
  | CRot r d1 d3 s1 e1 s2 e2 obs => oz_eqb (rot_check r d1 d3 s1 e1 s2 e2) obs
  | CPartial e1 s2 hd il obs => oz_eqb (partial_check e1 s2 hd il) obs
  | CRopeExpand r f xb obs => Bool.eqb (rope23_expands r f xb) obs
  end.
Fixpoint rot_disagreeing (i : nat) (cs : list rot_case) : list nat :=
  match cs with [] => [] | c :: t => (if rot_agrees c then [] else [i]) ++ rot_disagreeing (S i) t end.
