#!/bin/bash
# seed_queue.sh <parallel> <mode: full|fast> id...   (id like C10-1; source /tmp/seed/C10-out/1)
par=$1; mode=$2; shift 2
flag=""; [ "$mode" = fast ] && flag="--fast"
printf "%s\n" "$@" | xargs -P "$par" -I{} sh -c 'id={}; p=${id%-*}; k=${id#*-}; /verif/tools/confirm_seed.py /tmp/seed/$p-out/$k $id '"$flag"' >> /var/tmp/osv/confirm_'"$mode"'.log 2>&1'
