(* Proofs for Rewrite/FnConstIn.v: the executable side condition on the copied values discharges the environment hypothesis
   of as_function_const_graph_sound for copied INITIALIZERS, for every argument list of the graph -- and it is necessary:
   copied_input_refuted exhibits a graph whose copied value is a graph input and two argument lists, one on which the
   invariant holds and one (the caller overrides the default) on which it fails. *)
From Coq Require Import List String ZArith Bool Arith Lia.
Require Import OV.Graph.Syntax OV.Graph.Sem OV.Graph.Names OV.Graph.SemProofs.
Require Import OV.Rewrite.Apply OV.Rewrite.ApplyProofs OV.Rewrite.FnCall OV.Rewrite.State OV.Rewrite.Multi OV.Rewrite.FnConst
               OV.Rewrite.FnConstSemProofs OV.Rewrite.FnConstIn OV.Rewrite.MultiProofs.
Import ListNotations.

Lemma copied_stable_sound : forall gi pre cmap,
  copied_stable_okb gi pre cmap = true ->
  forall t, In t (map fst cmap) -> ~ In t gi /\ ~ In t (defs_nodes pre).
Proof.
  intros gi pre cmap H t Ht. unfold copied_stable_okb in H. apply disjointb_sound in H.
  pose proof (H t Ht) as N. split; intro Q; apply N; apply in_or_app; [left|right]; exact Q.
Qed.

Lemma copied_not_inputs_sound : forall gi cmap,
  copied_not_inputs_okb gi cmap = true -> forall t, In t (map fst cmap) -> ~ In t gi.
Proof. intros gi cmap H t Ht. unfold copied_not_inputs_okb in H. apply disjointb_sound in H. exact (H t Ht). Qed.

Lemma copied_stable_splits : forall gi pre cmap,
  copied_stable_okb gi pre cmap = true -> copied_not_inputs_okb gi cmap = true.
Proof.
  intros gi pre cmap H. unfold copied_not_inputs_okb. apply MultiProofs.disjointb_complete.
  intros t Ht Q. exact (proj1 (copied_stable_sound gi pre cmap H t Ht) Q).
Qed.

Section WithSem.
  Variable V : Type.
  Variable sem : string -> string -> list (string * attrv) -> list (option V) -> option (list V).
  Variables (truth : V -> option bool) (trip : V -> option nat) (of_nat : nat -> V) (of_bool : bool -> V) (limit : nat).

  (* whole graph, every argument list: only executable conditions on the copied values are left; the enclosing environment
     (initializers) binds each copied value to what its Constant produces *)
  Theorem as_function_const_inits_sound :
    forall cmap fuel f dom op attrs ins cattrs M outs X cvs outer gi gn pre suf gouts args,
      (forall ws, sem dom op attrs (map Some ws)
                  = eval_graph V sem truth trip of_nat of_bool limit (S f) [] (fn_graph ins (fn_body cmap cattrs M) outs) ws) ->
      extract_const_okb dom op ins cmap cattrs M outs = true ->
      copied_stable_okb gi pre cmap = true ->
      subset ins (free_reads [] M) = true -> subset outs (defs_nodes M) = true ->
      Forall2 (fun ca v => sem ""%string "Constant"%string (snd ca) [] = Some [v]) (combine cmap cattrs) cvs ->
      consts_bound V cmap cattrs cvs outer ->
      (forall x, In x (defs_nodes M) -> ~ In x outs -> In x X) ->
      disjoint X (names_nodes suf) -> disjoint X gouts ->
      eval_graph V sem truth trip of_nat of_bool limit (S fuel) outer (Graph gi gn (pre ++ M ++ suf) gouts) args
      = eval_graph V sem truth trip of_nat of_bool limit (S fuel) outer
                   (Graph gi gn (pre ++ [call_of dom op attrs ins outs] ++ suf) gouts) args.
  Proof.
    intros cmap fuel f dom op attrs ins cattrs M outs X cvs outer gi gn pre suf gouts args Hsem Hok Hst Hfr Hod Fc Hout HX Ds Do.
    apply (as_function_const_graph_sound V sem truth trip of_nat of_bool limit cmap fuel f dom op attrs ins cattrs M outs X cvs
             outer gi gn pre suf gouts args Hsem Hok Hfr Hod Fc); try assumption.
    intros e0 e1 B R.
    apply (consts_bound_from_outer V sem truth trip of_nat of_bool limit cmap cattrs cvs
             (eval_graph V sem truth trip of_nat of_bool limit fuel) outer e0 e1 gi args pre Hout); try assumption.
    - apply copied_stable_sound. exact Hst.
    - unfold extract_const_okb in Hok. repeat (apply andb_prop in Hok; destruct Hok as [Hok ?]).
      match goal with H : Nat.eqb (List.length cmap) _ = true |- _ => apply Nat.eqb_eq in H; exact H end.
  Qed.
End WithSem.

(* the condition is necessary: w is a graph input with default 2 in the enclosing environment; with no argument the copied
   value is bound to the default, with the argument 5 it is not *)
Theorem copied_input_refuted :
  let cmap := [("w", "c")]%string in
  let cattrs := [[("value", AStr "2")]]%string in
  copied_not_inputs_okb ["w"%string] cmap = false /\
  consts_bound nat cmap cattrs [2] [("w"%string, 2)] /\
  (forall e0, bind ["w"%string] [5] [("w"%string, 2)] = Some e0 -> ~ consts_bound nat cmap cattrs [2] e0).
Proof.
  cbn zeta. split; [vm_compute; reflexivity|]. split.
  - unfold consts_bound. cbn. constructor; [reflexivity|constructor].
  - intros e0 B Hc. vm_compute in B. injection B as <-. unfold consts_bound in Hc. cbn in Hc.
    inversion Hc as [|? ? ? ? Hv _]; subst. vm_compute in Hv. discriminate.
Qed.
