(* Stage S3 (complete): for / while loops, a trailing conditional break, and if / for / while nested to any depth.
   One simulation lemma per construct, tied together by induction on the nesting fuel of the converter model
   (blocks_okN): a nested block is sound because blocks of smaller fuel are.  Kernel laws assumed (each is a
   hypothesis of the theorem, never an axiom): Identity is the identity; truth (of_bool b) = Some b; Not negates
   a condition; And is the conjunction of two conditions. *)
From Coq Require Import List String ZArith Bool Arith Lia.
Require Import OV.Graph.Syntax OV.Graph.Sem OV.Graph.SemProofs OV.Graph.Wf OV.Graph.WfProofs.
Require Import OV.Script.Syntax OV.Script.Sets OV.Gen.Analysis OV.Gen.ScriptTables OV.Script.Translate OV.Script.PySem
               OV.Script.TranslateProofs OV.Script.AnalysisProofs OV.Script.LivenessProofs OV.Script.TranslateIfProofs.
Require Import OV.Script.TranslateForDefs OV.Script.TranslateForProofs OV.Script.TranslateNestDefs OV.Script.LivenessLoopProofs.
Import ListNotations.
Local Open Scope string_scope.
Local Open Scope list_scope.

(* ------------------------------------------------------------------ state monotonicity of the whole statement translation *)

Section MonoAll.
  Variable globals : list (string * lit).
  Variable cic : expr -> option bool.
  Variable afuel : nat.
  Variable inputs : list vname.
  Notation tr_stmts := (tr_stmts globals cic afuel false inputs).
  Notation tr_loop_body := (tr_loop_body globals cic afuel inputs).

  Lemma mono_tr_returns : forall es sc tuple i outs, mono (tr_returns globals false inputs sc tuple i es outs).
  Proof.
    induction es as [|e t IH]; intros sc tuple i outs; cbn [tr_returns]; [apply mono_ret|]. cbv zeta.
    apply mono_bind; [apply mono_tr_expr|]. intros v.
    apply mono_bind; [destruct (mem v inputs); mono_tac|]. intros v1.
    apply mono_bind; [destruct (mem v1 outs); mono_tac|]. intros v2. apply IH.
  Qed.

  Lemma mono_tr_loop_body_all : forall fu lo_body,
    (forall top ss lo sc outs, mono (tr_stmts fu top ss lo sc outs)) ->
    forall body sc_b, mono (tr_loop_body fu lo_body body sc_b).
  Proof.
    intros fu lo_body H. induction body as [|s0 rest IH]; intros sc_b.
    - rewrite tr_loop_body_nil. apply mono_ret.
    - rewrite tr_loop_body_cons. destruct (is_break_if s0) as [[cn|l|op a|op a b|op a b|f args kws]|]; try apply mono_fail.
      + apply mono_bind; [apply mono_guard|]. intros _.
        destruct (scope_find cn (cur_scope sc_b)) as [[v|k]|]; [apply mono_ret | apply mono_fail | apply mono_fail].
      + apply mono_bind; [apply mono_lift|]. intros lo0. apply mono_bind; [|intros r0; apply IH].
        destruct s0 as [x e|xs e|c t f|i b body|c body| |es]; try apply H.
        * apply mono_bind; [apply mono_tr_expr|]. intros v. apply mono_ret.
        * apply mono_bind; [apply mono_tr_call_multi|]. intros v. apply mono_ret.
  Qed.

  Lemma mono_tr_cond : forall brk wc cp, mono (tr_cond brk wc cp).
  Proof. intros [bv|] [wv|] cp; unfold tr_cond; mono_tac. Qed.

  Lemma mono_tr_loop_core : forall fu s body lo_s sc outs iv cp ob oc wcn,
    (forall top ss lo sc outs, mono (tr_stmts fu top ss lo sc outs)) ->
    mono (tr_loop_core globals cic afuel inputs fu s body lo_s sc outs iv cp ob oc wcn).
  Proof.
    intros fu s body lo_s sc outs iv cp ob oc wcn H. unfold tr_loop_core.
    apply mono_bind; [apply mono_list_set|]. intros state.
    apply mono_bind; [apply mono_guard|]. intros _.
    apply mono_bind; [apply mono_lift|]. intros lo_body.
    apply mono_bind; [apply mono_uniq|]. intros lv.
    apply mono_bind; [apply mono_mapM; intros a; apply mono_uniq|]. intros ps. cbv zeta.
    apply mono_bind; [apply mono_capture; apply mono_tr_loop_body_all; exact H|]. intros r.
    apply mono_bind.
    { destruct wcn as [c|]; [|apply mono_ret].
      destruct (scope_find c (cur_scope (fst (fst r)))) as [[v|k]|]; [apply mono_ret | apply mono_fail | apply mono_fail]. }
    intros wc.
    apply mono_bind; [apply mono_capture; apply mono_tr_cond|]. intros cnodes.
    apply mono_bind; [apply mono_loop_outputs|]. intros o.
    apply mono_bind; [apply mono_mapM; intros a; apply mono_py_var|]. intros ins.
    apply mono_bind; [apply mono_ret|]. intros so.
    apply mono_bind; [apply mono_mapM; intros a; apply mono_uniq|]. intros names.
    apply mono_bind; [apply mono_emit|]. intros _. apply mono_ret.
  Qed.

  Lemma mono_tr_branch_all : forall fu blk lo_s sc live_defs,
    (forall top ss lo sc outs, mono (tr_stmts fu top ss lo sc outs)) ->
    mono (tr_branch globals cic afuel inputs fu blk lo_s sc live_defs).
  Proof. intros. apply mono_tr_branch. intros. apply H. Qed.

  Theorem mono_tr_stmts_all : forall n top ss lo sc outs, mono (tr_stmts n top ss lo sc outs).
  Proof.
    induction n as [|fu IHn]; intros top ss lo sc outs; [intros st a st' ns H; discriminate H|].
    revert sc outs. induction ss as [|s rest IHs]; intros sc outs; [rewrite tr_stmts_nil; apply mono_ret|].
    destruct s as [x e|xs e|c t f|i b body|c body| |es].
    - rewrite tr_stmts_assign. apply mono_bind; [apply mono_lift|]. intros lo_s.
      apply mono_bind; [|intros r; apply IHs]. apply mono_bind; [apply mono_tr_expr|]. intros v. apply mono_ret.
    - rewrite tr_stmts_tuple. apply mono_bind; [apply mono_lift|]. intros lo_s.
      apply mono_bind; [|intros r; apply IHs]. apply mono_bind; [apply mono_tr_call_multi|]. intros v. apply mono_ret.
    - rewrite tr_stmts_if. apply mono_bind; [apply mono_lift|]. intros lo_s.
      apply mono_bind; [|intros r; apply IHs].
      destruct (cic c) as [[|]|]; [apply IHn | apply IHn|].
      unfold tr_if. apply mono_bind; [apply mono_list_set|]. intros live_defs.
      apply mono_bind; [apply mono_tr_expr|]. intros test.
      apply mono_bind; [apply mono_tr_branch_all; exact IHn|]. intros g_then.
      apply mono_bind; [apply mono_tr_branch_all; exact IHn|]. intros g_else.
      apply mono_bind; [apply mono_mapM; intros a; apply mono_uniq|]. intros renamed.
      apply mono_bind; [apply mono_guard|]. intros _. apply mono_bind; [apply mono_guard|]. intros _.
      apply mono_bind; [apply mono_emit|]. intros _. apply mono_ret.
    - rewrite tr_stmts_for'. apply mono_bind; [apply mono_lift|]. intros lo_s.
      apply mono_bind; [|intros r; apply IHs].
      apply mono_bind.
      + apply mono_bind; [apply mono_tr_expr|]. intros bv. apply mono_bind; [apply mono_uniq|]. intros cin. apply mono_ret.
      + intros [[[[a1 a2] a3] a4] a5]. unfold unpack_hdr. apply mono_tr_loop_core. exact IHn.
    - rewrite tr_stmts_while'. apply mono_bind; [apply mono_lift|]. intros lo_s.
      apply mono_bind; [|intros r; apply IHs].
      apply mono_bind.
      + apply mono_bind; [apply mono_uniq|]. intros cp. apply mono_bind; [apply mono_py_var|]. intros oc. apply mono_ret.
      + intros [[[[a1 a2] a3] a4] a5]. unfold unpack_hdr. apply mono_tr_loop_core. exact IHn.
    - rewrite tr_stmts_break. apply mono_bind; [apply mono_lift|]. intros lo_s.
      apply mono_bind; [apply mono_fail | intros r; apply IHs].
    - rewrite tr_stmts_return_any. apply mono_bind; [apply mono_lift|]. intros lo_s.
      apply mono_bind; [|intros r; apply IHs].
      destruct top; [|apply mono_fail].
      apply mono_bind; [apply mono_guard|]. intros _. apply mono_bind; [apply mono_tr_returns|]. intros o. apply mono_ret.
  Qed.
End MonoAll.

(* ------------------------------------------------------------------ facts about the class *)

Section ClassFacts.
  Variable globals : list (string * lit).
  Variable cic : expr -> option bool.
  Variable afuel : nat.
  Variable wb : bool.
  Notation stmt_ok := (stmt_ok globals cic afuel wb).
  Notation block_ok := (block_ok globals cic afuel wb).
  Notation blocks_go := (blocks_go cic afuel).
  Notation loop_side := (loop_side globals cic).

  Lemma loop_side_spec : forall iv w body lo_s L Lf Lb, loop_side iv w body lo_s L Lf Lb = true ->
    (forall x, In x (sinter (assigned_block cic body) (sunion (exposed_uses cic body) lo_s)) -> In x Lf) /\
    (forall x, In x Lb -> ~ In x (iv :: sinter (assigned_block cic body) (sunion (exposed_uses cic body) lo_s)) ->
               In x L /\ ~ In x (assigned_block cic body)) /\
    ~ In iv lo_s /\ ~ In iv (assigned_block cic body) /\
    (forall x, In x (sinter (assigned_block cic body) (sunion (exposed_uses cic body) lo_s)) -> lookup_assoc x globals = None) /\
    (w = true -> ~ In iv Lb).
  Proof.
    intros iv w body lo_s L Lf Lb H. unfold TranslateNestDefs.loop_side in H. cbv zeta in H.
    apply andb_true_iff in H. destruct H as [H C8]. apply andb_true_iff in H. destruct H as [H C7].
    apply andb_true_iff in H. destruct H as [H C6]. apply andb_true_iff in H. destruct H as [H C5].
    apply andb_true_iff in H. destruct H as [C2 C3].
    apply negb_true_iff in C5. apply negb_true_iff in C6.
    split; [apply In_ssubset; exact C2|]. split.
    { intros x Hx Hn. assert (Hd : In x (sdiff L (assigned_block cic body))).
      { apply (In_ssubset _ _ C3). apply In_sdiff. split; assumption. }
      apply In_sdiff in Hd. exact Hd. }
    split; [apply mem_false_not_In; exact C5|]. split; [apply mem_false_not_In; exact C6|]. split.
    { intros x Hx. pose proof (In_forallb _ _ _ C7 x Hx) as Hg. cbv beta in Hg.
      destruct (lookup_assoc x globals); [discriminate Hg | reflexivity]. }
    intros ->. cbn [negb orb] in C8. apply negb_true_iff in C8. apply mem_false_not_In. exact C8.
  Qed.

  Definition keeps_blk (rec : list stmt -> sset -> bool) : Prop :=
    forall ss lo L x, rec ss lo = true -> In x lo -> ~ In x (assigned_block cic ss) -> live_block cic afuel ss lo = Some L -> In x L.
  Definition keeps_stmt (sok : stmt -> sset -> bool) : Prop :=
    forall s lo_s L x, sok s lo_s = true -> In x lo_s -> ~ In x (assigned_stmt cic s) -> live_stmt cic afuel s lo_s = Some L -> In x L.

  Lemma keeps_stmt_ok : forall rec, keeps_blk rec -> keeps_stmt (stmt_ok rec).
  Proof.
    intros rec Hrec s lo_s L x Hc Hx Hn Hl. destruct s as [y e|ys e|c t f|i b body|c body| |es]; try discriminate Hc.
    - rewrite live_assign in Hl. inversion Hl; subst. rewrite assigned_assign in Hn.
      apply In_sunion. left. apply In_sdiff. split; assumption.
    - rewrite live_tuple in Hl. inversion Hl; subst. rewrite assigned_tuple in Hn.
      apply In_sunion. left. apply In_sdiff. split; assumption.
    - cbn [TranslateNestDefs.stmt_ok] in Hc. apply andb_true_iff in Hc. destruct Hc as [Hc Hcf].
      apply andb_true_iff in Hc. destruct Hc as [_ Hct]. rewrite live_if in Hl. rewrite assigned_if in Hn.
      destruct (cic c) as [[|]|].
      + exact (Hrec t lo_s L x Hct Hx Hn Hl).
      + exact (Hrec f lo_s L x Hcf Hx Hn Hl).
      + destruct (live_block cic afuel t lo_s) as [l1|] eqn:E1; [|discriminate].
        destruct (live_block cic afuel f lo_s) as [l2|] eqn:E2; [|discriminate]. inversion Hl; subst.
        apply In_sunion. left. apply In_sunion. left.
        eapply Hrec; [exact Hct | exact Hx | | exact E1]. intro H. apply Hn. apply In_sunion. left. exact H.
    - cbn [TranslateNestDefs.stmt_ok] in Hc. apply andb_true_iff in Hc. destruct Hc as [_ Hc]. rewrite Hl in Hc.
      destruct (loop_fixpoint cic afuel (SFor i b body) lo_s) as [Lf|] eqn:Efx; [|discriminate].
      destruct (loop_live_facts_for _ _ _ _ _ _ _ _ Hl Efx) as [F1 F2]. apply F1. apply F2. exact Hx.
    - cbn [TranslateNestDefs.stmt_ok] in Hc. rewrite Hl in Hc.
      destruct (loop_fixpoint cic afuel (SWhile c body) lo_s) as [Lf|] eqn:Efx; [|discriminate].
      destruct (loop_live_facts_while _ _ _ _ _ _ _ Hl Efx) as [F1 F2]. apply F1. apply F2. exact Hx.
  Qed.

  Lemma keeps_go : forall sok, keeps_stmt sok -> keeps_blk (fun ss lo => blocks_go sok ss [] lo).
  Proof.
    intros sok Hs ss. induction ss as [|s r IH]; intros lo L x Hc Hx Hn Hl.
    - rewrite live_block_nil in Hl. inversion Hl; subst. exact Hx.
    - cbn [TranslateNestDefs.blocks_go] in Hc. rewrite app_nil_r in Hc.
      rewrite live_block_cons in Hl. destruct (live_block cic afuel r lo) as [l1|] eqn:E1; [|discriminate].
      apply andb_true_iff in Hc. destruct Hc as [Hc Hcr]. apply andb_true_iff in Hc. destruct Hc as [Hcs _].
      rewrite assigned_block_cons in Hn.
      eapply Hs; [exact Hcs | | | exact Hl].
      + eapply IH; [exact Hcr | exact Hx | | exact E1]. intro H. apply Hn. apply In_sunion. right. exact H.
      + intro H. apply Hn. apply In_sunion. left. exact H.
  Qed.

  Lemma keeps_block_ok : forall n, keeps_blk (block_ok n).
  Proof.
    induction n as [|m IH]; [intros ss lo L x Hc; discriminate Hc|].
    cbn [TranslateNestDefs.block_ok]. apply keeps_go. apply keeps_stmt_ok. exact IH.
  Qed.
End ClassFacts.

(* ------------------------------------------------------------------ the simulation *)

Section Nest.
  Variable V : Type.
  Variable sem : string -> string -> list (string * attrv) -> list (option V) -> option (list V).
  Variable truth : V -> option bool.
  Variable trip : V -> option nat.
  Variable of_nat : nat -> V.
  Variable of_bool : bool -> V.
  Variable limit : nat.
  Variable while_limit : nat.
  Variable globals : list (string * lit).
  Variable cic : expr -> option bool.
  Variable afuel : nat.
  Variable inputs : list vname.
  Variable wb : bool.

  Hypothesis sem_identity : forall v, sem "" "Identity" [] [Some v] = Some [v].
  Hypothesis truth_of_bool : forall b, truth (of_bool b) = Some b.
  Hypothesis cic_sound : forall c b pe v, cic c = Some b -> eval_expr V sem globals pe c = Some v -> ptruth V truth v = Some b.
  Hypothesis sem_not : forall v b, truth v = Some b -> exists r, sem "" "Not" [] [Some v] = Some [r] /\ truth r = Some (negb b).
  Hypothesis sem_and : forall a b x y, truth a = Some x -> truth b = Some y ->
    exists r, sem "" "And" [] [Some a; Some b] = Some [r] /\ truth r = Some (x && y).
  Hypothesis truth_total : wb = true -> forall v, exists b, truth v = Some b.
  Hypothesis limit_ok : while_limit <= limit.
  Hypothesis const_trip : forall z c, const_val V sem (LInt z) = Some c -> trip c = Some (Z.to_nat z).

  Notation penv := (penv V).
  Notation eval_expr := (eval_expr V sem globals).
  Notation eval_graph := (Sem.eval_graph V sem truth trip of_nat of_bool limit).
  Notation runk k := (Sem.run V sem truth trip of_nat of_bool limit (Sem.eval_graph V sem truth trip of_nat of_bool limit k)).
  Notation tr_stmts := (tr_stmts globals cic afuel false inputs).
  Notation exec_block := (exec_block V sem truth trip of_nat while_limit globals).
  Notation exec_stmt1 := (exec_stmt1 V sem truth trip of_nat while_limit globals).
  Notation inv_on := (inv_on V).
  Notation all_PT := (all_PT V).
  Notation tr_loop_body := (tr_loop_body globals cic afuel inputs).
  Notation for_iter := (for_iter V sem truth trip of_nat while_limit globals).
  Notation while_iter := (while_iter V sem truth trip of_nat while_limit globals).
  Notation loop_iter := (loop_iter V truth of_nat of_bool).
  Notation stmt_ok := (stmt_ok globals cic afuel wb).
  Notation block_ok := (block_ok globals cic afuel wb).
  Notation body_ok := (body_ok cic afuel wb).
  Notation body_sok := (body_sok globals).
  Notation loop_side := (loop_side globals cic).

  (* ---- the environment a loop body graph starts in (any candidate name for the condition parameter) *)
  Lemma loop_env_gen : forall (ρ1 : env V) stb cnd cin stc std i lv ste state ps stf nps vj vc vs,
    st_ok V ρ1 stb ->
    gen_unique cnd stb = Some (cin, stc) -> st_ext stc std ->
    gen_unique i std = Some (lv, ste) ->
    mapM uniq state ste = Some (ps, stf, nps) ->
    List.length vs = List.length ps ->
    exists ρb, Sem.bind (lv :: cin :: ps) (vj :: vc :: vs) ρ1 = Some ρb /\
      grows V ρ1 ρb stb stf /\ rel V ρb (ts_castable stf) (PT V vj) lv /\ lookup ρb cin = Some vc /\
      Forall2 (fun n v => rel V ρb (ts_castable stf) (PT V v) n) ps vs.
  Proof.
    intros ρ1 stb cnd cin stc std i lv ste state ps stf nps vj vc vs Hok Hcin Xcd Hlv Hps Lv.
    pose proof (st_ext_unique _ _ _ _ Hcin) as Xbc. pose proof (st_ext_unique _ _ _ _ Hlv) as Xde.
    pose proof (gen_unique_fresh _ _ _ _ Hcin) as (Fc1 & Fc2 & _ & Fc4 & _).
    pose proof (gen_unique_fresh _ _ _ _ Hlv) as (Fl1 & Fl2 & _ & Fl4 & _).
    assert (Xbd : st_ext stb std) by (eapply st_ext_trans; eassumption).
    assert (Xbe : st_ext stb ste) by (eapply st_ext_trans; eassumption).
    assert (Xef : st_ext ste stf). { eapply mono_mapM; [intros a; apply mono_uniq | exact Hps]. }
    assert (Xbf : st_ext stb stf) by (eapply st_ext_trans; eassumption).
    pose proof (grows_st_ext V ρ1 stb ste Hok Xbe) as Gbe.
    assert (Hoke : st_ok V ρ1 ste) by apply Gbe.
    destruct (mapM_uniq_sound V truth trip of_nat limit (eval_graph 0) state ste ps stf nps ρ1 Hoke Hps) as (_ & Hlen & Hfresh & Hb).
    destruct (Hb vs Lv) as (ρps & Bps & (Gp1 & Gp2 & Gp3 & Gp4a & Gp4b) & Fps).
    assert (Hcin_std : In cin (ts_used std)). { apply (proj1 Xcd). rewrite Fc2. left. reflexivity. }
    assert (Hcin_ste : In cin (ts_used ste)). { rewrite Fl2. right. exact Hcin_std. }
    assert (Hlv_ste : In lv (ts_used ste)). { rewrite Fl2. left. reflexivity. }
    assert (Hne : cin <> lv). { intro E. subst. contradiction. }
    exists ((lv, vj) :: (cin, vc) :: ρps). split; [cbn [Sem.bind]; rewrite Bps; reflexivity|].
    split; [|split; [|split]].
    - split; [|split; [exact (proj1 Xbf) | split; [exact (proj1 (proj2 Xbf))|split]]].
      + intros m Hm. cbn [lookup].
        destruct (String.eqb m lv) eqn:E1.
        { apply String.eqb_eq in E1. subst. exfalso. apply Fl1. apply (proj1 Xbd). exact Hm. }
        destruct (String.eqb m cin) eqn:E2.
        { apply String.eqb_eq in E2. subst. contradiction. }
        apply Gp1. apply (proj1 Xbe). exact Hm.
      + intros m v Hl. cbn [lookup] in Hl.
        destruct (String.eqb m lv) eqn:E1; [apply String.eqb_eq in E1; subst; apply Gp2; exact Hlv_ste|].
        destruct (String.eqb m cin) eqn:E2; [apply String.eqb_eq in E2; subst; apply Gp2; exact Hcin_ste|].
        eapply Gp4a. exact Hl.
      + exact Gp4b.
    - split; [cbn [lookup]; rewrite String.eqb_refl; reflexivity|].
      intros Hc. apply (Gp3 lv Hlv_ste) in Hc. rewrite Fl4 in Hc.
      apply Fl1. apply (proj2 (proj2 Xbd)); [exact (proj2 Hok) | exact Hc].
    - cbn [lookup]. destruct (String.eqb cin lv) eqn:E; [apply String.eqb_eq in E; contradiction|].
      rewrite String.eqb_refl. reflexivity.
    - apply rel_cons_other; [apply rel_cons_other; [exact Fps|]|].
      + eapply Forall_impl; [|exact Hfresh]. intros a Ha E. subst a. apply Ha. exact Hcin_ste.
      + eapply Forall_impl; [|exact Hfresh]. intros a Ha E. subst a. apply Ha. exact Hlv_ste.
  Qed.

  (* ---- the invariant at the start of a loop body: `for` binds the loop variable in Python too, `while` does not *)
  Lemma loop_inv_start_gen : forall L Lb A (iv : string) state ps lv sc (ρ1 ρb : env V) stb stf pe0 pe pe_b vs,
    inv_on L pe0 sc ρ1 stb -> grows V ρ1 ρb stb stf ->
    NoDup state -> (forall x, In x state -> In x A) -> ~ In iv A ->
    (forall x, In x Lb -> ~ In x (iv :: state) -> In x L /\ ~ In x A) ->
    Forall2 (fun n v => rel V ρb (ts_castable stf) (PT V v) n) ps vs ->
    Forall2 (fun x v => plookup V pe x = Some (PT V v)) state vs ->
    (forall x, ~ In x (sunion A [iv]) -> plookup V pe x = plookup V pe0 x) ->
    (forall x, x <> iv -> plookup V pe_b x = plookup V pe x) ->
    (In iv Lb -> exists vj, plookup V pe_b iv = Some (PT V vj) /\ rel V ρb (ts_castable stf) (PT V vj) lv) ->
    inv_on Lb pe_b (bind_all state ps (bind_var iv (BV lv) ([] :: sc))) ρb stf.
  Proof.
    intros L Lb A iv state ps lv sc ρ1 ρb stb stf pe0 pe pe_b vs (I1 & I2 & I3) G Hnd HsA HiA HLb Fps Fst Hunch Hpe Hiv.
    assert (Hi_state : ~ In iv state) by (intro H; apply HiA; apply HsA; exact H).
    assert (Hcase : forall x, In x Lb -> x = iv \/ In x state \/ (x <> iv /\ ~ In x state /\ In x L /\ ~ In x A)).
    { intros x Hx. destruct (string_dec x iv) as [E|E]; [left; exact E|].
      destruct (in_dec string_dec x state) as [Hs|Hs]; [right; left; exact Hs|].
      right. right. destruct (HLb x Hx) as [H1 H2]; [intros [H|H]; [apply E; symmetry; exact H | contradiction]|]. auto. }
    assert (Houter : forall x, x <> iv -> ~ In x state -> ~ In x A ->
              plookup V pe_b x = plookup V pe0 x /\
              scopes_find x (bind_all state ps (bind_var iv (BV lv) ([] :: sc))) = scopes_find x sc).
    { intros x Hxi Hxs HxA. split.
      - rewrite (Hpe x Hxi). apply Hunch. intro H. apply In_sunion in H.
        destruct H as [H|[H|[]]]; [contradiction | apply Hxi; symmetry; exact H].
      - rewrite scopes_find_bind_all_notin by exact Hxs. rewrite scopes_find_bind.
        destruct (String.eqb x iv) eqn:E; [apply String.eqb_eq in E; contradiction | reflexivity]. }
    split; [|split; [|apply G]].
    - intros x Hx pv Hp. destruct (Hcase x Hx) as [E|[Hs|(Hxi & Hxs & HxL & HxA)]].
      + subst x. destruct (Hiv Hx) as (vj & Hpj & Rlv). rewrite Hpj in Hp. inversion Hp; subst pv.
        exists lv. split; [|exact Rlv]. rewrite scopes_find_bind_all_notin by exact Hi_state.
        rewrite scopes_find_bind, String.eqb_refl. reflexivity.
      + destruct (bind_all_bound V _ _ state ps vs (bind_var iv (BV lv) ([] :: sc)) Hnd Fst Fps x Hs) as (n & v & Hsc & Hpv & R).
        assert (Hxi : x <> iv) by (intro E; subst; contradiction).
        rewrite (Hpe x Hxi), Hpv in Hp. inversion Hp; subst pv. exists n. split; [exact Hsc | exact R].
      + destruct (Houter x Hxi Hxs HxA) as [Ep Es]. rewrite Ep in Hp. rewrite Es.
        destruct (I1 x HxL pv Hp) as (n & Hn & R). exists n. split; [exact Hn|]. eapply rel_grows; [exact G | exact I3 | exact R].
    - intros x Hx Hp. destruct (Hcase x Hx) as [E|[Hs|(Hxi & Hxs & HxL & HxA)]].
      + subst x. destruct (Hiv Hx) as (vj & Hpj & _). rewrite Hpj in Hp. discriminate Hp.
      + destruct (bind_all_bound V _ _ state ps vs (bind_var iv (BV lv) ([] :: sc)) Hnd Fst Fps x Hs) as (n & v & Hsc & Hpv & R).
        assert (Hxi : x <> iv) by (intro E; subst; contradiction).
        rewrite (Hpe x Hxi), Hpv in Hp. discriminate Hp.
      + destruct (Houter x Hxi Hxs HxA) as [Ep Es]. rewrite Ep in Hp. rewrite Es. exact (I2 x HxL Hp).
  Qed.

  (* ---- the simulation for blocks of the class, by induction on the nesting fuel *)

  Definition blocks_okN (n : nat) : Prop := forall k, n <= k ->
    forall ss top lo sc outs st sc' outs' st' nodes pe ρ f2 o L,
    block_ok n ss lo = true ->
    tr_stmts n top ss lo sc outs st = Some ((sc', outs'), st', nodes) ->
    live_block cic afuel ss lo = Some L ->
    inv_on L pe sc ρ st -> all_PT pe ->
    exec_block f2 ss pe = Some o ->
    exists pe' ρ', o = ONormal V pe' /\ runk k ρ nodes = Some ρ' /\ inv_on lo pe' sc' ρ' st' /\ all_PT pe' /\
                   grows V ρ ρ' st st' /\ outs' = outs.

  Lemma exec_block_single : forall fu s pe, exec_block (S fu) [s] pe = exec_stmt1 fu s pe.
  Proof.
    intros fu s pe. rewrite exec_block_cons. destruct (exec_stmt1 fu s pe) as [[pe1|pe1|vs]|]; try reflexivity.
  Qed.

  Lemma block_ok_single : forall fu s lo0, block_ok fu [s] lo0 = true ->
    exists m, fu = S m /\ stmt_ok (block_ok m) s lo0 = true.
  Proof.
    intros [|m] s lo0 H; [discriminate H|]. exists m. split; [reflexivity|].
    cbn [TranslateNestDefs.block_ok TranslateNestDefs.blocks_go app] in H. rewrite live_block_nil in H.
    apply andb_true_iff in H. destruct H as [H _]. apply andb_true_iff in H. apply H.
  Qed.

  (* the statements of a loop body, then possibly `if cn: break` *)
  Lemma loop_body_gen : forall fu k, blocks_okN fu -> fu <= k -> forall w lo_body body,
    forall sc_b st sc_b' brk st' ns Lk pe ρ f2 o,
    body_ok (body_sok (block_ok fu)) w body lo_body = true ->
    tr_loop_body fu lo_body body sc_b st = Some ((sc_b', brk), st', ns) ->
    live_block cic afuel body lo_body = Some Lk ->
    inv_on Lk pe sc_b ρ st -> all_PT pe ->
    exec_block (S f2) body pe = Some o ->
    exists pe' ρ', runk k ρ ns = Some ρ' /\ inv_on lo_body pe' sc_b' ρ' st' /\ all_PT pe' /\ grows V ρ ρ' st st' /\
      match brk with
      | None => o = ONormal V pe'
      | Some bvn => exists bval b, lookup ρ' bvn = Some bval /\ truth bval = Some b /\
                                   o = (if b then OBreak V pe' else ONormal V pe') /\ (w = true -> wb = true)
      end.
  Proof.
    intros fu k IHb Hfu w lo_body. induction body as [|s0 rest IH]; intros sc_b st sc_b' brk st' ns Lk pe ρ f2 o Hc Htr Hl Hinv Hall Hex.
    - rewrite tr_loop_body_nil in Htr. apply ret_some in Htr. destruct Htr as (E & -> & ->). inversion E; subst sc_b' brk.
      rewrite exec_block_nil in Hex. inversion Hex; subst o. rewrite live_block_nil in Hl. inversion Hl; subst Lk.
      exists pe, ρ. split; [reflexivity|]. split; [exact Hinv|]. split; [exact Hall|].
      split; [apply grows_refl'; exact (proj2 (proj2 Hinv)) | reflexivity].
    - rewrite tr_loop_body_cons in Htr. cbn [TranslateNestDefs.body_ok] in Hc.
      destruct (is_break_if s0) as [[cn|l|op a|op a b|op a b|f args kws]|] eqn:Ebrk; try discriminate Hc.
      + (* the trailing break *)
        apply andb_true_iff in Hc. destruct Hc as [Hc Hwb]. apply andb_true_iff in Hc. destruct Hc as [Hc Hcic].
        apply andb_true_iff in Hc. destruct Hc as [Hnil Hshape].
        destruct rest as [|r1 rest']; [|discriminate Hnil].
        destruct s0 as [| |c0 t0 f0| | | |]; try discriminate Ebrk.
        destruct f0 as [|f1 f0']; [|discriminate Hshape].
        destruct t0 as [|s1 t1]; [discriminate Ebrk|]. destruct s1; try discriminate Ebrk.
        destruct t1 as [|s2 t2]; [|discriminate Ebrk]. cbn [is_break_if] in Ebrk. inversion Ebrk; subst c0. clear Ebrk.
        destruct (cic (EVar cn)) as [cb|] eqn:Ecic; [discriminate Hcic|].
        apply bind_some in Htr. destruct Htr as (u & st0 & n0 & n0' & Hg & Htr & ->).
        apply guard_some in Hg. destruct Hg as (_ & -> & ->).
        destruct (scope_find cn (cur_scope sc_b)) as [[bvn|kk]|] eqn:Esf; try discriminate Htr.
        apply ret_some in Htr. destruct Htr as (E & -> & ->). inversion E; subst sc_b' brk. clear E.
        rewrite live_block_cons, live_block_nil, live_if, Ecic in Hl.
        rewrite live_block_cons in Hl. rewrite ?live_block_nil in Hl. rewrite live_break in Hl. inversion Hl; subst Lk. clear Hl.
        assert (HcnL : In cn (sunion (sunion lo_body lo_body) (used_vars (EVar cn)))).
        { apply In_sunion. right. left. reflexivity. }
        destruct (inv_on_bound V _ pe sc_b ρ st cn (BV bvn) Hinv Hall HcnL (scopes_find_cur cn sc_b _ Esf))
          as (n & v0 & En & Hp & Hlk & _). inversion En; subst n. clear En.
        rewrite exec_block_cons in Hex. cbn [AnalysisProofs.exec_stmt1 PySem.eval_expr] in Hex. rewrite Hp in Hex. cbn [ptruth] in Hex.
        destruct (truth v0) as [b|] eqn:Et; [|discriminate Hex].
        exists pe, ρ. split; [reflexivity|]. split.
        { eapply inv_on_sub; [|exact Hinv]. intros y Hy. apply In_sunion. left. apply In_sunion. left. exact Hy. }
        split; [exact Hall|]. split; [apply grows_refl'; exact (proj2 (proj2 Hinv))|].
        exists v0, b. split; [exact Hlk|]. split; [exact Et|]. split.
        * destruct b.
          -- destruct f2 as [|f2']; [discriminate Hex|]. rewrite exec_block_cons in Hex. cbn [AnalysisProofs.exec_stmt1] in Hex.
             inversion Hex. reflexivity.
          -- destruct f2 as [|f2']; [discriminate Hex|]. rewrite exec_block_nil in Hex. rewrite exec_block_nil in Hex.
             inversion Hex. reflexivity.
        * intros ->. cbn [negb orb] in Hwb. exact Hwb.
      + (* an ordinary statement of the body *)
        destruct (live_block cic afuel rest lo_body) as [lo0|] eqn:El0; [|discriminate Hc].
        apply andb_true_iff in Hc. destruct Hc as [Hc Hcr]. apply andb_true_iff in Hc. destruct Hc as [Hsok _].
        rewrite live_block_cons, El0 in Hl.
        apply bind_some in Htr. destruct Htr as (lo0' & st0 & n0 & n0' & Hlift & Htr & ->).
        apply lift_some in Hlift. destruct Hlift as (E0 & -> & ->). inversion E0; subst lo0'. clear E0.
        apply bind_some in Htr. destruct Htr as (r0 & st1 & n1 & n2 & Hr0 & Htr & ->).
        rewrite exec_block_cons in Hex.
        destruct (exec_stmt1 f2 s0 pe) as [o1|] eqn:Es; [|discriminate Hex].
        assert (Hstep : exists pe1 ρ1, o1 = ONormal V pe1 /\ runk k ρ n1 = Some ρ1 /\ inv_on lo0 pe1 (fst r0) ρ1 st1 /\ all_PT pe1 /\
                                      grows V ρ ρ1 st st1).
        { destruct s0 as [x e|xs e|c t f|i b body|c body| |es]; try discriminate Hsok.
          - (* assignment *)
            cbn [TranslateNestDefs.body_sok] in Hsok. rewrite live_assign in Hl. inversion Hl; subst Lk. clear Hl.
            apply bind_some in Hr0. destruct Hr0 as (v & st2 & n3 & n4 & Hte & Hret & ->).
            apply ret_some in Hret. destruct Hret as (-> & -> & ->). cbn [fst snd].
            cbn [AnalysisProofs.exec_stmt1] in Es. destruct (eval_expr pe e) as [pv|] eqn:Ee; [|discriminate Es]. inversion Es; subst o1.
            assert (Hoke : expr_ok e = true). { unfold rhs_ok in Hsok. apply andb_true_iff in Hsok. apply Hsok. }
            destruct (tr_expr_sound_on V sem truth trip of_nat of_bool limit globals (eval_graph k) e _ sc_b (Some x) st v _ n3 pe ρ pv
                        Hoke ltac:(intros y Hy; apply In_sunion; right; exact Hy) Hte Hinv Ee) as (ρ1 & R1 & Rv & G1).
            exists ((x, pv) :: pe), ρ1. split; [reflexivity|]. split; [rewrite app_nil_r; exact R1|]. split; [|split; [|exact G1]].
            + eapply inv_on_assign; [eapply inv_on_grows; [exact Hinv | exact G1] | exact Rv|].
              intros y Hy. destruct (string_dec y x) as [E|E]; [left; exact E|]. right. apply In_sunion. left. apply In_sdiff.
              split; [exact Hy|]. intros [H|[]]. congruence.
            + apply all_PT_cons; [exact Hall|]. eapply rhs_tensor; eassumption.
          - (* tuple assignment *)
            destruct e as [| | | | |fn args kws]; try discriminate Hsok. cbn [TranslateNestDefs.body_sok] in Hsok.
            rewrite live_tuple in Hl. inversion Hl; subst Lk. clear Hl.
            apply bind_some in Hr0. destruct Hr0 as (nm & st2 & n3 & n4 & Htm & Hret & ->).
            apply ret_some in Hret. destruct Hret as (-> & -> & ->). cbn [fst snd].
            cbn [AnalysisProofs.exec_stmt1] in Es.
            destruct (eval_call_multi V sem globals pe (ECall fn args kws)) as [cvs|] eqn:Ec; [|discriminate Es].
            destruct (pbind V xs cvs pe) as [pe1|] eqn:Epb; [|discriminate Es]. cbn [option_map] in Es. inversion Es; subst o1.
            destruct (tr_call_multi_sound_on V sem truth trip of_nat of_bool limit globals (eval_graph k) fn args kws
                        (sunion (sdiff lo0 xs) (used_vars (ECall fn args kws))) lo0 sc_b xs st nm st2 n3 pe ρ cvs pe1
                        Hsok ltac:(intros y Hy; apply In_sunion; right; exact Hy)) as (ρ1 & R1 & Hinv1 & G1); try eassumption.
            { intros y Hy. destruct (in_dec string_dec y xs) as [Hi|Hi]; [left; exact Hi|]. right. apply In_sunion. left.
              apply In_sdiff. split; assumption. }
            exists pe1, ρ1. split; [reflexivity|]. split; [rewrite app_nil_r; exact R1|]. split; [exact Hinv1|].
            split; [eapply all_PT_pbind; eassumption | exact G1].
          - (* a nested if *)
            cbn [TranslateNestDefs.body_sok] in Hsok. destruct r0 as [sc1 outs1].
            rewrite <- exec_block_single in Es.
            destruct (IHb k Hfu [SIf c t f] false lo0 sc_b [] st sc1 outs1 st1 n1 pe ρ (S f2) o1 Lk Hsok Hr0
                        ltac:(rewrite live_block_cons, live_block_nil; exact Hl) Hinv Hall Es)
              as (pe1 & ρ1 & -> & R1 & Hinv1 & Hall1 & G1 & _).
            exists pe1, ρ1. auto.
          - cbn [TranslateNestDefs.body_sok] in Hsok. destruct r0 as [sc1 outs1].
            rewrite <- exec_block_single in Es.
            destruct (IHb k Hfu [SFor i b body] false lo0 sc_b [] st sc1 outs1 st1 n1 pe ρ (S f2) o1 Lk Hsok Hr0
                        ltac:(rewrite live_block_cons, live_block_nil; exact Hl) Hinv Hall Es)
              as (pe1 & ρ1 & -> & R1 & Hinv1 & Hall1 & G1 & _).
            exists pe1, ρ1. auto.
          - cbn [TranslateNestDefs.body_sok] in Hsok. destruct r0 as [sc1 outs1].
            rewrite <- exec_block_single in Es.
            destruct (IHb k Hfu [SWhile c body] false lo0 sc_b [] st sc1 outs1 st1 n1 pe ρ (S f2) o1 Lk Hsok Hr0
                        ltac:(rewrite live_block_cons, live_block_nil; exact Hl) Hinv Hall Es)
              as (pe1 & ρ1 & -> & R1 & Hinv1 & Hall1 & G1 & _).
            exists pe1, ρ1. auto. }
        destruct Hstep as (pe1 & ρ1 & -> & R1 & Hinv1 & Hall1 & G1).
        destruct (IH (fst r0) st1 sc_b' brk st' n2 lo0 pe1 ρ1 f2 o Hcr Htr eq_refl Hinv1 Hall1 Hex)
          as (pe' & ρ' & R2 & Hinv2 & Hall2 & G2 & Hbrk).
        exists pe', ρ'. split; [cbn [app]; rewrite run_app, R1; exact R2|]. split; [exact Hinv2|]. split; [exact Hall2|].
        split; [eapply grows_trans; eassumption | exact Hbrk].
  Qed.

  Lemma run_loop_node_w : forall k (ρ1 ρ2 : env V) oc cval c0 ins names body_g st0 stf,
    lookup ρ1 oc = Some cval -> truth cval = Some c0 -> lookups ρ1 ins = Some st0 ->
    loop_iter (eval_graph k) ρ1 body_g false limit 0 c0 st0 = Some stf ->
    Sem.bind names stf ρ1 = Some ρ2 ->
    runk k ρ1 [Node "" "Loop" (None :: Some oc :: map Some ins) names [] [("body", body_g)]] = Some ρ2.
  Proof.
    intros k ρ1 ρ2 oc cval c0 ins names body_g st0 stf Hl Ht Hls Hit Hb.
    cbn [Sem.run Sem.eval_node]. change (is_if "" "Loop") with false. change (is_loop "" "Loop") with true. cbv iota.
    change (find_sub "body" [("body", body_g)]) with (Some body_g). cbv iota.
    cbn [lookup_opts option_map]. rewrite Hl. cbn [option_map]. rewrite present_map_some, Hls, Ht.
    rewrite Hit, Hb. reflexivity.
  Qed.

  Lemma while_iter_truth : forall fu c body k pe o wv,
    while_iter fu c body k pe = Some o -> plookup V pe c = Some (PT V wv) -> exists b, truth wv = Some b.
  Proof.
    intros fu c body k pe o wv H Hp. destruct k; cbn [AnalysisProofs.while_iter] in H; rewrite Hp in H; cbn [ptruth] in H;
      (destruct (truth wv) as [b|]; [exists b; reflexivity | discriminate H]).
  Qed.

  Lemma loop_iter_stop : forall ev (ρ1 : env V) g bounded k j vs, loop_iter ev ρ1 g bounded k j false vs = Some vs.
  Proof. intros. destruct k; reflexivity. Qed.

  (* ---- a loop statement after its header *)
  Lemma loop_core_sound : forall fu k', blocks_okN fu -> fu <= k' ->
    forall s body lo_s sc outs iv cnd cin o_bound o_cond while_c w stb stc res st' nodes pe (ρ1 : env V) f2 o1 L Lf Lb,
    w = is_some while_c ->
    loop_fixpoint cic afuel s lo_s = Some Lf ->
    live_block cic afuel body Lf = Some Lb ->
    loop_side iv w body lo_s L Lf Lb = true ->
    body_ok (body_sok (block_ok fu)) w body Lf = true ->
    (forall x, In x Lf -> In x L) -> (forall x, In x lo_s -> In x Lf) ->
    inv_on L pe sc ρ1 stb -> all_PT pe ->
    gen_unique cnd stb = Some (cin, stc) ->
    tr_loop_core globals cic afuel inputs fu s body lo_s sc outs iv cin o_bound o_cond while_c stc = Some (res, st', nodes) ->
    match while_c with
    | None => exists b bv n, o_bound = Some b /\ o_cond = None /\ lookup ρ1 b = Some bv /\ trip bv = Some n /\
                             for_iter f2 iv body n 0 pe = Some o1
    | Some c => exists oc cval, o_bound = None /\ o_cond = Some oc /\ lookup ρ1 oc = Some cval /\
                                plookup V pe c = Some (PT V cval) /\ In c Lf /\
                                while_iter f2 c body while_limit pe = Some o1
    end ->
    exists pe_n ρ2, o1 = ONormal V pe_n /\ runk (S k') ρ1 nodes = Some ρ2 /\ inv_on lo_s pe_n (fst res) ρ2 st' /\ all_PT pe_n /\
                    grows V ρ1 ρ2 stb st' /\ snd res = outs.
  Proof.
    intros fu k' IHb Hfu s body lo_s sc outs iv cnd cin o_bound o_cond while_c w stb stc res st' nodes pe ρ1 f2 o1 L Lf Lb
           Hw Hfix Elb Hside Hclass S0L S4 Hinv1 Hall Hcin Hcore Hpy.
    apply loop_side_spec in Hside. destruct Hside as (S2 & S3 & S5 & S6 & S7 & S8).
    set (A := assigned_block cic body) in *. set (S0 := sinter A (sunion (exposed_uses cic body) lo_s)) in *.
    unfold tr_loop_core in Hcore. fold A in Hcore. fold S0 in Hcore.
    apply bind_some in Hcore. destruct Hcore as (state & std & ns1 & ns1' & Hls & Hcore & ->).
    pose proof (mono_list_set _ _ _ _ _ Hls) as Xcd.
    apply list_set_some in Hls. destruct Hls as (_ & _ & -> & Hnd & Hmem).
    apply bind_some in Hcore. destruct Hcore as (u1 & st_g & ng & ng' & Hg & Hcore & ->).
    apply guard_some in Hg. destruct Hg as (_ & -> & ->).
    apply bind_some in Hcore. destruct Hcore as (lo_body & st_l & nl & nl' & Hlb & Hcore & ->).
    apply lift_some in Hlb. destruct Hlb as (Efix & -> & ->). rewrite Hfix in Efix. inversion Efix; subst lo_body. clear Efix.
    apply bind_some in Hcore. destruct Hcore as (lv & ste & nlv & nlv' & Hlv & Hcore & ->).
    apply uniq_some in Hlv. destruct Hlv as (Hlv & ->).
    apply bind_some in Hcore. destruct Hcore as (ps & stf & nps & nps' & Hps & Hcore & ->).
    cbv zeta in Hcore.
    apply bind_some in Hcore. destruct Hcore as (r & stg & nr & nr' & Hcap & Hcore & ->).
    apply capture_some in Hcap. destruct Hcap as ([sc_b brk] & ns0 & Hbody & -> & ->). cbn [fst snd] in Hcore.
    apply bind_some in Hcore. destruct Hcore as (wc & st_w & nw & nw' & Hwc & Hcore & ->).
    assert (Hwc' : st_w = stg /\ nw = [] /\
              match while_c with
              | None => wc = None
              | Some c => exists wvn, wc = Some wvn /\ scope_find c (cur_scope sc_b) = Some (BV wvn)
              end).
    { destruct while_c as [c|].
      - destruct (scope_find c (cur_scope sc_b)) as [[wvn|kk]|]; try discriminate Hwc.
        apply ret_some in Hwc. destruct Hwc as (-> & -> & ->). split; [reflexivity|]. split; [reflexivity|]. exists wvn. auto.
      - apply ret_some in Hwc. destruct Hwc as (-> & -> & ->). auto. }
    clear Hwc. destruct Hwc' as (-> & -> & Hwc).
    apply bind_some in Hcore. destruct Hcore as (cn & sth & ncn & ncn' & Hcn & Hcore & ->).
    apply capture_some in Hcn. destruct Hcn as (co & ncond & Hcond & -> & ->). cbn [fst snd] in Hcore.
    apply bind_some in Hcore. destruct Hcore as ([ro rn] & sti & nlo & nlo' & Hlo & Hcore & ->). cbn [fst snd] in Hcore.
    pose proof (quiet_loop_outputs _ _ _ _ _ _ _ _ _ _ Hlo) as Enlo.
    apply bind_some in Hcore. destruct Hcore as (ins & stj & nins & nins' & Hins & Hcore & ->).
    apply bind_some in Hcore. destruct Hcore as (so & st_so & nso & nso' & Hso & Hcore & ->).
    apply ret_some in Hso. destruct Hso as (-> & -> & ->).
    apply bind_some in Hcore. destruct Hcore as (names & stk & nnm & nnm' & Hnm & Hcore & ->).
    apply bind_some in Hcore. destruct Hcore as (u2 & st_e & ne & ne' & Hem & Hret2 & ->).
    apply emit_some in Hem. destruct Hem as (-> & ->).
    apply ret_some in Hret2. destruct Hret2 as (E2 & -> & ->). subst res. cbn [fst snd].
    (* facts about the state *)
    assert (HsA : forall x, In x state -> In x A).
    { intros x Hx. apply Hmem in Hx. apply In_sinter in Hx. apply Hx. }
    assert (HsLf : incl state Lf). { intros x Hx. apply S2. apply Hmem. exact Hx. }
    assert (HsL : incl state L). { intros x Hx. apply S0L. apply HsLf. exact Hx. }
    assert (Hng : forall x, In x state -> lookup_assoc x globals = None). { intros x Hx. apply S7. apply Hmem. exact Hx. }
    assert (HLb : forall x, In x Lb -> ~ In x (iv :: state) -> In x L /\ ~ In x A).
    { intros x Hx Hn. apply S3; [exact Hx|]. intros [E|H]; [apply Hn; left; exact E | apply Hn; right; apply Hmem; exact H]. }
    destruct (mapM_py_var_bound V globals state L pe sc ρ1 stb sti ins stj nins Hinv1 Hall HsL Hng Hins) as (-> & -> & vs0 & Hls0 & F0).
    assert (Xbi : st_ext stb sti).
    { eapply st_ext_trans; [eapply st_ext_unique; exact Hcin|]. eapply st_ext_trans; [exact Xcd|].
      eapply st_ext_trans; [eapply st_ext_unique; exact Hlv|].
      eapply st_ext_trans; [eapply mono_mapM; [intros a; apply mono_uniq | exact Hps]|].
      eapply st_ext_trans; [eapply mono_tr_loop_body_all; [intros; apply mono_tr_stmts_all | exact Hbody]|].
      eapply st_ext_trans; [eapply mono_tr_cond; exact Hcond|]. eapply mono_loop_outputs. exact Hlo. }
    (* one iteration *)
    assert (Honce : forall (j : nat) (pe_i pe_b : penv) (vs : list V) (o_b : outcome V) (f2' : nat),
      Forall2 (fun x v => plookup V pe_i x = Some (PT V v)) state vs ->
      (forall x, ~ In x (sunion A [iv]) -> plookup V pe_i x = plookup V pe x) ->
      all_PT pe_i ->
      pe_b = (if w then pe_i else (iv, PT V (of_nat j)) :: pe_i) ->
      exec_block (S f2') body pe_b = Some o_b ->
      exists pe' vals cv' (cont : bool), o_b = (if cont then ONormal V pe' else OBreak V pe') /\
        eval_graph (S k') ρ1 (Graph (lv :: cin :: ps) [] rn (co :: ro)) (of_nat j :: of_bool true :: vs) = Some (cv' :: vals) /\
        List.length vals = List.length vs /\
        Forall2 (fun x v => plookup V pe' x = Some (PT V v)) state vals /\
        (forall x, ~ In x (sunion A [iv]) -> plookup V pe' x = plookup V pe x) /\ all_PT pe' /\
        match while_c with
        | None => truth cv' = Some cont
        | Some c => match cont return Prop with true => exists wv, plookup V pe' c = Some (PT V wv) /\ truth cv' = truth wv | false => truth cv' = Some false end
        end).
    { intros j pe_i pe_b vs o_b f2' Fst Hunch Hall_i Epb Eb.
      assert (Lvs : List.length vs = List.length ps).
      { rewrite (mapM_uniq_length _ _ _ _ _ Hps). symmetry. eapply Forall2_len. exact Fst. }
      destruct (loop_env_gen ρ1 stb cnd cin stc std iv lv ste state ps stf nps (of_nat j) (of_bool true) vs
                  (proj2 (proj2 Hinv1)) Hcin Xcd Hlv Hps Lvs) as (ρb & Bb & Gb & Rlv & Lcin & Fps).
      assert (Hinv_b : inv_on Lb pe_b (bind_all state ps (bind_var iv (BV lv) ([] :: sc))) ρb stf).
      { eapply (loop_inv_start_gen L Lb A iv state ps lv sc ρ1 ρb stb stf pe pe_i pe_b vs); try eassumption.
        - intros x Hx. subst pe_b. destruct w; [reflexivity|]. cbn [plookup].
          destruct (String.eqb x iv) eqn:E; [apply String.eqb_eq in E; contradiction | reflexivity].
        - intros HivLb. subst pe_b. destruct w; [exfalso; exact (S8 eq_refl HivLb)|].
          exists (of_nat j). split; [cbn [plookup]; rewrite String.eqb_refl; reflexivity | exact Rlv]. }
      assert (Hall_b : all_PT pe_b).
      { subst pe_b. destruct w; [exact Hall_i|]. apply all_PT_cons; [exact Hall_i | reflexivity]. }
      destruct (loop_body_gen fu k' IHb Hfu w Lf body _ stf sc_b brk stg ns0 Lb pe_b ρb f2' o_b Hclass Hbody Elb Hinv_b Hall_b Eb)
        as (pe' & ρ' & R2 & Hinv' & Hall' & G' & Hbrk).
      assert (Hcin_used : In cin (ts_used stf)). { eapply (proj1 (proj2 (proj2 (proj2 Gb)))). exact Lcin. }
      assert (Lcin' : lookup ρ' cin = Some (of_bool true)). { rewrite (proj1 G') by exact Hcin_used. exact Lcin. }
      (* the condition returned by the body *)
      assert (Hc7 : exists ρc cv' (cont : bool), o_b = (if cont then ONormal V pe' else OBreak V pe') /\
                 runk k' ρ' ncond = Some ρc /\ lookup ρc co = Some cv' /\ grows V ρ' ρc stg sth /\
                 match while_c with
                 | None => truth cv' = Some cont
                 | Some c => match cont return Prop with true => exists wv, plookup V pe' c = Some (PT V wv) /\ truth cv' = truth wv | false => truth cv' = Some false end
                 end).
      { destruct brk as [bvn|], while_c as [c|].
        - (* while + break *)
          destruct Hwc as (wvn & -> & Hsf). destruct Hbrk as (bval & b & Lb_ & Tb & -> & Hwwb).
          destruct Hpy as (oc & cval & _ & _ & _ & _ & HcL & _).
          assert (Hwb1 : wb = true) by (apply Hwwb; subst w; reflexivity).
          unfold tr_cond, node1 in Hcond.
          apply bind_some in Hcond. destruct Hcond as (nb & sta & na & na' & Hnb & Hcond & ->). apply uniq_some in Hnb. destruct Hnb as (Hnb & ->).
          apply bind_some in Hcond. destruct Hcond as (u3 & sta' & na2 & na2' & Hem1 & Hcond & ->). apply emit_some in Hem1. destruct Hem1 as (-> & ->).
          apply finish_inv in Hcond. destruct Hcond as (Hco & ->).
          destruct (sem_not bval b Tb) as (r1 & Sn & Tr1).
          destruct (emit_op_sound V sem truth trip of_nat of_bool limit (eval_graph k') "" "Not" [] [Some bvn] [Some bval] r1 stg nb sta ρ' "not_break"
                      (proj2 (proj2 Hinv')) (fun _ => eq_refl) ltac:(cbn [lookup_opts]; rewrite Lb_; reflexivity)
                      ltac:(unfold sem1; rewrite Sn; reflexivity) Hnb) as (ρa & Ra & Rla & Ga).
          destruct (inv_on_bound V Lf pe' sc_b ρ' stg c (BV wvn) Hinv' Hall' HcL (scopes_find_cur c sc_b _ Hsf))
            as (n & wv & En & Hpw & Hlw & _). inversion En; subst n. clear En.
          destruct (truth_total Hwb1 wv) as (wt & Twt).
          assert (Hlw' : lookup ρa wvn = Some wv).
          { rewrite (proj1 Ga); [exact Hlw|]. eapply (proj1 (proj2 (proj2 Hinv'))). exact Hlw. }
          destruct (sem_and wv r1 wt (negb b) Twt Tr1) as (r2 & Sa & Tr2).
          destruct (emit_op_sound V sem truth trip of_nat of_bool limit (eval_graph k') "" "And" [] [Some wvn; Some nb] [Some wv; Some r1] r2 sta co sth ρa "cond_out"
                      (proj2 (proj2 (proj2 Ga))) (fun _ => eq_refl) ltac:(cbn [lookup_opts]; rewrite Hlw', (proj1 Rla); reflexivity)
                      ltac:(unfold sem1; rewrite Sa; reflexivity) Hco) as (ρc & Rc & Rlc & Gc).
          exists ρc, r2, (negb b). split; [destruct b; reflexivity|]. split; [cbn [app]; eapply run_two; eassumption|].
          split; [exact (proj1 Rlc)|]. split; [eapply grows_trans; eassumption|].
          destruct b; cbn [negb].
          + rewrite Tr2. cbn [negb]. rewrite andb_false_r. reflexivity.
          + exists wv. split; [exact Hpw|]. rewrite Tr2. cbn [negb]. rewrite andb_true_r. symmetry. exact Twt.
        - (* for + break *)
          subst wc. destruct Hbrk as (bval & b & Lb_ & Tb & -> & _).
          unfold tr_cond, node1 in Hcond. apply finish_inv in Hcond. destruct Hcond as (Hco & ->).
          destruct (sem_not bval b Tb) as (r1 & Sn & Tr1).
          destruct (emit_op_sound V sem truth trip of_nat of_bool limit (eval_graph k') "" "Not" [] [Some bvn] [Some bval] r1 stg co sth ρ' "cond_out"
                      (proj2 (proj2 Hinv')) (fun _ => eq_refl) ltac:(cbn [lookup_opts]; rewrite Lb_; reflexivity)
                      ltac:(unfold sem1; rewrite Sn; reflexivity) Hco) as (ρc & Rc & Rlc & Gc).
          exists ρc, r1, (negb b). split; [destruct b; reflexivity|]. split; [exact Rc|]. split; [exact (proj1 Rlc)|].
          split; [exact Gc | exact Tr1].
        - (* while, no break *)
          destruct Hwc as (wvn & -> & Hsf). subst o_b.
          destruct Hpy as (oc & cval & _ & _ & _ & _ & HcL & _).
          unfold tr_cond, identity, node1 in Hcond. apply finish_inv in Hcond. destruct Hcond as (Hco & ->).
          destruct (inv_on_bound V Lf pe' sc_b ρ' stg c (BV wvn) Hinv' Hall' HcL (scopes_find_cur c sc_b _ Hsf))
            as (n & wv & En & Hpw & Hlw & _). inversion En; subst n. clear En.
          destruct (identity_copy V sem truth trip of_nat of_bool limit (eval_graph k') sem_identity ρ' stg "cond_out" co sth wvn wv
                      (proj2 (proj2 Hinv')) Hlw Hco) as (Rc & Gc).
          exists ((co, wv) :: ρ'), wv, true. split; [reflexivity|]. split; [exact Rc|].
          split; [cbn [lookup]; rewrite String.eqb_refl; reflexivity|]. split; [exact Gc|]. exists wv. split; [exact Hpw | reflexivity].
        - (* for, no break *)
          subst wc o_b.
          unfold tr_cond, identity, node1 in Hcond. apply finish_inv in Hcond. destruct Hcond as (Hco & ->).
          destruct (identity_copy V sem truth trip of_nat of_bool limit (eval_graph k') sem_identity ρ' stg "cond_out" co sth cin (of_bool true)
                      (proj2 (proj2 Hinv')) Lcin' Hco) as (Rc & Gc).
          exists ((co, of_bool true) :: ρ'), (of_bool true), true. split; [reflexivity|]. split; [exact Rc|].
          split; [cbn [lookup]; rewrite String.eqb_refl; reflexivity|]. split; [exact Gc | apply truth_of_bool]. }
      destruct Hc7 as (ρc & cv' & cont & -> & Rc & Lco & Gc & Hcv).
      destruct (loop_outputs_sound V sem truth trip of_nat of_bool limit globals sem_identity k' state sc_b _ _ sth ro rn sti nlo pe' ρc Lf
                  Hlo (inv_on_grows V _ _ _ _ _ _ _ Hinv' Gc) Hall' HsLf Hng) as (extra & ρ3 & vals & En & R3 & L3 & F3 & G3).
      assert (Hco_used : In co (ts_used sth)). { eapply (proj1 (proj2 (proj2 (proj2 Gc)))). exact Lco. }
      exists pe', vals, cv', cont. split; [reflexivity|]. split.
      { cbn [Sem.eval_graph]. unfold eval_body. cbn [g_ins g_nodes g_outs]. rewrite Bb, En, run_app, run_app, R2, Rc, R3.
        cbn [lookups]. rewrite (proj1 G3) by exact Hco_used. rewrite Lco, L3. reflexivity. }
      split. { rewrite <- (Forall2_len _ _ _ _ _ F3). eapply Forall2_len. exact Fst. }
      split; [exact F3|]. split; [|split; [exact Hall' | exact Hcv]].
      intros x Hx. pose proof (assigned_vars_sound V sem truth trip of_nat while_limit globals cic cic_sound (S f2') body pe_b _ Eb) as P.
      assert (P' : forall y, ~ In y A -> plookup V pe' y = plookup V pe_b y) by (destruct cont; exact P).
      rewrite P' by (intro H; apply Hx; apply In_sunion; left; exact H).
      subst pe_b. destruct w; [apply Hunch; exact Hx|]. cbn [plookup].
      destruct (String.eqb x iv) eqn:E; [|apply Hunch; exact Hx].
      apply String.eqb_eq in E. subst x. exfalso. apply Hx. apply In_sunion. right. left. reflexivity. }
    (* after the loop: the state is bound to the Loop node's outputs *)
    assert (Hjoin : forall pe_n vs_n,
      Forall2 (fun x v => plookup V pe_n x = Some (PT V v)) state vs_n ->
      (forall x, ~ In x (sunion A [iv]) -> plookup V pe_n x = plookup V pe x) ->
      nnm = [] /\ exists ρ2, Sem.bind names vs_n ρ1 = Some ρ2 /\ inv_on lo_s pe_n (bind_all state names sc) ρ2 stk /\ grows V ρ1 ρ2 stb stk).
    { intros pe_n vs_n Fn Hun.
      eapply (if_join V sem truth trip of_nat of_bool limit L lo_s (sunion A [iv]) pe sc ρ1 ρ1 stb stb sti stk state names nnm pe_n vs_n
                Hinv1 (grows_refl' V ρ1 stb (proj2 (proj2 Hinv1))) Xbi Hnm Hnd); [| |exact Hun|exact Fn].
      - intros x Hx HA. apply In_sunion in HA. destruct HA as [HA|[E|[]]]; [|subst x; contradiction].
        apply Hmem. apply In_sinter. split; [exact HA|]. apply In_sunion. right. exact Hx.
      - intros x Hx HnA. apply S0L. apply S4. exact Hx. }
    pose proof (quiet_mapM _ _ uniq state quiet_uniq _ _ _ _ Hps) as Enps.
    destruct while_c as [c|].
    - (* while *)
      destruct Hpy as (oc & cval & -> & -> & Hloc & Hpc & HcL & Hwi). subst w.
      assert (Hwhile : forall kk kg j pe_i vs cb cv o, kk <= kg ->
        Forall2 (fun x v => plookup V pe_i x = Some (PT V v)) state vs ->
        (forall x, ~ In x (sunion A [iv]) -> plookup V pe_i x = plookup V pe x) -> all_PT pe_i ->
        plookup V pe_i c = Some (PT V cv) -> truth cv = Some cb ->
        while_iter f2 c body kk pe_i = Some o ->
        exists pe_n vs_n, o = ONormal V pe_n /\
          loop_iter (eval_graph (S k')) ρ1 (Graph (lv :: cin :: ps) [] rn (co :: ro)) false kg j cb vs = Some vs_n /\
          Forall2 (fun x v => plookup V pe_n x = Some (PT V v)) state vs_n /\
          (forall x, ~ In x (sunion A [iv]) -> plookup V pe_n x = plookup V pe x) /\ all_PT pe_n).
      { induction kk as [|kk IH]; intros kg j pe_i vs cb cv o Hle Fst Hunch Hall_i Hpci Tc Hit.
        - cbn [AnalysisProofs.while_iter] in Hit. rewrite Hpci in Hit. cbn [ptruth] in Hit. rewrite Tc in Hit.
          destruct cb; cbv beta iota in Hit; [discriminate Hit|]. assert (Eo : o = ONormal V pe_i) by congruence. subst o. exists pe_i, vs.
          split; [reflexivity|]. split; [apply loop_iter_stop|]. auto.
        - cbn [AnalysisProofs.while_iter] in Hit. rewrite Hpci in Hit. cbn [ptruth] in Hit. rewrite Tc in Hit.
          destruct cb; cbv beta iota in Hit.
          2:{ assert (Eo : o = ONormal V pe_i) by congruence. subst o. exists pe_i, vs. split; [reflexivity|]. split; [apply loop_iter_stop|]. auto. }
          destruct kg as [|kg]; [lia|].
          destruct (exec_block f2 body pe_i) as [o_b|] eqn:Eb; [|discriminate Hit].
          destruct f2 as [|f2']; [discriminate Eb|].
          destruct (Honce j pe_i pe_i vs o_b f2' Fst Hunch Hall_i eq_refl Eb)
            as (pe' & vals & cv' & cont & -> & Hev & Lvals & F3 & Hun' & Hall' & Hcv).
          destruct cont.
          + destruct Hcv as (wv & Hpw & Tcv).
            destruct (while_iter_truth _ _ _ _ _ _ _ Hit Hpw) as (cb' & Tw).
            destruct (IH kg (S j) pe' vals cb' wv o ltac:(lia) F3 Hun' Hall' Hpw Tw Hit) as (pe_n & vs_n & -> & Hli & Fn & Hun & Halln).
            exists pe_n, vs_n. split; [reflexivity|]. split; [|auto].
            cbn [Sem.loop_iter negb]. rewrite Hev. rewrite (proj2 (Nat.eqb_eq _ _) Lvals). rewrite Tcv, Tw. exact Hli.
          + inversion Hit; subst o. exists pe', vals. split; [reflexivity|]. split; [|auto].
            cbn [Sem.loop_iter negb]. rewrite Hev. rewrite (proj2 (Nat.eqb_eq _ _) Lvals). rewrite Hcv. apply loop_iter_stop. }
      destruct (while_iter_truth _ _ _ _ _ _ _ Hwi Hpc) as (cb0 & Tc0).
      destruct (Hwhile while_limit limit 0 pe vs0 cb0 cval o1 limit_ok F0 (fun x _ => eq_refl) Hall Hpc Tc0 Hwi)
        as (pe_n & vs_n & -> & Hli & Fn & Hun & Halln).
      destruct (Hjoin pe_n vs_n Fn Hun) as (-> & ρ2 & B2 & Hinv2 & G2).
      exists pe_n, ρ2. split; [reflexivity|]. split; [|split; [exact Hinv2|split; [exact Halln|split; [exact G2 | reflexivity]]]].
      subst nlo nps. cbn [app]. rewrite ?app_nil_r. cbn [app].
      eapply run_loop_node_w; eassumption.
    - (* for *)
      destruct Hpy as (b & bv & n & -> & -> & Hlb_ & Htrip & Hfi). subst w.
      assert (Hfor : forall m j pe_i vs o,
        Forall2 (fun x v => plookup V pe_i x = Some (PT V v)) state vs ->
        (forall x, ~ In x (sunion A [iv]) -> plookup V pe_i x = plookup V pe x) -> all_PT pe_i ->
        for_iter f2 iv body m j pe_i = Some o ->
        exists pe_n vs_n, o = ONormal V pe_n /\
          loop_iter (eval_graph (S k')) ρ1 (Graph (lv :: cin :: ps) [] rn (co :: ro)) true m j true vs = Some vs_n /\
          Forall2 (fun x v => plookup V pe_n x = Some (PT V v)) state vs_n /\
          (forall x, ~ In x (sunion A [iv]) -> plookup V pe_n x = plookup V pe x) /\ all_PT pe_n).
      { clear Hfi. induction m as [|m IH]; intros j pe_i vs o Fst Hunch Hall_i Hit.
        - cbn [AnalysisProofs.for_iter] in Hit. inversion Hit; subst o. exists pe_i, vs. split; [reflexivity|]. split; [reflexivity|]. auto.
        - cbn [AnalysisProofs.for_iter] in Hit.
          destruct (exec_block f2 body ((iv, PT V (of_nat j)) :: pe_i)) as [o_b|] eqn:Eb; [|discriminate Hit].
          destruct f2 as [|f2']; [discriminate Eb|].
          destruct (Honce j pe_i _ vs o_b f2' Fst Hunch Hall_i eq_refl Eb)
            as (pe' & vals & cv' & cont & -> & Hev & Lvals & F3 & Hun' & Hall' & Hcv).
          destruct cont.
          + destruct (IH (S j) pe' vals o F3 Hun' Hall' Hit) as (pe_n & vs_n & -> & Hli & Fn & Hun & Halln).
            exists pe_n, vs_n. split; [reflexivity|]. split; [|auto].
            cbn [Sem.loop_iter negb]. rewrite Hev. rewrite (proj2 (Nat.eqb_eq _ _) Lvals). rewrite Hcv. exact Hli.
          + inversion Hit; subst o. exists pe', vals. split; [reflexivity|]. split; [|auto].
            cbn [Sem.loop_iter negb]. rewrite Hev. rewrite (proj2 (Nat.eqb_eq _ _) Lvals). rewrite Hcv. apply loop_iter_stop. }
      destruct (Hfor n 0 pe vs0 o1 F0 (fun x _ => eq_refl) Hall Hfi) as (pe_n & vs_n & -> & Hli & Fn & Hun & Halln).
      destruct (Hjoin pe_n vs_n Fn Hun) as (-> & ρ2 & B2 & Hinv2 & G2).
      exists pe_n, ρ2. split; [reflexivity|]. split; [|split; [exact Hinv2|split; [exact Halln|split; [exact G2 | reflexivity]]]].
      subst nlo nps. cbn [app]. rewrite ?app_nil_r. cbn [app].
      eapply (run_loop_node V sem truth trip of_nat of_bool limit); eassumption.
  Qed.

  (* ---- if/else whose branches are blocks of the class *)
  Lemma branch_sound_gen : forall fu k', blocks_okN fu -> fu <= k' ->
    forall t lo_s sc st1 sc_t outs_t st2 ns_t live_defs bo_outs bo_nodes st3 l1 pe ρ1 f2 o,
    block_ok fu t lo_s = true ->
    tr_stmts fu false t lo_s ([] :: sc) [] st1 = Some ((sc_t, outs_t), st2, ns_t) ->
    block_outputs false sc_t live_defs ns_t [] st2 = Some ((bo_outs, bo_nodes), st3, []) ->
    live_block cic afuel t lo_s = Some l1 ->
    inv_on l1 pe ([] :: sc) ρ1 st1 -> all_PT pe -> incl live_defs lo_s ->
    exec_block f2 t pe = Some o ->
    exists pe_t vals, o = ONormal V pe_t /\ all_PT pe_t /\
      eval_graph (S k') ρ1 (Graph [] [] bo_nodes bo_outs) [] = Some vals /\
      Forall2 (fun x v => plookup V pe_t x = Some (PT V v)) live_defs vals.
  Proof.
    intros fu k' IH Hk t lo_s sc st1 sc_t outs_t st2 ns_t live_defs bo_outs bo_nodes st3 l1 pe ρ1 f2 o
           Hc Htr Hbo Hl Hinv Hall Hin Hex.
    destruct (IH k' Hk t false lo_s ([] :: sc) [] st1 sc_t outs_t st2 ns_t pe ρ1 f2 o l1 Hc Htr Hl Hinv Hall Hex)
      as (pe_t & ρ_t & -> & R1 & Hinv_t & Hall_t & G1 & _).
    destruct (block_outputs_sound V sem truth trip of_nat of_bool limit (eval_graph k') sem_identity
                live_defs sc_t ns_t [] st2 bo_outs bo_nodes st3 [] pe_t ρ_t lo_s Hbo Hinv_t Hall_t Hin)
      as (extra & ρ' & vals & En & R2 & L2 & F2 & _).
    exists pe_t, vals. split; [reflexivity|]. split; [exact Hall_t|]. split; [|exact F2].
    cbn [Sem.eval_graph]. unfold eval_body. cbn [g_ins g_nodes g_outs Sem.bind]. rewrite En, run_app, R1, R2. exact L2.
  Qed.

  Lemma if_sound_gen : forall fu k', blocks_okN fu -> fu <= k' ->
    forall c t f lo_s sc outs st res st6 nodes pe ρ f2 o L,
    cic c = None -> stmt_ok (block_ok fu) (SIf c t f) lo_s = true ->
    tr_if globals cic afuel inputs fu c t f lo_s sc outs st = Some (res, st6, nodes) ->
    live_stmt cic afuel (SIf c t f) lo_s = Some L ->
    inv_on L pe sc ρ st -> all_PT pe ->
    exec_stmt1 f2 (SIf c t f) pe = Some o ->
    exists pe' ρ', o = ONormal V pe' /\ runk (S k') ρ nodes = Some ρ' /\ inv_on lo_s pe' (fst res) ρ' st6 /\ all_PT pe' /\
                   grows V ρ ρ' st st6 /\ snd res = outs.
  Proof.
    intros fu k' IH Hk c t f lo_s sc outs st res st6 nodes pe ρ f2 o L Hcic Hs2 Htr Hlive Hinv Hall Hex.
    pose proof (keeps_stmt_ok globals cic afuel wb _ (keeps_block_ok globals cic afuel wb fu) (SIf c t f) lo_s L) as Hkeep.
    pose proof (fun x hx hn => Hkeep x Hs2 hx hn Hlive) as Hkeep'. clear Hkeep. rename Hkeep' into Hkeep.
    cbn [TranslateNestDefs.stmt_ok] in Hs2. rewrite Hcic in Hs2. apply andb_true_iff in Hs2. destruct Hs2 as [Hs2 Hsf].
    apply andb_true_iff in Hs2. destruct Hs2 as [Hrc Hst].
    rewrite live_if, Hcic in Hlive.
    destruct (live_block cic afuel t lo_s) as [l1|] eqn:El1; [|discriminate].
    destruct (live_block cic afuel f lo_s) as [l2|] eqn:El2; [|discriminate]. inversion Hlive; subst L. clear Hlive.
    set (A := assigned_stmt cic (SIf c t f)) in *.
    unfold tr_if in Htr. fold A in Htr.
    apply bind_some in Htr. destruct Htr as (live_defs & sta & n0 & n0' & Hls & Htr & ->).
    pose proof (mono_list_set _ _ _ _ _ Hls) as Xa.
    apply list_set_some in Hls. destruct Hls as (_ & _ & -> & Hnd & Hmem).
    apply bind_some in Htr. destruct Htr as (test & st1 & nc & n1' & Htest & Htr & ->).
    apply bind_some in Htr. destruct Htr as (g_then & st3 & n2 & n2' & Hthen & Htr & ->).
    apply bind_some in Htr. destruct Htr as (g_else & st5 & n3 & n3' & Helse & Htr & ->).
    apply bind_some in Htr. destruct Htr as (renamed & st6' & n4 & n4' & Hren & Htr & ->).
    apply bind_some in Htr. destruct Htr as (u1 & st7 & n5 & n5' & Hg1 & Htr & ->).
    apply guard_some in Hg1. destruct Hg1 as (_ & -> & ->).
    apply bind_some in Htr. destruct Htr as (u2 & st8 & n6 & n6' & Hg2 & Htr & ->).
    apply guard_some in Hg2. destruct Hg2 as (_ & -> & ->).
    apply bind_some in Htr. destruct Htr as (u3 & st9 & n7 & n7' & Hem & Hret & ->).
    apply emit_some in Hem. destruct Hem as (-> & ->).
    apply ret_some in Hret. destruct Hret as (-> & -> & ->). cbn [fst snd].
    assert (X13 : st_ext st1 st3).
    { eapply mono_tr_branch_all; [|exact Hthen]. intros. apply mono_tr_stmts_all. }
    assert (X35 : st_ext st3 st5).
    { eapply mono_tr_branch_all; [|exact Helse]. intros. apply mono_tr_stmts_all. }
    apply tr_branch_some in Hthen. destruct Hthen as (sc_t & outs_t & st2 & ns_t & bo_t & bn_t & Htt & Hbt & -> & ->).
    apply tr_branch_some in Helse. destruct Helse as (sc_f & outs_f & st4 & ns_f & bo_f & bn_f & Htf & Hbf & -> & ->).
    cbn [AnalysisProofs.exec_stmt1] in Hex.
    destruct (eval_expr pe c) as [vc|] eqn:Ec; [|discriminate].
    destruct (ptruth V truth vc) as [b|] eqn:Et; [|discriminate].
    assert (Hokc : expr_ok c = true). { unfold rhs_ok in Hrc. apply andb_true_iff in Hrc. apply Hrc. }
    pose proof (inv_on_grows V _ _ _ _ _ _ _ Hinv (grows_st_ext V ρ st sta (proj2 (proj2 Hinv)) Xa)) as Hinva.
    destruct (tr_expr_sound_on V sem truth trip of_nat of_bool limit globals (eval_graph (S k')) c _ sc (Some "cond") sta test st1 nc pe ρ vc
                Hokc ltac:(intros y Hy; apply In_sunion; right; exact Hy) Htest Hinva Ec) as (ρ1 & Rc & Rtest & Gc).
    pose proof (rhs_tensor V sem globals c pe vc Hrc Hall Ec) as Hvc. destruct vc as [cv|lc cc]; [|discriminate Hvc].
    cbn [ptruth] in Et. destruct Rtest as [Ltest _].
    assert (G1 : grows V ρ ρ1 st st1).
    { eapply grows_trans; [|exact Gc]. apply grows_st_ext; [apply Hinv | exact Xa]. }
    pose proof (inv_on_grows V _ _ _ _ _ _ _ Hinv G1) as Hinv1.
    assert (Hin : incl live_defs lo_s). { intros y Hy. apply Hmem in Hy. apply In_sinter in Hy. apply Hy. }
    assert (HAt : forall x, In x (assigned_block cic t) -> In x A).
    { intros x Hx. unfold A. rewrite assigned_if, Hcic. apply In_sunion. left. exact Hx. }
    assert (HAf : forall x, In x (assigned_block cic f) -> In x A).
    { intros x Hx. unfold A. rewrite assigned_if, Hcic. apply In_sunion. right. exact Hx. }
    assert (Hbranch : exists pe_t vals, o = ONormal V pe_t /\ all_PT pe_t /\
              eval_graph (S k') ρ1 (if b then Graph [] [] bn_t bo_t else Graph [] [] bn_f bo_f) [] = Some vals /\
              Forall2 (fun x v => plookup V pe_t x = Some (PT V v)) live_defs vals /\
              (forall x, ~ In x A -> plookup V pe_t x = plookup V pe x)).
    { destruct b.
      - destruct (branch_sound_gen fu k' IH Hk t lo_s sc st1 sc_t outs_t st2 ns_t live_defs bo_t bn_t st3 l1 pe ρ1 f2 o
                    Hst Htt Hbt El1) as (pe_t & vals & -> & Hall_t & Hg & F); [| exact Hall | exact Hin | exact Hex |].
        + eapply inv_on_ext; [reflexivity | intros y _; apply scopes_find_push |].
          eapply inv_on_sub; [|exact Hinv1]. intros y Hy. apply In_sunion. left. apply In_sunion. left. exact Hy.
        + exists pe_t, vals. split; [reflexivity|]. split; [exact Hall_t|]. split; [exact Hg|]. split; [exact F|].
          intros x Hx. pose proof (assigned_vars_sound V sem truth trip of_nat while_limit globals cic cic_sound f2 t pe _ Hex) as P.
          cbn in P. apply P. intro H. apply Hx. apply HAt. exact H.
      - destruct (branch_sound_gen fu k' IH Hk f lo_s sc st3 sc_f outs_f st4 ns_f live_defs bo_f bn_f st5 l2 pe ρ1 f2 o
                    Hsf Htf Hbf El2) as (pe_t & vals & -> & Hall_t & Hg & F); [| exact Hall | exact Hin | exact Hex |].
        + eapply inv_on_ext; [reflexivity | intros y _; apply scopes_find_push |].
          eapply inv_on_sub; [|eapply inv_on_grows; [exact Hinv1 | apply grows_st_ext; [apply G1 | exact X13]]].
          intros y Hy. apply In_sunion. left. apply In_sunion. right. exact Hy.
        + exists pe_t, vals. split; [reflexivity|]. split; [exact Hall_t|]. split; [exact Hg|]. split; [exact F|].
          intros x Hx. pose proof (assigned_vars_sound V sem truth trip of_nat while_limit globals cic cic_sound f2 f pe _ Hex) as P.
          cbn in P. apply P. intro H. apply Hx. apply HAf. exact H. }
    destruct Hbranch as (pe_t & vals & -> & Hall_t & Hg & F & Hunch).
    destruct (if_join V sem truth trip of_nat of_bool limit _ lo_s A pe sc ρ ρ1 st st1 st5 st6' live_defs renamed n4 pe_t vals
                Hinv G1 (st_ext_trans _ _ _ X13 X35) Hren Hnd (fun x h1 h2 => proj2 (Hmem x) (proj2 (In_sinter x lo_s A) (conj h1 h2))) Hkeep Hunch F) as (-> & ρ2 & B2 & Hinv2 & G2).
    exists pe_t, ρ2. split; [reflexivity|]. split; [|split; [exact Hinv2|split; [exact Hall_t|split; [exact G2|reflexivity]]]].
    cbn [app]. rewrite ?app_nil_r. rewrite run_app, Rc.
    eapply run_if_node; eassumption.
  Qed.

  (* ---- one statement of the class, followed by the rest of its block *)
  Lemma stmt_step_gen : forall fu k, blocks_okN fu -> S fu <= k ->
    forall s rest top lo sc outs st res st' nodes pe ρ f2 o L lo_s,
    live_block cic afuel rest lo = Some lo_s ->
    stmt_ok (block_ok fu) s lo_s = true ->
    tr_stmts (S fu) top (s :: rest) lo sc outs st = Some (res, st', nodes) ->
    live_block cic afuel (s :: rest) lo = Some L ->
    inv_on L pe sc ρ st -> all_PT pe ->
    exec_block (S f2) (s :: rest) pe = Some o ->
    exists sc1 st1 n1 n2 pe1 ρ1,
      nodes = n1 ++ n2 /\
      tr_stmts (S fu) top rest lo sc1 outs st1 = Some (res, st', n2) /\
      runk k ρ n1 = Some ρ1 /\ inv_on lo_s pe1 sc1 ρ1 st1 /\ all_PT pe1 /\ grows V ρ ρ1 st st1 /\
      exec_block (S f2) rest pe1 = Some o.
  Proof.
    intros fu k IH Hk s rest top lo sc outs st res st' nodes pe ρ f2 o L lo_s El Hs Htr Hl Hinv Hall Hex.
    destruct k as [|k']; [lia|]. assert (Hk' : fu <= k') by lia.
    rewrite live_block_cons, El in Hl.
    rewrite exec_block_cons in Hex.
    destruct s as [x e|xs e|c t f|i b body|c body| |es]; try discriminate Hs.
    - (* assignment *)
      cbn [TranslateNestDefs.stmt_ok] in Hs. rewrite live_assign in Hl. inversion Hl; subst L. clear Hl.
      rewrite tr_stmts_assign in Htr.
      apply bind_some in Htr. destruct Htr as (lo_s' & st0 & n0 & n0' & Hlift & Htr & ->).
      apply lift_some in Hlift. destruct Hlift as (_ & -> & ->).
      apply bind_some in Htr. destruct Htr as (r & stB & n1 & n2 & Has & Htr & ->).
      apply bind_some in Has. destruct Has as (v & st1 & n3 & n4 & Hte & Hret & ->).
      apply ret_some in Hret. destruct Hret as (-> & -> & ->). cbn [fst snd] in Htr.
      cbn [AnalysisProofs.exec_stmt1] in Hex. destruct (eval_expr pe e) as [pv|] eqn:Ee; [|discriminate].
      assert (Hoke : expr_ok e = true). { unfold rhs_ok in Hs. apply andb_true_iff in Hs. apply Hs. }
      destruct (tr_expr_sound_on V sem truth trip of_nat of_bool limit globals (eval_graph (S k')) e _ sc (Some x) st v st1 n3 pe ρ pv
                  Hoke ltac:(intros y Hy; apply In_sunion; right; exact Hy) Hte Hinv Ee) as (ρ1 & R1 & Rv & G1).
      exists (bind_var x (BV v) sc), st1, (n3 ++ []), n2, ((x, pv) :: pe), ρ1.
      split; [reflexivity|]. split; [exact Htr|]. split; [rewrite app_nil_r; exact R1|].
      split; [|split; [|split; [exact G1 | exact Hex]]].
      + eapply inv_on_assign; [eapply inv_on_grows; [exact Hinv | exact G1] | exact Rv|].
        intros y Hy. destruct (string_dec y x) as [E|E]; [left; exact E|]. right. apply In_sunion. left. apply In_sdiff.
        split; [exact Hy|]. intros [H|[]]. congruence.
      + apply all_PT_cons; [exact Hall|]. eapply rhs_tensor; eassumption.
    - (* tuple assignment *)
      destruct e as [| | | | |fn args kws]; try discriminate Hs. cbn [TranslateNestDefs.stmt_ok] in Hs.
      rewrite live_tuple in Hl. inversion Hl; subst L. clear Hl.
      rewrite tr_stmts_tuple in Htr.
      apply bind_some in Htr. destruct Htr as (lo_s' & st0 & n0 & n0' & Hlift & Htr & ->).
      apply lift_some in Hlift. destruct Hlift as (_ & -> & ->).
      apply bind_some in Htr. destruct Htr as (r & stB & n1 & n2 & Has & Htr & ->).
      apply bind_some in Has. destruct Has as (nm & st1 & n3 & n4 & Htm & Hret & ->).
      apply ret_some in Hret. destruct Hret as (-> & -> & ->). cbn [fst snd] in Htr.
      cbn [AnalysisProofs.exec_stmt1] in Hex.
      destruct (eval_call_multi V sem globals pe (ECall fn args kws)) as [cvs|] eqn:Ec; [|discriminate].
      destruct (pbind V xs cvs pe) as [pe1|] eqn:Epb; [|discriminate]. cbn [option_map] in Hex.
      destruct (tr_call_multi_sound_on V sem truth trip of_nat of_bool limit globals (eval_graph (S k')) fn args kws (sunion (sdiff lo_s xs) (used_vars (ECall fn args kws))) lo_s sc xs st nm st1 n3 pe ρ cvs pe1
                  Hs ltac:(intros y Hy; apply In_sunion; right; exact Hy)) as (ρ1 & R1 & Hinv1 & G1); try eassumption.
      { intros y Hy. destruct (in_dec string_dec y xs) as [Hi|Hi]; [left; exact Hi|]. right. apply In_sunion. left.
        apply In_sdiff. split; assumption. }
      exists (bind_all xs nm sc), st1, (n3 ++ []), n2, pe1, ρ1.
      split; [reflexivity|]. split; [exact Htr|]. split; [rewrite app_nil_r; exact R1|].
      split; [exact Hinv1|]. split; [eapply all_PT_pbind; eassumption|]. split; [exact G1 | exact Hex].
    - (* if *)
      rewrite tr_stmts_if in Htr.
      apply bind_some in Htr. destruct Htr as (lo_s' & st0 & n0 & n0' & Hlift & Htr & ->).
      apply lift_some in Hlift. destruct Hlift as (E0 & -> & ->). rewrite El in E0. inversion E0; subst lo_s'. clear E0.
      apply bind_some in Htr. destruct Htr as ([sc1 outs1] & st1 & n1 & n2 & Hif & Htr & ->). cbn [fst snd] in Htr.
      destruct (cic c) as [cb|] eqn:Ecic.
      + pose proof Hs as Hs'. cbn [TranslateNestDefs.stmt_ok] in Hs'. rewrite Ecic in Hs'.
        apply andb_true_iff in Hs'. destruct Hs' as [Hs' Hsf]. apply andb_true_iff in Hs'. destruct Hs' as [_ Hst].
        rewrite live_if, Ecic in Hl.
        destruct (exec_stmt1 f2 (SIf c t f) pe) as [o1|] eqn:Es; [|discriminate].
        cbn [AnalysisProofs.exec_stmt1] in Es.
        destruct (eval_expr pe c) as [vc|] eqn:Ec; [|discriminate].
        rewrite (cic_sound _ _ _ _ Ecic Ec) in Es.
        assert (Hk2 : fu <= S k') by lia.
        destruct cb.
        * destruct (IH (S k') Hk2 t false lo_s sc outs st sc1 outs1 st1 n1 pe ρ f2 o1 L Hst Hif Hl Hinv Hall Es)
            as (pe1 & ρ1 & -> & R1 & Hinv1 & Hall1 & G1 & ->).
          exists sc1, st1, n1, n2, pe1, ρ1. repeat (split; [first [reflexivity | assumption]|]). exact Hex.
        * destruct (IH (S k') Hk2 f false lo_s sc outs st sc1 outs1 st1 n1 pe ρ f2 o1 L Hsf Hif Hl Hinv Hall Es)
            as (pe1 & ρ1 & -> & R1 & Hinv1 & Hall1 & G1 & ->).
          exists sc1, st1, n1, n2, pe1, ρ1. repeat (split; [first [reflexivity | assumption]|]). exact Hex.
      + destruct (exec_stmt1 f2 (SIf c t f) pe) as [o1|] eqn:Es; [|discriminate].
        destruct (if_sound_gen fu k' IH Hk' c t f lo_s sc outs st (sc1, outs1) st1 n1 pe ρ f2 o1 L Ecic Hs Hif Hl Hinv Hall Es)
          as (pe1 & ρ1 & -> & R1 & Hinv1 & Hall1 & G1 & Eo). cbn [fst snd] in *. subst outs1.
        exists sc1, st1, n1, n2, pe1, ρ1. repeat (split; [first [reflexivity | assumption]|]). exact Hex.
    - (* for *)
      cbn [TranslateNestDefs.stmt_ok] in Hs. rewrite Hl in Hs. apply andb_true_iff in Hs. destruct Hs as [Hrb Hs].
      destruct (loop_fixpoint cic afuel (SFor i b body) lo_s) as [Lf|] eqn:Efx; [|discriminate Hs].
      destruct (live_block cic afuel body Lf) as [Lb|] eqn:Elb; [|discriminate Hs].
      apply andb_true_iff in Hs. destruct Hs as [Hs Hclass]. apply andb_true_iff in Hs. destruct Hs as [C1 Hside].
      rewrite tr_stmts_for' in Htr.
      apply bind_some in Htr. destruct Htr as (lo_s' & st0 & n0 & n0' & Hlift & Htr & ->).
      apply lift_some in Hlift. destruct Hlift as (E0 & -> & ->). rewrite El in E0. inversion E0; subst lo_s'. clear E0.
      apply bind_some in Htr. destruct Htr as ([sc1 outs1] & st1 & n1 & n2 & Hfor & Htr & ->). cbn [fst snd] in Htr.
      apply bind_some in Hfor. destruct Hfor as (hdr & stH & nh & nh' & Hhdr & Hfor & ->).
      apply bind_some in Hhdr. destruct Hhdr as (b0 & stb & nb & nb' & Hb & Hhdr & ->).
      apply bind_some in Hhdr. destruct Hhdr as (cin & stc & nc & nc' & Hcin & Hret & ->).
      apply uniq_some in Hcin. destruct Hcin as (Hcin & ->).
      apply ret_some in Hret. destruct Hret as (-> & -> & ->).
      unfold unpack_hdr in Hfor.
      destruct (exec_stmt1 f2 (SFor i b body) pe) as [o1|] eqn:Es; [|discriminate].
      cbn [AnalysisProofs.exec_stmt1] in Es.
      destruct (eval_expr pe b) as [vb|] eqn:Eb; [|discriminate].
      destruct (ptrip V trip vb) as [n|] eqn:Eptrip; [|discriminate].
      assert (Hbt : exists bv, tensor_of V vb = bv /\ trip bv = Some n).
      { apply orb_true_iff in Hrb. destruct Hrb as [Hrb|Hlit].
        - pose proof (rhs_tensor V sem globals b pe vb Hrb Hall Eb) as Hvb. destruct vb as [bv|lb cb]; [|discriminate Hvb].
          exists bv. split; [reflexivity | exact Eptrip].
        - destruct b as [|[z| | |]| | | |]; try discriminate Hlit. cbn [PySem.eval_expr] in Eb.
          destruct (const_val V sem (LInt z)) as [c0|] eqn:Ecv; [|discriminate Eb]. cbn [option_map] in Eb. inversion Eb; subst vb.
          cbn [ptrip] in Eptrip. inversion Eptrip; subst n. exists c0. split; [reflexivity | apply const_trip; exact Ecv]. }
      destruct Hbt as (bv & Ebv & Etrip).
      assert (Hokb : expr_ok b = true).
      { apply orb_true_iff in Hrb. destruct Hrb as [Hrb|Hlit]; [unfold rhs_ok in Hrb; apply andb_true_iff in Hrb; apply Hrb|].
        destruct b; try discriminate Hlit. reflexivity. }
      destruct (tr_expr_sound_on V sem truth trip of_nat of_bool limit globals (eval_graph (S k')) b L sc (Some "loop_bound") st b0 stb nb pe ρ vb
                  Hokb (In_ssubset _ _ C1) Hb Hinv Eb) as (ρ1 & Rb & Rbv & Gb).
      assert (Lb_b : lookup ρ1 b0 = Some bv). { rewrite <- Ebv. destruct vb; destruct Rbv as [Lr _]; exact Lr. }
      pose proof (inv_on_grows V _ _ _ _ _ _ _ Hinv Gb) as Hinv1.
      destruct (loop_core_sound fu k' IH Hk' (SFor i b body) body lo_s sc outs i "cond_in" cin (Some b0) None None false stb stc
                  (sc1, outs1) st1 nh' pe ρ1 f2 o1 L Lf Lb eq_refl
                  Efx Elb Hside Hclass (proj1 (loop_live_facts_for _ _ _ _ _ _ _ _ Hl Efx)) (proj2 (loop_live_facts_for _ _ _ _ _ _ _ _ Hl Efx))
                  Hinv1 Hall Hcin Hfor
                  ltac:(exists b0, bv, n; auto))
        as (pe_n & ρ2 & -> & R2 & Hinv2 & Halln & G2 & Eo). cbn [fst snd] in *. subst outs1.
      exists sc1, st1, (nb ++ nh'), n2, pe_n, ρ2.
      split; [cbn [app]; rewrite ?app_nil_r; reflexivity|]. split; [exact Htr|].
      split; [rewrite run_app, Rb; exact R2|]. split; [exact Hinv2|]. split; [exact Halln|].
      split; [eapply grows_trans; eassumption | exact Hex].
    - (* while *)
      cbn [TranslateNestDefs.stmt_ok] in Hs. rewrite Hl in Hs.
      destruct (loop_fixpoint cic afuel (SWhile c body) lo_s) as [Lf|] eqn:Efx; [|discriminate Hs].
      destruct (live_block cic afuel body Lf) as [Lb|] eqn:Elb; [|discriminate Hs].
      apply andb_true_iff in Hs. destruct Hs as [Hs Hclass]. apply andb_true_iff in Hs. destruct Hs as [Hs Hside].
      apply andb_true_iff in Hs. destruct Hs as [HcLf Hcg]. apply mem_In in HcLf.
      destruct (loop_live_facts_while _ _ _ _ _ _ _ Hl Efx) as [F1 F2].
      assert (HcL : In c L) by (apply F1; exact HcLf).
      assert (Hcg' : lookup_assoc c globals = None) by (destruct (lookup_assoc c globals); [discriminate Hcg | reflexivity]).
      rewrite tr_stmts_while' in Htr.
      apply bind_some in Htr. destruct Htr as (lo_s' & st0 & n0 & n0' & Hlift & Htr & ->).
      apply lift_some in Hlift. destruct Hlift as (E0 & -> & ->). rewrite El in E0. inversion E0; subst lo_s'. clear E0.
      apply bind_some in Htr. destruct Htr as ([sc1 outs1] & st1 & n1 & n2 & Hwh & Htr & ->). cbn [fst snd] in Htr.
      apply bind_some in Hwh. destruct Hwh as (hdr & stH & nh & nh' & Hhdr & Hwh & ->).
      apply bind_some in Hhdr. destruct Hhdr as (cp & stc & nc & nc' & Hcp & Hhdr & ->).
      apply uniq_some in Hcp. destruct Hcp as (Hcp & ->).
      apply bind_some in Hhdr. destruct Hhdr as (oc & stc' & no & no' & Hoc & Hret & ->).
      apply ret_some in Hret. destruct Hret as (-> & -> & ->).
      unfold py_var in Hoc. destruct (scopes_find c sc) as [bnd|] eqn:Esc; [|rewrite Hcg' in Hoc; discriminate Hoc].
      destruct (inv_on_bound V L pe sc ρ st c bnd Hinv Hall HcL Esc) as (nn & cval & -> & Hpc & Hlc & _).
      cbn [to_onnx_var] in Hoc. apply ret_some in Hoc. destruct Hoc as (-> & -> & ->).
      unfold unpack_hdr in Hwh.
      destruct (exec_stmt1 f2 (SWhile c body) pe) as [o1|] eqn:Es; [|discriminate].
      cbn [AnalysisProofs.exec_stmt1] in Es.
      destruct (loop_core_sound fu k' IH Hk' (SWhile c body) body lo_s sc outs "infinite_loop" c cp None (Some nn) (Some c) true st stc
                  (sc1, outs1) st1 nh' pe ρ f2 o1 L Lf Lb eq_refl
                  Efx Elb Hside Hclass F1 F2 Hinv Hall Hcp Hwh
                  ltac:(exists nn, cval; auto 10))
        as (pe_n & ρ2 & -> & R2 & Hinv2 & Halln & G2 & Eo). cbn [fst snd] in *. subst outs1.
      exists sc1, st1, nh', n2, pe_n, ρ2.
      split; [cbn [app]; rewrite ?app_nil_r; reflexivity|]. split; [exact Htr|].
      split; [exact R2|]. split; [exact Hinv2|]. split; [exact Halln|]. split; [exact G2 | exact Hex].
  Qed.

  Theorem blocks_okN_all : forall n, blocks_okN n.
  Proof.
    induction n as [|fu IH]; intros k Hk ss top lo sc outs st sc' outs' st' nodes pe ρ f2 o L Hc Htr Hl Hinv Hall Hex.
    { discriminate Hc. }
    cbn [TranslateNestDefs.block_ok] in Hc.
    revert sc outs st nodes pe ρ L Htr Hl Hinv Hall Hex.
    induction ss as [|s rest IHs]; intros sc outs st nodes pe ρ L Htr Hl Hinv Hall Hex.
    - rewrite tr_stmts_nil in Htr. apply ret_some in Htr. destruct Htr as (E & -> & ->). inversion E; subst sc' outs'.
      rewrite live_block_nil in Hl. inversion Hl; subst L.
      destruct f2 as [|f2]; [discriminate Hex|]. rewrite exec_block_nil in Hex. inversion Hex; subst o.
      exists pe, ρ. split; [reflexivity|]. split; [reflexivity|]. split; [exact Hinv|]. split; [exact Hall|].
      split; [apply grows_refl'; exact (proj2 (proj2 Hinv)) | reflexivity].
    - cbn [TranslateNestDefs.blocks_go] in Hc. rewrite app_nil_r in Hc.
      destruct (live_block cic afuel rest lo) as [lo_s|] eqn:El; [|discriminate Hc].
      apply andb_true_iff in Hc. destruct Hc as [Hc Hr]. apply andb_true_iff in Hc. destruct Hc as [Hs _].
      destruct f2 as [|f2]; [discriminate Hex|].
      destruct (stmt_step_gen fu k IH Hk s rest top lo sc outs st (sc', outs') st' nodes pe ρ f2 o L lo_s El Hs Htr Hl Hinv Hall Hex)
        as (sc1 & st1 & n1 & n2 & pe1 & ρ1 & -> & Htr1 & R1 & Hinv1 & Hall1 & G1 & Hex1).
      destruct (IHs Hr sc1 outs st1 n2 pe1 ρ1 lo_s Htr1 eq_refl Hinv1 Hall1 Hex1) as (pe' & ρ' & -> & R2 & Hinv2 & Hall2 & G2 & ->).
      exists pe', ρ'. split; [reflexivity|]. split; [rewrite run_app, R1; exact R2|]. split; [exact Hinv2|]. split; [exact Hall2|].
      split; [eapply grows_trans; eassumption | reflexivity].
  Qed.

  (* ---- a function body: statements of the class, then one return *)
  Lemma body_sound_gen : forall fu k, S fu <= k -> forall pre es, forallb expr_ok es = true ->
    forall lo sc outs st sc' outs' st' nodes pe ρ f2 vs vs0 L,
    pre_ok globals cic afuel wb fu pre [SReturn es] lo = true ->
    tr_stmts (S fu) true (pre ++ [SReturn es]) lo sc outs st = Some ((sc', outs'), st', nodes) ->
    live_block cic afuel (pre ++ [SReturn es]) lo = Some L ->
    inv_on L pe sc ρ st -> all_PT pe ->
    exec_block (S f2) (pre ++ [SReturn es]) pe = Some (OReturn V vs) ->
    lookups ρ outs = Some vs0 ->
    exists ρ', runk k ρ nodes = Some ρ' /\ lookups ρ' outs' = Some (vs0 ++ vs).
  Proof.
    intros fu k Hk. induction pre as [|s rest IH]; intros es Hes lo sc outs st sc' outs' st' nodes pe ρ f2 vs vs0 L Hpre Htr Hl Hinv Hall Hex Hlk.
    - eapply (body_sound V sem truth trip of_nat of_bool limit while_limit globals cic afuel inputs sem_identity cic_sound fu k ltac:(lia) [] eq_refl es Hes);
        eassumption.
    - unfold pre_ok in Hpre. cbn [TranslateNestDefs.blocks_go] in Hpre. cbn [app] in *.
      destruct (live_block cic afuel (rest ++ [SReturn es]) lo) as [lo_s|] eqn:El; [|discriminate Hpre].
      apply andb_true_iff in Hpre. destruct Hpre as [Hpre Hr]. apply andb_true_iff in Hpre. destruct Hpre as [Hs _].
      destruct (stmt_step_gen fu k (blocks_okN_all fu) Hk s (rest ++ [SReturn es]) true lo sc outs st (sc', outs') st' nodes pe ρ f2 _ L lo_s
                  El Hs Htr Hl Hinv Hall Hex)
        as (sc1 & st1 & n1 & n2 & pe1 & ρ1 & -> & Htr1 & R1 & Hinv1 & Hall1 & G1 & Hex1).
      destruct (IH es Hes lo sc1 outs st1 sc' outs' st' n2 pe1 ρ1 f2 vs vs0 lo_s Hr Htr1 El Hinv1 Hall1 Hex1
                  (lookups_grows V _ _ _ _ _ _ (proj2 (proj2 Hinv)) G1 Hlk)) as (ρ2 & R2 & L2).
      exists ρ2. split; [rewrite run_app, R1; exact R2 | exact L2].
  Qed.
End Nest.

(* ------------------------------------------------------------------ S3 complete: the theorem *)

Lemma pre_ok_live : forall globals cic afuel wb n pre es lo,
  pre_ok globals cic afuel wb n pre [SReturn es] lo = true -> exists L, live_block cic afuel (pre ++ [SReturn es]) lo = Some L.
Proof.
  intros globals cic afuel wb n [|s rest] es lo H.
  - eexists. cbn [app]. rewrite live_block_cons, live_block_nil. apply live_return.
  - unfold pre_ok in H. cbn [TranslateNestDefs.blocks_go] in H. cbn [app]. rewrite live_block_cons.
    destruct (live_block cic afuel (rest ++ [SReturn es]) lo) as [lo_s|]; [|discriminate H].
    apply andb_true_iff in H. destruct H as [H _]. apply andb_true_iff in H. destruct H as [_ H].
    destruct (live_stmt cic afuel s lo_s) as [L|]; [exists L; reflexivity | discriminate H].
Qed.

Section NestFinal.
  Variable V : Type.
  Variable sem : string -> string -> list (string * attrv) -> list (option V) -> option (list V).
  Variable truth : V -> option bool.
  Variable trip : V -> option nat.
  Variable of_nat : nat -> V.
  Variable of_bool : bool -> V.
  Variable limit : nat.
  Variable while_limit : nat.
  Variable globals : list (string * lit).
  Hypothesis sem_identity : forall v, sem "" "Identity" [] [Some v] = Some [v].
  Hypothesis truth_of_bool : forall b, truth (of_bool b) = Some b.
  Hypothesis sem_not : forall v b, truth v = Some b -> exists r, sem "" "Not" [] [Some v] = Some [r] /\ truth r = Some (negb b).
  Hypothesis sem_and : forall a b x y, truth a = Some x -> truth b = Some y ->
    exists r, sem "" "And" [] [Some a; Some b] = Some [r] /\ truth r = Some (x && y).
  Hypothesis limit_ok : while_limit <= limit.
  Hypothesis const_trip : forall z c, const_val V sem (LInt z) = Some c -> trip c = Some (Z.to_nat z).

  Theorem translate_nested_correct : forall wb cic afuel orders f g xs vs fuel2 k pre es,
    (wb = true -> forall v, exists b, truth v = Some b) ->
    (forall c b pe v, cic c = Some b -> eval_expr V sem globals pe c = Some v -> ptruth V truth v = Some b) ->
    f_body f = pre ++ [SReturn es] -> pre_ok globals cic afuel wb 11 pre [SReturn es] [] = true -> forallb expr_ok es = true ->
    f_aparams f = [] -> NoDup (f_tparams f) ->
    translate false globals cic afuel orders f = Some g ->
    eval_script V sem truth trip of_nat while_limit globals (S fuel2) f xs = Some vs ->
    stmt_depth_fuel <= k ->
    eval_graph V sem truth trip of_nat of_bool limit (S k) [] g xs = Some vs.
  Proof.
    intros wb cic afuel orders f g xs vs fuel2 k pre es Htot Hcic Hbody Hpre Hes Hap Hnd Htr Hev Hk.
    rewrite translate_eq, Hbody in Htr.
    destruct (Translate.tr_stmts globals cic afuel false (f_tparams f) (S 11) true (pre ++ [SReturn es]) [] [rev (init_scope f)] [] (init_state f orders))
      as [[[[sc' outs] st'] nodes]|] eqn:Et; [|discriminate]. inversion Htr; subst g. clear Htr.
    unfold eval_script in Hev. rewrite Hbody in Hev.
    destruct (pbind V (f_tparams f) xs []) as [pe0|] eqn:Ep; [|discriminate].
    destruct (PySem.exec_block V sem truth trip of_nat while_limit globals (S fuel2) (pre ++ [SReturn es]) pe0) as [[e1|e1|rv]|] eqn:Ex; try discriminate.
    inversion Hev; subst rv. clear Hev.
    destruct (init_inv V f orders xs pe0 Hap Hnd Ep) as (ρ0 & B & Hinv).
    destruct (pre_ok_live globals cic afuel wb 11 pre es [] Hpre) as (L & El).
    unfold stmt_depth_fuel in Hk.
    destruct (body_sound_gen V sem truth trip of_nat of_bool limit while_limit globals cic afuel (f_tparams f) wb
                sem_identity truth_of_bool Hcic sem_not sem_and Htot limit_ok const_trip
                11 k ltac:(lia) pre es Hes [] _ [] _ sc' outs st' nodes pe0 ρ0 fuel2 vs [] L Hpre Et El
                (inv_inv_on V L _ _ _ _ Hinv) (pbind_all_PT V _ _ _ Ep) Ex eq_refl) as (ρ1 & R1 & L1).
    cbn [eval_graph]. unfold eval_body. cbn [g_ins g_nodes g_outs]. rewrite B, R1. exact L1.
  Qed.
End NestFinal.
