"""C15: per wrapper and per branch (ir.Model / ModelProto), the pass calls and the complete option-forwarding map, read from
the source by AST (fail-closed), plus a runtime cross-check of that map (spies on the callees).

A wrapper body is walked twice, once per entry form: `isinstance(model, ir.Model)` / `isinstance(model, onnx.ModelProto)`
tests and flags set from them (`proto = True`, `model_proto = None`) are decided by the form; any other condition must not
guard anything that touches the model.  Every call that receives the (deserialised) model and is not a
serialiser / deserialiser / copy-back method is a *pass call*; its callee, the constructor arguments of a pass object
(`Cls(...)(model)`), the positional arguments, the keyword -> expression map and `*a` / `**k` forwarding are recorded.
"""
from __future__ import annotations

import ast
import inspect

from harness.common import cstr

SERIALIZERS = ("ir.serde.serialize_model", "ir.to_proto")
DESERIALIZERS = ("ir.serde.deserialize_model", "ir.from_proto")
COPYBACK_METHODS = ("Clear", "CopyFrom", "extend", "MergeFrom", "ClearField")


def _u(n):
    return ast.unparse(n)


class _Walk:
    def __init__(self, fn, form, resolve=None):
        self.fn, self.form = fn, form
        a = fn.args
        names = [x.arg for x in a.posonlyargs + a.args + a.kwonlyargs]
        self.model_param = names[0]
        self.params = names[1:]
        self.star = a.vararg.arg if a.vararg else None
        self.dstar = a.kwarg.arg if a.kwarg else None
        self.all_params = set(self.params) | ({self.star} if self.star else set()) | ({self.dstar} if self.dstar else set())
        self.ir_vars = {self.model_param} if form == "ir" else set()
        self.proto_vars = {self.model_param} if form == "proto" else set()
        self.consts = {}        # local name -> True / False / None / "notnone"
        self.rebound = {}       # wrapper parameter assigned inside the body -> text
        self.localdefs = {}     # other local name -> defining expression (AST)
        self.calls, self.problems = [], []
        self.resolve = resolve
        self.stage_changed = False

    # -- conditions decided by the entry form
    def decide(self, t):
        if isinstance(t, ast.Call) and _u(t.func) == "isinstance" and len(t.args) == 2 and isinstance(t.args[0], ast.Name):
            x, cls = t.args[0].id, _u(t.args[1])
            if x == self.model_param and not self.stage_changed and cls in ("ir.Model", "onnx.ModelProto"):
                return (self.form == "ir") == (cls == "ir.Model")
            return None
        if isinstance(t, ast.Name) and t.id in self.consts and self.consts[t.id] in (True, False):
            return self.consts[t.id]
        if isinstance(t, ast.UnaryOp) and isinstance(t.op, ast.Not):
            d = self.decide(t.operand)
            return None if d is None else not d
        if (isinstance(t, ast.Compare) and len(t.ops) == 1 and isinstance(t.left, ast.Name) and isinstance(t.comparators[0], ast.Constant)
                and t.comparators[0].value is None and t.left.id in self.consts):
            isnone = self.consts[t.left.id] is None
            if isinstance(t.ops[0], ast.Is):
                return isnone
            if isinstance(t.ops[0], ast.IsNot):
                return not isnone
        return None

    def touches_model(self, node):
        mv = self.ir_vars | self.proto_vars
        return any(isinstance(n, ast.Name) and n.id in mv for n in ast.walk(node))

    # -- argument expressions
    def classify(self, e):
        if isinstance(e, ast.Name):
            if e.id in self.ir_vars:
                return ("model",)
            if e.id in self.rebound:
                return ("expr", self.rebound[e.id][0], self.rebound[e.id][1])
            if e.id in self.all_params:
                return ("param", e.id)
            if e.id in self.localdefs:
                return self.classify_expr(self.localdefs[e.id])
        return self.classify_expr(e)

    def classify_expr(self, e):
        e = self.subst(e)
        if self.touches_model(e):
            self.problems.append(f"argument expression reads the model: {_u(e)}")
        ms = []
        for n in ast.walk(e):
            if isinstance(n, ast.Name) and n.id in self.all_params and n.id not in ms:
                ms.append(n.id)
        return ("expr", _u(e), tuple(ms))

    def subst(self, e):
        me = self

        class S(ast.NodeTransformer):
            def visit_Name(self, n):   # noqa: N802
                if n.id in me.localdefs and n.id not in me.all_params:
                    return S().visit(ast.parse(_u(me.localdefs[n.id]), mode="eval").body)
                return n
        return S().visit(ast.parse(_u(e), mode="eval").body)

    def args_of(self, c):
        pos, kw, star, dstar = [], [], None, None
        for a in c.args:
            if isinstance(a, ast.Starred):
                if star is not None or not isinstance(a.value, ast.Name):
                    self.problems.append(f"star argument not recognised: {_u(a)}")
                star = _u(a.value)
            else:
                pos.append(self.classify(a))
        for k in c.keywords:
            if k.arg is None:
                if dstar is not None or not isinstance(k.value, ast.Name):
                    self.problems.append(f"double-star argument not recognised: {_u(k.value)}")
                dstar = _u(k.value)
            else:
                kw.append((k.arg, self.classify(k.value)))
        return {"pos": pos, "kw": sorted(kw), "star": star, "dstar": dstar}

    def pass_call(self, e):
        """e (possibly `X.model`) is a call that receives the IR model -> record, else None."""
        if isinstance(e, ast.Attribute) and e.attr == "model":
            e = e.value
        if not isinstance(e, ast.Call):
            return None
        fu = _u(e.func)
        if fu in SERIALIZERS or fu in DESERIALIZERS or fu == "isinstance":
            return None
        if not any(isinstance(a, ast.Name) and a.id in self.ir_vars for a in e.args) and \
                not any(isinstance(k.value, ast.Name) and k.value.id in self.ir_vars for k in e.keywords):
            return None
        func = e.func
        if isinstance(func, ast.Name) and func.id in self.localdefs:
            func = self.localdefs[func.id]
        if isinstance(func, ast.Call):
            rec = {"fun": _u(func.func), "ctor": self.args_of(func), "args": self.args_of(e)}
        else:
            rec = {"fun": _u(func), "ctor": None, "args": self.args_of(e)}
        self.calls.append(rec)
        return rec

    # -- statements
    def block(self, stmts):
        for s in stmts:
            if self.stmt(s):
                return True
        return False

    def stmt(self, s):
        if isinstance(s, ast.Expr) and isinstance(s.value, ast.Constant):
            return False
        if isinstance(s, (ast.Assert, ast.Pass)):
            return False
        if isinstance(s, ast.If):
            d = self.decide(s.test)
            if d is True:
                return self.block(s.body)
            if d is False:
                return self.block(s.orelse)
            # a condition the entry form does not decide: it must not guard anything that handles the model
            for sub in s.body + s.orelse:
                if isinstance(sub, ast.If):
                    inner = self.decide(sub.test)
                    if inner is not None:
                        self.problems.append(f"entry-form test nested under `{_u(s.test)}`")
                for n in ast.walk(sub):
                    if isinstance(n, ast.Call) and self.touches_model(n) and _u(n.func) != "isinstance":
                        self.problems.append(f"call on the model under a condition that is not the entry form: `{_u(s.test)}`: {_u(n)}")
                    if isinstance(n, ast.Return) and not (isinstance(n.value, ast.Name) and n.value.id == self.model_param):
                        self.problems.append(f"return under `{_u(s.test)}` is not the argument itself")
                    if isinstance(n, ast.Assign):
                        for t in n.targets:
                            if not (isinstance(t, ast.Name) and t.id in self.all_params):
                                self.problems.append(f"assignment under `{_u(s.test)}`: {_u(n)}")
            return False
        if isinstance(s, ast.Return):
            if s.value is not None:
                self.pass_call(s.value)
            return True
        if isinstance(s, ast.Delete):
            for t in s.targets:
                if _u(t).split(".")[0].split("[")[0] not in self.proto_vars:
                    self.problems.append(f"delete of something that is not the caller's proto: {_u(s)}")
            return False
        if isinstance(s, ast.Expr) and isinstance(s.value, ast.Call):
            c = s.value
            if self.pass_call(c) is not None:
                return False
            if isinstance(c.func, ast.Attribute) and c.func.attr in COPYBACK_METHODS and _u(c.func.value).split(".")[0] in self.proto_vars:
                return False
            if self.touches_model(c):
                self.problems.append(f"call on the model not recognised: {_u(c)}")
            return False
        if isinstance(s, ast.Assign) and len(s.targets) == 1 and isinstance(s.targets[0], ast.Name):
            tgt, v = s.targets[0].id, s.value
            if tgt in self.all_params and not self.touches_model(v):
                ce = self.classify_expr(v)           # an option overwritten on this path: no longer the caller's value
                self.rebound[tgt] = (ce[1], ce[2])
                return False
            if isinstance(v, ast.Constant) and any(v.value is c for c in (True, False, None)):
                self.consts[tgt] = v.value
                return False
            if isinstance(v, ast.Name) and v.id in self.proto_vars:
                self.proto_vars.add(tgt)
                self.consts[tgt] = "notnone"
                return False
            if isinstance(v, ast.Name) and v.id in self.ir_vars:
                self.ir_vars.add(tgt)
                return False
            if isinstance(v, ast.Call) and _u(v.func) in DESERIALIZERS and len(v.args) == 1 and isinstance(v.args[0], ast.Name) \
                    and v.args[0].id in self.proto_vars:
                if tgt in self.proto_vars:
                    self.proto_vars.discard(tgt)
                    if tgt == self.model_param:
                        self.stage_changed = True
                self.ir_vars.add(tgt)
                return False
            if isinstance(v, ast.Call) and _u(v.func) in SERIALIZERS:
                if not (len(v.args) == 1 and isinstance(v.args[0], ast.Name) and v.args[0].id in self.ir_vars):
                    self.problems.append(f"serialisation of something that is not the transformed model: {_u(v)}")
                return False
            rec = self.pass_call(v)
            if rec is not None:
                if isinstance(v, ast.Attribute):      # X(...).model : the transformed model
                    self.ir_vars.add(tgt)
                return False
            if self.touches_model(v):
                self.problems.append(f"assignment from the model not recognised: {_u(s)}")
                return False
            self.localdefs[tgt] = v
            return False
        self.problems.append(f"statement not recognised: {_u(s)[:120]}")
        return False


def walk_forms(fn):
    out, problems = {}, []
    for form in ("ir", "proto"):
        w = _Walk(fn, form)
        w.block(fn.body)
        out[form] = w.calls
        problems += [f"{form} branch: {p}" for p in w.problems]
    w0 = _Walk(fn, "ir")
    return {"params": w0.params + ([w0.star] if w0.star else []) + ([w0.dstar] if w0.dstar else []), "ir": out["ir"], "proto": out["proto"]}, problems


def analyse(trees):
    """trees: api -> (module AST, function name).  replace_functions is proto-only: its IR form is the function it calls
    (replace_functions_inplace) applied to the deserialised function list, which is what the proto branch must do."""
    table, problems = {}, []
    for api, (tree, fname) in trees.items():
        fn = next((n for n in tree.body if isinstance(n, ast.FunctionDef) and n.name == fname), None)
        if fn is None:
            problems.append(f"{api}: function {fname} not found")
            table[api] = {"params": [], "ir": [], "proto": []}
            continue
        if api == "replace_functions":
            w = _Walk(fn, "proto")
            w.block(fn.body)
            problems += [f"{api}: proto branch: {p}" for p in w.problems]
            inplace = next((n for n in tree.body if isinstance(n, ast.FunctionDef) and n.name == "replace_functions_inplace"), None)
            if inplace is None:
                problems.append("replace_functions: replace_functions_inplace (the IR form) not found")
                ir_calls = []
            else:
                # the IR form, stated in terms of the proto form's parameters: the functions arrive deserialised
                ir_params = [a.arg for a in inplace.args.args]
                ir_calls = [{"fun": "replace_functions_inplace", "ctor": None,
                             "args": {"pos": [("model",)] + [("expr", "[ir.from_proto(func) for func in functions]", ("functions",))
                                                             for _ in ir_params[1:]], "kw": [], "star": None, "dstar": None}}]
            table[api] = {"params": w.params, "ir": ir_calls, "proto": w.calls}
            continue
        t, pr = walk_forms(fn)
        table[api] = t
        problems += [f"{api}: {p}" for p in pr]
    for api, t in table.items():
        if not t["proto"] and not any(p.startswith(api + ":") for p in problems):
            problems.append(f"{api}: no pass call found in the ModelProto branch")
        if not t["ir"] and not any(p.startswith(api + ":") for p in problems):
            problems.append(f"{api}: no pass call found in the ir.Model branch")
    return table, problems


# ----------------------------------------------------------------------------- Coq printer

def _carg(a):
    if a[0] == "model":
        return "AModel"
    if a[0] == "param":
        return f"AParam {cstr(a[1])}"
    return f"AExpr {cstr(a[1])} [{'; '.join(cstr(m) for m in a[2])}]"


def _copt(s):
    return "None" if s is None else f"(Some {cstr(s)})"


def _cargs(a):
    return ("{| a_pos := [" + "; ".join(_carg(x) for x in a["pos"]) + "]; a_kw := [" +
            "; ".join(f"({cstr(k)}, {_carg(v)})" for k, v in a["kw"]) + f"]; a_star := {_copt(a['star'])}; a_dstar := {_copt(a['dstar'])} |}}")


def _ccall(c):
    ctor = "None" if c["ctor"] is None else f"(Some {_cargs(c['ctor'])})"
    return f"{{| c_fun := {cstr(c['fun'])}; c_ctor := {ctor}; c_args := {_cargs(c['args'])} |}}"


def coq_wrapper(api, t):
    return (f"Definition src_fw_{api} : wrapper_src :=\n  {{| w_name := {cstr(api)}; w_params := [" + "; ".join(cstr(p) for p in t["params"]) + "];\n"
            "     w_ir := [" + ";\n              ".join(_ccall(c) for c in t["ir"]) + "];\n"
            "     w_proto := [" + ";\n                 ".join(_ccall(c) for c in t["proto"]) + "] |}.\n")


def describe_difference(t):
    """Human-readable first difference between the two branches (for the report; the decision is Coq's)."""
    a, b = t["ir"], t["proto"]
    if len(a) != len(b):
        return f"ir.Model branch makes {len(a)} pass call(s) ({[c['fun'] for c in a]}), ModelProto branch {len(b)} ({[c['fun'] for c in b]})"
    for x, y in zip(a, b):
        if x["fun"] != y["fun"]:
            return f"different callee: {x['fun']} vs {y['fun']}"
        for part in ("ctor", "args"):
            p, q = x[part], y[part]
            if (p is None) != (q is None):
                return f"{x['fun']}: pass object constructed in one branch only"
            if p is None:
                continue
            if p["pos"] != q["pos"]:
                return f"{x['fun']}: positional arguments differ: {p['pos']} vs {q['pos']}"
            dp, dq = dict(p["kw"]), dict(q["kw"])
            for k in sorted(set(dp) | set(dq)):
                if k not in dq:
                    return f"{x['fun']}: option `{k}` is forwarded by the ir.Model branch only"
                if k not in dp:
                    return f"{x['fun']}: option `{k}` is forwarded by the ModelProto branch only"
                if dp[k] != dq[k]:
                    return f"{x['fun']}: option `{k}` gets {dp[k][1:]} in the ir.Model branch and {dq[k][1:]} in the ModelProto branch"
            if (p["star"], p["dstar"]) != (q["star"], q["dstar"]):
                return f"{x['fun']}: */** forwarding differs"
    return ""


# ----------------------------------------------------------------------------- runtime cross-check

def nondefault(name, default, extra):
    """A valid value different from the default, for an option of a wrapper."""
    if name in extra:
        return extra[name]
    if isinstance(default, bool):
        return not default
    if isinstance(default, int):
        return default + 3
    raise KeyError(name)


class Spy:
    """Replaces `holder.attr` by a recording pass-through; also records the call of an object it constructs."""

    def __init__(self, holder, attr, log, tag):
        self.holder, self.attr, self.log, self.tag = holder, attr, log, tag
        self.real = getattr(holder, attr)

    def __enter__(self):
        spy = self

        def rec(*a, **k):
            out = spy.real(*a, **k)
            if inspect.isclass(spy.real):
                spy.log.append((spy.tag, "ctor", a, dict(k)))
                real_call = out.__call__

                class _Proxy:
                    def __call__(self_p, *a2, **k2):   # noqa: N805
                        spy.log.append((spy.tag, "call", a2, dict(k2)))
                        return real_call(*a2, **k2)

                    def __getattr__(self_p, n):        # noqa: N805
                        return getattr(out, n)
                return _Proxy()
            spy.log.append((spy.tag, "call", a, dict(k)))
            return out
        setattr(self.holder, self.attr, rec)
        return self

    def __exit__(self, *exc):
        setattr(self.holder, self.attr, self.real)
        return False
