(* C09 property theorems, fourth file (session 6): the acceptance half of the property -- "the optimized model accepts
   exactly the inputs the original accepted" -- for ReshapeReshape, SlicesSplit and the sequence evaluators, the exact
   side conditions, get_dim, and the obligation that every comparison at a shape-reading site is the one the models assume.
   Statements only, each closed by `exact`.  resolve = ONNX Reshape on concrete shapes (None = rejected). *)
From Coq Require Import String ZArith List Bool.
Require Import OV.Shape.SymDim OV.Shape.PartialEval OV.Shape.Extra OV.Shape.Extra2 OV.Shape.Accept OV.Shape.AcceptProofs.
Require Import OV.Gen.ShapeUsers OV.Shape.Comparisons OV.Shape.ComparisonsProofs.
Require OV.Rules.Reshape OV.Rules.SliceCollapse.
Import ListNotations.
Open Scope Z_scope.

(* ---- ReshapeReshape.  xs = any runtime shape of x (any valuation of its symbolic dims), s1 / az1 arbitrary. *)
(* when no dim of the intermediate tensor is copied (allowzero = 1, or no 0 in the second target) the fused Reshape
   accepts exactly what the second Reshape accepted, with the same shape *)
Theorem C09_reshape_reshape_no_zero_copy_exact : forall xs s1 az1 mid s2 az2 s' az',
  Reshape.resolve az1 xs s1 = Some mid -> rr_rule None s2 az2 = Some (s', az') -> zero_copy s2 az2 = false ->
  Reshape.resolve az' xs s' = Reshape.resolve az2 mid s2.
Proof. exact rr_no_zero_copy_exact. Qed.
Print Assumptions C09_reshape_reshape_no_zero_copy_exact.

Theorem C09_reshape_reshape_accepts_iff : forall xs s1 az1 mid s2 az2 s' az',
  Reshape.resolve az1 xs s1 = Some mid -> rr_rule None s2 az2 = Some (s', az') -> zero_copy s2 az2 = false ->
  forall out, rr_orig az1 xs s1 az2 s2 = Some out <-> Reshape.resolve az' xs s' = Some out.
Proof. exact rr_accepts_iff. Qed.
Print Assumptions C09_reshape_reshape_accepts_iff.

Example C09_reshape_reshape_accepts_iff_nonvacuous :
  Reshape.resolve false [2; 6] [-1; 3] = Some [4; 3] /\ rr_rule None [2; -1] false = Some ([2; -1], false) /\
  zero_copy [2; -1] false = false /\ rr_orig false [2; 6] [-1; 3] false [2; -1] = Some [2; 6] /\
  rr_rule None [0; 3] true = Some ([0; 3], true) /\ zero_copy [0; 3] true = false.
Proof. repeat split; reflexivity. Qed.

(* one 0 (allowzero off) between positive entries: the rule fires with -1 in its place; exact acceptance of both sides *)
Theorem C09_reshape_reshape_zero_copy_exact : forall xs s1 az1 mid pre post,
  Reshape.resolve az1 xs s1 = Some mid -> Reshape.nonneg mid = true -> Reshape.positive pre = true -> Reshape.positive post = true ->
  let p := Reshape.prod pre * Reshape.prod post in let i := List.length pre in
  rr_rule None (pre ++ 0 :: post) false = Some (pre ++ -1 :: post, false) /\
  Reshape.resolve false xs (pre ++ -1 :: post) = (if Reshape.prod xs mod p =? 0 then Some (pre ++ Reshape.prod xs / p :: post) else None) /\
  Reshape.resolve false mid (pre ++ 0 :: post) =
    (if (i <? List.length mid)%nat && (p * nth i mid 0 =? Reshape.prod xs) then Some (pre ++ nth i mid 0 :: post) else None).
Proof. exact rr_zero_copy_exact. Qed.
Print Assumptions C09_reshape_reshape_zero_copy_exact.

Theorem C09_reshape_reshape_zero_copy_widens_iff : forall xs s1 az1 mid pre post,
  Reshape.resolve az1 xs s1 = Some mid -> Reshape.nonneg mid = true -> Reshape.positive pre = true -> Reshape.positive post = true ->
  let p := Reshape.prod pre * Reshape.prod post in let i := List.length pre in
  (Reshape.resolve false mid (pre ++ 0 :: post) = None /\ Reshape.resolve false xs (pre ++ -1 :: post) <> None)
  <-> (Reshape.prod xs mod p = 0 /\ ~ ((i < List.length mid)%nat /\ p * nth i mid 0 = Reshape.prod xs)).
Proof. exact rr_zero_copy_widens_iff. Qed.
Print Assumptions C09_reshape_reshape_zero_copy_widens_iff.

Theorem C09_reshape_reshape_zero_copy_orig_implies_fused : forall xs s1 az1 mid pre post out,
  Reshape.resolve az1 xs s1 = Some mid -> Reshape.nonneg mid = true -> Reshape.positive pre = true -> Reshape.positive post = true ->
  Reshape.resolve false mid (pre ++ 0 :: post) = Some out -> Reshape.resolve false xs (pre ++ -1 :: post) = Some out.
Proof. exact rr_zero_copy_orig_implies_fused. Qed.
Print Assumptions C09_reshape_reshape_zero_copy_orig_implies_fused.

(* the whole acceptance claim (Accept.rr_accepts_full: for every s1) is false of the rule as it is: two witnesses *)
Theorem C09_reshape_reshape_first_rejected_widens : exists xs s1 s2 s' az' out,
  Reshape.nonneg xs = true /\ rr_rule None s2 false = Some (s', az') /\ rr_orig false xs s1 false s2 = None /\
  Reshape.resolve az' xs s' = Some out /\ rr_widening_class false xs s1 false s2 = WFirstRejected.
Proof. exact rr_first_rejected_widens. Qed.
Print Assumptions C09_reshape_reshape_first_rejected_widens.

Theorem C09_reshape_reshape_zero_copy_widens : exists xs s1 mid s2 s' az' out,
  Reshape.resolve false xs s1 = Some mid /\ rr_rule None s2 false = Some (s', az') /\ Reshape.resolve false mid s2 = None /\
  Reshape.resolve az' xs s' = Some out /\ rr_widening_class false xs s1 false s2 = WZeroCopyMismatch.
Proof. exact rr_zero_copy_widens. Qed.
Print Assumptions C09_reshape_reshape_zero_copy_widens.

Theorem C09_reshape_reshape_accepts_full_refuted : ~ rr_accepts_full.
Proof. exact rr_accepts_full_refuted. Qed.
Print Assumptions C09_reshape_reshape_accepts_full_refuted.

Theorem C09_reshape_reshape_widening_none : forall xs s1 az1 mid s2 az2,
  Reshape.resolve az1 xs s1 = Some mid -> zero_copy s2 az2 = false -> rr_widening_class az1 xs s1 az2 s2 = WNone.
Proof. exact rr_widening_none. Qed.
Print Assumptions C09_reshape_reshape_widening_none.

(* ---- SlicesSplit *)
Theorem C09_slices_split_accepts_iff : forall s axis b0 e0 b1 e1, ss_check (Some s) axis b0 e0 b1 e1 = true ->
  forall rho cx, shape_denotes rho s cx -> slice_accepts cx axis = true /\ split2_accepts cx = true.
Proof. exact slices_split_accepts_iff. Qed.
Print Assumptions C09_slices_split_accepts_iff.

Example C09_slices_split_accepts_iff_nonvacuous : ss_check (Some [DSym "N"; DInt 4]) (-1) 0 2 2 4 = true.
Proof. reflexivity. Qed.

Theorem C09_slices_split_last_dim_necessary : forall d b1, 0 <= b1 <= d ->
  (forall l : list nat, Z.of_nat (List.length l) = d ->
     (SliceCollapse.slice1 0 b1 l, SliceCollapse.slice1 b1 d l) = SliceCollapse.split2 l) ->
  0 < d -> b1 = (d + 1) / 2.
Proof. exact ss_last_dim_necessary. Qed.
Print Assumptions C09_slices_split_last_dim_necessary.

Theorem C09_slices_split_symbolic_last_dim_no_constants : forall b0 e0,
  ~ (SliceCollapse.slice1 b0 e0 [0; 1]%nat = fst (SliceCollapse.split2 [0; 1]%nat) /\
     SliceCollapse.slice1 b0 e0 [0; 1; 2; 3]%nat = fst (SliceCollapse.split2 [0; 1; 2; 3]%nat)).
Proof. exact ss_symbolic_last_dim_no_constants. Qed.
Print Assumptions C09_slices_split_symbolic_last_dim_no_constants.

(* ---- sequence evaluators *)
Theorem C09_split_scalar_emitted_accepts_iff : forall d s, 0 < s -> 0 <= d ->
  (split_scalar_emitted d s = Some (scalar_sizes d s) <-> 0 < d).
Proof. exact split_scalar_emitted_accepts_iff. Qed.
Print Assumptions C09_split_scalar_emitted_accepts_iff.

Theorem C09_split_scalar_emitted_empty_axis_refuted : forall s, 0 < s ->
  scalar_sizes 0 s = [] /\ split_scalar_emitted 0 s = None.
Proof. exact split_scalar_emitted_empty_axis_refuted. Qed.
Print Assumptions C09_split_scalar_emitted_empty_axis_refuted.

Theorem C09_split_scalar_fixed_exact : forall d s, 0 < s -> 0 <= d -> split_scalar_emitted_fixed d s = Some (scalar_sizes d s).
Proof. exact split_scalar_fixed_exact. Qed.
Print Assumptions C09_split_scalar_fixed_exact.

Theorem C09_seq_at_accepts_iff : forall {A} (l : list A) i, at_opt l i = onnx_seq_at l i.
Proof. exact @at_opt_exact. Qed.
Print Assumptions C09_seq_at_accepts_iff.

Theorem C09_split_concat_roundtrip : forall sh k sizes, (k < List.length sh)%nat -> sizes <> [] ->
  nsum sizes = nth k sh 0 -> concat_shape (Z.of_nat k) (chunk_shapes sh k sizes) = Some sh.
Proof. exact split_concat_roundtrip. Qed.
Print Assumptions C09_split_concat_roundtrip.

Example C09_split_concat_roundtrip_nonvacuous : concat_shape 1 (chunk_shapes [0; 4] 1 [1; 3]) = Some [0; 4].
Proof. reflexivity. Qed.

(* ---- get_dim *)
Theorem C09_get_dim_sound : forall s i d rho cx, get_dim (Some s) i = Some d -> shape_denotes rho s cx ->
  exists n, py_index cx i = Some n /\ denotes rho d n.
Proof. exact get_dim_sound. Qed.
Print Assumptions C09_get_dim_sound.

Theorem C09_get_dim_none_iff : forall s i rho cx, shape_denotes rho s cx ->
  (get_dim (Some s) i = None <-> py_index cx i = None).
Proof. exact get_dim_none_iff. Qed.
Print Assumptions C09_get_dim_none_iff.

(* ---- the comparison used at every shape-reading site is the one the models were written against *)
Theorem C09_shape_comparisons_as_modelled : comparisons_okb = true.
Proof. exact comparisons_as_modelled. Qed.
Print Assumptions C09_shape_comparisons_as_modelled.

Theorem C09_dim_sites_present : forall s, In s dim_sites -> site_present comparisons s = true.
Proof. exact dim_sites_present. Qed.
Print Assumptions C09_dim_sites_present.

(* ---- ScatterAllDynamic: the attributes of the Shape node in front of the Range.  shape_op = ONNX Shape(x, start, end). *)
Theorem C09_scatter_dyn_attrs_sound : forall start stop data tdata axis,
  scatter_dyn_attrs SdRepaired start stop (Some data) (Some tdata) axis = true ->
  forall rho cd ct n, shape_denotes rho data cd -> shape_denotes rho tdata ct ->
  py_index (shape_op cd start stop) axis = Some n -> exists rest, ct = n :: rest.
Proof. exact scatter_dyn_attrs_sound. Qed.
Print Assumptions C09_scatter_dyn_attrs_sound.

Example C09_scatter_dyn_attrs_nonvacuous :
  scatter_dyn_attrs SdRepaired (Some 0) None (Some [DSym "N"; DSym "M"]) (Some [DSym "M"; DInt 3]) (-1) = true /\
  scatter_dyn_attrs SdRepaired (Some 1) None (Some [DSym "N"; DSym "M"]) (Some [DSym "N"; DInt 3]) 0 = false /\
  scatter_dyn_attrs SdRepaired None None (Some [DSym "N"; DSym "M"]) (Some [DSym "N"; DInt 3]) 0 = false.
Proof. repeat split; reflexivity. Qed.

Theorem C09_scatter_dyn_end_ignored_refuted : exists stop data tdata axis rho cd ct n,
  scatter_dyn_attrs SdAsRead (Some 0) (Some stop) (Some data) (Some tdata) axis = true /\
  shape_denotes rho data cd /\ shape_denotes rho tdata ct /\
  py_index (shape_op cd (Some 0) (Some stop)) axis = Some n /\ hd 0 ct <> n.
Proof. exact scatter_dyn_end_ignored_refuted. Qed.
Print Assumptions C09_scatter_dyn_end_ignored_refuted.

Theorem C09_scatter_dyn_attrs_variants : forall start data tdata axis,
  scatter_dyn_attrs SdAsRead start None data tdata axis = scatter_dyn_attrs SdRepaired start None data tdata axis.
Proof. exact scatter_dyn_attrs_variants. Qed.
Print Assumptions C09_scatter_dyn_attrs_variants.
