(* C08 property theorems, family aten_diagonal: statements only, each closed by `exact`, Print Assumptions beneath.

   aten_diagonal moves dim1 / dim2 to the end (Transpose with a trace-time perm), multiplies with an EyeLike(k = offset)
   mask, sums over the dim1 axis and slices [start, start + length) of the dim2 axis, with
   length = max(min(offset < 0 ? n1 + offset : n2 - offset, min(n1, n2)), 0) computed by Add/Sub/Min/Max nodes.
   `aten_*` = that composition under the operator semantics of Onnx.v / Onnx2.v, `torch_*` = ATen's diagonal.
   NOT covered: the Mul/ReduceSum detour on non-finite float data (inf * 0 = nan: see the known finding
   C08:aten_diagonal:non-finite-off-diagonal-element, observed by the direct oracle), dtype handling (bool via int64). *)
From Coq Require Import ZArith List Bool.
Require Import OV.Torch.Onnx OV.Torch.Onnx2 OV.Torch.Spec OV.Torch.Spec2 OV.Torch.Aten OV.Torch.Aten2
               OV.Torch.ShapeProofs OV.Torch.DiagProofs OV.Torch.Examples2.
Import ListNotations.
Local Open Scope Z_scope.

(* output shape, every rank / extent (>= 0) / offset / dim pair incl. negative dims: whenever torch.diagonal accepts *)
Theorem C08_diagonal_shape : forall s offset dim1 dim2 out,
  shape_ok s ->
  torch_diagonal_shape s offset dim1 dim2 = Some out -> aten_diagonal_shape s offset dim1 dim2 = Some out.
Proof. exact diagonal_shape_correct. Qed.
Print Assumptions C08_diagonal_shape.

(* selected elements: on every n1 x n2 integer matrix (one matrix of the batch of the transposed tensor), every offset *)
Theorem C08_diagonal_elements : forall m n2 offset,
  0 <= n2 -> (forall row, In row m -> zlen row = n2) ->
  aten_diag_matrix m n2 offset = torch_diag_matrix m n2 offset.
Proof. exact diag_matrix_correct. Qed.
Print Assumptions C08_diagonal_elements.

(* identical dims (after wrapping) are refused while tracing, as torch refuses them *)
Theorem C08_diagonal_refuses : forall s offset dim1 dim2,
  0 < zlen s -> torch_diagonal_shape s offset dim1 dim2 = None ->
  - zlen s <= dim1 < zlen s -> - zlen s <= dim2 < zlen s ->
  aten_diagonal_shape s offset dim1 dim2 = None.
Proof. exact diagonal_refuses. Qed.
Print Assumptions C08_diagonal_refuses.

(* the repaired function (proposed_fixes/C08_diagonal_where_mask.diff: Where(mask, x, 0) instead of Mul) selects the same elements *)
Theorem C08_diagonal_elements_fixed : forall m n2 offset,
  0 <= n2 -> (forall row, In row m -> zlen row = n2) ->
  aten_diag_matrix_fixed m n2 offset = torch_diag_matrix m n2 offset.
Proof. exact diag_matrix_fixed_correct. Qed.
Print Assumptions C08_diagonal_elements_fixed.
