(* C07 property theorems, fourth file: patterns with SEVERAL OUTPUT NODES and the order of the container.
   Model: OV.Rewrite.Multi -- the generalised application (mask over the whole node list, insertion point = the visited
   output node, wherever it sits among the matched nodes), the order rule rsort (= onnx_ir Graph.sort run by
   RewriteRuleSet.apply_to_model after such rules, fix ce3f130: Kahn from the sinks, largest position first, reversed; a
   nested graph's reads counted as reads of the node holding it).  Tie (harness/c07.py): every splice of the generated
   multi-output rule families is replayed through run_mevents / check_state_m (node list, imports, initializers,
   functions, metadata = the container the sweep ended with); multi_order_pass is evaluated on it; every Graph.sort() the
   rewriter runs is compared with rsort_graph (check_sort).
   Statements only, each closed by `exact`; Print Assumptions beneath.

   Not covered: that the evaluation of the container is unchanged by a generalised application followed by the sort (the
   semantic theorems of Props/C07.v are for single-root applications; equivalence of multi-output rewrites is observed on
   onnxruntime / onnx.reference); the interplay of onnx_ir's one global queue with nested graphs (stated in Multi.v; counted
   by the tie); the hypothesis `sep` of the completeness / identity theorems is a Prop (automatic for lists without nested
   graphs: C07_flat_lists_separated; for token graphs it says no name is defined at two nesting levels). *)
From Coq Require Import List String ZArith Bool Permutation.
Require Import OV.Graph.Syntax OV.Graph.Names OV.Rewrite.Apply OV.Rewrite.Order OV.Rewrite.Multi OV.Rewrite.MultiProofs.
Import ListNotations.

(* the generalised application is an extension: on a single-root application it is apply_nodes *)
Theorem C07_multi_extends_single : forall a ns, app_wf a ns = true -> apply_multi (of_app a) ns = apply_nodes a ns.
Proof. exact apply_multi_of_app. Qed.
Print Assumptions C07_multi_extends_single.

(* for every host list, mask, insertion point and replacement: the list the rewriter leaves after inserting the replacement
   behind the visited output node, removing (or keeping) the matched nodes and sorting is topologically ordered and holds
   exactly the spliced nodes.  multi_order_okb: the replacement reads only visible / surviving / its own names, and a name
   of a matched node that a surviving node still reads is provided *)
Theorem C07_multi_output_insert_topological : forall vis m ns ns' l,
  topo_nodes vis ns = true -> multi_order_okb vis m ns = true ->
  apply_multi m ns = Some ns' -> rsort ns' = Some l ->
  topo_nodes vis l = true /\ Permutation ns' l.
Proof. exact multi_output_insert_topological. Qed.
Print Assumptions C07_multi_output_insert_topological.

(* several such applications in one pass (the list is NOT ordered in between), one sort at the end, as apply_to_model does *)
Theorem C07_multi_pass_then_sort_topological : forall vis l ns ns' r,
  topo_nodes vis ns = true -> multi_order_all vis l ns = true -> apply_multis l ns = Some ns' -> rsort ns' = Some r ->
  topo_nodes vis r = true /\ Permutation ns' r.
Proof. exact multi_pass_then_sort_topological. Qed.
Print Assumptions C07_multi_pass_then_sort_topological.

(* the invariant behind it: a closed list (no node reads a name nobody provides) stays closed *)
Theorem C07_multi_application_keeps_closed : forall vis m ns ns',
  closedb vis ns = true -> multi_order_okb vis m ns = true -> apply_multi m ns = Some ns' -> closedb vis ns' = true.
Proof. exact apply_multi_closed. Qed.
Print Assumptions C07_multi_application_keeps_closed.

(* the order rule: whatever it returns for a closed list is an ordered permutation *)
Theorem C07_order_rule_ordered : forall vis ns l, closedb vis ns = true -> rsort ns = Some l ->
  topo_nodes vis l = true /\ Permutation ns l.
Proof. exact rsort_ordered. Qed.
Print Assumptions C07_order_rule_ordered.

(* hypotheses satisfiable, both insertion points of the two-output pattern (Neg(v), Abs(v)): visited at the first output node
   the replacement lands in order; visited at the second it lands behind a consumer and the sort repairs it *)
Theorem C07_multi_insert_example :
  topo_nodes ["v"%string] ex_m_nodes = true /\
  multi_order_okb ["v"%string] ex_m_app ex_m_nodes = true /\ apply_multi ex_m_app ex_m_nodes = Some ex_m_spliced /\
  rsort ex_m_spliced = Some ex_m_spliced /\
  multi_order_okb ["v"%string] ex_m_app2 ex_m_nodes = true /\ apply_multi ex_m_app2 ex_m_nodes = Some ex_m_spliced2 /\
  topo_nodes ["v"%string] ex_m_spliced2 = false /\ rsort ex_m_spliced2 = Some ex_m_sorted2 /\
  topo_nodes ["v"%string] ex_m_sorted2 = true.
Proof. exact ex_multi_insert. Qed.
Print Assumptions C07_multi_insert_example.

(* completes C07_sort_ordered_partial (Props/C07.v) for the forward stable sort of Rewrite/Order.v: it succeeds exactly when
   an ordered arrangement of the list exists, and then returns one *)
Theorem C07_sort_ordered : forall vis ns,
  (exists l', Permutation ns l' /\ topo_nodes vis l' = true) <->
  (exists l, stable_sort (List.length ns) vis ns = Some l /\ topo_nodes vis l = true /\ Permutation ns l).
Proof. exact stable_sort_iff. Qed.
Print Assumptions C07_sort_ordered.

(* the order rule of the implementation (rsort): it leaves an ordered list unchanged ("the sort is stable, sorted graphs are
   unchanged") and accepts every list that can be ordered at all, returning an ordered permutation -- for lists with unique
   names (outputs, visible names) in which a name of the list that a node mentions is needed by that node *)
Theorem C07_order_rule_identity : forall vis ns,
  topo_nodes vis ns = true -> NoDup (defs_nodes ns ++ vis) -> sep ns -> rsort ns = Some ns.
Proof. exact rsort_sorted_id. Qed.
Print Assumptions C07_order_rule_identity.

Theorem C07_order_rule_complete : forall vis ns l', Permutation ns l' -> topo_nodes vis l' = true ->
  NoDup (defs_nodes ns ++ vis) -> sep ns ->
  exists l, rsort ns = Some l /\ topo_nodes vis l = true /\ Permutation ns l.
Proof. exact rsort_complete. Qed.
Print Assumptions C07_order_rule_complete.

Theorem C07_flat_lists_separated : forall ns,
  forallb (fun n => match n_subs n with [] => true | _ => false end) ns = true -> sep ns.
Proof. exact flat_sep. Qed.
Print Assumptions C07_flat_lists_separated.

Theorem C07_order_rule_hypotheses_example :
  topo_nodes ["v"%string] ex_m_spliced = true /\ NoDup (defs_nodes ex_m_spliced ++ ["v"%string]) /\ sep ex_m_spliced /\
  NoDup (defs_nodes ex_m_spliced2 ++ ["v"%string]) /\ sep ex_m_spliced2.
Proof. exact ex_order_rule_hyps. Qed.
Print Assumptions C07_order_rule_hypotheses_example.
