#!/venv/bin/python
"""Regenerate the marked tables of DESIGN.md section 10 from the files that hold the facts:
  theorem-table   <- coq/Props/*.v
  findings-table  <- known_findings.json (+ git log of /repo for the fix: commits)
  seed-table      <- seeded/*/meta.json
usage: tools/design_tables.py   (rewrites /verif/DESIGN.md in place)"""
import glob, json, os, re, subprocess, collections
V = "/verif"

def strip_comments(t):
    out, depth, i = [], 0, 0
    while i < len(t):
        if t.startswith("(*", i): depth += 1; i += 2; continue
        if t.startswith("*)", i) and depth: depth -= 1; i += 2; continue
        if not depth: out.append(t[i])
        i += 1
    return "".join(out)

def theorem_table():
    rows = ["| property | files in coq/Props | theorems | of which `_refuted` | of which `_partial` | `Definition .._full : Prop` kept visible |", "|---|---|---|---|---|---|"]
    tot = 0
    for n in range(1, 21):
        pid = f"C{n:02d}"
        files = sorted(glob.glob(f"{V}/coq/Props/{pid}.v") + glob.glob(f"{V}/coq/Props/{pid}_*.v"))
        th, ref, par, full = [], 0, 0, 0
        for f in files:
            src = strip_comments(open(f).read())
            names = re.findall(r"\b(?:Theorem|Lemma|Corollary)\s+([A-Za-z0-9_']+)", src)
            th += names
            ref += sum(1 for x in names if "refuted" in x)
            par += sum(1 for x in names if "partial" in x)
            full += len(re.findall(r"\bDefinition\s+[A-Za-z0-9_']*_full\b", src))
        tot += len(th)
        rows.append(f"| {pid} | {len(files)} | {len(th)} | {ref} | {par} | {full} |")
    rows.append(f"| all | | {tot} | | | |")
    return "\n".join(rows)

def findings_table():
    k = json.load(open(f"{V}/known_findings.json"))["findings"]
    log = subprocess.run(["git", "-C", "/repo", "log", "--format=%h %s", "--grep=^fix:"], capture_output=True, text=True).stdout.strip().splitlines()
    subj = {l.split()[0]: l.split(" ", 1)[1] for l in log}
    by = collections.defaultdict(lambda: {"fixed": set(), "known": []})
    for e in k:
        if e["status"] == "fixed": by[e["property"]]["fixed"].add(e.get("commit", "?"))
        else: by[e["property"]]["known"].append(e["key"])
    rows = ["| property | `fix:` commits in /repo (hash: subject) | known findings (keys) |", "|---|---|---|"]
    for n in range(1, 21):
        pid = f"C{n:02d}"; b = by[pid]
        fx = "<br>".join(f"`{h}` {subj.get(h, '')[5:]}" for h in sorted(b["fixed"], key=lambda h: list(subj).index(h) if h in subj else 0)) or "-"
        kn = b["known"]
        kn_s = (f"{len(kn)}: " + ", ".join(f"`{x}`" for x in kn[:6]) + (" ..." if len(kn) > 6 else "")) if kn else "-"
        rows.append(f"| {pid} | {fx} | {kn_s} |")
    rows.append(f"\n{len(subj)} `fix:` commits in total; {sum(len(b['known']) for b in by.values())} known-finding keys "
                f"(plus the C08 sweep file corpus/C08/sweep_baseline.json).")
    return "\n".join(rows)

def seed_table():
    rows = ["| seed | file(s) | what the change breaks / needs | confirmed | quick check | first reported key |", "|---|---|---|---|---|---|"]
    det = miss = 0
    for d in sorted(glob.glob(f"{V}/seeded/*/")):
        sid = os.path.basename(d.rstrip("/"))
        m = json.load(open(d + "meta.json")) if os.path.exists(d + "meta.json") else {}
        cr = m.get("check_result") or {}
        res = cr.get("quick") or cr.get("thorough") or {}
        keys = [l.strip()[1:].split(": ")[0] for l in res.get("lines", []) if l.startswith("  (")]
        verdict = "not run"
        if res:
            if res.get("detected"):
                verdict = "DETECTED" + ("" if res.get("with_input") else " (no-failing-input-found)"); det += 1
            else:
                verdict = "MISSED"; miss += 1
        files = ", ".join(os.path.basename(f) for f in m.get("files_changed", []))
        rows.append(f"| {sid} | {files} | {m.get('summary','')[:150].replace('|','/').replace(chr(10),' ')}... | "
                    f"{'yes' if m.get('confirmation',{}).get('confirmed') else 'no'} | {verdict} | {(keys[0] if keys else '')[:80]} |")
    rows.append(f"\n{det} detected, {miss} missed of {det+miss} run.")
    return "\n".join(rows)

def built_notes():
    """notes/built.md (the condensed per-property reports of the builders) with its headings demoted two levels."""
    out = []
    for l in open(f"{V}/notes/built.md").read().splitlines():
        if l.startswith("#"):
            l = "##" + l if not l.startswith("# ") else "#### " + l[2:]
        out.append(l)
    return "\n".join(out)

def main():
    p = f"{V}/DESIGN.md"; s = open(p).read()
    for name, fn in (("theorem-table", theorem_table), ("findings-table", findings_table), ("seed-table", seed_table), ("built-notes", built_notes)):
        b, e = f"<!-- BEGIN {name} -->", f"<!-- END {name} -->"
        if b in s and e in s:
            s = s[:s.index(b) + len(b)] + "\n" + fn() + "\n" + s[s.index(e):]
    open(p, "w").write(s)

if __name__ == "__main__":
    main()
