"""C05 family: _fuse_batchnorm.py (fuse_batchnorm_into_conv / conv_transpose / gemm).

Model coq/Rules/BatchNorm.v, proofs BatchNormProofs.v (folding identity over an arbitrary field, Gemm error term,
axis / group index arithmetic), property theorems Props/C05_batchnorm.v.
Correspondence: the rule set applied to generated hosts; fired? and the *exact* content of the fused weight and bias
initializers are compared inside Coq (rational arithmetic) with BatchNorm.bn_rule (as read / repaired).  Parameters are
small integers and sqrt(var+eps) a power of two, so float32 results are exact rationals.
Direct oracle: host vs rewritten on onnxruntime and onnx.reference (3 inputs, rtol 1e-4 / atol 1e-5).
"""
from __future__ import annotations

import math
from fractions import Fraction

import numpy as np

from harness import c05_b_util as U
from harness.common import cbool, clist, copt, cz

FAM = "batchnorm"
KIND = {"Conv": "KConv", "ConvTranspose": "KConvT", "Gemm": "KGemm"}


def _instance(rng, i):
    kind = ("Conv", "ConvTranspose", "Gemm")[i % 3]
    inst = dict(kind=kind)
    miss = rng.choice(["none"] * 7 + ["w_constant_node", "bn_param_constant_node", "w_graph_input", "w_shared", "inbound_second_consumer", "b_shared"])
    inst["miss"] = miss
    inst["training"] = rng.random() < 0.15
    inst["eps"] = rng.choice([0.0, 0.25, 0.25, "default"])
    inst["bias"] = rng.random() < 0.6
    if miss == "b_shared":
        inst["bias"] = True
    if kind in ("Conv", "ConvTranspose"):
        n = rng.choice([1, 2, 2])
        g = rng.choice([1, 1, 2, 3] if kind == "ConvTranspose" else [1, 1, 2])
        cpg = rng.choice([1, 2])
        opg = rng.choice([1, 2, 3])
        inst.update(n=n, group=g, kernel=[rng.choice([1, 2, 3]) for _ in range(n)], cin=g * cpg, cout=g * opg, cpg=cpg, opg=opg,
                    xs=[rng.choice([4, 5]) for _ in range(n)], strides=rng.choice([None, [rng.choice([1, 2]) for _ in range(n)]]),
                    pads=rng.choice([None, [rng.choice([0, 1]) for _ in range(2 * n)]]))
    else:
        inst.update(M=rng.choice([1, 2, 3]), K=rng.choice([1, 2, 3]), N=rng.choice([1, 2, 4]), transA=rng.random() < 0.3, transB=rng.random() < 0.5,
                    alpha=rng.choice([None, 1.0, 2.0, 0.5]), gbeta=rng.choice([None, 1.0, 1.0, 2.0, 0.5]),
                    cshape=rng.choice(["N", "1N", "MN", "scalar", "M1"]))
        inst["cout"] = inst["N"]
    return inst


def _host(inst, rs):
    kind = inst["kind"]
    C = inst["cout"]
    nodes, inits, inputs, outputs = [], [], [], []
    ri = lambda *s: rs.randint(-3, 4, s).astype(np.float32)
    if kind == "Conv":
        xshape = [2, inst["cin"]] + inst["xs"]
        W = ri(inst["cout"], inst["cpg"], *inst["kernel"])
    elif kind == "ConvTranspose":
        xshape = [2, inst["cin"]] + inst["xs"]
        W = ri(inst["cin"], inst["opg"], *inst["kernel"])
    else:
        xshape = [inst["K"], inst["M"]] if inst["transA"] else [inst["M"], inst["K"]]
        W = ri(inst["N"], inst["K"]) if inst["transB"] else ri(inst["K"], inst["N"])
    inputs.append(("x", "float32", xshape))
    B = None
    if inst["bias"]:
        if kind == "Gemm":
            shp = {"N": (inst["N"],), "1N": (1, inst["N"]), "MN": (inst["M"], inst["N"]), "scalar": (), "M1": (inst["M"], 1)}[inst["cshape"]]
            B = ri(*shp) if shp else np.array(rs.randint(-3, 4), np.float32)
        else:
            B = ri(C)
    gamma = rs.choice([-2, -1, 1, 2, 3], C).astype(np.float32)
    beta = ri(C)
    mean = ri(C)
    eps = inst["eps"]
    if eps == "default":
        var = rs.choice([0.5, 1.0, 2.0, 3.0], C).astype(np.float32)
    elif eps == 0.0:
        var = rs.choice([0.25, 1.0, 4.0, 16.0], C).astype(np.float32)
    else:
        var = rs.choice([0.0, 0.75, 3.75], C).astype(np.float32)

    def const(name, arr, as_node=False, also_input=False):
        if as_node:
            nodes.append(U.const_node(name, arr))
        else:
            inits.append(U.init(name, arr))
            if also_input:
                inputs.append((name, "float32", list(arr.shape)))
        return name

    miss = inst["miss"]
    ins = ["x", const("w", W, as_node=(miss == "w_constant_node"), also_input=(miss == "w_graph_input"))]
    if B is not None:
        ins.append(const("b", B))
    attrs = {}
    if kind in ("Conv", "ConvTranspose"):
        if inst["group"] != 1:
            attrs["group"] = inst["group"]
        if inst["strides"] is not None:
            attrs["strides"] = inst["strides"]
        if inst["pads"] is not None and kind == "Conv":
            attrs["pads"] = inst["pads"]
    else:
        if inst["transA"]:
            attrs["transA"] = 1
        if inst["transB"]:
            attrs["transB"] = 1
        elif inst.get("M", 0) % 2 == 0 or inst.get("K", 0) % 2 == 0:
            attrs["transB"] = 0             # the attribute explicitly at its default
        if inst["alpha"] is not None:
            attrs["alpha"] = inst["alpha"]
        if inst["gbeta"] is not None:
            attrs["beta"] = inst["gbeta"]
    nodes.append(U.node(kind, ins, ["c"], **attrs))
    bn_in = ["c", const("gamma", gamma, as_node=(miss == "bn_param_constant_node")), const("beta", beta), const("mean", mean), const("var", var)]
    battrs = {}
    if eps != "default":
        battrs["epsilon"] = float(eps)
    bouts = ["y"]
    if inst["training"]:
        battrs["training_mode"] = 1
        bouts += ["running_mean", "running_var"]
    nodes.append(U.node("BatchNormalization", bn_in, bouts, **battrs))
    rank = len(xshape) if kind != "Gemm" else 2
    outputs.append(("y", "float32", [f"d{k}" for k in range(rank)]))
    if miss == "w_shared":
        nodes.append(U.node(kind, ["x", "w"], ["y2"], **attrs))
        outputs.append(("y2", "float32", [f"e{k}" for k in range(rank)]))
    if miss == "b_shared":
        nodes.append(U.node("Neg", ["b"], ["y2"]))
        outputs.append(("y2", "float32", [f"e{k}" for k in range(B.ndim)]))
    if miss == "inbound_second_consumer":
        nodes.append(U.node("Neg", ["c"], ["y2"]))
        outputs.append(("y2", "float32", [f"e{k}" for k in range(rank)]))
    nodes.sort(key=lambda nd: 0 if nd.op_type == "Constant" else 1)
    m = U.model(nodes, inputs, outputs, inits=inits)
    return m, dict(W=W, B=B, gamma=gamma, beta=beta, mean=mean, var=var, xshape=xshape)


def _lit(inst, t):
    C = inst["cout"]
    eps = 0.0 if inst["eps"] == "default" else inst["eps"]
    sig = []
    for v in t["var"]:
        r = math.isqrt(int(round((float(v) + eps) * 16)))          # (var+eps)*16 is a perfect square by construction
        sig.append(Fraction(r, 4))
    B = t["B"]
    if B is not None:
        if inst["kind"] == "Gemm":
            B = np.broadcast_to(B, np.broadcast_shapes(B.shape, (C,)))
        B = [Fraction(float(v)) for v in np.asarray(B).reshape(-1)]
    q = lambda arr: U.cql([Fraction(float(v)) for v in np.asarray(arr).reshape(-1)])
    miss = inst["miss"]
    return ("{| bk := %s; w_shape := %s; w := %s; bias := %s; gamma := %s; beta := %s; mean := %s; sigma := %s; group := %s; transB := %s; "
            "gemm_beta_one := %s; training := %s; all_initializers := %s; none_graph_input := %s; w_b_private := %s |}") % (
        KIND[inst["kind"]], U.czl(t["W"].shape), q(t["W"]), copt(B, U.cql), q(t["gamma"]), q(t["beta"]), q(t["mean"]), U.cql(sig),
        cz(inst.get("group", 1)), cbool(inst.get("transB", False)), cbool(inst.get("gbeta") in (None, 1.0)), cbool(inst["training"]),
        cbool(miss not in ("w_constant_node", "bn_param_constant_node")), cbool(miss != "w_graph_input"), cbool(miss not in ("w_shared", "b_shared")))


def _defect(inst):
    if inst["miss"] != "none":
        return None
    if inst["training"]:
        return "training-mode"
    if inst["kind"] == "Gemm" and inst.get("gbeta") not in (None, 1.0):
        return "gemm-beta"
    return None


def family(ctx):
    from onnxscript.rewriter.rules.common import _fuse_batchnorm as mod
    ctx.assume("batchnorm: BatchNormalization inference semantics (x-mean)/sqrt(var+eps)*scale+B per channel (axis 1); Conv/ConvTranspose/Gemm are "
               "linear in the weights per output channel; float rounding of the recomputed constants is outside the field identity "
               "(oracle tolerance rtol 1e-4 / atol 1e-5)")
    rng = ctx.rng
    n_inst = 120 if ctx.tier == "quick" else 1200
    cases, meta = [], []
    fired = skipped_inexact = 0
    corpus = [dict(kind="Conv", miss="none", training=True, eps=0.0, bias=False, n=2, group=1, kernel=[3, 3], cin=2, cout=3, cpg=2, opg=3, xs=[5, 5], strides=None, pads=None),
              dict(kind="Gemm", miss="none", training=False, eps=0.0, bias=True, M=4, K=3, N=3, transA=False, transB=False, alpha=None, gbeta=2.0, cshape="N", cout=3),
              dict(kind="ConvTranspose", miss="none", training=False, eps=0.25, bias=True, n=2, group=2, kernel=[2, 3], cin=4, cout=6, cpg=2, opg=3, xs=[4, 4], strides=[2, 1], pads=None)]
    for i in range(n_inst + len(corpus)):
        inst = corpus[i] if i < len(corpus) else _instance(rng, i)
        rs = np.random.RandomState(rng.randrange(1 << 30))
        host, t = _host(inst, rs)
        if not U.host_ok(host):
            ctx.tie_broken("harness", f"{FAM}", f"generated host is not checker-valid: {inst}")
            continue
        if inst["training"]:
            new, exc, _cnt = U.apply_ruleset(host, mod.rules)      # see U.apply_ruleset: isolate the rule from rewrite()'s clean-up
        else:
            new, exc = U.apply(host, mod.rules)
        d = _defect(inst)
        ctx.case((inst["kind"], inst["miss"], inst["training"], inst["eps"] == "default", inst["bias"], inst.get("group"), inst.get("transB"),
                  inst.get("gbeta") in (None, 1.0), inst.get("cshape") if inst["bias"] else None))
        if exc is not None:
            U.report(ctx, FAM, f"raises:{type(exc).__name__}", "rule set raised", {"instance": inst}, [repr(exc)[:200]])
            continue
        did = not U.nodes_of(new, "BatchNormalization")
        obs = None
        if did:
            fired += 1
            nd = [x for x in new.graph.node if x.op_type == inst["kind"]][0]
            c = U.consts(new)
            if len(nd.input) < 3 or nd.input[1] not in c or nd.input[2] not in c:
                ctx.tie_broken("correspondence", FAM, f"fused node without constant weight/bias: {list(nd.input)}")
                continue
            fw, fb = c[nd.input[1]], c[nd.input[2]]
            if fw.shape != t["W"].shape:
                ctx.tie_broken("correspondence", FAM, f"fused weight shape {fw.shape} != {t['W'].shape}")
            obs = (fw, fb)
        feeds = [{"x": np.random.RandomState(300 + k).randint(-3, 4, t["xshape"]).astype(np.float32), "w": t["W"]} for k in range(3)]
        reasons, _ = U.oracle(host, new, feeds, exact=False)
        if reasons:
            kc = {"training-mode": "training-mode-not-checked", "gemm-beta": "gemm-beta-not-one"}.get(d, f"{inst['kind']}:{inst['miss']}")
            U.report(ctx, FAM, kc, f"BatchNormalization folded into {inst['kind']} changes the model",
                     {"instance": inst, "tensors": {k: (None if v is None else np.asarray(v).tolist()) for k, v in t.items() if k != "xshape"}}, reasons)
        if inst["miss"] == "inbound_second_consumer":      # matcher level: an interior value with an outside consumer
            if did:
                ctx.tie_broken("correspondence", FAM, f"fired although the inbound output has a second consumer: {inst}")
            continue
        if inst["eps"] == "default":
            skipped_inexact += 1            # sqrt(var + 1e-5) is not rational: oracle only
            if did != (inst["miss"] == "none"):
                if not (d and not did):
                    ctx.tie_broken("correspondence", FAM, f"fired={did} on {inst}")
            continue
        ol = None if obs is None else "(%s, %s)" % (U.cql([float(v) for v in obs[0].reshape(-1)]), U.cql([float(v) for v in obs[1].reshape(-1)]))
        cases.append(f"({_lit(inst, t)}, {copt(ol)})")
        meta.append(inst)
    ok, di, df, raw = U.eval_cases(ctx, ["OV.Rules.BatchNorm"], "bn_case", cases, "bn_dis", prelude="From Coq Require Import QArith.\n", chunk=150)
    if not ok:
        ctx.tie_broken("correspondence", f"{FAM}:model-evaluation", raw[-800:])
        return
    nbad, variant = U.settle(ctx, FAM, "rules", meta, di, df, _defect)
    ctx.sample({"family": FAM, "instance": meta[len(meta) // 3]})
    ctx.cover(batchnorm_instances=n_inst, batchnorm_fired=fired, batchnorm_exact_compared=len(cases), batchnorm_default_eps_oracle_only=skipped_inexact,
              batchnorm_variant=variant)
    ctx.obligation("correspondence batchnorm: fired? and exact fused weight/bias tensors = BatchNorm.bn_rule (as read or repaired) on every instance", nbad == 0)
