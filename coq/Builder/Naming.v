(* Model B of C18: the names GraphBuilder gives to values and nodes.

   Source modelled (pinned tree):
     _internal/builder.py  GraphBuilder._adapt_outputs (493-513), _generate_node_name (489-491),
                           _scope_name_parts/_qualify_value_name/_qualify_node_name (837-866),
                           call (704-749: same naming with the function's name as op_type)
     _internal/tape_builder.py  BuilderBase._adapt_outputs (281-302: explicit output names)
   No proofs in this file. *)
From Coq Require Import String List Bool Arith.
Require Import OV.Builder.Strings.
Import ListNotations.
Local Open Scope string_scope.

(* "<p1><sep><p2><sep>...<pn><sep>" over the non-empty scope names, "" when there are none *)
Definition scope_prefix (sep : string) (st : list string) : string :=
  match nonempty_parts st with
  | [] => ""
  | ps => join_with sep ps ++ sep
  end.

(* _qualify_value_name / _qualify_node_name *)
Definition qualify_value (st : list string) (name : string) : string := "v_" ++ scope_prefix "." st ++ name.
Definition qualify_node (st : list string) (name : string) : string := scope_prefix "/" st ++ name.

(* f"{op_type}_{count}" if op_type else f"{count}" *)
Definition base_name (op : string) (count : nat) : string :=
  if String.eqb op "" then dec count else op ++ "_" ++ dec count.

(* _adapt_outputs(outputs: int, op_type) with count = number of nodes of the current graph *)
Definition value_names (st : list string) (op : string) (count n : nat) : list string :=
  match n with
  | 1 => [qualify_value st (base_name op count)]
  | _ => map (fun i => qualify_value st (base_name op count ++ "_" ++ dec i)) (seq 0 n)
  end.

(* _adapt_outputs(outputs: Sequence[str]): each given name qualified *)
Definition explicit_names (st : list string) (names : list string) : list string :=
  map (qualify_value st) names.

(* _generate_node_name *)
Definition node_name (st : list string) (op : string) (count : nat) : string :=
  qualify_node st (op ++ "_node_" ++ dec count).

(* operator / function names made of letters only (every ONNX operator name; a hypothesis for
   function names) *)
Definition plain_op (op : string) : bool := nonempty op && all_chars is_letter op.

(* splitting at the last occurrence of a character (used to read the counter back from a name) *)
Fixpoint split_last (c : Ascii.ascii) (s : string) : option (string * string) :=
  match s with
  | EmptyString => None
  | String a t =>
    match split_last c t with
    | Some (b, af) => Some (String a b, af)
    | None => if Ascii.eqb a c then Some (EmptyString, t) else None
    end
  end.

Fixpoint last_char (s : string) : option Ascii.ascii :=
  match s with
  | EmptyString => None
  | String a EmptyString => Some a
  | String _ t => last_char t
  end.
