(* C10 -- correspondence cases for the repaired variants (Model2.v).  No proofs in this file. *)
From Coq Require Import ZArith List Bool String.
Import ListNotations.
Require Import OV.Gen.VersionTables OV.Version.Model OV.Version.Model2 OV.Version.Adapters OV.Version.Std.
Local Open Scope Z_scope.

(* _version_converter.convert_version(ir_model, t) on the variant (own, refuse) the harness probed *)
Definition run_case2 (own refuse : bool) (minchk : minvar) (fx : flags) (M : model) (t : Z) (o : observed) : bool :=
  agrees_m (convert_native2 own refuse minchk (std_adapt fx) supported_min supported_max big_fuel M t) o.
Fixpoint disagreeing2 (i : nat) (cs : list (bool * bool * minvar * flags * model * Z * observed)) : list nat :=
  match cs with
  | [] => []
  | (own, refuse, minchk, fx, M, t, o) :: r => (if run_case2 own refuse minchk fx M t o then [] else [i]) ++ disagreeing2 (S i) r
  end.
