(* C05, extended values for the constant-matching elementwise rules (_no_op.py) and the constant matcher itself
   (_matcher._match_constant / _ir_utils.is_singleton_value / numpy.isclose with their tolerance arguments).

     xq := QNaN | QNInf | QFin q | QPInf        q : Q, every finite float is a rational (rounding / overflow of the
                                                 arithmetic is outside the model)
   IEEE-754 arithmetic on the special values (inf * 0 = NaN, inf - inf = NaN, x / 0 = +-inf, 0 / 0 = NaN, ...), as
   measured on onnxruntime's Mul / Add / Sub / Div kernels by harness/c05_fam_xval.py.  Equality `xq_eq`: NaN equals
   NaN (same position), Qeq on finite values.  Signed zero: not in xq (numpy equality identifies -0.0 and +0.0);
   the sign of a zero result is modelled separately at the end of this file (`zs`), because x + 0 -> x changes it.
   No proofs in this file. *)
From Coq Require Import ZArith QArith Qabs List Bool String.
Import ListNotations.
Local Open Scope Q_scope.

Inductive xq := QNaN | QNInf | QFin (q : Q) | QPInf.

Definition xq_eq (a b : xq) : Prop :=
  match a, b with
  | QNaN, QNaN | QNInf, QNInf | QPInf, QPInf => True
  | QFin p, QFin q => p == q
  | _, _ => False
  end.
Definition xq_eqb (a b : xq) : bool :=
  match a, b with
  | QNaN, QNaN | QNInf, QNInf | QPInf, QPInf => true
  | QFin p, QFin q => Qeq_bool p q
  | _, _ => false
  end.

Definition sgn (q : Q) : comparison := (Qnum q ?= 0)%Z.
Definition xq_neg (a : xq) : xq :=
  match a with QNaN => QNaN | QNInf => QPInf | QPInf => QNInf | QFin q => QFin (- q) end.
(* infinity `i` scaled by the sign of a finite factor *)
Definition scale_inf (i : xq) (p : Q) : xq :=
  match sgn p with Eq => QNaN | Gt => i | Lt => xq_neg i end.

Definition xq_mul (a b : xq) : xq :=
  match a, b with
  | QNaN, _ => QNaN
  | _, QNaN => QNaN
  | QFin p, QFin q => QFin (p * q)
  | QFin p, QNInf => scale_inf QNInf p
  | QFin p, QPInf => scale_inf QPInf p
  | QNInf, QFin p => scale_inf QNInf p
  | QPInf, QFin p => scale_inf QPInf p
  | QPInf, QPInf => QPInf
  | QNInf, QNInf => QPInf
  | QPInf, QNInf => QNInf
  | QNInf, QPInf => QNInf
  end.
Definition xq_add (a b : xq) : xq :=
  match a, b with
  | QNaN, _ => QNaN
  | _, QNaN => QNaN
  | QFin p, QFin q => QFin (p + q)
  | QFin _, QNInf => QNInf
  | QFin _, QPInf => QPInf
  | QNInf, QFin _ => QNInf
  | QPInf, QFin _ => QPInf
  | QPInf, QPInf => QPInf
  | QNInf, QNInf => QNInf
  | QPInf, QNInf => QNaN
  | QNInf, QPInf => QNaN
  end.
Definition xq_sub (a b : xq) : xq := xq_add a (xq_neg b).
Definition xq_div (a b : xq) : xq :=
  match a, b with
  | QNaN, _ => QNaN
  | _, QNaN => QNaN
  | QFin p, QFin q =>
      if Qeq_bool q 0 then match sgn p with Eq => QNaN | Gt => QPInf | Lt => QNInf end     (* divisor +0 *)
      else QFin (p / q)
  | QFin _, QNInf => QFin 0
  | QFin _, QPInf => QFin 0
  | QNInf, QFin q => match sgn q with Lt => QPInf | _ => QNInf end
  | QPInf, QFin q => match sgn q with Lt => QNInf | _ => QPInf end
  | _, _ => QNaN
  end.

(* --- the constant matcher ----------------------------------------------------------------------------- *)
Definition qmax (a b : Q) : Q := if Qle_bool a b then b else a.
(* math.isclose(c, t, rel_tol, abs_tol): c == t or |c - t| <= max(rel_tol * max(|c|, |t|), abs_tol), c and t finite *)
Definition isclose (c t rel abs : Q) : bool := Qle_bool (Qabs (c - t)) (qmax (rel * qmax (Qabs c) (Qabs t)) abs).
(* numpy.isclose(c, t, rtol, atol): |c - t| <= atol + rtol * |t| *)
Definition np_isclose (c t rel abs : Q) : bool := Qle_bool (Qabs (c - t)) (abs + rel * Qabs t).
(* a NaN or infinite constant never matches a finite pattern constant (math.isclose(inf, 1) = math.isclose(nan, 1) = False) *)
Definition match_const (numpy_style : bool) (rel abs t : Q) (c : xq) : bool :=
  match c with QFin q => if numpy_style then np_isclose q t rel abs else isclose q t rel abs | _ => false end.

(* --- _no_op.py ------------------------------------------------------------------------------------------ *)
Inductive op := MulR | MulL | AddR | AddL | SubR | DivR.     (* x*c, c*x, x+c, c+x, x-c, x/c *)
Definition target (o : op) : Q := match o with MulR | MulL | DivR => 1 | _ => 0 end.
Definition lhs (o : op) (c x : xq) : xq :=
  match o with
  | MulR => xq_mul x c | MulL => xq_mul c x
  | AddR => xq_add x c | AddL => xq_add c x
  | SubR => xq_sub x c
  | DivR => xq_div x c
  end.
(* the rule fires iff the 0-d constant matches with the tolerances written in the source (regenerated: Gen/C05Consts.v) *)
Definition fires (rel abs : Q) (o : op) (rank : nat) (c : xq) : bool := Nat.eqb rank 0 && match_const false rel abs (target o) c.

(* --- the table of pattern constants (rows generated into Gen/C05Consts.v from the source) ---------------- *)
Inductive ckind := KPattern        (* _pattern_ir.Constant in a target pattern: math.isclose(rel_tol, abs_tol) *)
                 | KPatternInt     (* the same, on an operand that the operator schema types as an integer tensor *)
                 | KSingleton      (* _ir_utils.is_singleton_value(v, float, rtol=..): math.isclose(rel_tol=rtol, abs_tol=0) *)
                 | KSingletonInt   (* is_singleton_value(v, int): `expected == scalar` *)
                 | KNumpyIsclose   (* numpy.isclose(a, b[, rtol, atol]) in a check *)
                 | KMathIsclose.   (* math.isclose(a, b[, rel_tol, abs_tol]) in a check *)
Record centry := { ce_file : string; ce_line : Z; ce_kind : ckind; ce_value : Q; ce_rel : Q; ce_abs : Q }.
Definition ce_exact (e : centry) : bool := Qeq_bool (ce_rel e) 0 && Qeq_bool (ce_abs e) 0.
Definition ce_matches (e : centry) (c : xq) : bool :=
  match ce_kind e with
  | KNumpyIsclose => match_const true (ce_rel e) (ce_abs e) (ce_value e) c
  | _ => match_const false (ce_rel e) (ce_abs e) (ce_value e) c
  end.

(* an integer operand: tolerances up to (2e-5, 1e-3) -- the defaults 1e-5 / 1e-8 of _pattern_ir.Constant are below --
   cannot confuse two integers when the target is small *)
Definition rel_bound : Q := 1 # 50000.
Definition abs_bound : Q := 1 # 1000.
Definition ce_int_ok (e : centry) : bool :=
  match ce_kind e with
  | KPatternInt =>
      Qle_bool 0 (ce_rel e) && Qle_bool (ce_rel e) rel_bound && Qle_bool (ce_abs e) abs_bound &&
      Pos.eqb (Qden (ce_value e)) 1 && (Z.abs (Qnum (ce_value e)) <=? 1000)%Z
  | _ => false
  end.
Definition ce_ok (e : centry) : bool := ce_exact e || ce_int_ok e.
(* the one place where an approximate test is shipped (finding C05:hardswish:from-hardsigmoid:approximate-alpha):
   HardSwishFusionFromHardSigmoid.check uses numpy.isclose(alpha, 1/6) and numpy.isclose(beta, 0.5) *)
Definition ce_listed (e : centry) : bool :=
  match ce_kind e with
  | KNumpyIsclose => String.eqb (ce_file e) "rules/common/_fuse_hardswish.py"
  | _ => false
  end.

(* correspondence: (entry's tolerances, target, constant in the host, observed fired?) *)
Definition ccase := (bool * Q * Q * Q * xq * bool)%type.
Fixpoint idx_false {A} (f : A -> bool) (i : nat) (l : list A) : list nat :=
  match l with [] => [] | c :: t => (if f c then [] else [i]) ++ idx_false f (S i) t end.
Definition cdis (cs : list ccase) : list nat :=
  idx_false (fun '(np, rel, abs, t, c, obs) => Bool.eqb (match_const np rel abs t c) obs) 0 cs.
(* value stream: (op, c, x, onnxruntime's output of `x op c`) *)
Definition ncase := (op * xq * xq * xq)%type.
Definition ndis (cs : list ncase) : list nat := idx_false (fun '(o, c, x, obs) => xq_eqb (lhs o c x) obs) 0 cs.

(* --- the sign of a zero (IEEE-754 round-to-nearest) ------------------------------------------------------ *)
Inductive zs := PZ | NZ.                                  (* +0.0 / -0.0 *)
Definition zneg (a : zs) : zs := match a with PZ => NZ | NZ => PZ end.
Definition zadd (a b : zs) : zs := match a, b with NZ, NZ => NZ | _, _ => PZ end.      (* (-0) + (+0) = +0 *)
Definition zsub (a b : zs) : zs := zadd a (zneg b).
Definition zmul_pos (a : zs) : zs := a.                   (* zero times / divided by a positive number keeps its sign *)
(* an observer of the sign: 1 / z *)
Definition recip (a : zs) : xq := match a with PZ => QPInf | NZ => QNInf end.
(* x op c at x = a zero, c = the matched zero constant (either sign matches: -0.0 == 0) or 1 *)
Definition zlhs (o : op) (c x : zs) : zs :=
  match o with
  | MulR | MulL | DivR => zmul_pos x
  | AddR => zadd x c | AddL => zadd c x
  | SubR => zsub x c
  end.
