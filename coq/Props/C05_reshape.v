(* C05, Reshape-producing rules: ReshapeReshape, Flatten2Reshape, SqueezeReshape (_basic_rules.py),
   MaterializeReshapeShape (_materialize_reshape_shape.py): statements only.
   `resolve az insh s` is the ONNX Reshape target-shape resolution (0 = copy unless allowzero, one -1 inferred, 0 with -1 under
   allowzero invalid, ambiguous -1 on a zero product invalid); the row-major data is untouched by all operators involved. *)
From Coq Require Import ZArith List Bool.
Require Import OV.Rules.Reshape OV.Rules.ReshapeProofs.
Import ListNotations.
Open Scope Z_scope.

(* ReshapeReshape (partial in one respect): whenever the rule's decision procedure fuses, the single Reshape(x, s', allowzero')
   yields the shape of Reshape(Reshape(x, s1), new) for all x shapes, all s1, all allowzero combinations.
   `new` is the second shape after the annotated positive output dims were written into it; that this substitution keeps the
   second Reshape's meaning (truthful annotation) is the hypothesis `resolve az2 mid new = Some out` -- for an unannotated
   output `new` is the shape constant itself (next theorem) and nothing is assumed. *)
Theorem C05_reshape_reshape_partial : forall xs s1 az1 mid new az2 out s' az',
  resolve az1 xs s1 = Some mid -> nonneg mid = true ->
  resolve az2 mid new = Some out ->
  rr_decide new az2 = Some (s', az') ->
  resolve az' xs s' = Some out.
Proof. exact reshape_reshape_sound. Qed.
Print Assumptions C05_reshape_reshape_partial.

Theorem C05_reshape_reshape_unannotated : forall xs s1 az1 mid s2 az2 out s' az',
  resolve az1 xs s1 = Some mid -> nonneg mid = true ->
  resolve az2 mid s2 = Some out ->
  rr_decide (rr_new None s2) az2 = Some (s', az') ->
  resolve az' xs s' = Some out.
Proof. exact reshape_reshape_sound_unannotated. Qed.
Print Assumptions C05_reshape_reshape_unannotated.

(* Flatten2Reshape: sound for every rank, axis (negative too), partially symbolic annotation of input and output,
   on every input that has no zero-size dim *)
Theorem C05_flatten_to_reshape_nonzero : forall sh decl axis odecl ns a,
  positive sh = true ->
  real_axis (length sh) axis = Z.of_nat a -> (a <= length sh)%nat ->
  match decl with Some ds => truthful ds sh | None => True end ->
  match odecl with Some od => truthful od (flatten a sh) | None => True end ->
  fl_check decl axis odecl = Some ns ->
  resolve false sh ns = Some (flatten a sh).
Proof. exact flatten_sound. Qed.
Print Assumptions C05_flatten_to_reshape_nonzero.

(* ... and wrong on zero-size dims: findings C05:flatten2reshape:static-zero-dim / :symbolic-dim-zero-at-runtime *)
Theorem C05_flatten_to_reshape_zero_refuted : exists sh decl axis a ns,
  real_axis (length sh) axis = Z.of_nat a /\ (a <= length sh)%nat /\ truthful decl sh /\
  fl_check (Some decl) axis None = Some ns /\ resolve false sh ns <> Some (flatten a sh).
Proof. exact flatten_zero_refuted. Qed.
Print Assumptions C05_flatten_to_reshape_zero_refuted.

(* SqueezeReshape: Reshape(Squeeze(x), [-1]) = x for rank-1 x of every length (0 and 1 included) *)
Theorem C05_squeeze_reshape_1d : forall n, 0 <= n -> resolve false (squeeze_all [n]) [-1] = Some [n].
Proof. exact squeeze_reshape_sound. Qed.
Print Assumptions C05_squeeze_reshape_1d.

(* MaterializeReshapeShape: sound under the side condition of the proposed fix (no static 0 beside the symbolic dim) *)
Theorem C05_materialize_reshape_shape : forall insh od out news,
  mat_check false (Some od) = Some news -> mat_ok od = true ->
  truthful od out -> nonneg out = true -> prod out = prod insh ->
  resolve true insh news = Some out.
Proof. exact materialize_sound. Qed.
Print Assumptions C05_materialize_reshape_shape.

(* the shipped check lacks it: finding C05:materialize:zero-dim-with-inferred-dim *)
Theorem C05_materialize_reshape_shape_refuted : exists insh od out news,
  mat_check false (Some od) = Some news /\ truthful od out /\ nonneg out = true /\ prod out = prod insh /\
  resolve true insh news = None.
Proof. exact materialize_refuted. Qed.
Print Assumptions C05_materialize_reshape_shape_refuted.
