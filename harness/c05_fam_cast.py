"""C05 family: CastIdentity, CastCast (_basic_rules.py), cast_constant_of_shape(_without_value) (_cast_constant_of_shape.py).

Model: coq/Rules/Cast.v; theorems: coq/Props/C05_cast_scatter.v.
Correspondence: fired? of CastIdentity / CastCast over dtype triples == Cast.ci_check / cc_check; the value emitted by
cast_constant_of_shape for integer scalars (or the fact that the rule raised) == Cast.np_int_conv.  Direct oracle on both engines
with integer-exact data (ORT's own float64->float16 kernel rounds twice, so non-representable probes are judged on onnx.reference).
"""
from __future__ import annotations

import numpy as np

from harness import c05_basic_util as U
from harness import common
from harness.common import clist, copt, cz

RANGES = {"uint8": (0, 255), "int8": (-128, 127), "int32": (-2 ** 31, 2 ** 31 - 1), "int64": (-2 ** 63, 2 ** 63 - 1)}


def _root(e):
    while e.__cause__ is not None:
        e = e.__cause__
    return e


def family(ctx):
    from onnx import helper
    from onnxscript.rewriter.rules.common import _basic_rules as br
    from onnxscript.rewriter.rules.common import _cast_constant_of_shape as mod

    # ------------------------------------------------------------------ CastIdentity
    dts = ["float32", "int64", "float16", "bool", "int32", "float64", "uint8"]
    ci_cases, ci_meta = [], []
    for i, d in enumerate(dts):
        for j, to in enumerate(dts):
            if ctx.tier == "quick" and d != to and (i + j) % 2:
                continue
            for known in (True, False):
                nodes, data = [], "x"
                if not known:
                    nodes.append(helper.make_node("Identity", ["x"], ["u"]))
                    data = "u"
                nodes.append(helper.make_node("Cast", [data], ["y"], to=U.T(to)))
                host = U.model(nodes, [("x", d, ["N"])], [("y", to, ["N"])])
                new = U.apply_rule(host, [br.no_op_cast_rule])
                fired = "Cast" not in U.ops(new)
                ci_cases.append(f"({copt(int(U.T(d)) if known else None, cz)}, {cz(int(U.T(to)))}, {common.cbool(fired)})")
                ci_meta.append((d, to, known, fired))
                ctx.case(("cast-identity", d == to, known, fired))
                if fired:
                    U.oracle(ctx, "C05:cast:CastIdentity:differs", f"Cast({d} -> {to})", host, new,
                             [{"x": U.int_data([n], d, k)} for k, n in ((0, 5), (1, 4), (2, 0))], {"family": "cast", "rule": "CastIdentity", "from": d, "to": to})

    # ------------------------------------------------------------------ CastCast
    cc_cases, cc_meta = [], []
    t1s = ["float32", "float64", "float16", "int64", "int32", "bool", "uint8"]
    t2s = ["float32", "float64", "float16", "int64"]
    t3s = ["float16", "bfloat16", "float32", "int64"]
    for i, t1 in enumerate(t1s):
        for t2 in t2s:
            for t3 in t3s:
                host = U.model([helper.make_node("Cast", ["x"], ["t"], to=U.T(t2)), helper.make_node("Cast", ["t"], ["y"], to=U.T(t3))],
                               [("x", t1, ["N"])], [("y", t3, ["N"])])
                new = U.apply_rule(host, [br.cast_cast_rule])
                fired = len(U.node_of(new, "Cast")) == 1
                cc_cases.append(f"({cz(int(U.T(t2)))}, {cz(int(U.T(t3)))}, {common.cbool(fired)})")
                cc_meta.append((t1, t2, t3, fired))
                ctx.case(("cast-cast", t1, t2, t3, fired))
                if fired:
                    if U.attr(U.node_of(new, "Cast")[0], "to") != int(U.T(t3)):
                        ctx.tie_broken("correspondence", "cast:CastCast", f"{t1}->{t2}->{t3}: remaining Cast has to={U.attr(U.node_of(new, 'Cast')[0], 'to')}")
                    feeds = [{"x": U.int_data([n], t1, k)} for k, n in ((0, 6), (1, 4), (2, 0))]
                    U.oracle(ctx, f"C05:castcast:{t1}-{t2}-{t3}:differs", f"Cast(Cast({t1} -> {t2}) -> {t3}) on small integers", host, new, feeds,
                             {"family": "cast", "rule": "CastCast", "types": [t1, t2, t3]})
    # double rounding probe: a float64 that float32 cannot hold, judged on onnx.reference (single correctly rounded Cast)
    host = U.model([helper.make_node("Cast", ["x"], ["t"], to=U.T("float32")), helper.make_node("Cast", ["t"], ["y"], to=U.T("float16"))],
                   [("x", "float64", ["N"])], [("y", "float16", ["N"])])
    new = U.apply_rule(host, [br.cast_cast_rule])
    ctx.case(("cast-cast", "double-rounding-probe"))
    if len(U.node_of(new, "Cast")) == 1:
        x = np.array([1 + 2.0 ** -11 + 2.0 ** -30, 2049.0000001, 3.0, 1 + 2.0 ** -11], dtype=np.float64)
        U.oracle(ctx, "C05:castcast:double-rounding-wider-source", "Cast(Cast(float64 -> float32) -> float16) fused to Cast(float64 -> float16)", host, new,
                 [{"x": x}], {"family": "cast", "rule": "CastCast", "types": ["float64", "float32", "float16"]}, engines=("ref",))

    # ------------------------------------------------------------------ cast_constant_of_shape
    cv_cases, cv_meta = [], []
    probes = [0, 1, -1, 127, 128, 255, 256, 300, -128, -129, 2 ** 31 - 1, 2 ** 31, -2 ** 31, -2 ** 31 - 1, 7]
    fired_cv = raised = 0
    for i, v in enumerate(probes):
        for to in sorted(RANGES):
            for src in ("int64", "float32", "float64"):
                if src == "float32" and abs(v) > 2 ** 24:
                    continue
                if ctx.tier == "quick" and (i + len(to) + len(src)) % 2:
                    continue
                val = np.array([v], dtype=src)
                host = U.model([helper.make_node("ConstantOfShape", ["s"], ["t"], value=U.const_arr("v", val)), helper.make_node("Cast", ["t"], ["y"], to=U.T(to))],
                               [("s", "int64", [None])], [("y", to, None if False else [None])])
                lo, hi = RANGES[to]
                replay = {"family": "cast", "rule": "cast_constant_of_shape", "value": v, "value_dtype": src, "to": to}
                try:
                    new = U.apply_rule(host, list(mod.rules))
                except Exception as e:  # noqa: BLE001
                    r = _root(e)
                    raised += 1
                    in_range = lo <= v <= hi
                    ctx.violation("C05:castconstantofshape:raises:out-of-range-value" if not in_range else "C05:castconstantofshape:raises:other",
                                  f"ConstantOfShape(value={v} {src}) -> Cast({to}): rule raised {type(r).__name__}: {r}", dict(replay, error=str(r)))
                    cv_cases.append(f"({cz(lo)}, {cz(hi)}, {cz(v)}, None)")
                    cv_meta.append((v, src, to, None))
                    ctx.case(("cast-cos", src, to, "raised", lo <= v <= hi))
                    continue
                ns = U.node_of(new, "ConstantOfShape")
                fired = len(ns) == 1 and not U.node_of(new, "Cast")
                if not fired:
                    ctx.tie_broken("correspondence", "cast:cast_constant_of_shape", f"did not fire on {replay}")
                    continue
                fired_cv += 1
                from onnx import numpy_helper
                emitted = numpy_helper.to_array([a for a in ns[0].attribute if a.name == "value"][0].t)
                if str(emitted.dtype) != to or emitted.shape != (1,):
                    ctx.violation("C05:castconstantofshape:value-form", f"fused value is {emitted.dtype}{emitted.shape}, expected {to}[1]", replay)
                if lo <= v <= hi or src == "int64":     # an out-of-range float -> int conversion is undefined in ONNX: nothing to compare
                    cv_cases.append(f"({cz(lo)}, {cz(hi)}, {cz(v)}, (Some {cz(int(emitted[0]))}))")
                    cv_meta.append((v, src, to, int(emitted[0])))
                ctx.case(("cast-cos", src, to, "fired", True))
                if not (lo <= v <= hi) and src != "int64":
                    continue
                U.oracle(ctx, f"C05:castconstantofshape:{src}-{to}:differs", f"Cast(ConstantOfShape(value={v} {src}), {to})", host, new,
                         [{"s": np.array(sh, np.int64)} for sh in ([3], [0], [2, 2])], replay)
    # float -> other types with non-integral values, bool; the default-value form
    extra = [(np.float32(2.75), "int64"), (np.float32(-2.75), "int32"), (np.float32(0.5), "bool"), (np.float32(0.0), "bool"), (np.int64(3), "float32"),
             (np.int64(2 ** 53 + 1), "float32"), (np.float64(0.1), "float32"), (np.float32(3.0), "float64"), (np.int64(5), "float16"), (np.bool_(True), "int64"),
             (None, "int64"), (None, "float16"), (None, "bool"), (None, "uint8")]
    for val, to in extra:
        kw = {} if val is None else {"value": U.const_arr("v", np.array([val]))}
        host = U.model([helper.make_node("ConstantOfShape", ["s"], ["t"], **kw), helper.make_node("Cast", ["t"], ["y"], to=U.T(to))],
                       [("s", "int64", [None])], [("y", to, [None])])
        try:
            new = U.apply_rule(host, list(mod.rules))
        except Exception as e:  # noqa: BLE001
            ctx.violation("C05:castconstantofshape:raises:other", f"value {val!r} -> {to}: rule raised {_root(e)!r}", {"value": repr(val), "to": to})
            continue
        ctx.case(("cast-cos-extra", type(val).__name__, to))
        if not U.node_of(new, "Cast"):
            U.oracle(ctx, f"C05:castconstantofshape:{type(val).__name__}-{to}:differs", f"Cast(ConstantOfShape(value={val!r}), {to})", host, new,
                     [{"s": np.array(sh, np.int64)} for sh in ([3], [0], [2, 1])], {"family": "cast", "rule": "cast_constant_of_shape", "value": repr(val), "to": to})
    # each exported rule on its own: the "without value" rule must not touch a ConstantOfShape that has a value
    host = U.model([helper.make_node("ConstantOfShape", ["s"], ["t"], value=U.const_arr("v", np.array([5], np.float32))), helper.make_node("Cast", ["t"], ["y"], to=U.T("int64"))],
                   [("s", "int64", [None])], [("y", "int64", [None])])
    new = U.apply_rule(host, [mod.cast_constant_of_shape_without_value_rule])
    ctx.case(("cast-cos", "without-value-rule-alone-on-valued-node"))
    if not U.node_of(new, "Cast"):
        U.oracle(ctx, "C05:castconstantofshape-without-value:ignores-value-attribute",
                 "cast_constant_of_shape_without_value_rule applied on its own to ConstantOfShape(value=[5.0])", host, new,
                 [{"s": np.array([3], np.int64)}, {"s": np.array([2, 2], np.int64)}, {"s": np.array([0], np.int64)}],
                 {"family": "cast", "rule": "cast_constant_of_shape_without_value_rule", "value": 5.0, "to": "int64"})

    body = (f"Definition a : list ci_case := {clist(ci_cases)}.\nEval vm_compute in (disagreeing ci_agrees 0 a).\n"
            f"Definition b : list cc_case := {clist(cc_cases)}.\nEval vm_compute in (disagreeing cc_agrees 0 b).\n"
            f"Definition c : list cv_case := {clist(cv_cases)}.\nEval vm_compute in (disagreeing cv_agrees 0 c).")
    ok, vals_, raw = ctx.coq_eval(["OV.Rules.Cast"], body, name="cast")
    if not ok or len(vals_) != 3:
        ctx.tie_broken("correspondence", "cast:model-evaluation", raw[-800:])
        return
    bad_a, bad_b, bad_c = (common.parse_nat_list(v) for v in vals_)
    for i in bad_a[:3]:
        ctx.tie_broken("correspondence", "cast:CastIdentity", f"{ci_meta[i]}: fired differs from Cast.ci_check")
    for i in bad_b[:3]:
        ctx.tie_broken("correspondence", "cast:CastCast", f"{cc_meta[i]}: fired differs from Cast.cc_check")
    for i in bad_c[:3]:
        ctx.tie_broken("correspondence", "cast:cast_constant_of_shape", f"(value, source, target, emitted) = {cv_meta[i]}: differs from Cast.np_int_conv")
    ctx.obligation("correspondence cast: CastIdentity fires only where Cast.ci_check holds (known / unknown source dtype)", not bad_a)
    ctx.obligation("correspondence cast: CastCast fires only where Cast.cc_check holds, on every dtype triple", not bad_b)
    ctx.obligation("correspondence cast: value emitted by cast_constant_of_shape = Cast.np_int_conv (or, where that raises, a raise or the wrapped value)", not bad_c)
    U.guard(ctx, "cast:CastIdentity", sum(1 for m in ci_meta if m[3]), 5)
    U.guard(ctx, "cast:CastCast", sum(1 for m in cc_meta if m[3]), 4)
    U.guard(ctx, "cast:cast_constant_of_shape", fired_cv, 20)
    ctx.cover(cast_identity_instances=len(ci_cases), castcast_instances=len(cc_cases), castcos_instances=len(cv_cases), castcos_fired=fired_cv, castcos_raised=raised,
              cast_model_disagreements=len(bad_a) + len(bad_b) + len(bad_c))
    ctx.assume("Cast rules: the element conversion itself (ONNX Cast = numpy astype for in-range values) is taken from the operator document and observed "
               "by the oracle; only the order structure of double rounding is modelled (round-to-nearest-even inside one binade)")
