(* C13 (session 6): the TEXT printed for an inlined constant (inline_const) and how it is read back.

     _get_const_repr: rank 0   -> str(array[0])            (numpy int64 / float32 scalar)      -> LTScalar
                      rank 1   -> repr(array.tolist())     (python ints / floats)              -> LTList
   Integers: decimal digits with a leading `-` when negative (int_text, Coq's DecimalString printer; compared with
   Python's str on sampled values by the harness).  Floats: the printer and the reader are Section variables
   (numpy's shortest round-trip repr; float32(float(text))).  No proofs in this file. *)
From Coq Require Import List String ZArith Bool DecimalString DecimalZ.
Require Import OV.Graph.Syntax OV.Script.Syntax OV.Export.Emit OV.Export.EmitCF.
Import ListNotations.
Local Open Scope string_scope.

Definition int_text (z : Z) : string := NilEmpty.string_of_int (Z.to_int z).
Definition int_of_text (s : string) : option Z := option_map Z.of_int (NilEmpty.int_of_string s).

Inductive lit_text := LTScalar (s : string) | LTList (ss : list string).

Section Text.
  Variable float_text : Z -> string.                (* bits of a finite float32 -> its printed text *)
  Variable float_of_text : string -> option Z.      (* text of a float literal -> bits of float32(float(text)) *)

  Definition text_of (l : ilit) : lit_text :=
    match l with
    | IInt z => LTScalar (int_text z)
    | IFloat b => LTScalar (float_text b)
    | IInts zs => LTList (map int_text zs)
    | IFloats bs => LTList (map float_text bs)
    end.

  (* Python reads a NUMBER that is all digits as an int, anything else as a float *)
  Definition read_scalar (s : string) : option (Z + Z) :=
    match int_of_text s with
    | Some z => Some (inl z)
    | None => option_map inr (float_of_text s)
    end.

  Fixpoint read_ints (ss : list string) : option (list Z) :=
    match ss with
    | [] => Some []
    | s :: t => match read_scalar s, read_ints t with Some (inl z), Some r => Some (z :: r) | _, _ => None end
    end.
  Fixpoint read_floats (ss : list string) : option (list Z) :=
    match ss with
    | [] => Some []
    | s :: t => match read_scalar s, read_floats t with Some (inr b), Some r => Some (b :: r) | _, _ => None end
    end.

  (* a list display: homogeneous; the empty display has no element type (printed for neither kind after C13_09) *)
  Definition read_lit (t : lit_text) : option ilit :=
    match t with
    | LTScalar s => match read_scalar s with Some (inl z) => Some (IInt z) | Some (inr b) => Some (IFloat b) | None => None end
    | LTList [] => None
    | LTList (s :: ss) =>
      match read_scalar s with
      | Some (inl _) => option_map IInts (read_ints (s :: ss))
      | Some (inr _) => option_map IFloats (read_floats (s :: ss))
      | None => None
      end
    end.

  Definition lit_finiteb (l : ilit) : bool :=
    match l with
    | IFloat b => negb (nonfinite_b b)
    | IFloats bs => negb (existsb nonfinite_b bs)
    | _ => true
    end.
  Definition lit_nonemptyb (l : ilit) : bool := match l with IInts [] | IFloats [] => false | _ => true end.
End Text.

(* correspondence of int_text / int_of_text with Python's str / int on sampled integers (harness) *)
Fixpoint disagreeing_int_text (i : nat) (cs : list (Z * string)) : list nat :=
  match cs with
  | [] => []
  | (z, s) :: t =>
    ((if String.eqb (int_text z) s && match int_of_text s with Some z' => Z.eqb z z' | None => false end then [] else [i])
       ++ disagreeing_int_text (S i) t)%list
  end.
