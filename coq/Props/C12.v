(* C12 property theorems: statements only, each closed by `exact`, Print Assumptions beneath.
   Model: coq/Autocast/Autocast.v; proofs: coq/Autocast/AutocastProofs.v; registry: coq/Gen/Schemas.v
   (regenerated from onnx.defs on every run).

   Reading guide.  `annotate s args = OK slots` pairs every operand of a call of schema s with its
   position information (which formal it belongs to, variadic tail included).  A literal l sits at
   position `length pre` of slots = pre ++ (ALit l, p) :: post.  `spec_dtype (pre ++ post) l p d` is the
   rule of the property text: d is the element type of a sibling tensor operand sharing the type
   constraint of p, or -- when there is none -- INT64 / FLOAT / BOOL by Python type.
   `plainb l = true`: l is a scalar or a flat list whose elements have one Python type (C12_plain_of_homog);
   for nested lists and lists mixing types the front ends do NOT agree (the _refuted theorems below).
   `named` / `w`: variants of the code (fall-through path of the builder repaired / creation with Cast
   semantics); the harness probes which variant the implementation is in on every run.
   Not covered by these theorems (see the evidence): values for STRING / complex / float8 / float4 /
   4-bit targets (dtype only), float literals that are not exactly representable, NaN, empty lists
   (no front end promotes one). *)
From Coq Require Import ZArith NArith List Bool String.
Require Import OV.Autocast.Autocast OV.Autocast.AutocastProofs.
Require OV.Gen.Schemas OV.Gen.C12Decisions.
Import ListNotations.

(* -- element type: each front end follows the rule, for every schema shape that passes schema_okb -- *)
Theorem C12_static_eq_spec : forall s args slots pre post l p outs,
  schema_okb s = true -> plainb l = true ->
  annotate s args = OK slots -> slots = (pre ++ (ALit l, p) :: post)%list ->
  promote_static s args = OK outs ->
  exists o, nth_error outs (List.length pre) = Some o /\ out_literal o = Some l /\
            exists d, out_dtype o = Some d /\ spec_dtype (pre ++ post)%list l p d.
Proof. exact static_eq_spec. Qed.
Print Assumptions C12_static_eq_spec.

Theorem C12_eager_eq_spec : forall s args slots pre post l p outs,
  schema_okb s = true ->
  annotate s args = OK slots -> slots = (pre ++ (ALit l, p) :: post)%list ->
  promote_eager s args = OK outs ->
  exists o, nth_error outs (List.length pre) = Some o /\ out_literal o = Some l /\
            exists d, out_dtype o = Some d /\ spec_dtype (pre ++ post)%list l p d.
Proof. exact eager_eq_spec. Qed.
Print Assumptions C12_eager_eq_spec.

Theorem C12_builder_eq_spec : forall named s args slots pre post l p outs,
  schema_okb s = true -> plainb l = true ->
  annotate s args = OK slots -> slots = (pre ++ (ALit l, p) :: post)%list ->
  promote_builder_v named s args = OK outs ->
  exists o, nth_error outs (List.length pre) = Some o /\ out_literal o = Some l /\
            exists d, out_dtype o = Some d /\ spec_dtype (pre ++ post)%list l p d.
Proof. exact builder_eq_spec. Qed.
Print Assumptions C12_builder_eq_spec.

(* -- in a well-typed call (one element type per type constraint) the rule names exactly one type and
      the three front ends give the literal that same type -- *)
Theorem C12_frontends_agree : forall named s args slots pre post l p o1 o2 o3,
  schema_okb s = true -> plainb l = true -> annotate s args = OK slots -> uniform slots ->
  slots = (pre ++ (ALit l, p) :: post)%list ->
  promote_static s args = OK o1 -> promote_eager s args = OK o2 -> promote_builder_v named s args = OK o3 ->
  exists a b c, nth_error o1 (List.length pre) = Some a /\ nth_error o2 (List.length pre) = Some b /\
                nth_error o3 (List.length pre) = Some c /\
                out_dtype a = Some (spec_fn slots l p) /\ out_dtype b = Some (spec_fn slots l p) /\
                out_dtype c = Some (spec_fn slots l p).
Proof. exact frontends_agree. Qed.
Print Assumptions C12_frontends_agree.

(* -- first binding wins (builder) = last binding wins (autocast) when all contributions agree -- *)
Theorem C12_binding_order_irrelevant : forall (I : Type) ksel info (slots : list slot) k,
  (forall sl1 sl2 v1 v2, In sl1 slots -> In sl2 slots ->
       contrib I ksel info sl1 k v1 -> contrib I ksel info sl2 k v2 -> v1 = v2) ->
  lookup I (bindings I ksel info true slots) k = lookup I (bindings I ksel info false slots) k.
Proof. exact binding_order_irrelevant. Qed.
Print Assumptions C12_binding_order_irrelevant.

(* -- operands that are not literals are handed to the op unchanged -- *)
Theorem C12_tensors_pass_through : forall named s args outs i o,
  (promote_static s args = OK outs \/ promote_eager s args = OK outs \/ promote_builder_v named s args = OK outs) ->
  nth_error outs i = Some o ->
  exists a, nth_error args i = Some a /\
    match a with ALit l => out_literal o = Some l | _ => o = OKeep a end.
Proof. exact tensors_pass_through. Qed.
Print Assumptions C12_tensors_pass_through.

(* -- the hypothesis schema_okb holds for every schema of opsets 13..23 (finite, by computation over
      the regenerated registry) -- *)
Theorem C12_registry_well_formed : forallb schema_okb OV.Gen.Schemas.all = true.
Proof. exact registry_well_formed. Qed.
Print Assumptions C12_registry_well_formed.

(* -- value: Constant(default dtype) + CastLike = direct creation at the target dtype, whenever the
      direct creation is defined -- *)
Theorem C12_cast_paths_agree : forall l d vs v0s,
  lit_homog l -> np_cast l d = OK vs -> np_cast l (default_dtype l) = OK v0s ->
  cast_like l (default_dtype l) d = OK vs.
Proof. exact cast_paths_agree. Qed.
Print Assumptions C12_cast_paths_agree.

(* -- ... and when it is not: -3 beside a UINT8 tensor raises in eager mode / builder (NumPy 2
      OverflowError) while the converter's graph wraps to 253 (known finding) -- *)
Theorem C12_cast_paths_negative_unsigned_refuted :
  exists l d, np_cast l d = Err Overflow /\ cast_like l (default_dtype l) d = OK [VI 253%Z].
Proof. exact cast_paths_negative_unsigned_refuted. Qed.
Print Assumptions C12_cast_paths_negative_unsigned_refuted.

(* -- constant cache with the sign-aware key: whatever the history of requests, the tensor handed
      out for (l, d) is the tensor (l, d) denotes on its own -- *)
Theorem C12_cache_never_conflates : forall w named h l d c' t,
  get_or_create_v w named key_eq_signed (run_cache_v w named key_eq_signed [] h) l d = OK (c', t) ->
  denote_v w l d = OK t.
Proof. exact cache_never_conflates. Qed.
Print Assumptions C12_cache_never_conflates.

(* -- the key (value, dtype) under Python == (the code before the fix) hands the +0.0 initializer to a
      request for -0.0 -- *)
Theorem C12_cache_eq_key_conflates_refuted :
  exists h l d c' t, get_or_create py_eq (run_cache py_eq [] h) l d = OK (c', t)
                     /\ create l (resolve l d) <> OK t.
Proof. exact cache_eq_key_conflates. Qed.
Print Assumptions C12_cache_eq_key_conflates_refuted.

(* -- which literals the three theorems above cover: every scalar, every flat list of one Python type -- *)
Theorem C12_plain_of_homog : forall l, is_nested l = false -> lit_homog l -> plainb l = true.
Proof. exact plain_of_homog. Qed.
Print Assumptions C12_plain_of_homog.

(* -- ... and outside them (known findings): a nested float list / a list mixing int and float without a
      sibling is DOUBLE in the translated graph (ir.tensor leaves the type to numpy) and FLOAT / INT64
      (first element) in eager mode -- *)
Theorem C12_static_nested_float_refuted :
  schema_okb ex_abs = true /\
  promote_static ex_abs [ALit nested_half] = OK [OConst nested_half DOUBLE] /\
  promote_eager ex_abs [ALit nested_half] = OK [OConst nested_half FLOAT].
Proof. exact static_nested_float_refuted. Qed.
Print Assumptions C12_static_nested_float_refuted.

Theorem C12_static_mixed_list_refuted :
  promote_static ex_abs [ALit mixed_1_2h] = OK [OConst mixed_1_2h DOUBLE] /\
  promote_eager ex_abs [ALit mixed_1_2h] = OK [OConst mixed_1_2h INT64] /\
  out_value (OConst mixed_1_2h DOUBLE) = OK [VF false 1 0; VF false 5 1] /\
  out_value (OConst mixed_1_2h INT64) = OK [VI 1%Z; VI 2%Z].
Proof. exact static_mixed_list_refuted. Qed.
Print Assumptions C12_static_mixed_list_refuted.

(* -- the graph builder as read refuses exactly the literals outside its cached path (ValueError:
      Initializer must have a name) while the other front ends promote them; repaired: refuses none -- *)
Theorem C12_builder_refuses_iff : forall a y l, a = ALit l ->
  (cast_builder_v false a y = ORefuse l <-> builder_list_ok l = false).
Proof. exact builder_refuses_iff. Qed.
Print Assumptions C12_builder_refuses_iff.

Theorem C12_builder_refuses_mixed_refuted :
  promote_builder_v false ex_abs [ALit mixed_1_2h] = OK [ORefuse mixed_1_2h] /\
  promote_eager ex_abs [ALit mixed_1_2h] = OK [OConst mixed_1_2h INT64].
Proof. exact builder_refuses_mixed_refuted. Qed.
Print Assumptions C12_builder_refuses_mixed_refuted.

Theorem C12_builder_never_refuses_fixed : forall a y l, cast_builder_v true a y <> ORefuse l.
Proof. exact builder_never_refuses_fixed. Qed.
Print Assumptions C12_builder_never_refuses_fixed.

(* -- repaired creation (Cast semantics, proposed_fixes/ready/C12_01): direct creation = Constant + CastLike
      on EVERY target dtype, with no hypothesis that the direct creation succeeds -- *)
Theorem C12_cast_paths_agree_fixed : forall l d v0s,
  lit_homog l -> np_cast l (default_dtype l) = OK v0s ->
  np_cast_v true l d = cast_like l (default_dtype l) d.
Proof. exact cast_paths_agree_fixed. Qed.
Print Assumptions C12_cast_paths_agree_fixed.

(* -- the front ends as CODE: the decision records read from the python ast of autocast.cast_inputs /
      static_cast_inputs / dynamic_cast_inputs / BuilderBase._cast_inputs / _input_to_ir_value
      (coq/Gen/C12Decisions.v, regenerated on every run) make the generic algorithm promote_of the three
      algorithms of the theorems above -- *)
Theorem C12_code_tables_are_model_instances :
  (forall named s args, promote_of named OV.Gen.C12Decisions.static s args = promote_static s args) /\
  (forall named s args, promote_of named OV.Gen.C12Decisions.eager s args = promote_eager s args) /\
  (forall named s args, promote_of named OV.Gen.C12Decisions.builder s args = promote_builder_v named s args).
Proof. exact code_tables_are_model_instances. Qed.
Print Assumptions C12_code_tables_are_model_instances.

(* -- a flag that no longer holds changes the algorithm: without the is_homogeneous guard a float literal
      in Loop's state list takes the type of an unrelated INT64 state variable -- *)
Theorem C12_hetero_guard_matters :
  promote_of false dec_eager ex_loop [ANone; ANone; ATensor INT64 true; ALit (LScalar (SFloat false 5 1))]
    = OK [OKeep ANone; OKeep ANone; OKeep (ATensor INT64 true); OConst (LScalar (SFloat false 5 1)) FLOAT] /\
  promote_of false dec_no_hetero_guard ex_loop [ANone; ANone; ATensor INT64 true; ALit (LScalar (SFloat false 5 1))]
    = OK [OKeep ANone; OKeep ANone; OKeep (ATensor INT64 true); OConst (LScalar (SFloat false 5 1)) INT64].
Proof. exact hetero_guard_matters. Qed.
Print Assumptions C12_hetero_guard_matters.

(* -- the other caches on the path and keys that would not do -- *)
Theorem C12_int_key_injective : forall a b, py_eq (SInt a) (SInt b) = true ->
  np_cast (LList (SInt a) []) INT64 = np_cast (LList (SInt b) []) INT64.
Proof. exact int_key_injective. Qed.
Print Assumptions C12_int_key_injective.

Theorem C12_value_only_key_refuted :
  exists l1 l2, list_eqb py_eq (scalars_of l1) (scalars_of l2) = true /\ is_list l1 = is_list l2 /\
                denote_v false l1 None <> denote_v false l2 None.
Proof. exact value_only_key_refuted. Qed.
Print Assumptions C12_value_only_key_refuted.

Theorem C12_eq_value_dtype_key_refuted :
  exists a b d, py_eq a b = true /\ np_cast_scalar a d <> np_cast_scalar b d.
Proof. exact eq_value_dtype_key_refuted. Qed.
Print Assumptions C12_eq_value_dtype_key_refuted.

Theorem C12_eq_key_true_one_harmless : forall d,
  np_cast_scalar (SBool true) d = np_cast_scalar (SInt 1) d /\
  np_cast_scalar (SFloat false 1 0) d = np_cast_scalar (SInt 1) d.
Proof. exact eq_key_true_one_harmless. Qed.
Print Assumptions C12_eq_key_true_one_harmless.
