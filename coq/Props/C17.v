(* C17 property theorems: generated opset classes mirror the ONNX operator schemas exactly.
   Statements only, each closed by `exact`, Print Assumptions beneath.
   Model: Registry/OpsetMethod.v; general proofs: Registry/OpsetMethodProofs.v; the regenerated finite
   statement: Registry/OpsetGen.v over Gen/OpsetMethods.v + Gen/OpsetSchemas.v. *)
From Coq Require Import List String ZArith Bool.
Import ListNotations.
Require Import OV.Registry.OpsetMethod OV.Registry.OpsetMethodProofs OV.Registry.OpsetGen.

(* Opset._prepare_inputs removes trailing None and nothing else: the result is a prefix, what was cut off
   is None only, and the result has no trailing None left (for every list). *)
Theorem C17_prepare_inputs_trims_only_trailing : forall (V : Type) (l : list (option V)),
  (exists k, l = strip l ++ repeat None k) /\ (forall l', strip l <> l' ++ [None]).
Proof. exact (fun V l => conj (strip_prefix V l) (strip_no_trailing_none V l)). Qed.
Print Assumptions C17_prepare_inputs_trims_only_trailing.

(* ... so every input keeps its schema position, and no given value is ever dropped. *)
Theorem C17_prepare_inputs_keeps_positions : forall (V : Type) (l : list (option V)) i,
  nth i (strip l) None = nth i l None.
Proof. exact strip_nth. Qed.
Print Assumptions C17_prepare_inputs_keeps_positions.

Theorem C17_prepare_inputs_keeps_values : forall (V : Type) (l : list (option V)) i v,
  nth_error l i = Some (Some v) -> nth_error (strip l) i = Some (Some v).
Proof. exact strip_keeps_values. Qed.
Print Assumptions C17_prepare_inputs_keeps_values.

(* Meaning of the get_schema model: the registered schema of that name and domain with the greatest
   since_version <= N. *)
Theorem C17_get_schema_spec : forall reg name N dom s,
  resolve reg name N dom = Some s ->
  In s reg /\ s_name s = name /\ s_domain s = dom /\ (s_since s <= N)%Z /\
  forall s', In s' reg -> s_name s' = name -> s_domain s' = dom -> (s_since s' <= N)%Z -> (s_since s' <= s_since s)%Z.
Proof. exact resolve_spec. Qed.
Print Assumptions C17_get_schema_spec.

(* The computable per-method test is sound: parameters = inputs in order ++ attributes, defaults equal,
   every argument forwarded under its own name. *)
Theorem C17_method_ok_mirrors : forall m s, method_ok m s = true -> mirrors m s.
Proof. exact method_ok_mirrors. Qed.
Print Assumptions C17_method_ok_mirrors.

(* For every call that Python accepts, what a mirroring method hands to the evaluator is the bare node of
   the same call: same operator and version, the inputs given with only trailing None removed, and every
   attribute -- given, given as None, or left out -- meaning the same value as in the bare node. *)
Theorem C17_call_equals_bare_node : forall (V : Type) reg m s,
  static_schema reg m = Some s -> mirrors m s ->
  forall (a : args V) pe ke, bind m a = Some (pe, ke) ->
    exists n, call_method reg m a = Some n /\ n_inputs n = strip (a_pos a) /\ node_equiv s n (bare_node s a).
Proof. exact call_sound. Qed.
Print Assumptions C17_call_equals_bare_node.

(* An inherited method stays right exactly while the operator has no newer schema. *)
Theorem C17_inherited_method_valid : forall reg m s N,
  static_schema reg m = Some s -> (m_since m <= N)%Z ->
  (forall s', In s' reg -> s_name s' = m_op m -> s_domain s' = m_domain m -> (s_since s' <= N)%Z -> (s_since s' <= m_since m)%Z) ->
  resolve reg (m_op m) N (m_domain m) = Some s.
Proof. exact inherited_method_valid. Qed.
Print Assumptions C17_inherited_method_valid.

(* General form: any registry and class set passing the computable test has the property. *)
Theorem C17_registry_sound : forall reg cs,
  registry_ok reg cs = true ->
  forall c, In c cs ->
  forall op s, dyn_getitem reg c op = Some s -> s_deprecated s = false ->
    (covered c = true -> exists m, static_lookup cs c op = Some m) /\
    forall m, static_lookup cs c op = Some m ->
      static_schema reg m = Some s /\ mirrors m s /\
      forall V (a : args V) pe ke, bind m a = Some (pe, ke) ->
        exists n, call_method reg m a = Some n /\ n_inputs n = strip (a_pos a) /\ node_equiv s n (bare_node s a).
Proof. exact registry_sound. Qed.
Print Assumptions C17_registry_sound.

(* THE PROPERTY on the code as it is now (Gen/* re-extracted on every check): for every generated class
   OpsetN and every operator that onnx.defs resolves, non-deprecated, at (domain, N): the method visible on
   the class (own or inherited) uses exactly that schema, mirrors it, and an eager call equals the bare node. *)
Theorem C17_generated_classes_mirror_schemas : forall c, In c gen_classes ->
  forall op s, dyn_getitem gen_schemas c op = Some s -> s_deprecated s = false ->
    (covered c = true -> exists m, static_lookup gen_classes c op = Some m) /\
    forall m, static_lookup gen_classes c op = Some m ->
      static_schema gen_schemas m = Some s /\ mirrors m s /\
      forall V (a : args V) pe ke, bind m a = Some (pe, ke) ->
        exists n, call_method gen_schemas m a = Some n /\ n_inputs n = strip (a_pos a) /\ node_equiv s n (bare_node s a).
Proof. exact gen_sound. Qed.
Print Assumptions C17_generated_classes_mirror_schemas.

(* Coverage: opset1..opset23 of the default domain and every ai.onnx.ml / preview class have a method for
   every live operator of their version. *)
Theorem C17_coverage : forall c, In c gen_classes -> covered c = true ->
  forall op s, dyn_getitem gen_schemas c op = Some s -> s_deprecated s = false ->
    exists m, static_lookup gen_classes c op = Some m.
Proof. exact gen_coverage. Qed.
Print Assumptions C17_coverage.

(* Opset.__contains__/__getitem__/__getattr__ agree with the static class: opsetN.Op denotes the same
   schema in eager mode (generated method) and in translation (opset[name]). *)
Theorem C17_dynamic_lookup_agrees : forall c, In c gen_classes -> forall op,
    (dyn_contains gen_schemas c op = true <-> exists s, dyn_getitem gen_schemas c op = Some s) /\
    (forall s, dyn_getitem gen_schemas c op = Some s -> s_deprecated s = false -> getattr_schema gen_schemas gen_classes c op = Some s) /\
    (dyn_getitem gen_schemas c op = None -> getattr_schema gen_schemas gen_classes c op = None /\ static_lookup gen_classes c op = None).
Proof. exact gen_dynamic. Qed.
Print Assumptions C17_dynamic_lookup_agrees.

(* Not covered by the theorems above, and false: for an operator ONNX marks deprecated at version N the
   inherited method still denotes the last live schema while opset[name] denotes the deprecated one
   (witness in the shape of Upsample 9/10; the harness replays opset10.Upsample on the real code). *)
Theorem C17_deprecated_operator_inherited_refuted : exists reg cs c op m s,
  registry_ok reg cs = true /\ In c cs /\
  static_lookup cs c op = Some m /\ dyn_getitem reg c op = Some s /\
  s_deprecated s = true /\ static_schema reg m <> Some s.
Proof. exact deprecated_gap. Qed.
Print Assumptions C17_deprecated_operator_inherited_refuted.

(* The test is not vacuous: a wrong default fails it and does change what the call means. *)
Theorem C17_wrong_default_detected :
  exists s, static_schema ex_reg ex_clip6_bad = Some s /\ method_ok ex_clip6_bad s = false /\
    exists n, call_method ex_reg ex_clip6_bad (mkArgs [Some 1%Z] []) = Some n /\
              effective s n "max" <> effective s (bare_node s (mkArgs [Some 1%Z] [])) "max".
Proof. exact wrong_default_detected. Qed.
Print Assumptions C17_wrong_default_detected.
