(* Model of onnx_export.py `_make_unique_name_mapper` (C13, repair C13_07): the wrapper around the exporter's renamer
   that never gives two ONNX names the same Python name.

     assigned : ONNX name -> Python name already handed out     (association list, latest first)
     used     : the Python names handed out
     unique_renamer(name): the assigned name if any; otherwise renamer(name), and while that is taken
                           f"{proposed}_{counter}" for counter = 0, 1, ...

   `seq` is the sequence of ONNX names in the order in which the exporter first translates them (the suffix a name
   gets depends on that order).  The search for a free suffix is bounded by fuel = 1 + |used| candidates, which always
   suffices (pigeonhole); the model returns None when the fuel runs out and the theorems are about Some results
   (the harness evaluates the model on the real names: None never occurs there).  No proofs in this file. *)
From Coq Require Import List String Ascii Bool Arith DecimalString.
Require Import OV.Export.Cleanup.
Import ListNotations.
Local Open Scope string_scope.

Definition nat_text (k : nat) : string := NilEmpty.string_of_uint (Nat.to_uint k).
Definition suffixed (proposed : string) (counter : nat) : string := proposed ++ "_" ++ nat_text counter.

Fixpoint fresh_from (fuel : nat) (proposed : string) (used : list string) (counter : nat) : option string :=
  match fuel with
  | O => None
  | S f => if memb (suffixed proposed counter) used then fresh_from f proposed used (S counter)
           else Some (suffixed proposed counter)
  end.
Definition uniq_one (proposed : string) (used : list string) : option string :=
  if memb proposed used then fresh_from (S (List.length used)) proposed used 0 else Some proposed.

Fixpoint amem (x : string) (m : list (string * string)) : bool :=
  match m with [] => false | (k, _) :: t => String.eqb x k || amem x t end.

Section Unique.
  Variable base : string -> string.                (* the wrapped renamer: the clean-up, or the short-name mapper *)

  (* -> the final `assigned` *)
  Fixpoint uniq_go (seq : list string) (assigned : list (string * string)) (used : list string) : option (list (string * string)) :=
    match seq with
    | [] => Some assigned
    | x :: t =>
      if amem x assigned then uniq_go t assigned used
      else match uniq_one (base x) used with
           | Some y => uniq_go t ((x, y) :: assigned) (y :: used)
           | None => None
           end
    end.
  Definition uniq_map (seq : list string) : option (list (string * string)) := uniq_go seq [] [].

  Fixpoint alookup (x : string) (m : list (string * string)) : option string :=
    match m with [] => None | (k, v) :: t => if String.eqb x k then Some v else alookup x t end.
  (* the renamer the exporter ends up with, as a function (a name outside seq keeps its base name) *)
  Definition uniq_fn (seq : list string) (x : string) : string :=
    match uniq_map seq with
    | Some m => match alookup x m with Some y => y | None => base x end
    | None => base x
    end.
End Unique.

(* the same from a dictionary computed beforehand (the harness evaluates `uniq_map base seq` once per model) *)
Definition uniq_apply (om : option (list (string * string))) (base : string -> string) (x : string) : string :=
  match om with
  | Some m => match alookup x m with Some y => y | None => base x end
  | None => base x
  end.

(* correspondence: (base names of the sequence, observed Python names) -- the base renamer enters as the list of its
   values on the sequence, so that the same check serves the clean-up and the short names *)
Fixpoint base_of (pairs : list (string * string)) (x : string) : string :=
  match pairs with [] => x | (k, v) :: t => if String.eqb x k then v else base_of t x end.
Definition uniq_names (seq bases : list string) : option (list string) :=
  let base := base_of (combine seq bases) in
  match uniq_map base seq with
  | Some m => Some (map (fun x => match alookup x m with Some y => y | None => base x end) seq)
  | None => None
  end.
Definition uniq_case_ok (c : list string * list string * list string) : bool :=
  let '(seq, bases, obs) := c in
  match uniq_names seq bases with Some l => list_eqb l obs | None => false end.
Fixpoint disagreeing_uniq (i : nat) (cs : list (list string * list string * list string)) : list nat :=
  match cs with
  | [] => []
  | c :: t => ((if uniq_case_ok c then [] else [i]) ++ disagreeing_uniq (S i) t)%list
  end.
