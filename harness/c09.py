"""C09 -- shape-based simplifications hold for every runtime binding of symbolic dims (DESIGN.md 5, C09).

Coq: coq/Shape/{SymDim,Broadcast,PartialEval}.v (models), *Proofs.v, Props/C09.v.
Tie: correspondence (real dim/shape equalities, the real expand_before_binary_op rule set and the real
optimize() run on generated symbolic models; decisions compared with the Gallina model inside Coq)
and a direct oracle (original vs optimized model on onnxruntime/ORT_DISABLE_ALL and onnx.reference at
every sampled binding of the symbols and unknown dims to {0,1,2,3,7}).
"""
from __future__ import annotations

import itertools

import numpy as np

from harness import common
from harness import c09_util as U
from harness.common import cbool, clist

PROPERTY = "C09"
LEVEL = "proof"

OPSET = 18


# ============================================================================= 1. the three dim equalities
def fam_dim_equalities(ctx):
    import onnx_ir as ir
    from onnxscript.optimizer import _constant_folding as cf
    from onnxscript.rewriter import _ir_utils as iu

    dims = [0, 1, 2, 3, -1, "N", "M", "N+M", None]

    def mk(d):
        return d if isinstance(d, int) else ir.SymbolicDim(d)

    cases, meta = [], []
    for a, b in itertools.product(dims, dims):
        da, db = mk(a), mk(b)          # distinct objects even when a is b (no identity shortcut)
        eq = bool(da == db)
        sd = bool(iu.same_dim(da, db))
        cases.append(f"({U.cdim(a)}, {U.cdim(b)}, ({cbool(eq)}, {cbool(sd)}))")
        meta.append((a, b, eq, sd))
        ctx.case(("dim-eq", type(a).__name__, type(b).__name__, a == b))
    ok, vals, raw = ctx.coq_eval(["OV.Shape.SymDim"],
                                 f"Definition cases : list dim_case := {clist(cases)}.\n"
                                 "Eval vm_compute in (disagreeing dim_agrees 0 cases).")
    bad = common.parse_nat_list(vals[0]) if ok and vals else None
    if bad is None:
        ctx.tie_broken("correspondence", "dim-eq:model-evaluation", raw[-800:])
    else:
        for i in bad:
            ctx.tie_broken("correspondence", "dim-eq", f"dims {meta[i][:2]}: implementation (==, same_dim) = {meta[i][2:]}, model differs")
    ctx.obligation("correspondence: Python == on dims and _ir_utils.same_dim = Coq dim_ir_eqb / same_dim on the full grid", bad == [])

    # shapes
    rng = ctx.rng
    n = 400 if ctx.tier == "quick" else 4000
    pool = [0, 1, 2, 3, "N", "M", None, None]
    cases, meta = [], []
    for k in range(n):
        ra = rng.choice([0, 1, 2, 2, 3, 3])
        a = [rng.choice(pool) for _ in range(ra)]
        u = rng.random()
        if u < 0.45:
            b = list(a)
        elif u < 0.8:
            b = list(a)
            if b:
                j = rng.randrange(len(b))
                b[j] = rng.choice(pool)
        elif u < 0.9:
            b = list(a) + [rng.choice(pool)] if rng.random() < 0.5 else list(a)[1:]
        else:
            b = [rng.choice(pool) for _ in range(rng.choice([0, 1, 2, 3]))]
        if k % 2:
            a, b = b, a
        sa, sb = ir.Shape(a), ir.Shape(b)
        o1 = bool(sa == sb)
        o2 = bool(iu.same_shape(sa, sb))
        o3 = bool(cf._same_shape(sa, sb))
        cases.append(f"({U.cshape(a)}, {U.cshape(b)}, ({cbool(o1)}, {cbool(o2)}, {cbool(o3)}))")
        meta.append((a, b, o1, o2, o3))
        ctx.case(("shape-eq", len(a), len(b), None in a, None in b, o1, o2, o3))
    ok, vals, raw = ctx.coq_eval(["OV.Shape.SymDim"],
                                 f"Definition cases : list shape_case := {clist(cases)}.\n"
                                 "Eval vm_compute in (disagreeing shape_agrees 0 cases).")
    bad = common.parse_nat_list(vals[0]) if ok and vals else None
    if bad is None:
        ctx.tie_broken("correspondence", "shape-eq:model-evaluation", raw[-800:])
    else:
        for i in bad:
            ctx.tie_broken("correspondence", "shape-eq", f"shapes {meta[i][:2]}: implementation (==, same_shape, _same_shape) = {meta[i][2:]}, model differs")
    none_case = (iu.same_shape(None, ir.Shape([1])), iu.same_shape(ir.Shape([1]), None))
    if none_case != (False, False):
        ctx.tie_broken("correspondence", "shape-eq", f"same_shape with an unknown-rank operand returned {none_case}")
    ctx.obligation("correspondence: ir.Shape ==, _ir_utils.same_shape, _constant_folding._same_shape = Coq models on generated shape pairs",
                   bad == [] and none_case == (False, False))
    ctx.cover(shape_eq_pairs=n, shape_eq_true=sum(1 for m in meta if m[2]), same_shape_true=sum(1 for m in meta if m[3]),
              cf_same_shape_true=sum(1 for m in meta if m[4]))


# ============================================================================= 2. Expand before a binary op
_EB_OPS = ["Add", "Sub", "Mul", "Less", "Equal", "Or", "Greater", "Xor"]
_BOOL_IN = {"Or", "Xor", "And"}


def _eb_generate(rng, kind):
    """One instance: symbolic shapes of x (the expanded operand), y (the other operand), the Expand target t
    (ints for kind 'const', otherwise symbolic = what the runtime shape tensor will hold) and annotations."""
    r = rng.choice([0, 1, 1, 2, 2, 2, 3, 3])
    pool = [1, 2, 3, 3, "N", "N", "M", None, 0] if rng.random() < 0.25 else [1, 2, 3, "N", "N", "M", None]
    full = [rng.choice(pool) for _ in range(r)]

    def derive(p_one, p_drop):
        s = [1 if rng.random() < p_one else d for d in full]
        if s and rng.random() < p_drop:
            s = s[rng.randint(1, len(s)):]
        return s

    x = derive(0.35, 0.35)
    y = derive(0.3, 0.35)
    t = derive(0.3, 0.3)
    u = rng.random()
    if u < 0.16:
        t = [1] * rng.randint(1, 2) + t           # rank-increasing Expand with leading 1s
    elif u < 0.22:
        t = [rng.choice([2, 3, "K"])] + t
    if rng.random() < 0.1 and x:                 # perturb one dim of x (near miss / rejected models)
        x[rng.randrange(len(x))] = rng.choice([1, 2, 3, "M", None])
    if kind == "const":
        t = [d if isinstance(d, int) else (1 if rng.random() < 0.6 else rng.choice([2, 3])) for d in t]
        if t and rng.random() < 0.12:
            t[rng.randrange(len(t))] = 0          # a zero-sized target dim is an ordinary size, not a "1"
    e_hon = U.honest_bcast(x, t)
    o_hon = U.honest_bcast(e_hon, y)
    case = {"kind": kind, "x": x, "y": y, "t": t, "e_annot": None, "o_annot": None}
    if kind == "eout" or (kind == "const" and rng.random() < 0.3):
        case["e_annot"] = U.weaken(rng, e_hon, 0.2 if rng.random() < 0.5 else 0.0)
    if kind == "bout" or (kind in ("const", "eout") and rng.random() < 0.5):
        case["o_annot"] = U.weaken(rng, o_hon, 0.2 if rng.random() < 0.5 else 0.0)
    case["out_rank"] = len(o_hon)
    case["op"] = rng.choice(_EB_OPS)
    case["first"] = rng.random() < 0.5            # Expand feeds the first operand?
    case["const_as_node"] = rng.random() < 0.5
    return case


def _eb_model(case):
    import onnx
    from onnx import TensorProto, helper, numpy_helper

    op = case["op"]
    T = TensorProto.BOOL if op in _BOOL_IN else TensorProto.INT64
    TO = TensorProto.BOOL if op in _BOOL_IN or op in ("Less", "Equal", "Greater") else TensorProto.INT64
    inputs = [helper.make_tensor_value_info("x", T, case["x"]), helper.make_tensor_value_info("y", T, case["y"])]
    nodes, inits = [], []
    if case["kind"] == "const":
        arr = np.array(case["t"], dtype=np.int64)
        if case["const_as_node"]:
            nodes.append(helper.make_node("Constant", [], ["s"], value=numpy_helper.from_array(arr, "s")))
        else:
            inits.append(numpy_helper.from_array(arr, "s"))
    else:
        inputs.append(helper.make_tensor_value_info("s", TensorProto.INT64, [len(case["t"])]))
    nodes.append(helper.make_node("Expand", ["x", "s"], ["e"]))
    nodes.append(helper.make_node(op, ["e", "y"] if case["first"] else ["y", "e"], ["o"]))
    nodes.append(helper.make_node("Identity", ["o"], ["out"]))
    vi = []
    if case["e_annot"] is not None:
        vi.append(helper.make_tensor_value_info("e", T, case["e_annot"]))
    if case["o_annot"] is not None:
        vi.append(helper.make_tensor_value_info("o", TO, case["o_annot"]))
    g = helper.make_graph(nodes, "g", inputs, [helper.make_tensor_value_info("out", TO, [None] * case["out_rank"])],
                          initializer=inits, value_info=vi)
    m = helper.make_model(g, opset_imports=[helper.make_opsetid("", OPSET)], ir_version=9)
    onnx.checker.check_model(m)
    return m


def _eb_fired(new):
    """The binary op no longer reads the Expand output."""
    for n in new.graph.node:
        if n.op_type in _EB_OPS:
            return "e" not in list(n.input)
    return None


def _eb_feeds(case, cx, cy, ct):
    bool_in = case["op"] in _BOOL_IN
    xv, yv = U.int_data(cx, 1), U.int_data(cy, 4)
    if bool_in:
        xv, yv = np.asarray(xv % 2 == 0), np.asarray(yv % 3 == 0)
    feeds = {"x": xv, "y": yv}
    if case["kind"] != "const":
        feeds["s"] = np.array(ct, dtype=np.int64)
    return feeds


def _eb_class(case):
    strat = {"const": "s1", "eout": "s2", "bout": "s3", "none": "none"}[_eb_avail(case)[0]]
    e = case["t"] if strat == "s1" else (case["e_annot"] if strat == "s2" else None)
    if e is not None and len(e) > max(len(case["x"]), len(case["y"])):
        return strat, "rank-increasing-expand"
    shapes = [case["x"], case["y"]] + ([case["e_annot"]] if strat == "s2" else []) + ([case["o_annot"]] if strat == "s3" else [])
    if strat in ("s2", "s3") and any(None in s for s in shapes if s is not None):
        return strat, "unknown-dims-compared-equal"
    return strat, "other"


def _eb_avail(case):
    """What _check_expand_removable will look at, in its order of preference."""
    if case["kind"] == "const":
        return ("const", case["t"])
    if case["e_annot"] is not None:
        return ("eout", case["e_annot"])
    if case["o_annot"] is not None:
        return ("bout", case["o_annot"])
    return ("none", None)


def _eb_avail_coq(case):
    k, v = _eb_avail(case)
    if k == "const":
        return f"(AConst {U.czs(v)})"
    if k == "eout":
        return f"(AExpandOut {U.cshape(v)})"
    if k == "bout":
        return f"(ABinOut {U.cshape(v)})"
    return "ANone"


def _eb_targets(rng, case, ts, b, k_alt):
    """Runtime contents of the shape input: the intended target first, then alternatives (the model does not
    constrain the values of a dynamic shape tensor; annotations are checked afterwards)."""
    intended = U.concretise(ts, b)
    out = [intended]
    if case["kind"] == "const" or not intended:
        return out
    for _ in range(k_alt):
        alt = tuple(v if rng.random() < 0.5 else rng.choice(U.VALUES) for v in intended)
        if alt not in out:
            out.append(alt)
    return out


def _eb_oracle(ctx, case, host, new, cap, stats, k_alt=2):
    """Original vs rewritten model at every sampled binding. Returns the first failure (dict) or None."""
    fr = U.Free()
    xs = fr.inst_shape("x", case["x"])
    ys = fr.inst_shape("y", case["y"])
    ts = fr.inst_shape("t", case["t"]) if case["kind"] != "const" else list(case["t"])
    r_old, r_new = U.Runner(host), U.Runner(new)
    for b in U.bindings(ctx.rng, fr.vars, cap):
        cx, cy = U.concretise(xs, b), U.concretise(ys, b)
        for ct in _eb_targets(ctx.rng, case, ts, b, k_alt):
            ce = U.np_bcast(cx, ct)
            co = U.np_bcast(ce, cy) if ce is not None else None
            stats["bindings"] += 1
            if co is None:
                stats["rejected_by_original"] += 1
                continue
            if not (U.truthful(case["e_annot"], ce, b) and U.truthful(case["o_annot"], co, b)):
                stats["inconsistent_with_annotations"] += 1
                continue
            feeds = _eb_feeds(case, cx, cy, ct)
            a_ort, a_ref = r_old.run_ort(feeds), r_old.run_ref(feeds)
            if a_ort[0] != "ok" or a_ref[0] != "ok":
                stats["original_runtime_error"] += 1
                stats.setdefault("original_runtime_error_sample", f"{a_ort[1] if a_ort[0] != 'ok' else a_ref[1]}"[:160])
                continue
            if tuple(np.asarray(a_ort[1][0]).shape) != tuple(co):
                stats["oracle_shape_model_mismatch"] += 1
            stats["executed"] += 1
            b_ort, b_ref = r_new.run_ort(feeds), r_new.run_ref(feeds)
            ok = (b_ort[0] == "ok" and b_ref[0] == "ok" and U.same_outputs(a_ort[1], b_ort[1]) and U.same_outputs(a_ref[1], b_ref[1]))
            if not ok:
                return {"binding": b, "x_shape": list(cx), "y_shape": list(cy), "target": list(ct),
                        "original": U.describe(a_ort[1]),
                        "rewritten": U.describe(b_ort[1]) if b_ort[0] == "ok" else b_ort[1],
                        "rewritten_ref": U.describe(b_ref[1]) if b_ref[0] == "ok" else b_ref[1]}
    return None


def fam_expand_binop(ctx):
    from onnxscript import rewriter
    from onnxscript.rewriter.rules.common import expand_before_binary_op_rules as rules

    rng = ctx.rng
    n = 600 if ctx.tier == "quick" else 4000
    cap = 40 if ctx.tier == "quick" else 60
    kinds = ["const"] * 4 + ["eout"] * 3 + ["bout"] * 3 + ["none"]
    corpus = [
        # DESIGN section 7 F5 and the F6 instances found while building (always replayed first)
        {"kind": "const", "x": [3], "y": [3], "t": [1, 3], "e_annot": None, "o_annot": None, "out_rank": 2, "op": "Add", "first": True, "const_as_node": False},
        {"kind": "eout", "x": ["N"], "y": ["N"], "t": [1, "N"], "e_annot": [1, "N"], "o_annot": None, "out_rank": 2, "op": "Add", "first": True, "const_as_node": False},
        {"kind": "eout", "x": [None], "y": [1], "t": [None], "e_annot": [None], "o_annot": None, "out_rank": 1, "op": "Add", "first": False, "const_as_node": False},
        {"kind": "bout", "x": [None], "y": [1], "t": [None], "e_annot": None, "o_annot": [None], "out_rank": 1, "op": "Mul", "first": True, "const_as_node": False},
        # repo tests (sound instances)
        {"kind": "const", "x": ["N"], "y": [3, 4], "t": [3, 4], "e_annot": None, "o_annot": None, "out_rank": 2, "op": "Add", "first": True, "const_as_node": False},
        {"kind": "eout", "x": ["N", 1], "y": [1, "B"], "t": ["N", 1], "e_annot": ["N", 1], "o_annot": ["N", "B"], "out_rank": 2, "op": "Add", "first": True, "const_as_node": False},
        {"kind": "bout", "x": ["N", 1], "y": [1, "B"], "t": ["N", 1], "e_annot": None, "o_annot": ["N", "B"], "out_rank": 2, "op": "Sub", "first": False, "const_as_node": False},
    ]
    cases = corpus + [_eb_generate(rng, kinds[i % len(kinds)]) for i in range(n)]
    for c in cases:
        if c["kind"] == "none":
            c["e_annot"] = c["o_annot"] = None
            c["kind"] = "bout"          # dynamic target, nothing annotated -> avail = none
    lits, stats = [], {k: 0 for k in ("bindings", "rejected_by_original", "inconsistent_with_annotations",
                                      "original_runtime_error", "executed", "oracle_shape_model_mismatch")}
    fired_n = 0
    oracle_fail = {}
    per_strategy = {}
    for i, case in enumerate(cases):
        host = _eb_model(case)
        try:
            new = rewriter.rewrite(host, pattern_rewrite_rules=rules)
        except Exception as e:  # noqa: BLE001
            ctx.violation(f"C09:expand-binop:raises:{type(e).__name__}", f"rule set raised {e!r}", {"family": "expand-binop", "case": case})
            lits.append(None)
            continue
        fired = _eb_fired(new)
        case["fired"] = fired
        strat, cls = _eb_class(case)
        per_strategy[(strat, bool(fired))] = per_strategy.get((strat, bool(fired)), 0) + 1
        ctx.case(("expand-binop", strat, bool(fired), cls, len(case["x"]), len(case["y"]), len(case["t"]),
                  any(isinstance(d, str) for d in case["x"] + case["y"]), None in case["x"] + case["y"]))
        lits.append(f"({_eb_avail_coq(case)}, {U.cshape(case['x'])}, {U.cshape(case['y'])}, {cbool(bool(fired))})")
        if fired:
            fired_n += 1
            fail = _eb_oracle(ctx, case, host, new, cap, stats)
            if fail is not None:
                oracle_fail[i] = fail
                ctx.violation(f"C09:expand-binop:{strat}:{cls}",
                              f"BinaryOp(Expand(x, shape), y) -> BinaryOp(x, y) fired ({strat}) but the rewritten model differs from the original: "
                              f"x{case['x']} target{case['t']} y{case['y']} at {fail['binding']}: {fail['original'][0]['shape']} vs "
                              f"{fail['rewritten'][0]['shape'] if isinstance(fail['rewritten'], list) else fail['rewritten']}",
                              {"family": "expand-binop", "case": case, "failure": fail})
        if i < 3 or (fired and len(ctx.samples) < 5 and i % 37 == 0):
            ctx.sample({"family": "expand-binop", "case": {k: v for k, v in case.items()}})
    idx = [i for i, l in enumerate(lits) if l is not None]
    body = f"Definition cases : list eb_case := {clist([lits[i] for i in idx])}.\nEval vm_compute in (eb_report 0 cases)."
    ok, vals, raw = ctx.coq_eval(["OV.Shape.SymDim", "OV.Shape.Broadcast"], body)
    n_both = n_old_only = n_fixed_only = n_neither = 0
    corr_ok = False
    if not ok or not vals:
        ctx.tie_broken("correspondence", "expand-binop:model-evaluation", raw[-800:])
    else:
        import re
        rep = {int(a): int(b) for a, b in re.findall(r"\((\d+)(?:%nat)?,\s*(\d+)(?:%nat)?\)", vals[0])}
        by_class = {}
        corr_ok = True
        for k, code in sorted(rep.items()):
            i = idx[k]
            case = cases[i]
            strat, cls = _eb_class(case)
            if code == 3:
                n_neither += 1
                corr_ok = False
                if i not in oracle_fail:
                    ctx.tie_broken("correspondence", f"expand-binop:{strat}",
                                   f"case {case}: implementation fired={case.get('fired')}, both Coq models (shipped, repaired) say otherwise")
            else:
                by_class.setdefault((strat, cls), {1: [], 2: []})[code].append(i)
        # Per defect class the implementation must consistently be the shipped or the repaired check.  Where it is the
        # shipped one (refuted in Props/C09.v) the property must be seen to fail on the real code in that class.
        for (strat, cls), d in sorted(by_class.items()):
            n_old_only += len(d[1])
            n_fixed_only += len(d[2])
            if d[1] and d[2]:
                corr_ok = False
                ctx.tie_broken("correspondence", f"expand-binop:{strat}:{cls}",
                               f"implementation follows the shipped check on {len(d[1])} and the repaired check on {len(d[2])} instances of this class; "
                               f"e.g. {cases[d[1][0]]} / {cases[d[2][0]]}")
            elif d[1] and not any(i in oracle_fail for i in d[1]):
                corr_ok = False
                ctx.tie_broken("correspondence", f"expand-binop:{strat}:{cls}",
                               f"implementation fires where the sound (repaired) model does not, e.g. {cases[d[1][0]]}, and no failing binding was found")
        n_both = len(idx) - n_old_only - n_fixed_only - n_neither
        ctx.cover(expand_binop_implementation_is={f"{k[0]}:{k[1]}": ("shipped (refuted) check" if d[1] else "repaired check")
                                                  for k, d in sorted(by_class.items())})
    ctx.obligation("correspondence expand-binop: fired/not-fired of the real rule set = Coq model on every instance (per defect class either the "
                   "repaired check, or the shipped check whose refutation is then replayed on the real code)", corr_ok)
    ctx.cover(expand_binop_instances=len(cases), expand_binop_fired=fired_n, expand_binop_agree_both_models=n_both,
              expand_binop_agree_only_shipped_model=n_old_only, expand_binop_agree_only_repaired_model=n_fixed_only,
              expand_binop_agree_neither=n_neither,
              expand_binop_by_strategy={f"{k[0]}:{'fired' if k[1] else 'kept'}": v for k, v in sorted(per_strategy.items())},
              expand_binop_oracle=stats)
    if fired_n < len(cases) // 10:
        ctx.tie_broken("harness", "expand-binop:generator-degenerate", f"only {fired_n}/{len(cases)} instances fired")


# ============================================================================= 3. partial evaluators on shape values
def _name_value(name, b):
    """Runtime size bound to a dim name; names invented by the Add evaluator ("N+M", "2+N") are sums (plus_closed)."""
    tot = 0
    for part in name.split("+"):
        tot += int(part) if part.lstrip("-").isdigit() else b[part]
    return tot


def _pe_concretise(shape, b, tag):
    return tuple(int(d) if isinstance(d, int) else (b[f"?{tag}{i}"] if d is None else _name_value(d, b)) for i, d in enumerate(shape))


def _py_sym(t, srcs):
    """Harness-side mirror of what the optimizer records (used ONLY to steer generation; Coq is the judge)."""
    k = t[0]
    if k == "const":
        return list(t[1])
    if k == "shape":
        return list(srcs[t[1]][slice(t[2], t[3])])
    if k == "gather":
        s = _py_sym(t[1], srcs)
        return None if s is None else [s[i] for i in t[2]]
    if k == "concat":
        parts = [_py_sym(u, srcs) for u in t[1]]
        return None if any(p is None for p in parts) else [d for p in parts for d in p]
    if k == "add":
        a, b = _py_sym(t[1], srcs), _py_sym(t[2], srcs)
        if a is None or b is None or len(a) != 1 or len(b) != 1 or a[0] is None or b[0] is None:
            return None
        if isinstance(a[0], int) and isinstance(b[0], int):
            return [a[0] + b[0]]
        return [f"{a[0]}+{b[0]}"]
    if k == "abs":
        s = _py_sym(t[1], srcs)
        if s is None:
            return None
        if not any(isinstance(d, int) and d < 0 for d in s):
            return s
        return [abs(d) for d in s] if all(isinstance(d, int) for d in s) else None
    if k == "ident":
        return _py_sym(t[1], srcs)
    s = _py_sym(t[1], srcs)   # opaque: only ordinary constant folding sees through it
    return s if s is not None and all(isinstance(d, int) for d in s) else None


def _py_len(t, srcs):
    k = t[0]
    if k == "const":
        return len(t[1])
    if k == "shape":
        return len(srcs[t[1]][slice(t[2], t[3])])
    if k == "gather":
        return len(t[2])
    if k == "concat":
        return sum(_py_len(u, srcs) for u in t[1])
    if k == "add":
        return max(_py_len(t[1], srcs), _py_len(t[2], srcs))
    return _py_len(t[1], srcs)


def _neg_add(t, srcs):
    """Does the tree contain Add(symbolic dim, negative constant) (the Add evaluator then records a name such as "N+-1")?"""
    k = t[0]
    if k in ("const", "shape"):
        return False
    if k == "add":
        a, b = _py_sym(t[1], srcs), _py_sym(t[2], srcs)
        if a is not None and b is not None and len(a) == 1 and len(b) == 1:
            for p, q in ((a[0], b[0]), (b[0], a[0])):
                if isinstance(p, int) and p < 0 and isinstance(q, str):
                    return True
        return _neg_add(t[1], srcs) or _neg_add(t[2], srcs)
    if k == "concat":
        return any(_neg_add(u, srcs) for u in t[1])
    return _neg_add(t[1], srcs)


def _abs_over_neg_add(case):
    srcs = case["srcs"]

    def walk(t):
        k = t[0]
        if k in ("const", "shape"):
            return False
        if k == "abs" and _neg_add(t[1], srcs):
            return True
        if k == "add":
            return walk(t[1]) or walk(t[2])
        if k == "concat":
            return any(walk(u) for u in t[1])
        return walk(t[1])
    return (case["consumer"] == "abs" and _neg_add(case["tree"], srcs)) or walk(case["tree"])


def _pe_tree(rng, srcs, depth, want_len=None):
    names = sorted(srcs)
    u = rng.random()
    if want_len == 1:
        # a single dimension
        if depth > 0 and u < 0.3:
            return ("add", _pe_tree(rng, srcs, depth - 1, 1), _pe_tree(rng, srcs, depth - 1, 1))
        if u < 0.45:
            return ("const", [rng.choice([0, 1, 2, 3, -1])])
        z = rng.choice(names)
        r = len(srcs[z])
        i = rng.randrange(r)
        if u < 0.75:
            return ("gather", ("shape", z, 0, None), [rng.choice([i, i - r])])
        if i + 1 == r and rng.random() < 0.5:
            return ("shape", z, rng.choice([i, -1]), None)
        return ("shape", z, i, i + 1)
    if depth <= 0 or u < 0.3:
        z = rng.choice(names)
        r = len(srcs[z])
        v = rng.random()
        if v < 0.5:
            return ("shape", z, 0, None)
        a = rng.randrange(-r, r + 1)
        b = rng.choice([None, rng.randrange(-r, r + 2)])
        return ("shape", z, a, b)
    if u < 0.38:
        return ("const", [rng.choice([0, 1, 2, 3, 3, -1]) for _ in range(rng.randint(0, 3))])
    if u < 0.52:
        sub = _pe_tree(rng, srcs, depth - 1)
        n = _py_len(sub, srcs)
        if n == 0:
            return sub
        return ("gather", sub, [rng.randrange(-n, n) for _ in range(rng.randint(1, 3))])
    if u < 0.8:
        return ("concat", [_pe_tree(rng, srcs, depth - 1, rng.choice([None, 1, 1])) for _ in range(rng.randint(2, 3))])
    if u < 0.87:
        return ("abs", _pe_tree(rng, srcs, depth - 1))
    if u < 0.95:
        return ("ident", _pe_tree(rng, srcs, depth - 1), rng.choice(["Identity", "Cast", "ReshapeFlat", "SqueezeFlat", "SqueezeAxesFlat", "Reshape0"]))
    return ("opaque", _pe_tree(rng, srcs, depth - 1), rng.choice(["NegNeg", "UnsqueezeSqueeze", "CastRound", "Reshape2Flat"]))


def _pe_coq(t, srcs):
    k = t[0]
    if k == "const":
        return f"(SConst {U.czs(t[1])})"
    if k == "shape":
        return f"(SShape {U.cshape(srcs[t[1]])} {common.cz(t[2])} {common.copt(t[3], common.cz)})"
    if k == "gather":
        return f"(SGather {_pe_coq(t[1], srcs)} {U.czs(t[2])})"
    if k == "concat":
        parts = [_pe_coq(u, srcs) for u in t[1]]
        out = parts[-1]
        for p in reversed(parts[:-1]):
            out = f"(SConcat {p} {out})"
        return out
    if k == "add":
        return f"(SAdd {_pe_coq(t[1], srcs)} {_pe_coq(t[2], srcs)})"
    if k == "abs":
        return f"(SAbs {_pe_coq(t[1], srcs)})"
    if k == "ident":
        # Identity / Cast(INT64->INT64) / Reshape(v, [-1] | [0]) / Squeeze(v) forward the recorded value
        return f"(SKeep {_pe_coq(t[1], srcs)})"
    return f"(SOpaque {_pe_coq(t[1], srcs)})"


class _Emit:
    def __init__(self):
        self.nodes, self.inits, self.n = [], [], 0

    def fresh(self, p):
        self.n += 1
        return f"{p}{self.n}"

    def const(self, arr):
        from onnx import numpy_helper
        name = self.fresh("c")
        self.inits.append(numpy_helper.from_array(np.array(arr, dtype=np.int64).reshape(len(arr)), name))
        return name

    def emit(self, t):
        from onnx import TensorProto, helper
        k = t[0]
        if k == "const":
            return self.const(t[1])
        out = self.fresh("v")
        if k == "shape":
            kw = {}
            if t[2] != 0 or self.n % 2:
                kw["start"] = t[2]
            if t[3] is not None:
                kw["end"] = t[3]
            self.nodes.append(helper.make_node("Shape", [t[1]], [out], **kw))
        elif k == "gather":
            self.nodes.append(helper.make_node("Gather", [self.emit(t[1]), self.const(t[2])], [out], axis=0))
        elif k == "concat":
            self.nodes.append(helper.make_node("Concat", [self.emit(u) for u in t[1]], [out], axis=0))
        elif k == "add":
            self.nodes.append(helper.make_node("Add", [self.emit(t[1]), self.emit(t[2])], [out]))
        elif k == "abs":
            self.nodes.append(helper.make_node("Abs", [self.emit(t[1])], [out]))
        elif k == "ident":
            inner = self.emit(t[1])
            if t[2] == "Identity":
                self.nodes.append(helper.make_node("Identity", [inner], [out]))
            elif t[2] == "Cast":
                self.nodes.append(helper.make_node("Cast", [inner], [out], to=TensorProto.INT64))
            elif t[2] == "SqueezeFlat":          # the pytorch symint pattern: Squeeze, then back to 1-D
                mid = self.fresh("v")
                self.nodes.append(helper.make_node("Squeeze", [inner], [mid]))
                self.nodes.append(helper.make_node("Reshape", [mid, self.const([-1])], [out]))
            elif t[2] == "SqueezeAxesFlat":      # Squeeze with an empty axes list squeezes nothing; a 1-D value stays 1-D
                mid = self.fresh("v")
                self.nodes.append(helper.make_node("Squeeze", [inner, self.const([])], [mid]))
                self.nodes.append(helper.make_node("Reshape", [mid, self.const([-1])], [out]))
            elif t[2] == "Reshape0":             # 0 = copy the input dim (allowzero = 0): a one-entry target is forwarded
                self.nodes.append(helper.make_node("Reshape", [inner, self.const([0])], [out]))
            else:
                self.nodes.append(helper.make_node("Reshape", [inner, self.const([-1])], [out]))
        else:
            kind = t[2] if len(t) > 2 else "NegNeg"
            mid = self.fresh("v")
            inner = self.emit(t[1])
            if kind == "UnsqueezeSqueeze":       # Unsqueeze has no partial evaluator: the recorded value is lost
                self.nodes.append(helper.make_node("Unsqueeze", [inner, self.const([0])], [mid]))
                self.nodes.append(helper.make_node("Squeeze", [mid, self.const([0])], [out]))
            elif kind == "CastRound":            # Cast to another element type is not forwarded
                self.nodes.append(helper.make_node("Cast", [inner], [mid], to=TensorProto.INT32))
                self.nodes.append(helper.make_node("Cast", [mid], [out], to=TensorProto.INT64))
            elif kind == "Reshape2Flat":         # a two-entry target is not forwarded (rank changes)
                self.nodes.append(helper.make_node("Reshape", [inner, self.const([1, -1])], [mid]))
                self.nodes.append(helper.make_node("Reshape", [mid, self.const([-1])], [out]))
            else:
                self.nodes.append(helper.make_node("Neg", [inner], [mid]))
                self.nodes.append(helper.make_node("Neg", [mid], [out]))
        return out


def _pe_generate(rng):
    pool = ["N", "N", "M", "K", 1, 2, 3, None] + ([0] if rng.random() < 0.3 else [])
    srcs = {f"z{i}": [rng.choice(pool) for _ in range(rng.randint(1, 3))] for i in range(rng.randint(1, 3))}
    consumer = rng.choice(["reshape", "reshape", "expand", "expand", "abs"])
    tree = _pe_tree(rng, srcs, rng.choice([1, 2, 2, 3]))
    sym = _py_sym(tree, srcs)
    if consumer == "abs" and (sym is None or all(isinstance(d, int) for d in sym)):
        consumer = "expand"
    x = None
    if consumer != "abs":
        n = _py_len(tree, srcs)
        base = [d if not (isinstance(d, int) and d < 0) else 2 for d in sym] if sym is not None else [rng.choice(pool) for _ in range(n)]
        u = rng.random()
        if u < 0.55:
            x = list(base)
        elif u < 0.8:
            if consumer == "reshape":
                x = list(base)
                rng.shuffle(x)
            else:
                x = [1 if rng.random() < 0.4 else d for d in base]
                if x and rng.random() < 0.3:
                    x = x[rng.randint(1, len(x)):]
        elif u < 0.9:
            x = list(base)
            if x:
                x[rng.randrange(len(x))] = rng.choice(pool)
        else:
            x = [None if rng.random() < 0.5 else d for d in base]
    return {"srcs": srcs, "tree": tree, "consumer": consumer, "x": x, "allowzero": int(rng.random() < 0.4),
            "also_v": rng.random() < 0.4}


def _pe_model(case):
    import onnx
    from onnx import TensorProto, helper

    em = _Emit()
    v = em.emit(case["tree"])
    T = TensorProto.INT64
    inputs = [helper.make_tensor_value_info(z, T, s) for z, s in sorted(case["srcs"].items())]
    n = _py_len(case["tree"], case["srcs"])
    if case["consumer"] == "abs":
        em.nodes.append(helper.make_node("Abs", [v], ["out"]))
        outs = [helper.make_tensor_value_info("out", T, [None])]
    else:
        inputs.append(helper.make_tensor_value_info("x", T, case["x"]))
        if case["consumer"] == "reshape":
            kw = {"allowzero": 1} if case["allowzero"] else {}
            em.nodes.append(helper.make_node("Reshape", ["x", v], ["out"], **kw))
            rank = n
        else:
            em.nodes.append(helper.make_node("Expand", ["x", v], ["out"]))
            rank = max(n, len(case["x"]))
        outs = [helper.make_tensor_value_info("out", T, [None] * rank)]
    if case["also_v"] and case["tree"][0] != "const":
        em.nodes.append(helper.make_node("Identity", [v], ["v_out"]))
        outs.append(helper.make_tensor_value_info("v_out", T, [None]))
    g = helper.make_graph(em.nodes, "g", inputs, outs, initializer=em.inits)
    m = helper.make_model(g, opset_imports=[helper.make_opsetid("", OPSET)], ir_version=9)
    onnx.checker.check_model(m)
    return m


def _pe_removed(case, new):
    want = {"reshape": "Reshape", "expand": "Expand", "abs": "Abs"}[case["consumer"]]
    for n in new.graph.node:
        if "out" in list(n.output):
            return n.op_type != want
    return True     # produced by no node: became an initializer / graph input alias


def _pe_oracle(ctx, case, host, new, cap, stats):
    fr = U.Free()
    inst = {}
    for z, s in sorted(case["srcs"].items()):
        inst[z] = s
        for i, d in enumerate(s):
            if d is None:
                fr.vars.append(f"?{z}{i}")
            elif isinstance(d, str):
                for part in d.split("+"):
                    if not part.lstrip("-").isdigit() and part not in fr.vars:
                        fr.vars.append(part)
    if case["x"] is not None:
        for i, d in enumerate(case["x"]):
            if d is None:
                fr.vars.append(f"?x{i}")
            elif isinstance(d, str):
                for part in d.split("+"):
                    if not part.lstrip("-").isdigit() and part not in fr.vars:
                        fr.vars.append(part)
    r_old, r_new = U.Runner(host), U.Runner(new)
    for b in U.bindings(ctx.rng, fr.vars, cap):
        shapes = {z: _pe_concretise(s, b, z) for z, s in inst.items()}
        if case["x"] is not None:
            shapes["x"] = _pe_concretise(case["x"], b, "x")
        stats["bindings"] += 1
        if any(d < 0 for s in shapes.values() for d in s):
            stats["inconsistent_with_annotations"] += 1      # e.g. a dim named "N+-1" at N = 0
            continue
        feeds = {z: (U.int_data(s, 2) if z == "x" else np.zeros(s, dtype=np.int64)) for z, s in shapes.items()}
        a_ort, a_ref = r_old.run_ort(feeds), r_old.run_ref(feeds)
        if a_ort[0] != "ok" or a_ref[0] != "ok":
            stats["rejected_by_original"] += 1
            b_ort = r_new.run_ort(feeds)
            if b_ort[0] == "ok" and a_ort[0] != "ok" and a_ref[0] != "ok":
                stats["optimized_accepts_what_original_rejects"] += 1
            continue
        if not U.same_outputs(a_ort[1], a_ref[1]):
            stats["runtimes_disagree_on_original"] += 1
            continue
        stats["executed"] += 1
        b_ort, b_ref = r_new.run_ort(feeds), r_new.run_ref(feeds)
        ok = (b_ort[0] == "ok" and b_ref[0] == "ok" and U.same_outputs(a_ort[1], b_ort[1]) and U.same_outputs(a_ref[1], b_ref[1]))
        if not ok:
            return {"binding": b, "feeds_shapes": {k: list(v.shape) for k, v in feeds.items()},
                    "original": U.describe(a_ort[1]),
                    "optimized": U.describe(b_ort[1]) if b_ort[0] == "ok" else b_ort[1],
                    "optimized_ref": U.describe(b_ref[1]) if b_ref[0] == "ok" else b_ref[1]}
    return None


def fam_partial_eval(ctx):
    import onnx

    from onnxscript import optimizer

    rng = ctx.rng
    n = 260 if ctx.tier == "quick" else 2000
    cap = 30 if ctx.tier == "quick" else 60
    corpus = [
        # repo tests test_reshape_identity_symdim / test_expand_identity_symdim / test_abs_symdim / test_gather_symdim
        {"srcs": {"z0": ["B", 256], "z1": [512, "B"]}, "tree": ("concat", [("shape", "z0", 0, 1), ("const", [256])]), "consumer": "reshape",
         "x": ["B", 256], "allowzero": 0, "also_v": False},
        {"srcs": {"z0": ["N", 3], "z1": [2, "M"]}, "consumer": "reshape", "x": ["N", 0, "N+M"], "allowzero": 0, "also_v": True,
         "tree": ("concat", [("shape", "z0", 0, 1), ("const", [0]), ("add", ("gather", ("shape", "z0", 0, None), [0]), ("shape", "z1", -1, None))])},
        {"srcs": {"z0": ["N", 3], "z1": [2, "M"]}, "consumer": "reshape", "x": ["N", 0, "N+M"], "allowzero": 1, "also_v": False,
         "tree": ("concat", [("shape", "z0", 0, 1), ("const", [0]), ("add", ("gather", ("shape", "z0", 0, None), [0]), ("shape", "z1", -1, None))])},
        {"srcs": {"z0": ["N", "N"]}, "consumer": "expand", "x": ["N", "N"], "allowzero": 0, "also_v": False, "tree": ("shape", "z0", 0, None)},
        {"srcs": {"z0": [None, 4]}, "consumer": "expand", "x": [None, 4], "allowzero": 0, "also_v": False, "tree": ("shape", "z0", 0, None)},
        {"srcs": {"z0": ["N", 4]}, "consumer": "expand", "x": [1, 4], "allowzero": 0, "also_v": False, "tree": ("shape", "z0", 0, None)},
        {"srcs": {"z0": [1, 1, "S"]}, "consumer": "abs", "x": None, "allowzero": 0, "also_v": False, "tree": ("shape", "z0", 0, None)},
        {"srcs": {"z0": ["S", 2]}, "consumer": "abs", "x": None, "allowzero": 0, "also_v": False,
         "tree": ("concat", [("const", [-1]), ("shape", "z0", 0, 1)])},
        # witness of C09_abs_identity_shipped_refuted: Abs(Shape(z)[0:1] + (-1))
        {"srcs": {"z0": ["N"]}, "consumer": "abs", "x": None, "allowzero": 0, "also_v": False,
         "tree": ("add", ("shape", "z0", 0, None), ("const", [-1]))},
        {"srcs": {"z0": ["N", 2]}, "consumer": "expand", "x": [1, 1], "allowzero": 0, "also_v": True,
         "tree": ("concat", [("abs", ("add", ("const", [-1]), ("shape", "z0", 0, 1))), ("const", [2])])},
    ]
    cases = corpus + [_pe_generate(rng) for _ in range(n)]
    stats = {k: 0 for k in ("bindings", "rejected_by_original", "executed", "optimized_accepts_what_original_rejects",
                            "runtimes_disagree_on_original", "inconsistent_with_annotations")}
    lits, meta, removed_n = [], [], 0
    fails = {}
    for i, case in enumerate(cases):
        host = _pe_model(case)
        try:
            new = optimizer.optimize(host)
        except Exception as e:  # noqa: BLE001
            ctx.violation(f"C09:partial-eval:optimize-raises:{type(e).__name__}", f"optimize() raised {e!r}",
                          {"family": "partial-eval", "case": case})
            continue
        removed = _pe_removed(case, new)
        removed_n += removed
        sym = _py_sym(case["tree"], case["srcs"])
        ctx.case(("partial-eval", case["consumer"], removed, sym is None, None if sym is None else len(sym),
                  sym is not None and any(isinstance(d, str) for d in sym), sym is not None and None in sym,
                  sym is not None and 0 in sym, sym is not None and len([d for d in sym if isinstance(d, str)]) != len({d for d in sym if isinstance(d, str)})))
        fail = _pe_oracle(ctx, case, host, new, cap, stats)
        if fail is not None:
            fails[i] = fail
            key = ("C09:partial-eval:abs-of-symbolic-sum-with-negative-constant" if _abs_over_neg_add(case)
                   else f"C09:partial-eval:{case['consumer']}:{'removed' if removed else 'kept'}")
            ctx.violation(key,
                          f"optimize() changed the result of a model with shape computations: {case} at {fail['binding']}",
                          {"family": "partial-eval", "case": case, "failure": fail,
                           "model": onnx.helper.printable_graph(host.graph)})
        kind = {"reshape": "CReshape", "expand": "CExpand", "abs": "CAbs"}[case["consumer"]]
        lits.append(f"({kind}, {common.copt(case['x'], U.cshape)}, {_pe_coq(case['tree'], case['srcs'])}, {cbool(removed)})")
        meta.append(i)
        if len(ctx.samples) < 6 and i in (1, 6):
            ctx.sample({"family": "partial-eval", "case": case, "consumer_removed": removed})
    import re
    ok, vals, raw = ctx.coq_eval(["OV.Shape.SymDim", "OV.Shape.PartialEval"],
                                 f"Definition cases : list pe_case := {clist(lits)}.\nEval vm_compute in (pe_report 0 cases).")
    corr_ok = False
    groups = {1: [], 2: [], 3: []}
    if not ok or not vals:
        ctx.tie_broken("correspondence", "partial-eval:model-evaluation", raw[-800:])
    else:
        rep = {int(a): int(b) for a, b in re.findall(r"\((\d+)(?:%nat)?,\s*(\d+)(?:%nat)?\)", vals[0])}
        corr_ok = True
        for k, code in sorted(rep.items()):
            groups[code].append(meta[k])
        for i in groups[3]:
            corr_ok = False
            if i not in fails:
                ctx.tie_broken("correspondence", f"partial-eval:{cases[i]['consumer']}",
                               f"optimize() decision on the consumer differs from both Coq models (shipped / repaired Add evaluator): {cases[i]}")
        # the only modelled difference between the shipped and the repaired optimizer is Add(symbol, negative constant)
        if groups[1] and groups[2]:
            corr_ok = False
            ctx.tie_broken("correspondence", "partial-eval:add-negative-constant",
                           f"implementation follows the shipped Add evaluator on {cases[groups[1][0]]} and the repaired one on {cases[groups[2][0]]}")
        elif groups[1] and not any(i in fails for i, c in enumerate(cases) if _abs_over_neg_add(c)):
            corr_ok = False
            ctx.tie_broken("correspondence", "partial-eval:add-negative-constant",
                           f"implementation records symbol + negative constant (e.g. {cases[groups[1][0]]}) but no failing input was found")
        ctx.cover(partial_eval_add_evaluator_is="shipped (refuted)" if groups[1] else "repaired",
                  partial_eval_agree_only_shipped=len(groups[1]), partial_eval_agree_only_repaired=len(groups[2]))
    bad = groups[3] if ok and vals else None
    ctx.obligation("correspondence partial-eval: Reshape/Expand/Abs replaced by Identity in the real optimize() = Coq decision "
                   "(reshape_is_identity / expand_is_identity / abs_is_identity over sv_sym; repaired Add evaluator, or the shipped one whose "
                   "refutation is then replayed on the real code) on every generated model", corr_ok)
    ctx.cover(partial_eval_models=len(cases), partial_eval_consumer_removed=removed_n, partial_eval_model_disagreements=None if bad is None else len(bad),
              partial_eval_oracle=stats)
    if removed_n < len(cases) // 8:
        ctx.tie_broken("harness", "partial-eval:generator-degenerate", f"only {removed_n}/{len(cases)} consumers were simplified")


# ============================================================================= 4. Reshape output-shape model vs the runtimes
def fam_reshape_model(ctx):
    import onnx
    from onnx import TensorProto, helper

    rng = ctx.rng
    n = 150 if ctx.tier == "quick" else 1500
    runners = {}
    lits, meta = [], []
    for k in range(n):
        cx = [rng.choice([0, 1, 2, 3, 4]) for _ in range(rng.randint(0, 3))]
        u = rng.random()
        if u < 0.35:
            t = list(cx)
            rng.shuffle(t)
        elif u < 0.7:
            t = list(cx)
            if t:
                t[rng.randrange(len(t))] = rng.choice([0, -1])
            if rng.random() < 0.3 and t:
                t[rng.randrange(len(t))] = rng.choice([0, -1, 1])
        else:
            t = [rng.choice([0, 1, 2, 3, 4, 6, -1]) for _ in range(rng.randint(0, 3))]
        az = int(rng.random() < 0.5)
        numel_known = [d for d in t if d != -1]
        if -1 in t and (0 in numel_known or any(c == 0 for c in cx)):
            continue       # -1 together with a zero-sized tensor: left unspecified by the operator document, not modelled
        key = (az, len(cx), len(t))
        if key not in runners:
            g = helper.make_graph([helper.make_node("Reshape", ["x", "s"], ["y"], **({"allowzero": 1} if az else {}))], "g",
                                  [helper.make_tensor_value_info("x", TensorProto.INT64, [None] * len(cx)),
                                   helper.make_tensor_value_info("s", TensorProto.INT64, [len(t)])],
                                  [helper.make_tensor_value_info("y", TensorProto.INT64, [None] * len(t))])
            runners[key] = U.Runner(helper.make_model(g, opset_imports=[helper.make_opsetid("", OPSET)], ir_version=9))
        feeds = {"x": U.int_data(tuple(cx), 3), "s": np.array(t, dtype=np.int64).reshape(len(t))}
        a, b = runners[key].run_ort(feeds), runners[key].run_ref(feeds)
        sa = list(np.asarray(a[1][0]).shape) if a[0] == "ok" else None
        sb = list(np.asarray(b[1][0]).shape) if b[0] == "ok" else None
        if sa != sb:
            ctx.cover(reshape_runtimes_disagree=ctx.coverage.get("reshape_runtimes_disagree", 0) + 1)
            continue
        lits.append(f"({cbool(az)}, {U.czs(cx)}, {U.czs(t)}, {common.copt(sa, U.czs)})")
        meta.append((az, cx, t, sa))
        ctx.case(("reshape-model", az, len(cx), len(t), 0 in t, -1 in t, sa is None))
    ok, vals, raw = ctx.coq_eval(["OV.Shape.SymDim", "OV.Shape.PartialEval"],
                                 f"Definition cases : list reshape_case := {clist(lits)}.\nEval vm_compute in (disagreeing reshape_agrees 0 cases).")
    bad = common.parse_nat_list(vals[0]) if ok and vals else None
    if bad is None:
        ctx.tie_broken("correspondence", "reshape-model:model-evaluation", raw[-800:])
    else:
        for k in bad:
            ctx.tie_broken("correspondence", "reshape-model", f"(allowzero, input shape, requested, runtimes) = {meta[k]}: Coq reshape_out differs")
    ctx.obligation("correspondence: Coq reshape_out = output shape (or rejection) of ONNX Reshape on onnxruntime and onnx.reference", bad == [])
    ctx.cover(reshape_model_cases=len(lits), reshape_model_rejected=sum(1 for m in meta if m[3] is None))


# ============================================================================= 5. MaterializeReshapeShape
def _mat_model(case):
    import onnx
    from onnx import TensorProto, helper

    T = TensorProto.INT64
    rank = case["rank"]
    kw = {"allowzero": 1} if case["allowzero"] else {}
    nodes = [helper.make_node("Reshape", ["x", "s"], ["r"], **kw), helper.make_node("Identity", ["r"], ["out"])]
    vi = [helper.make_tensor_value_info("r", T, case["o"])] if case["o"] is not None else []
    g = helper.make_graph(nodes, "g", [helper.make_tensor_value_info("x", T, ["K"]), helper.make_tensor_value_info("s", T, [rank])],
                          [helper.make_tensor_value_info("out", T, [None] * rank)], value_info=vi)
    m = helper.make_model(g, opset_imports=[helper.make_opsetid("", OPSET)], ir_version=9)
    onnx.checker.check_model(m)
    return m


def _mat_observed(new):
    from onnx import numpy_helper
    consts = {i.name: numpy_helper.to_array(i) for i in new.graph.initializer}
    for n in new.graph.node:
        if n.op_type == "Constant":
            for a in n.attribute:
                if a.name == "value":
                    consts[n.output[0]] = numpy_helper.to_array(a.t)
                elif a.name == "value_ints":
                    consts[n.output[0]] = np.array(list(a.ints), dtype=np.int64)
    for n in new.graph.node:
        if n.op_type == "Reshape":
            if n.input[1] in consts:
                az = [a.i for a in n.attribute if a.name == "allowzero"]
                return [int(v) for v in consts[n.input[1]].tolist()], (az[0] if az else 0)
            return None, None
    return None, None


def _mat_class(o):
    if o is not None and sum(1 for d in o if not isinstance(d, int)) == 1 and any(isinstance(d, int) and d == 0 for d in o):
        return "static-zero-with-symbolic-dim"
    return "other"


def fam_materialize(ctx):
    import re

    from onnxscript import rewriter
    from onnxscript.rewriter.rules.common import _materialize_reshape_shape as mod

    rng = ctx.rng
    n = 150 if ctx.tier == "quick" else 1500
    cap = 25 if ctx.tier == "quick" else 60
    corpus = [{"o": [0, "N"], "rank": 2, "allowzero": 0}, {"o": ["N", 0], "rank": 2, "allowzero": 1}, {"o": [2, "N", 3], "rank": 3, "allowzero": 0},
              {"o": [2, 0], "rank": 2, "allowzero": 1}, {"o": ["N", "M"], "rank": 2, "allowzero": 0}, {"o": None, "rank": 2, "allowzero": 0},
              {"o": [None, 0, 3], "rank": 3, "allowzero": 1}]
    cases = list(corpus)
    for _ in range(n):
        rank = rng.randint(1, 3)
        pool = [0, 0, 1, 2, 3, "N", None] if rng.random() < 0.5 else [1, 2, 3, 4, "N", "M", None]
        o = None if rng.random() < 0.08 else [rng.choice(pool) for _ in range(rank)]
        cases.append({"o": o, "rank": rank, "allowzero": int(rng.random() < 0.5)})
    lits, fails = [], {}
    stats = {k: 0 for k in ("bindings", "rejected_by_original", "executed")}
    fired_n = 0
    for i, case in enumerate(cases):
        host = _mat_model(case)
        new = rewriter.rewrite(host, pattern_rewrite_rules=mod.rules)
        dims, az = _mat_observed(new)
        case["observed"] = dims
        fired_n += dims is not None
        cls = _mat_class(case["o"])
        ctx.case(("materialize", case["rank"], dims is not None, cls, None if case["o"] is None else sum(1 for d in case["o"] if not isinstance(d, int)),
                  case["o"] is not None and 0 in case["o"], case["o"] is not None and None in case["o"]))
        lits.append(f"({common.copt(case['o'], U.cshape)}, {common.copt(dims, U.czs)})")
        if dims is None:
            continue
        if az != 1:
            ctx.tie_broken("correspondence", "materialize", f"{case}: rewritten Reshape has allowzero={az}, the model assumes 1")
        fr = U.Free()
        o_inst = fr.inst_shape("o", case["o"])
        r_old, r_new = U.Runner(host), U.Runner(new)
        for b in U.bindings(rng, fr.vars, cap):
            co = U.concretise(o_inst, b)
            numel = int(np.prod(co, dtype=np.int64))
            feeds = {"x": U.int_data((numel,), 5), "s": np.array(co, dtype=np.int64)}
            stats["bindings"] += 1
            a_ort, a_ref = r_old.run_ort(feeds), r_old.run_ref(feeds)
            if a_ort[0] != "ok" or a_ref[0] != "ok" or tuple(np.asarray(a_ort[1][0]).shape) != tuple(co):
                stats["rejected_by_original"] += 1       # e.g. a 0 in the requested shape that cannot be copied (allowzero=0)
                continue
            stats["executed"] += 1
            b_ort, b_ref = r_new.run_ort(feeds), r_new.run_ref(feeds)
            if not (b_ort[0] == "ok" and b_ref[0] == "ok" and U.same_outputs(a_ort[1], b_ort[1]) and U.same_outputs(a_ref[1], b_ref[1])):
                fails[i] = {"binding": b, "requested_shape": list(co), "original": U.describe(a_ort[1]),
                            "rewritten": U.describe(b_ort[1]) if b_ort[0] == "ok" else b_ort[1],
                            "rewritten_ref": U.describe(b_ref[1]) if b_ref[0] == "ok" else b_ref[1]}
                ctx.violation(f"C09:materialize-reshape:{cls}",
                              f"MaterializeReshapeShape: output annotated {case['o']} -> Reshape(data, {dims}, allowzero=1) differs from / is rejected "
                              f"unlike the original at requested shape {list(co)}", {"family": "materialize", "case": case, "failure": fails[i]})
                break
    ok, vals, raw = ctx.coq_eval(["OV.Shape.SymDim", "OV.Shape.Materialize"],
                                 f"Definition cases : list mat_case := {clist(lits)}.\nEval vm_compute in (mat_report 0 cases).")
    corr_ok = False
    if not ok or not vals:
        ctx.tie_broken("correspondence", "materialize:model-evaluation", raw[-800:])
    else:
        rep = {int(a): int(b) for a, b in re.findall(r"\((\d+)(?:%nat)?,\s*(\d+)(?:%nat)?\)", vals[0])}
        corr_ok = True
        groups = {1: [], 2: []}
        for i, code in sorted(rep.items()):
            if code == 3:
                corr_ok = False
                if i not in fails:
                    ctx.tie_broken("correspondence", "materialize", f"{cases[i]}: both Coq models (shipped, repaired) produce something else")
            else:
                groups[code].append(i)
        if groups[1] and groups[2]:
            corr_ok = False
            ctx.tie_broken("correspondence", "materialize", f"implementation follows the shipped rule on {cases[groups[1][0]]} and the repaired one on {cases[groups[2][0]]}")
        elif groups[1] and not any(i in fails for i in groups[1]):
            corr_ok = False
            ctx.tie_broken("correspondence", "materialize", f"implementation materialises where the sound model refuses, e.g. {cases[groups[1][0]]}, and no failing input was found")
        ctx.cover(materialize_implementation_is="shipped (refuted) rule" if groups[1] else "repaired rule",
                  materialize_agree_only_shipped=len(groups[1]), materialize_agree_only_repaired=len(groups[2]))
    ctx.obligation("correspondence materialize: constant emitted by the real MaterializeReshapeShape = Coq mat_dims on every instance "
                   "(repaired rule, or the shipped rule whose refutation is then replayed on the real code)", corr_ok)
    ctx.cover(materialize_instances=len(cases), materialize_fired=fired_n, materialize_oracle=stats)


FAMILIES = [fam_dim_equalities, fam_expand_binop, fam_partial_eval, fam_reshape_model, fam_materialize]




# ============================================================================= 6. collapse_slices (same_shape rule)
def fam_collapse_slice(ctx):
    import onnx
    from onnx import TensorProto, helper, numpy_helper

    from onnxscript import rewriter
    from onnxscript.rewriter.rules.common import _collapse_slices as mod

    rng = ctx.rng
    n = 80 if ctx.tier == "quick" else 500
    cap = 20 if ctx.tier == "quick" else 40
    T = TensorProto.INT64
    meta = []
    stats = {k: 0 for k in ("bindings", "executed")}
    fired_n = 0
    for k in range(n):
        rank = rng.randint(1, 3)
        data = [rng.choice(["N", "N", "M", 2, 3, None, 0]) for _ in range(rank)]
        u = rng.random()
        out = list(data) if u < 0.6 else [rng.choice(["N", "M", 2, 3, None]) if rng.random() < 0.4 else d for d in data]
        step = 1 if rng.random() < 0.8 else 2
        naxes = rng.randint(1, rank)
        axes = sorted(rng.sample(range(rank), naxes))
        nodes = [helper.make_node("Slice", ["x", "st", "en", "ax", "sp"], ["y"]), helper.make_node("Identity", ["y"], ["out"])]
        inits = [numpy_helper.from_array(np.array(axes, dtype=np.int64), "ax"), numpy_helper.from_array(np.array([step] * naxes, dtype=np.int64), "sp")]
        g = helper.make_graph(nodes, "g", [helper.make_tensor_value_info("x", T, data), helper.make_tensor_value_info("st", T, [naxes]),
                                           helper.make_tensor_value_info("en", T, [naxes])],
                              [helper.make_tensor_value_info("out", T, [None] * rank)], initializer=inits,
                              value_info=[helper.make_tensor_value_info("y", T, out)])
        host = helper.make_model(g, opset_imports=[helper.make_opsetid("", OPSET)], ir_version=9)
        onnx.checker.check_model(host)
        new = rewriter.rewrite(host, pattern_rewrite_rules=mod.rules)
        fired = not any(nd.op_type == "Slice" for nd in new.graph.node)
        fired_n += fired
        ctx.case(("collapse-slice", rank, fired, step, None in data, data == out))
        meta.append((data, out, step, fired))
        if step != 1 and fired:
            ctx.tie_broken("correspondence", "collapse-slice", f"Slice with step {step} removed: data {data} out {out}")
        if not fired:
            continue
        # truthful bindings: the Slice output has the annotated (= data) shape, i.e. each sliced axis is taken whole
        fr = U.Free()
        xs = fr.inst_shape("x", data)
        r_old, r_new = U.Runner(host), U.Runner(new)
        for b in U.bindings(rng, fr.vars, cap):
            cx = U.concretise(xs, b)
            ends = [[cx[a] + rng.choice([0, 5]) for a in axes]]
            if any(out[a] is None and cx[a] >= 1 for a in axes):
                # an axis whose output size is not annotated may be sliced short without contradicting any annotation
                ends.append([cx[a] - 1 if (out[a] is None and cx[a] >= 1) else cx[a] for a in axes])
            failed = False
            for en in ends:
                feeds = {"x": U.int_data(cx, 6), "st": np.zeros(naxes, dtype=np.int64), "en": np.array(en, dtype=np.int64)}
                stats["bindings"] += 1
                a_ort, a_ref = r_old.run_ort(feeds), r_old.run_ref(feeds)
                if a_ort[0] != "ok" or a_ref[0] != "ok" or not U.truthful(out, np.asarray(a_ort[1][0]).shape, b):
                    continue
                stats["executed"] += 1
                b_ort, b_ref = r_new.run_ort(feeds), r_new.run_ref(feeds)
                if not (b_ort[0] == "ok" and b_ref[0] == "ok" and U.same_outputs(a_ort[1], b_ort[1]) and U.same_outputs(a_ref[1], b_ref[1])):
                    ctx.violation("C09:collapse-slice:same-shape", f"Slice removed (data {data}, output annotated {out}) but results differ at {b}, ends {en}",
                                  {"family": "collapse-slice", "data": data, "out": out, "axes": axes, "ends": en, "binding": b})
                    failed = True
                    break
            if failed:
                break
    # the decision of the rule is `_ir_utils.same_shape(data.shape, slice_output.shape)` (steps all 1): second component of shape_agrees
    lits2 = [f"({U.cshape(d)}, {U.cshape(o)}, ({cbool(True)}, {cbool(f)}, {cbool(False)}))" for d, o, st, f in meta if st == 1]
    body = (f"Definition cases : list shape_case := {clist(lits2)}.\n"
            "Eval vm_compute in (disagreeing (fun c => let '(a, b, (o1, o2, o3)) := c in Bool.eqb (iu_same_shape (Some a) (Some b)) o2) 0 cases).")
    ok, vals, raw = ctx.coq_eval(["OV.Shape.SymDim"], body)
    bad = common.parse_nat_list(vals[0]) if ok and vals else None
    if bad is None:
        ctx.tie_broken("correspondence", "collapse-slice:model-evaluation", raw[-800:])
    else:
        m1 = [m for m in meta if m[2] == 1]
        for k in bad:
            ctx.tie_broken("correspondence", "collapse-slice", f"data {m1[k][0]} slice output {m1[k][1]}: rule fired={m1[k][3]}, iu_same_shape (Coq) says otherwise")
    ctx.obligation("correspondence collapse-slice: collapse_slice2 fires (dynamic starts/ends, steps 1) iff Coq iu_same_shape(data, slice output)", bad == [])
    ctx.cover(collapse_slice_instances=n, collapse_slice_fired=fired_n, collapse_slice_oracle=stats)


FAMILIES.append(fam_collapse_slice)


# ============================================================================= 7. hand-written models, direct oracle only
def fam_oracle_only(ctx):
    """Mechanisms named by the property that have no Gallina model here (shape-value propagation through Reshape/Squeeze,
    Flatten -> Reshape, Size, zero-size Concat operands, SqueezeReshape): original vs optimize() on the runtimes at every binding."""
    import onnx
    from onnx import TensorProto, helper, numpy_helper

    from onnxscript import optimizer

    T = TensorProto.INT64
    vi = helper.make_tensor_value_info

    def c(name, vals):
        return numpy_helper.from_array(np.array(vals, dtype=np.int64), name)

    def model(nodes, inputs, outs, inits=()):
        g = helper.make_graph(nodes, "g", inputs, outs, initializer=list(inits))
        m = helper.make_model(g, opset_imports=[helper.make_opsetid("", OPSET)], ir_version=9)
        onnx.checker.check_model(m)
        return m

    N = helper.make_node
    models = []
    # shape value forwarded through a rank-changing Reshape, then indexed
    models.append(("reshape-propagation:gather-from-reshaped-shape-value", {"x": ["N", 3]},
                   model([N("Shape", ["x"], ["s"]), N("Reshape", ["s", "c12"], ["r"]), N("Gather", ["r", "im1"], ["out"], axis=0)],
                         [vi("x", T, ["N", 3])], [vi("out", T, [None, None])], [c("c12", [1, 2]), c("im1", [-1])])))
    models.append(("reshape-propagation:flat", {"x": ["N", 3]},
                   model([N("Shape", ["x"], ["s"]), N("Reshape", ["s", "cm1"], ["r"]), N("Gather", ["r", "im1"], ["out"], axis=0)],
                         [vi("x", T, ["N", 3])], [vi("out", T, [None])], [c("cm1", [-1]), c("im1", [-1])])))
    models.append(("squeeze-propagation", {"x": ["N", 3], "y": ["M"]},
                   model([N("Shape", ["x"], ["s"], start=0, end=1), N("Squeeze", ["s"], ["q"]), N("Shape", ["y"], ["t"]), N("Squeeze", ["t"], ["u"]),
                          N("Add", ["q", "u"], ["a"]), N("Reshape", ["a", "cm1"], ["v"]), N("Expand", ["w", "v"], ["out"])],
                         [vi("x", T, ["N", 3]), vi("y", T, ["M"]), vi("w", T, [1])], [vi("out", T, [None])], [c("cm1", [-1])])))
    # Flatten -> Reshape with a zero-sized / symbolic leading part
    for tag, shape, axis in (("flatten-to-reshape:zero-dim-with-inferred-dim", ["N", "M"], 1), ("flatten-to-reshape:zero-dim-with-inferred-dim", [0, "N"], 1),
                             ("flatten-to-reshape:static-rest", ["N", 3, 4], 1), ("flatten-to-reshape:static-front", [2, "N"], 1),
                             ("flatten-to-reshape:axis2", [0, "N", 2], 2), ("flatten-to-reshape:axis0", ["N", 2], 0)):
        models.append((tag, {"x": shape}, model([N("Flatten", ["x"], ["y"], axis=axis), N("Identity", ["y"], ["out"])],
                                                [vi("x", T, shape)], [vi("out", T, [None, None])])))
    # Size, Concat with a zero-sized operand, Reshape(Squeeze(x), [-1]) on 1-D x
    models.append(("size", {"x": ["N", 3]}, model([N("Size", ["x"], ["out"])], [vi("x", T, ["N", 3])], [vi("out", T, [])])))
    models.append(("size-static", {"x": [2, 0, 3]}, model([N("Size", ["x"], ["out"])], [vi("x", T, [2, 0, 3])], [vi("out", T, [])])))
    models.append(("concat-zero-operand", {"x": ["N", 0], "y": ["N", 2]},
                   model([N("Concat", ["x", "y", "x"], ["out"], axis=1)], [vi("x", T, ["N", 0]), vi("y", T, ["N", 2])], [vi("out", T, ["N", None])])))
    models.append(("concat-symbolic-operand", {"x": ["N", "M"], "y": ["N", 2]},
                   model([N("Concat", ["x", "y"], ["out"], axis=1)], [vi("x", T, ["N", "M"]), vi("y", T, ["N", 2])], [vi("out", T, ["N", None])])))
    models.append(("squeeze-reshape-1d", {"x": ["N"]},
                   model([N("Squeeze", ["x"], ["q"]), N("Reshape", ["q", "cm1"], ["out"])], [vi("x", T, ["N"])], [vi("out", T, [None])], [c("cm1", [-1])])))
    # rules listed as "differential only" in coq/Shape/Coverage.v, with symbolic dims around the static ones they read
    models.append(("reshape-reshape:symbolic-batch", {"x": ["N", 4]},
                   model([N("Reshape", ["x", "r1"], ["a"]), N("Reshape", ["a", "r2"], ["out"])], [vi("x", T, ["N", 4])], [vi("out", T, [None, None, None])],
                         [c("r1", [-1, 2]), c("r2", [-1, 2, 2])])))
    models.append(("reshape-reshape:zero-copies-dim", {"x": ["N", 4]},
                   model([N("Reshape", ["x", "r1"], ["a"]), N("Reshape", ["a", "r2"], ["out"])], [vi("x", T, ["N", 4])], [vi("out", T, [None, None])],
                         [c("r1", [-1, 2]), c("r2", [0, 2])])))
    models.append(("reshape-reshape:annotated-output", {"x": ["N", 6]},
                   model([N("Reshape", ["x", "r1"], ["a"]), N("Reshape", ["a", "r2"], ["r"]), N("Identity", ["r"], ["out"])], [vi("x", T, ["N", 6])],
                         [vi("out", T, ["N", 2, 3])], [c("r1", [-1, 3]), c("r2", [-1, 2, 3])])))
    models.append(("slices-split", {"x": ["N", 4]},
                   model([N("Slice", ["x", "b0", "e0", "ax"], ["p"]), N("Slice", ["x", "b1", "e1", "ax"], ["q"]), N("Sub", ["p", "q"], ["out"])],
                         [vi("x", T, ["N", 4])], [vi("out", T, [None, None])], [c("b0", [0]), c("e0", [2]), c("b1", [2]), c("e1", [4]), c("ax", [-1])])))
    models.append(("split-to-sequence:vector-split", {"x": ["N", 4]},
                   model([N("SplitToSequence", ["x", "sp"], ["seq"], axis=1), N("SequenceAt", ["seq", "i1"], ["out"])],
                         [vi("x", T, ["N", 4])], [vi("out", T, [None, None])], [c("sp", [1, 3]), numpy_helper.from_array(np.array(1, dtype=np.int64), "i1")])))
    models.append(("split-to-sequence:symbolic-axis", {"x": ["N", 2]},
                   model([N("SplitToSequence", ["x", "sp"], ["seq"], axis=0), N("ConcatFromSequence", ["seq"], ["out"], axis=0)],
                         [vi("x", T, ["N", 2])], [vi("out", T, [None, None])], [numpy_helper.from_array(np.array(2, dtype=np.int64), "sp")])))
    stats = {"models": len(models), "bindings": 0, "executed": 0, "changed": 0}
    for tag, shapes, host in models:
        try:
            new = optimizer.optimize(host)
        except Exception as e:  # noqa: BLE001
            ctx.violation(f"C09:{tag}:optimize-raises", f"optimize() raised {e!r}", {"family": "oracle-only", "tag": tag})
            continue
        changed = [n.op_type for n in new.graph.node] != [n.op_type for n in host.graph.node]
        stats["changed"] += changed
        names = sorted({d for s_ in shapes.values() for d in s_ if isinstance(d, str)})
        r_old, r_new = U.Runner(host), U.Runner(new)
        ctx.case(("oracle-only", tag, changed))
        for b in U.bindings(ctx.rng, names, 125):
            feeds = {k: U.int_data(U.concretise(v, b), 3) for k, v in shapes.items()}
            if "w" in r_old.input_names:
                feeds["w"] = np.array([5], dtype=np.int64)
            stats["bindings"] += 1
            a_ort = r_old.run_ort(feeds)
            if a_ort[0] != "ok":
                continue                      # rejected by the original
            stats["executed"] += 1
            b_ort = r_new.run_ort(feeds)
            a_ref, b_ref = r_old.run_ref(feeds), r_new.run_ref(feeds)
            ok = b_ort[0] == "ok" and U.same_outputs(a_ort[1], b_ort[1])
            if ok and a_ref[0] == "ok":
                ok = b_ref[0] == "ok" and U.same_outputs(a_ref[1], b_ref[1])
            if not ok:
                ctx.violation(f"C09:{tag}", f"optimize() changed the behaviour of a hand-written model ({tag}) at {b}: "
                              f"{U.describe(a_ort[1])} vs {U.describe(b_ort[1]) if b_ort[0] == 'ok' else b_ort[1]}",
                              {"family": "oracle-only", "tag": tag, "binding": b, "model": onnx.helper.printable_graph(host.graph),
                               "optimized": onnx.helper.printable_graph(new.graph)})
                break
    ctx.cover(oracle_only=stats)


FAMILIES.append(fam_oracle_only)


def replay(doc):
    """./check C09 --replay <path>: re-run the recorded instance on the real code and print both results."""
    import json

    from onnxscript import optimizer, rewriter
    r = doc.get("replay", {})
    print(json.dumps({k: doc.get(k) for k in ("property", "key", "what")}, indent=1))
    fam, case, fail = r.get("family"), r.get("case"), r.get("failure")
    if fam == "expand-binop":
        from onnxscript.rewriter.rules.common import expand_before_binary_op_rules as rules
        host = _eb_model(case)
        new = rewriter.rewrite(host, pattern_rewrite_rules=rules)
        feeds = _eb_feeds(case, tuple(fail["x_shape"]), tuple(fail["y_shape"]), tuple(fail["target"]))
    elif fam == "partial-eval":
        case["tree"] = _retuple(case["tree"])
        host = _pe_model(case)
        new = optimizer.optimize(host)
        feeds = {k: (U.int_data(tuple(v), 2) if k == "x" else np.zeros(tuple(v), dtype=np.int64)) for k, v in fail["feeds_shapes"].items()}
    elif fam == "materialize":
        from onnxscript.rewriter.rules.common import _materialize_reshape_shape as mod
        host = _mat_model(case)
        new = rewriter.rewrite(host, pattern_rewrite_rules=mod.rules)
        co = fail["requested_shape"]
        feeds = {"x": U.int_data((int(np.prod(co, dtype=np.int64)),), 5), "s": np.array(co, dtype=np.int64)}
    else:
        print(json.dumps(r, indent=1, default=str)[:4000])
        return 0
    a, b = U.Runner(host), U.Runner(new)
    ra, rb = a.run_ort(feeds), b.run_ort(feeds)
    print("original :", U.describe(ra[1]) if ra[0] == "ok" else ra[1])
    print("optimized:", U.describe(rb[1]) if rb[0] == "ok" else rb[1])
    same = ra[0] == "ok" and rb[0] == "ok" and U.same_outputs(ra[1], rb[1])
    print("property holds on this input" if same else "property FAILS on this input")
    return 0 if same else 1


def _retuple(t):
    if isinstance(t, list) and t and isinstance(t[0], str) and t[0] in ("const", "shape", "gather", "concat", "add", "abs", "ident", "opaque"):
        k = t[0]
        if k == "const":
            return ("const", list(t[1]))
        if k == "shape":
            return ("shape", t[1], t[2], t[3])
        if k == "gather":
            return ("gather", _retuple(t[1]), list(t[2]))
        if k == "concat":
            return ("concat", [_retuple(u) for u in t[1]])
        if k == "add":
            return ("add", _retuple(t[1]), _retuple(t[2]))
        if k == "ident":
            return ("ident", _retuple(t[1]), t[2])
        return (k, _retuple(t[1])) + tuple(t[2:])
    return t


def run(ctx):
    import logging
    for name in ("onnx_ir", "onnxscript", "onnx_ir.passes.common"):
        logging.getLogger(name).setLevel(logging.ERROR)
    ctx.assume("annotations of the ORIGINAL model are truthful (every annotated shape denotes the runtime shape, equal names denote equal sizes); "
               "the harness checks this itself at each sampled binding and skips bindings that contradict an annotation")
    ctx.assume("ONNX Expand / broadcasting binary operators follow numpy multidirectional broadcasting (operator documents); measured on "
               "onnxruntime and onnx.reference at every executed binding")
    ctx.assume("tensor data is integer valued (int64 / bool), compared exactly")
    ctx.check_props()
    from harness import c09_accept, c09_more, c09_rules
    for fam in FAMILIES + c09_more.FAMILIES + c09_rules.FAMILIES + c09_accept.FAMILIES:
        fam(ctx)
    if ctx.tier == "thorough":
        ctx.coqchk(["Props.C09"])


def regenerate(ctx):
    """Translator (fail-closed): who reads shape information in the anchored files -> coq/Gen/ShapeUsers.v."""
    from harness import c09_users
    ctx.c09_users = c09_users.regenerate(ctx)
