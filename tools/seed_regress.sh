#!/bin/bash
# seed_regress.sh [lanes=3]: every seeded change through its quick check; seeds of one property run one after the other
lanes=${1:-3}; out=/var/tmp/osv/seed_regress.log; : > $out
props=$(ls /verif/seeded | sed 's/-.*//' | sort -u)
i=0; for p in $props; do echo $p >> /var/tmp/osv/lane_$((i % lanes)).txt.new; i=$((i+1)); done
for l in $(seq 0 $((lanes-1))); do mv /var/tmp/osv/lane_$l.txt.new /var/tmp/osv/lane_$l.txt; (for p in $(cat /var/tmp/osv/lane_$l.txt); do for s in $(ls /verif/seeded | grep "^$p-"); do /verif/tools/try_seed.py $s quick 2>&1 | grep -v WARNING | cut -c1-260 >> $out; done; done) & done
wait; echo finished >> $out
