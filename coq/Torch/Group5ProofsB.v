(* C08 (fifth group) -- shape theorems for the models of Group5.v (second proofs file). *)
From Coq Require Import ZArith List Bool Lia ZifyBool.
Require Import OV.Torch.Onnx OV.Torch.Onnx2 OV.Torch.Onnx3 OV.Torch.Spec OV.Torch.Spec2 OV.Torch.Aten OV.Torch.Aten2
               OV.Torch.Lemmas OV.Torch.ShapeProofs OV.Torch.AxisProofs OV.Torch.PadProofs OV.Torch.Group5.
Import ListNotations.
Local Open Scope Z_scope.

(* ------------------------------------------------------------------ max.dim / min.dim: both outputs, every rank incl. 0-d *)
Lemma maxmin_dim_correct : forall s dim kd out,
  torch_maxmin_dim_shapes s dim kd = Some out -> aten_maxmin_dim_shapes s dim kd = Some out.
Proof.
  intros s dim kd out. unfold torch_maxmin_dim_shapes, aten_maxmin_dim_shapes, argmax_shape, reduce_shape.
  destruct (zlen s =? 0) eqn:E0.
  - destruct (wrap_dim (zlen s) dim); [|discriminate]. cbn [obind]. auto.
  - pose proof (zlen_nonneg _ s). rewrite wrap_dim_norm_axis by lia. cbn [omap_all].
    destruct (norm_axis (zlen s) dim) as [a|]; [|discriminate]. cbn [obind].
    destruct (nthZ s a) as [n|]; [|discriminate]. destruct (n =? 0); [discriminate|]. auto.
Qed.

(* ------------------------------------------------------------------ reflection / replication pads *)
Lemma padnd_shape_correct : forall reflect e s pad out,
  shape_ok s -> torch_padnd_shape reflect e s pad = Some out -> aten_pad_shape s pad = Some out.
Proof.
  intros reflect e s pad out Hs. unfold torch_padnd_shape.
  destruct (negb ((zlen s =? e + 1) || (zlen s =? e + 2)) || negb (zlen pad =? 2 * e)); [discriminate|].
  destruct (torch_pad_shape s pad) as [o|] eqn:E; [|discriminate]. cbn [obind].
  match goal with |- context [if ?c then _ else _] => destruct c end; [|discriminate].
  intro H; inversion H; subst o. apply pad_shape_correct; assumption.
Qed.

(* ------------------------------------------------------------------ atleast_1d / 2d / 3d *)
Ltac rs := unfold reshape_shape;
  cbn [existsb count_of filter length Nat.ltb Nat.leb andb orb has resolve_zeros tl map prodZ fold_right Z.ltb Z.eqb Z.compare
       Pos.compare Pos.compare_cont Pos.eqb negb].
Lemma atleast_shape_correct : forall k s, shape_ok s -> k = 1 \/ k = 2 \/ k = 3 ->
  aten_atleast_shape k s = Some (torch_atleast_shape k s).
Proof.
  intros k s Hs Hk. unfold aten_atleast_shape, torch_atleast_shape.
  destruct s as [|a [|b [|c t]]].
  - destruct Hk as [-> | [-> | ->]]; reflexivity.
  - change (zlen [a]) with 1.
    destruct Hk as [-> | [-> | ->]]; cbn [Z.eqb Z.leb Z.compare Pos.eqb Pos.compare Pos.compare_cont]; [reflexivity| |].
    + rs. change (-1 <? -1) with false. change (1 * 1) with 1. rewrite Z.mul_1_r, Z.mod_1_r, Z.div_1_r. reflexivity.
    + rs. change (-1 <? -1) with false. change (1 * (1 * 1)) with 1. rewrite Z.mul_1_r, Z.mod_1_r, Z.div_1_r. reflexivity.
  - change (zlen [a; b]) with 2.
    destruct Hk as [-> | [-> | ->]]; cbn [Z.eqb Z.leb Z.compare Pos.eqb Pos.compare Pos.compare_cont]; reflexivity.
  - assert (Hz : 3 <= zlen (a :: b :: c :: t)) by (rewrite !zlen_cons; pose proof (zlen_nonneg _ t); lia).
    destruct Hk as [-> | [-> | ->]]; cbn [Z.eqb Pos.eqb].
    + replace (zlen (a :: b :: c :: t) =? 0) with false by lia. reflexivity.
    + replace (zlen (a :: b :: c :: t) <=? 1) with false by lia. reflexivity.
    + replace (zlen (a :: b :: c :: t) <=? 1) with false by lia. replace (zlen (a :: b :: c :: t) =? 2) with false by lia. reflexivity.
Qed.

(* ------------------------------------------------------------------ glu *)
Lemma glu_shape_correct : forall s dim out, shape_pos s ->
  torch_glu_shape s dim = Some out -> aten_glu_shape s dim = Some out.
Proof.
  intros s dim out Hs. unfold torch_glu_shape, aten_glu_shape.
  destruct (zlen s =? 0) eqn:E0; [discriminate|]. pose proof (zlen_nonneg _ s).
  rewrite wrap_dim_norm_axis by lia. destruct (norm_axis (zlen s) dim) as [a|]; [|discriminate]. cbn [obind].
  destruct (nthZ s a) as [n|] eqn:En; [|discriminate]. cbn [obind].
  destruct (n mod 2 =? 0) eqn:Em; [|discriminate]. intro Hq0; inversion Hq0; subst out; clear Hq0.
  assert (Hn : 0 < n).
  { apply (shape_pos_In s); [assumption|]. unfold nthZ in En. destruct (a <? 0); [discriminate|]. eapply nth_error_In; eassumption. }
  assert (Hq : n = 2 * (n / 2)) by (pose proof (Z.div_mod n 2); lia).
  unfold split_num_outputs. replace ((2 <=? 0) || (n <? 2)) with false by lia.
  assert (Hc : ceil_div n 2 = n / 2) by (unfold ceil_div; pose proof (Z.div_mod (- n) 2); pose proof (Z.mod_pos_bound (- n) 2); lia).
  rewrite Hc. replace (n - n / 2 * (2 - 1)) with (n / 2) by lia.
  replace (n / 2 <=? 0) with false by lia. cbn [obind]. change (Z.to_nat (2 - 1)) with 1%nat. cbn [repeat app].
  unfold bcast_shape. 
  assert (Hb : forall l, bcast_rev l l = Some l).
  { induction l as [|x l IH]; [reflexivity|]. cbn [bcast_rev]. unfold bdim. rewrite Z.eqb_refl. rewrite IH. reflexivity. }
  rewrite Hb. cbn [option_map]. rewrite rev_involutive. reflexivity.
Qed.
