#!/venv/bin/python
"""kf.py fixed <commit> <key-substring>...   |  kf.py list [pid]  | kf.py drop <key-substring>"""
import json, sys, fcntl
p = "/verif/known_findings.json"
with open(p + ".lock", "w") as lk:
    fcntl.flock(lk, fcntl.LOCK_EX)
    d = json.load(open(p))
    cmd = sys.argv[1]
    if cmd == "list":
        for f in d["findings"]:
            if len(sys.argv) < 3 or f["property"] == sys.argv[2]:
                print(f["property"], f.get("status"), f["key"], "|", f.get("proposed_fix", ""))
    elif cmd == "fixed":
        commit = sys.argv[2]
        for sub in sys.argv[3:]:
            n = 0
            for f in d["findings"]:
                if sub in f["key"] and f.get("status") == "known":
                    f["status"] = "fixed"; f["commit"] = commit
                    f["what"] = f"fixed: property={f['property']} {commit} " + f["what"]
                    n += 1
            print(sub, "->", n, "entries")
    elif cmd == "drop":
        for sub in sys.argv[2:]:
            before = len(d["findings"])
            d["findings"] = [f for f in d["findings"] if sub not in f["key"]]
            print(sub, "dropped", before - len(d["findings"]))
    if cmd != "list":
        tmp = p + ".tmp"
        with open(tmp, "w") as out:
            out.write('{\n "comment": ' + json.dumps(d["comment"]) + ',\n "findings": [\n')
            out.write(",\n".join("  " + json.dumps(f) for f in d["findings"]))
            out.write("\n ]\n}\n")
        import os; os.replace(tmp, p)
