(* C10 -- the pass over the REPAIRED native converter (successor of C10_pass_consistent, whose pass model used the unrepaired
   converter), and exactly when onnxscript/_framework_apis/torch_2_9.py convert_version raises.
   Models: Version/Pass2.v (pass_convert2, torch_2_9_convert_r with a refusing inline pass, native2_cause, calmb),
   Version/Pass2Std.v; proofs: Version/Pass2Proofs.v, Version/Pass2StdProofs.v.
   Tie: harness/c10.py evaluates every native / pass / ModelProto case against the variant the code is in
   (Pass2Std.disagreeing3 with the probed own / refuse / minchk); harness/c10_torch.py runs torch_2_9.convert_version on the
   inputs of the three causes (QuantizeLinear int32, "" vs "ai.onnx" conflict, a function importing another opset) and on
   controls, and compares outcome class and final state with Pass2.torch_2_9_convert_r inside Coq (Pass2Std.tr_disagreeing). *)
From Coq Require Import ZArith List Bool String.
Import ListNotations.
Require Import OV.Gen.VersionTables OV.Version.Model OV.Version.Model2 OV.Version.Adapters OV.Version.Std OV.Version.StdProofs
               OV.Version.CApi OV.Version.Fallback OV.Version.FallbackStd OV.Version.Pass2 OV.Version.Pass2Std
               OV.Version.Pass2Proofs OV.Version.Pass2StdProofs.
Local Open Scope Z_scope.

(* ---- the pass, every variant of the repairs (own, refuse, minchk), oracles as in C10_pass_consistent: converted and
   consistent at t, or (fallback on, natively unsupported, C API failed) left as it was, consistent at s.
   Not covered: logged skips (l = [] is a hypothesis), what the oracles do beyond the stated hypotheses. *)
Theorem C10_pass_consistent2 : forall fx fuel (inline cleanup : model -> model) (capi : model -> Z -> option model),
  (forall s M, consistent_at s M = true -> consistent_at s (inline M) = true) ->
  (forall s M, consistent_at s M = true -> consistent_at s (cleanup M) = true) ->
  (forall M, m_funcs (inline M) = []) ->
  (forall M t M2, capi M t = Some M2 -> consistent_at t (Model (m_decl M2) (m_ai M2) (m_graph M2) []) = true) ->
  forall own refuse minchk fb s t M M',
  consistent_at s M = true ->
  pass_convert2 own refuse minchk (std_adapt fx) supported_min supported_max fuel inline cleanup capi fb M t = MDone M' [] ->
  consistent_at t M' = true \/
  (fb = true /\ supported supported_min supported_max (inline M) t = false /\ capi (inline M) t = None /\
   M' = cleanup (inline M) /\ consistent_at s M' = true).
Proof.
  exact (fun fx fuel inline cleanup capi H1 H2 H3 H4 =>
           pass_consistent2 (std_adapt fx) supported_min supported_max fuel inline cleanup capi (std_adapt_flat fx) H1 H2 H3 H4).
Qed.
Print Assumptions C10_pass_consistent2.

(* the unrepaired pass model is the instance without repairs; C10_pass_consistent is the corollary *)
Theorem C10_pass_convert_is_variant_off : forall fx fuel (inline cleanup : model -> model) (capi : model -> Z -> option model) fb M t,
  pass_convert2 false false MinOff (std_adapt fx) supported_min supported_max fuel inline cleanup capi fb M t
  = pass_convert (std_adapt fx) supported_min supported_max fuel inline cleanup capi fb M t.
Proof. exact (fun fx fuel => pass_convert2_off (std_adapt fx) supported_min supported_max fuel). Qed.
Print Assumptions C10_pass_convert_is_variant_off.

Theorem C10_pass_consistent_corollary : forall fx fuel (inline cleanup : model -> model) (capi : model -> Z -> option model),
  (forall s M, consistent_at s M = true -> consistent_at s (inline M) = true) ->
  (forall s M, consistent_at s M = true -> consistent_at s (cleanup M) = true) ->
  (forall M, m_funcs (inline M) = []) ->
  (forall M t M2, capi M t = Some M2 -> consistent_at t (Model (m_decl M2) (m_ai M2) (m_graph M2) []) = true) ->
  forall fb s t M M',
  consistent_at s M = true ->
  pass_convert (std_adapt fx) supported_min supported_max fuel inline cleanup capi fb M t = MDone M' [] ->
  consistent_at t M' = true \/
  (fb = true /\ supported supported_min supported_max (inline M) t = false /\ capi (inline M) t = None /\
   M' = cleanup (inline M) /\ consistent_at s M' = true).
Proof.
  exact (fun fx fuel inline cleanup capi H1 H2 H3 H4 =>
           pass_consistent_from2 (std_adapt fx) supported_min supported_max fuel inline cleanup capi (std_adapt_flat fx) H1 H2 H3 H4).
Qed.
Print Assumptions C10_pass_consistent_corollary.

(* ---- why the repaired native converter raises: exactly when a cause is computed (range, opset conflict, pre-check
   refusal, or an exception during the visit); a cause found before the visit leaves the model EXACTLY as it was *)
Theorem C10_native2_raises_iff : forall own refuse minchk adapt smin smax fuel M t,
  (exists e M' l, convert_native2 own refuse minchk adapt smin smax fuel M t = MRaised e M' l) <->
  native2_cause own refuse minchk adapt smin smax fuel M t <> None.
Proof. exact native2_raises_iff. Qed.
Print Assumptions C10_native2_raises_iff.

Theorem C10_native2_cause_before_visit_unchanged : forall own refuse minchk adapt smin smax fuel M t c,
  native2_cause own refuse minchk adapt smin smax fuel M t = Some c -> before_visit c = true ->
  exists e, convert_native2 own refuse minchk adapt smin smax fuel M t = MRaised e M [] /\
    match c with KRange => e = EValueRange | KConflict => e = EOpsetConflict | KRefused => e = ERefused | KVisit _ => False end.
Proof. exact native2_cause_before_visit_unchanged. Qed.
Print Assumptions C10_native2_cause_before_visit_unchanged.

(* the visit cannot raise (fuel aside) on default-domain nodes without reference attributes, of operators without an
   adapter, whose version is known and not above the target -- recursively through subgraphs *)
Theorem C10_visit_never_raises_on_calm_graphs : forall adapt q, (forall op, q op = true -> forall k n, adapt op k n = ANone) ->
  forall t dv f todo, forallb (calmb q t dv) todo = true ->
  match conv adapt t dv f todo with GFin _ _ => True | GAbort e _ _ => e = EOutOfFuel end.
Proof. exact conv_calm_quiet. Qed.
Print Assumptions C10_visit_never_raises_on_calm_graphs.

(* ---- _framework_apis.torch_2_9.convert_version (fallback=True) raises EXACTLY when the inline pass refuses, or the request
   is handed to the native converter (not already at the target; smin <= declared <= t <= smax, or no "" import) and the
   native converter has a cause.  Never on a request that goes to the C API (C10_fallback_never_raises). *)
Theorem C10_torch_2_9_raises_iff : forall own refuse minchk adapt smin smax fuel limit capi inline_r cleanup S0 t,
  t_raises (torch_2_9_convert_r own refuse minchk adapt smin smax fuel limit capi inline_r cleanup S0 t) = true <->
  inline_r S0 = None \/
  exists S1, inline_r S0 = Some S1 /\ oz_is (m_decl (st_model S1)) t = false /\
             supported smin smax (st_model S1) t = true /\
             native2_cause own refuse minchk adapt smin smax fuel (st_model S1) t <> None.
Proof. exact torch_2_9_raises_iff. Qed.
Print Assumptions C10_torch_2_9_raises_iff.

(* ... and for inlined models of operators without a registered adapter (shipped registry), nodes not stamped above the
   target, no reference attributes: the causes are out-of-range target (only without a "" import), opset conflict and the
   pre-check (QuantizeLinear int32 -> 19..22; import below the minimum) -- all found before anything is modified: the state
   left behind is the inlined model exactly.
   Not covered: models containing DFT / GridSample / GroupNormalization (their adapters can raise: num_groups = 0, missing
   inputs), nodes stamped above the target (raised during the visit, earlier nodes already re-stamped). *)
Theorem C10_torch_2_9_raises_iff_unadapted : forall own refuse mv fx limit capi inline_r cleanup S0 S1 t,
  inline_r S0 = Some S1 -> m_funcs (st_model S1) = [] ->
  (forall dv, default_version (st_model S1) = Some dv -> forallb (calmb std_q t dv) (m_graph (st_model S1)) = true) ->
  (forall dv g l, conv (std_adapt fx) t dv big_fuel (m_graph (st_model S1)) <> GAbort EOutOfFuel g l) ->
  (t_raises (torch_2_9_convert_r own refuse mv (std_adapt fx) supported_min supported_max big_fuel limit capi inline_r cleanup S0 t) = true <->
   oz_is (m_decl (st_model S1)) t = false /\ supported supported_min supported_max (st_model S1) t = true /\
   ((t >? supported_max) || (t <? supported_min) = true \/ default_version (st_model S1) = None \/
    exists dv, default_version (st_model S1) = Some dv /\ precheck refuse mv supported_min t dv (st_model S1) [] = true))
  /\ (forall e S' l,
        torch_2_9_convert_r own refuse mv (std_adapt fx) supported_min supported_max big_fuel limit capi inline_r cleanup S0 t
        = TRaisedNative e S' l ->
        S' = S1 /\ l = [] /\ (e = EValueRange \/ e = EOpsetConflict \/ e = ERefused)).
Proof. exact std_torch_2_9_raises_iff_calm. Qed.
Print Assumptions C10_torch_2_9_raises_iff_unadapted.

Theorem C10_torch_2_9_raises_examples :
  let run := fun refuse inl S0 t =>
    torch_2_9_convert_r true refuse MinDecl (std_adapt flags_fixed) supported_min supported_max big_fuel 1000
                        (fun _ _ => None) inl id_state S0 t in
  run true inline_ok w_ql 19 = TRaisedNative ERefused w_ql [] /\
  run true inline_ok w_ql 22 = TRaisedNative ERefused w_ql [] /\
  t_raises (run true inline_ok w_ql 23) = false /\
  t_raises (run false inline_ok w_ql 19) = false /\
  run true inline_ok w_conflict 21 = TRaisedNative EOpsetConflict w_conflict [] /\
  run true inline_refuses w_ql 23 = TRaisedInline /\
  forallb (calmb std_q 19 (Some 18)) (m_graph (st_model w_ql)) = true.
Proof. exact torch_2_9_raises_examples. Qed.
Print Assumptions C10_torch_2_9_raises_examples.
