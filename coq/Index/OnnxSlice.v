(* C11 -- the ONNX operators the two front ends emit, transcribed from the operator documents
   (Slice-13, Squeeze-13, Gather-13), acting on views (NumpySpec.v).  No proofs in this file.

   Slice, per axis (document): negative starts/ends get dims[axis] added; then start is clamped to
   [0, d] for positive and [0, d-1] for negative stepping, end to [0, d] resp. [-1, d-1]; the
   selected positions are start, start+step, ... strictly before end.  step 0 is an error.
   For d = 0 and negative stepping the document's interval [0, -1] is empty; `clamp` below lets the
   upper bound win (start = -1, nothing selected), which is what onnxruntime and onnx.reference
   return (measured by the harness on shapes with a 0 dimension).
   Integers are unbounded here; the operands the front ends emit are int64 constants and
   INT64_MAX / INT64_MIN are handled by the clamping, no wrap-around occurs for d >= 0. *)
From Coq Require Import ZArith List Bool.
Import ListNotations.
Require Import OV.Index.NumpySpec.
Open Scope Z_scope.

Definition clamp (lo hi x : Z) : Z := Z.min hi (Z.max lo x).

Definition onnx_slice (d s e st : Z) : option (list Z) :=
  if st =? 0 then None
  else
    let s' := if s <? 0 then s + d else s in
    let e' := if e <? 0 then e + d else e in
    if 0 <? st then Some (range_list (clamp 0 d s') (clamp 0 d e') st)
    else Some (range_list (clamp 0 (d - 1) s') (clamp (-1) (d - 1) e') st).

(* Where ONNX Slice and Python disagree although the operands are passed through unchanged: a negative
   step, a start below -d (Python: "before the first element", nothing is selected; ONNX: clamped to 0)
   and a stop that is omitted or also below -d.  ONNX then selects element 0. *)
Definition neg_start_hazard (d : Z) (start stop step : option Z) : bool :=
  match step, start with
  | Some st, Some s =>
      (st <? 0) && (1 <=? d) && (s <? - d) &&
      match stop with None => true | Some e => e <? - d end
  | _, _ => false
  end.

(* Gather: "All index values are expected to be within bounds [-s, s-1] along axis of size s.
   It is an error if any of the index values are out of bounds." *)
Definition gather_index (d i : Z) : option Z :=
  if (- d <=? i) && (i <? d) then Some (if i <? 0 then i + d else i) else None.

(* ---- the ops on views ---------------------------------------------------------------------
   An op acts on the *current result*: its axis numbers count the kept axes of the view. *)
Inductive gidx := G0 (i : Z) | G1 (l : list Z).
Definition spec := (Z * Z * nat * Z)%type.           (* start, end, axis, step *)
Inductive op :=
| OIdentity
| OSlice (specs : list spec)
| OSqueeze (axes : list nat)
| OGather (axis : nat) (ix : gidx).

Fixpoint nkeeps (v : view) : nat :=
  match v with [] => O | Keep _ :: t => S (nkeeps t) | Pick _ :: t => nkeeps t end.

(* apply f to every kept axis, passing its number among the kept axes *)
Fixpoint map_keeps (f : nat -> list Z -> option sel) (k : nat) (v : view) : option view :=
  match v with
  | [] => Some []
  | Pick i :: t => option_map (cons (Pick i)) (map_keeps f k t)
  | Keep l :: t =>
      match f k l, map_keeps f (S k) t with
      | Some s, Some r => Some (s :: r)
      | _, _ => None
      end
  end.

Definition pick_all (l : list Z) (js : list Z) : list Z := map (fun j => nth (Z.to_nat j) l 0) js.

Definition spec_axis (x : spec) : nat := let '(_, _, a, _) := x in a.

Fixpoint lookup_spec (k : nat) (specs : list spec) : option spec :=
  match specs with
  | [] => None
  | x :: t => if Nat.eqb (spec_axis x) k then Some x else lookup_spec k t
  end.

(* axes must address existing axes.  ("Behavior is undefined if an axis is repeated": the front ends never
   repeat an axis -- every index position contributes at most one entry -- and the model lets the first
   entry win.) *)
Definition axes_ok (n : nat) (axes : list nat) : bool := forallb (fun a => Nat.ltb a n) axes.

Definition slice_f (specs : list spec) (k : nat) (l : list Z) : option sel :=
  match lookup_spec k specs with
  | None => Some (Keep l)
  | Some (s, e, _, st) => option_map (fun js => Keep (pick_all l js)) (onnx_slice (zlen l) s e st)
  end.

(* "If an axis is selected with shape entry not equal to one, an error is raised." *)
Definition squeeze_f (axes : list nat) (k : nat) (l : list Z) : option sel :=
  if existsb (Nat.eqb k) axes
  then match l with [x] => Some (Pick x) | _ => None end
  else Some (Keep l).

Definition gather_sel (l : list Z) (ix : gidx) : option sel :=
  match ix with
  | G0 i => option_map (fun j => Pick (nth (Z.to_nat j) l 0)) (gather_index (zlen l) i)
  | G1 js => option_map (fun js' => Keep (pick_all l js')) (mapM (gather_index (zlen l)) js)
  end.

Definition gather_f (a : nat) (ix : gidx) (k : nat) (l : list Z) : option sel :=
  if Nat.eqb k a then gather_sel l ix else Some (Keep l).

Definition run_op (o : op) (v : view) : option view :=
  match o with
  | OIdentity => Some v
  | OSlice specs =>
      if axes_ok (nkeeps v) (map spec_axis specs) then map_keeps (slice_f specs) 0 v else None
  | OSqueeze axes =>
      if axes_ok (nkeeps v) axes then map_keeps (squeeze_f axes) 0 v else None
  | OGather a ix =>
      if Nat.ltb a (nkeeps v) then map_keeps (gather_f a ix) 0 v else None
  end.

Fixpoint run_ops (ops : list op) (v : view) : option view :=
  match ops with
  | [] => Some v
  | o :: t => match run_op o v with Some v' => run_ops t v' | None => None end
  end.
