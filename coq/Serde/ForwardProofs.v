(* Option forwarding (C15): the decision procedure `forwarding_ok` is correct -- if it accepts a wrapper, the IR
   transformation performed by the ModelProto branch is the one performed by the ir.Model branch for every value of every
   option, whatever the callees and argument expressions mean -- and it accepts every wrapper found in the source
   (Gen/C15Wrappers.v, a finite regenerated table: vm_compute).  Combined with the copy-back disciplines this gives
   proto(f_opts) M = ser (ir(f_opts) (deser M)) with f_opts derived from the source instead of assumed equal. *)
From Coq Require Import List Bool String.
Require Import OV.Serde.Wrappers OV.Serde.WrappersProofs OV.Serde.Forward OV.Gen.C15Wrappers.
Import ListNotations.
Local Open Scope string_scope.

Lemma list_eqb_eq : forall (A : Type) (eqb : A -> A -> bool), (forall x y, eqb x y = true -> x = y) ->
  forall l m, list_eqb eqb l m = true -> l = m.
Proof.
  intros A eqb H. induction l as [|x l IH]; intros [|y m] E; cbn in E; try discriminate; [reflexivity|].
  apply andb_true_iff in E. destruct E as [E1 E2]. f_equal; [apply H; assumption | apply IH; assumption].
Qed.
Lemma list_eqb_refl : forall (A : Type) (eqb : A -> A -> bool), (forall x, eqb x x = true) -> forall l, list_eqb eqb l l = true.
Proof. intros A eqb H. induction l as [|x l IH]; cbn; [reflexivity|]. rewrite H, IH. reflexivity. Qed.
Lemma opt_eqb_eq : forall (A : Type) (eqb : A -> A -> bool), (forall x y, eqb x y = true -> x = y) ->
  forall a b, opt_eqb eqb a b = true -> a = b.
Proof. intros A eqb H [x|] [y|] E; cbn in E; try discriminate; [f_equal; apply H; assumption | reflexivity]. Qed.
Lemma opt_eqb_refl : forall (A : Type) (eqb : A -> A -> bool), (forall x, eqb x x = true) -> forall a, opt_eqb eqb a a = true.
Proof. intros A eqb H [x|]; cbn; [apply H | reflexivity]. Qed.
Lemma str_eqb_eq : forall x y : string, String.eqb x y = true -> x = y.
Proof. intros x y H. apply String.eqb_eq. assumption. Qed.

Lemma arg_eqb_eq : forall a b, arg_eqb a b = true -> a = b.
Proof.
  intros [|x|t ms] [|y|u ns] E; cbn in E; try discriminate.
  - reflexivity.
  - apply str_eqb_eq in E. subst. reflexivity.
  - apply andb_true_iff in E. destruct E as [E1 E2]. apply str_eqb_eq in E1. apply (list_eqb_eq _ _ str_eqb_eq) in E2. subst. reflexivity.
Qed.
Lemma arg_eqb_refl : forall a, arg_eqb a a = true.
Proof. intros [|x|t ms]; cbn; [reflexivity | apply String.eqb_refl |]. rewrite String.eqb_refl. apply list_eqb_refl, String.eqb_refl. Qed.
Lemma kw_eqb_eq : forall a b, kw_eqb a b = true -> a = b.
Proof.
  intros [k a] [k' b] E. unfold kw_eqb in E. cbn [fst snd] in E. apply andb_true_iff in E. destruct E as [E1 E2].
  apply str_eqb_eq in E1. apply arg_eqb_eq in E2. subst. reflexivity.
Qed.
Lemma kw_eqb_refl : forall a, kw_eqb a a = true.
Proof. intros [k a]. unfold kw_eqb. cbn [fst snd]. rewrite String.eqb_refl, arg_eqb_refl. reflexivity. Qed.
Lemma args_eqb_eq : forall a b, args_eqb a b = true -> a = b.
Proof.
  intros [p k s d] [p' k' s' d'] E. unfold args_eqb in E. cbn [a_pos a_kw a_star a_dstar] in E.
  repeat (apply andb_true_iff in E; destruct E as [E ?]).
  apply (list_eqb_eq _ _ arg_eqb_eq) in E. apply (list_eqb_eq _ _ kw_eqb_eq) in H1.
  apply (opt_eqb_eq _ _ str_eqb_eq) in H0. apply (opt_eqb_eq _ _ str_eqb_eq) in H. subst. reflexivity.
Qed.
Lemma args_eqb_refl : forall a, args_eqb a a = true.
Proof.
  intros [p k s d]. unfold args_eqb. cbn [a_pos a_kw a_star a_dstar].
  rewrite (list_eqb_refl _ _ arg_eqb_refl), (list_eqb_refl _ _ kw_eqb_refl), !(opt_eqb_refl _ _ String.eqb_refl). reflexivity.
Qed.
Lemma call_eqb_eq : forall a b, call_eqb a b = true -> a = b.
Proof.
  intros [f c a] [f' c' a'] E. unfold call_eqb in E. cbn [c_fun c_ctor c_args] in E.
  repeat (apply andb_true_iff in E; destruct E as [E ?]).
  apply str_eqb_eq in E. apply (opt_eqb_eq _ _ args_eqb_eq) in H0. apply args_eqb_eq in H. subst. reflexivity.
Qed.
Lemma call_eqb_refl : forall a, call_eqb a a = true.
Proof.
  intros [f c a]. unfold call_eqb. cbn [c_fun c_ctor c_args].
  rewrite String.eqb_refl, (opt_eqb_refl _ _ args_eqb_refl), args_eqb_refl. reflexivity.
Qed.

(* the decision procedure is exact: it accepts iff the two call sequences are identical, non-empty, and every call
   receives the model *)
Theorem forwarding_ok_iff : forall w,
  forwarding_ok w = true <-> (w_ir w = w_proto w /\ w_proto w <> [] /\ forallb takes_model (w_proto w) = true).
Proof.
  intro w. unfold forwarding_ok. split.
  - intro E. repeat (apply andb_true_iff in E; destruct E as [E ?]).
    apply (list_eqb_eq _ _ call_eqb_eq) in E. repeat split; [assumption | | assumption].
    destruct (w_proto w); [discriminate | discriminate].
  - intros (E & NE & T). rewrite E, (list_eqb_refl _ _ call_eqb_refl), T. destruct (w_proto w); [contradiction|reflexivity].
Qed.

(* accepted => the two branches apply the same IR transformation, for all option values and all meanings *)
Theorem forwarding_same_transformation : forall w, forwarding_ok w = true ->
  forall (IR V : Type) (env : string -> V) (ex : string -> list V -> V) (sem : string -> option (eargs V) -> eargs V -> IR -> IR) (m : IR),
    run_calls IR V env ex sem (w_proto w) m = run_calls IR V env ex sem (w_ir w) m.
Proof. intros w H IR V env ex sem m. apply forwarding_ok_iff in H. destruct H as (E & _). rewrite E. reflexivity. Qed.

(* not vacuous: a dropped, a defaulted and a renamed option are each rejected, and do change the transformation under a
   suitable meaning (the dropped one: seeded change C15-3, optimize() without `inline=` in the proto branch) *)
Definition ex_call (kw : list (string * arg)) : call :=
  {| c_fun := "optimize_ir"; c_ctor := None; c_args := {| a_pos := [AModel]; a_kw := kw; a_star := None; a_dstar := None |} |}.
Definition ex_wrapper (kw_ir kw_proto : list (string * arg)) : wrapper_src :=
  {| w_name := "optimize"; w_params := ["inline"; "num_iterations"]; w_ir := [ex_call kw_ir]; w_proto := [ex_call kw_proto] |}.
Example forwarding_rejects :
  forwarding_ok (ex_wrapper [("inline", AParam "inline"); ("num_iterations", AParam "num_iterations")]
                            [("inline", AParam "inline"); ("num_iterations", AParam "num_iterations")]) = true /\
  forwarding_ok (ex_wrapper [("inline", AParam "inline"); ("num_iterations", AParam "num_iterations")]
                            [("num_iterations", AParam "num_iterations")]) = false /\
  forwarding_ok (ex_wrapper [("inline", AParam "inline")] [("inline", AExpr "True" [])]) = false /\
  forwarding_ok (ex_wrapper [("inline", AParam "inline")] [("inline", AParam "num_iterations")]) = false /\
  forwarding_ok (ex_wrapper [("inline", AParam "inline")] [("inlined", AParam "inline")]) = false.
Proof. repeat split; reflexivity. Qed.
Example dropped_option_matters :
  let w := ex_wrapper [("inline", AParam "inline")] [] in
  exists (env : string -> bool) ex (sem : string -> option (eargs bool) -> eargs bool -> nat -> nat) m,
    run_calls nat bool env ex sem (w_proto w) m <> run_calls nat bool env ex sem (w_ir w) m.
Proof.
  exists (fun _ => false), (fun _ _ => true),
         (fun _ _ a m => match e_kw bool a with [] => S m | _ => m end), 0. cbn. discriminate.
Qed.

(* ---- the wrappers of the source *)
Lemma src_forwarding_ok : forallb forwarding_ok src_fw_all = true.
Proof. vm_compute. reflexivity. Qed.

Lemma src_forwarding_same : forall w, In w src_fw_all ->
  forall (IR V : Type) (env : string -> V) ex (sem : string -> option (eargs V) -> eargs V -> IR -> IR) m,
    run_calls IR V env ex sem (w_proto w) m = run_calls IR V env ex sem (w_ir w) m.
Proof.
  intros w H. apply forwarding_same_transformation. pose proof src_forwarding_ok as A. rewrite forallb_forall in A. apply A. assumption.
Qed.

(* alike, with the transformation of each branch derived from the source: for the six whole-model wrappers *)
Lemma src_alike_with_options : forall wd, In wd src_fw_total ->
  forall (G Fs O R IR V : Type) (no_funcs : Fs) (ser : IR -> proto G Fs O R) (deser : proto G Fs O R -> IR)
         (env : string -> V) ex (sem : string -> option (eargs V) -> eargs V -> IR -> IR) other r M,
    result_of _ _ _ _ (run_proto G Fs O R no_funcs IR ser deser (snd wd) other (run_calls IR V env ex sem (w_proto (fst wd))) M)
    = ser (iarg_after IR (run_ir IR r (run_calls IR V env ex sem (w_ir (fst wd))) (deser M))).
Proof.
  intros wd H G Fs O R IR V nf ser deser env ex sem other r M.
  assert (T : total (snd wd) = true /\ In (fst wd) src_fw_all).
  { unfold src_fw_total in H. cbn [In] in H. unfold src_fw_all.
    destruct H as [<-|[<-|[<-|[<-|[<-|[<-|[]]]]]]]; (split; [reflexivity | cbn [In fst]; repeat (first [left; reflexivity | right])]). }
  destruct T as [T I]. rewrite (alike_total G Fs O R IR nf ser deser (snd wd) other r _ M T). cbn [run_ir iarg_after].
  rewrite (src_forwarding_same _ I). reflexivity.
Qed.

(* convert_version: fields-only copy-back of graph + functions + opset_import; alike under the two laws, with the pass
   and its options as found in the source *)
Lemma src_convert_version_with_options :
  copies_enough src_convert_version = true ->
  forall (G Fs O R IR V : Type) (no_funcs : Fs) (ser : IR -> proto G Fs O R) (deser : proto G Fs O R -> IR)
         (env : string -> V) ex (sem : string -> option (eargs V) -> eargs V -> IR -> IR) M,
    N G Fs O R IR ser deser M = M ->
    (forall m, p_rest _ _ _ _ (ser (run_calls IR V env ex sem (w_proto src_fw_convert_version) m)) = p_rest _ _ _ _ (ser m)) ->
    result_of _ _ _ _ (run_proto G Fs O R no_funcs IR ser deser src_convert_version false
                         (run_calls IR V env ex sem (w_proto src_fw_convert_version)) M)
    = ser (run_calls IR V env ex sem (w_ir src_fw_convert_version) (deser M)).
Proof.
  intros C G Fs O R IR V nf ser deser env ex sem M HN Hf.
  pose proof src_convert_version_statement as S. unfold cv_statement in S. rewrite C in S.
  rewrite (S G Fs O R IR nf ser deser _ M HN Hf).
  rewrite (src_forwarding_same src_fw_convert_version); [reflexivity | unfold src_fw_all; cbn [In]; repeat (first [left; reflexivity | right])].
Qed.
