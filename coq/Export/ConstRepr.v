(* Model of the literal-inlining rule of onnx_export.py (C13): `_get_const_repr` (lines 57-77), used with
   inline_const=True, and of how the literal it prints is read back by the onnxscript converter
   (a Python number becomes a 0-d tensor, a Python list a rank-1 tensor of its length; an int literal
   INT64, a float literal FLOAT when no sibling operand fixes the type).
   Tensor payloads are integers (an INT64 value, or the bit pattern of a FLOAT).  No proofs here. *)
From Coq Require Import List ZArith Bool Arith.
Import ListNotations.

Inductive dtype := FLOAT | INT64 | OTHER.
Inductive literal :=
| LScalar (d : dtype) (x : Z)          (* printed as str(array[0]) *)
| LList (d : dtype) (xs : list Z).     (* printed as repr(array.tolist()) *)

Definition inlinable_dtype (d : dtype) : bool := match d with OTHER => false | _ => true end.

(* has_tensor: the Constant node's first attribute is a tensor (`attr.HasField("t")`) *)
Definition const_repr (has_tensor : bool) (d : dtype) (dims : list nat) (data : list Z) : option literal :=
  if has_tensor && inlinable_dtype d then
    match dims with
    | [] => match data with x :: _ => Some (LScalar d x) | [] => None end     (* reshape(1)[0] *)
    | [n] => if n <? 5 then Some (LList d data) else None
    | _ => None
    end
  else None.

(* what the literal denotes once the generated script is converted again *)
Definition literal_dims (l : literal) : list nat :=
  match l with LScalar _ _ => [] | LList _ xs => [length xs] end.
Definition literal_data (l : literal) : list Z :=
  match l with LScalar _ x => [x] | LList _ xs => xs end.
Definition literal_dtype (l : literal) : dtype :=
  match l with LScalar d _ => d | LList d _ => d end.

Definition numel (dims : list nat) : nat := fold_right Nat.mul 1 dims.
Definition wf_tensor (dims : list nat) (data : list Z) : Prop := length data = numel dims.

(* ---- correspondence helpers ---- *)
Definition dtype_eqb (a b : dtype) : bool :=
  match a, b with FLOAT, FLOAT | INT64, INT64 | OTHER, OTHER => true | _, _ => false end.
Fixpoint zlist_eqb (a b : list Z) : bool :=
  match a, b with
  | [], [] => true
  | x :: a', y :: b' => Z.eqb x y && zlist_eqb a' b'
  | _, _ => false
  end.
Fixpoint natlist_eqb (a b : list nat) : bool :=
  match a, b with
  | [], [] => true
  | x :: a', y :: b' => Nat.eqb x y && natlist_eqb a' b'
  | _, _ => false
  end.
Definition literal_eqb (a b : literal) : bool :=
  match a, b with
  | LScalar d x, LScalar e y => dtype_eqb d e && Z.eqb x y
  | LList d xs, LList e ys => dtype_eqb d e && zlist_eqb xs ys
  | _, _ => false
  end.
Definition olit_eqb (a b : option literal) : bool :=
  match a, b with Some x, Some y => literal_eqb x y | None, None => true | _, _ => false end.

(* a case: (has_tensor, dtype, dims, data), what the real _get_const_repr returned *)
Definition rcase := (bool * dtype * list nat * list Z * option literal)%type.
Fixpoint disagreeing_repr (i : nat) (cs : list rcase) : list nat :=
  match cs with
  | [] => []
  | (ht, d, dims, data, obs) :: t =>
      (if olit_eqb (const_repr ht d dims data) obs then [] else [i]) ++ disagreeing_repr (S i) t
  end.
(* a re-entry case: a literal, and the dims / dtype of the tensor the real converter built from its text *)
Definition ecase := (literal * list nat * dtype)%type.
Fixpoint disagreeing_reentry (i : nat) (cs : list ecase) : list nat :=
  match cs with
  | [] => []
  | (l, dims, d) :: t =>
      (if natlist_eqb (literal_dims l) dims && dtype_eqb (literal_dtype l) d then [] else [i]) ++ disagreeing_reentry (S i) t
  end.

(* ---- the repaired rule (proposed_fixes C13_04 / C13_09): two repair flags; both false = the rule as read ---- *)
(* float32 bit pattern with all exponent bits set: nan, inf, -inf (str() prints them as bare names) *)
Definition nonfinite_bits (x : Z) : bool := Z.leb 2139095040 (Z.modulo x 2147483648).
Definition has_nonfinite (d : dtype) (data : list Z) : bool :=
  match d with FLOAT => existsb nonfinite_bits data | _ => false end.
Definition const_repr_fx (finite_only nonempty_only : bool) (has_tensor : bool) (d : dtype) (dims : list nat) (data : list Z) : option literal :=
  match const_repr has_tensor d dims data with
  | Some l =>
    if finite_only && has_nonfinite d (literal_data l) then None
    else if nonempty_only && match l with LList _ [] => true | _ => false end then None
    else Some l
  | None => None
  end.
Fixpoint disagreeing_repr_fx (fin ne : bool) (i : nat) (cs : list rcase) : list nat :=
  match cs with
  | [] => []
  | (ht, d, dims, data, obs) :: t =>
      (if olit_eqb (const_repr_fx fin ne ht d dims data) obs then [] else [i]) ++ disagreeing_repr_fx fin ne (S i) t
  end.
