(* Composition: a Sequential of semantics-preserving stages, and a PassManager with any number of steps and with or
   without early stop over semantics-preserving stages, are semantics-preserving; hence optimize_ir for every option
   tuple, given soundness of each stage.  The stages with a Gallina model (dead-node removal, checked common-subexpression
   elimination) are instantiated; the others are Section hypotheses (listed in the trusted base by the harness). *)
From Coq Require Import List String ZArith Bool Lia.
Require Import OV.Graph.Syntax OV.Graph.Sem OV.Opt.Dce OV.Opt.DceProofs OV.Opt.Cse OV.Opt.CseProofs OV.Opt.Pipeline.
Import ListNotations.
Local Open Scope list_scope.

Section C.
  Variable V : Type.
  Variable sem : string -> string -> list (string * attrv) -> list (option V) -> option (list V).
  Variable truth : V -> option bool.
  Variable trip : V -> option nat.
  Variable of_nat : nat -> V.
  Variable of_bool : bool -> V.
  Variable limit : nat.

  Notation refines := (grefines V sem truth trip of_nat of_bool limit).
  Definition mstage_sound (s : mstage) : Prop := forall g g' m, s g = Some (g', m) -> refines g g'.

  Lemma refines_refl g : refines g g.
  Proof. intros F outer args r H; exact H. Qed.
  Lemma refines_trans a b c : refines a b -> refines b c -> refines a c.
  Proof. intros A B F outer args r H. apply B, A, H. Qed.

  Theorem run_seq_sound l : Forall mstage_sound l -> mstage_sound (run_seq l).
  Proof.
    induction l as [|s t IH]; intros Hl g g' m; cbn.
    - intro H; inversion H; subst. apply refines_refl.
    - inversion Hl; subst. destruct (s g) as [[g1 m1]|] eqn:E; [|discriminate].
      destruct (run_seq t g1) as [[g2 m2]|] eqn:E2; [|discriminate]. intro H; inversion H; subst.
      apply (refines_trans g g1 g'); [exact (H1 _ _ _ E)|exact (IH H2 _ _ _ E2)].
  Qed.

  Theorem run_manager_sound steps early_stop body : Forall mstage_sound body -> mstage_sound (run_manager steps early_stop body).
  Proof.
    intro Hb. induction steps as [|k IH]; intros g g' m; cbn.
    - intro H; inversion H; subst. apply refines_refl.
    - destruct (run_seq body g) as [[g1 m1]|] eqn:E; [|discriminate].
      pose proof (run_seq_sound body Hb _ _ _ E) as R1.
      destruct (early_stop && negb m1).
      + intro H; inversion H; subst. exact R1.
      + destruct (run_manager k early_stop body g1) as [[g2 m2]|] eqn:E2; [|discriminate]. intro H; inversion H; subst.
        apply (refines_trans g g1 g'); [exact R1|exact (IH _ _ _ E2)].
  Qed.

  Theorem optimize_ir_model_sound : forall inline num_iterations stop_if_no_change prefix loop post,
    Forall mstage_sound prefix -> Forall mstage_sound loop -> Forall mstage_sound post ->
    mstage_sound (optimize_ir_model inline num_iterations stop_if_no_change prefix loop post).
  Proof.
    intros inline n stop prefix loop post Hp Hl Hq. unfold optimize_ir_model. apply run_seq_sound.
    apply Forall_app. split; [destruct inline; [exact Hp|constructor]|].
    constructor; [apply run_manager_sound; exact Hl|exact Hq].
  Qed.

  (* the modelled stages *)
  Definition dce_stage (modified : graph -> bool) : mstage := fun g => Some (dce g, modified g).
  Definition cse_stage (modified : graph -> bool) : mstage := fun g => match cse_checked g with Some g' => Some (g', modified g) | None => None end.

  Lemma dce_stage_sound f : mstage_sound (dce_stage f).
  Proof. intros g g' m H. inversion H; subst. intros F outer args r X. apply dce_sound. exact X. Qed.
  Lemma cse_stage_sound f : mstage_sound (cse_stage f).
  Proof.
    intros g g' m. unfold cse_stage. destruct (cse_checked g) as [g1|] eqn:E; [|discriminate].
    intro H; inversion H; subst. exact (cse_checked_sound V sem truth trip of_nat of_bool limit g g' E).
  Qed.

  (* optimize_ir with the pass list of the source: the stages without a model are hypotheses *)
  Section Assumed.
    Variables inline_pass fold_pass rewrite_pass unused_functions unused_opsets lift_constants lift_subgraph_initializers
              dedup_initializers output_fix name_fix : mstage.
    Hypothesis inline_sound : mstage_sound inline_pass.
    Hypothesis fold_sound : mstage_sound fold_pass.                 (* Props/C03.v: C03_fold_graph_sound_partial *)
    Hypothesis rewrite_sound : mstage_sound rewrite_pass.           (* C05 (rules) + C07 (application) *)
    Hypothesis unused_functions_sound : mstage_sound unused_functions.
    Hypothesis unused_opsets_sound : mstage_sound unused_opsets.
    Hypothesis lift_constants_sound : mstage_sound lift_constants.
    Hypothesis lift_subgraph_initializers_sound : mstage_sound lift_subgraph_initializers.
    Hypothesis dedup_initializers_sound : mstage_sound dedup_initializers.
    Hypothesis output_fix_sound : mstage_sound output_fix.
    Hypothesis name_fix_sound : mstage_sound name_fix.

    Definition optimize_ir_stages (f1 f2 f3 : graph -> bool) (inline : bool) (n : nat) (stop : bool) : mstage :=
      optimize_ir_model inline n stop [inline_pass]
        [fold_pass; rewrite_pass; dce_stage f1; unused_functions; unused_opsets]
        [dce_stage f2; lift_constants; lift_subgraph_initializers; dedup_initializers; cse_stage f3; output_fix; name_fix].

    Theorem optimize_ir_sound : forall f1 f2 f3 inline n stop, mstage_sound (optimize_ir_stages f1 f2 f3 inline n stop).
    Proof.
      intros. unfold optimize_ir_stages. apply optimize_ir_model_sound; repeat constructor;
        auto using dce_stage_sound, cse_stage_sound.
    Qed.
  End Assumed.
End C.
