#!/venv/bin/python
"""mkseed.py Cxx [n] -> creates a scratch worktree /tmp/seed/Cxx-wt and prints the filled prompt for a mutation sub-agent."""
import json, os, subprocess, sys
pid = sys.argv[1]; n = sys.argv[2] if len(sys.argv) > 2 else "2"
tag = sys.argv[3] if len(sys.argv) > 3 else ""
props = {json.loads(l)["id"]: json.loads(l) for l in open("/verif/properties.jsonl")}
p = props[pid]
wt = f"/tmp/seed/{pid}{tag}-wt"; out = f"/tmp/seed/{pid}{tag}-out"
os.makedirs("/tmp/seed", exist_ok=True)
if not os.path.exists(wt):
    subprocess.run(["git", "-C", "/repo", "worktree", "add", "--detach", wt, "HEAD"], check=True, stdout=subprocess.DEVNULL, stderr=subprocess.DEVNULL)
os.makedirs(out, exist_ok=True)
t = open("/verif/tools/seed_prompt.txt").read()
for k, v in {"{WT}": wt, "{OUT}": out, "{PID}": pid, "{TITLE}": p["title"], "{STATEMENT}": p["statement"],
             "{QUANT}": p["quantifier"]["text"], "{FILES}": ", ".join(p["anchors"]["files"]), "{N}": n}.items():
    t = t.replace(k, v)
# ideas already tried in earlier rounds (summaries written by earlier sub-agents; nothing about /verif): ask for different ones
import glob
tried = []
for m in sorted(glob.glob(f"/verif/seeded/{pid}-*/meta.json")):
    try:
        j = json.load(open(m)); tried.append("  - " + ", ".join(j.get("files_changed", [])) + ": " + j.get("summary", "")[:260].replace("\n", " "))
    except Exception:
        pass
if tried:
    t += "\nALREADY TRIED in earlier rounds (do NOT repeat these or near-variants of them; choose other code sites and other mechanisms, preferably in anchored files or functions not listed here):\n" + "\n".join(tried) + "\n"
open(f"/tmp/seed/{pid}{tag}-prompt.txt", "w").write(t)
print(f"/tmp/seed/{pid}{tag}-prompt.txt")
