(* Proofs about Alias.v: which copy policies make the captured constants independent of later writes through
   any alias of the objects the script referred to. *)
From Coq Require Import List String ZArith Bool Arith Lia.
Require Import OV.Determinism.Alias.
Import ListNotations.
Local Open Scope string_scope.

Lemma map_nth_seq_id : forall (A : Type) (d : A) (l : list A), map (fun i => nth i l d) (seq 0 (List.length l)) = l.
Proof.
  intros A d. induction l as [|h t IH]; [reflexivity|].
  cbn [List.length seq map nth]. f_equal. rewrite <- seq_shift, map_map. exact IH.
Qed.

Lemma read_cells_eq : forall m m' a, m_cells m (a_buf a) = m_cells m' (a_buf a) -> read m a = read m' a.
Proof. intros m m' a H. unfold read. rewrite H. reflexivity. Qed.

Lemma copy_read : forall m a, read (snd (copy_into m a)) (fst (copy_into m a)) = read m a.
Proof.
  intros m a. unfold copy_into, read at 1. cbn [fst snd a_buf a_idx m_cells]. rewrite Nat.eqb_refl.
  replace (List.length (a_idx a)) with (List.length (read m a)) by (unfold read; apply map_length).
  apply map_nth_seq_id.
Qed.

Lemma capture1_next : forall p m a, m_next m <= m_next (snd (capture1 p m a)).
Proof. intros [| |] m a; cbn; try destruct (a_writeable a); cbn; lia. Qed.

Lemma capture1_keeps_cells : forall p m a b, b < m_next m -> m_cells (snd (capture1 p m a)) b = m_cells m b.
Proof.
  intros p m a b Hb.
  assert (C : m_cells (snd (copy_into m a)) b = m_cells m b).
  { cbn. destruct (Nat.eqb b (m_next m)) eqn:E; [apply Nat.eqb_eq in E; lia | reflexivity]. }
  destruct p; cbn [capture1]; try destruct (a_writeable a); auto.
Qed.

Lemma capture_next : forall p names g m, m_next m <= m_next (snd (capture p names g m)).
Proof.
  intros p. induction names as [|k r IH]; intros g m; cbn [capture]; [cbn; lia|].
  destruct (g k) as [a|]; [|apply IH]. cbn [snd].
  pose proof (capture1_next p m a). pose proof (IH g (snd (capture1 p m a))). lia.
Qed.

Lemma capture_keeps_cells : forall p names g m b, b < m_next m -> m_cells (snd (capture p names g m)) b = m_cells m b.
Proof.
  intros p. induction names as [|k r IH]; intros g m b Hb; cbn [capture]; [reflexivity|].
  destruct (g k) as [a|]; [|apply IH; exact Hb]. cbn [snd].
  rewrite IH by (pose proof (capture1_next p m a); lia). apply capture1_keeps_cells. exact Hb.
Qed.

(* CopyAlways: every captured constant lives in a buffer the decorator allocated itself *)
Lemma capture_always_range : forall names g m n c, In (n, c) (fst (capture CopyAlways names g m)) ->
  m_next m <= a_buf c < m_next (snd (capture CopyAlways names g m)).
Proof.
  induction names as [|k r IH]; intros g m n c H; cbn [capture] in *; [destruct H|].
  destruct (g k) as [a|]; [|apply IH with (n := n); exact H]. cbn [fst snd] in *.
  destruct H as [H|H].
  - inversion H; subst. cbn [capture1 copy_into fst snd a_buf].
    pose proof (capture_next CopyAlways r g (snd (copy_into m a))) as N. cbn [copy_into snd m_next] in N. cbn. lia.
  - specialize (IH g _ n c H). cbn [capture1 copy_into snd m_next] in IH. cbn [capture1]. cbn [copy_into snd] in *. lia.
Qed.

Lemma assoc_in : forall n l c, assoc n l = Some c -> In (n, c) l.
Proof.
  induction l as [|[k a] r IH]; intros c H; cbn [assoc] in H; [discriminate|].
  destruct (String.eqb n k) eqn:E.
  - apply String.eqb_eq in E. inversion H; subst. left; reflexivity.
  - right. apply IH, H.
Qed.

(* a mutation from outside leaves the decorator's own buffers alone *)
Lemma apply1_outside_cells : forall lo hi mu st b, outside lo hi mu -> lo <= b < hi ->
  m_cells (snd (apply1 mu st)) b = m_cells (snd st) b.
Proof.
  intros lo hi [n a | w j z] st b Ho Hb; cbn [apply1]; [reflexivity|].
  destruct (a_writeable w); [|reflexivity]. destruct (nth_error (a_idx w) j); [|reflexivity].
  cbn [snd write_cell m_cells]. cbn [outside] in Ho.
  destruct (Nat.eqb b (a_buf w)) eqn:E; [apply Nat.eqb_eq in E; lia | reflexivity].
Qed.

Lemma apply_outside_cells : forall lo hi ms st b, Forall (outside lo hi) ms -> lo <= b < hi ->
  m_cells (snd (apply ms st)) b = m_cells (snd st) b.
Proof.
  intros lo hi. induction ms as [|mu r IH]; intros st b H Hb; [reflexivity|].
  inversion H; subst. unfold apply. cbn [fold_left]. fold (apply r (apply1 mu st)).
  rewrite IH by assumption. apply apply1_outside_cells with (lo := lo) (hi := hi); assumption.
Qed.

(* the frame property in general: constants that live in [lo, hi) are not changed by mutations outside [lo, hi) *)
Theorem isolated_constants_fixed : forall (f : scriptfn) lo hi,
  (forall n c, In (n, c) (f_consts f) -> lo <= a_buf c < hi) ->
  forall ms st, Forall (outside lo hi) ms -> forall n, view f (snd (apply ms st)) n = view f (snd st) n.
Proof.
  intros f lo hi Hr ms st Hms n. unfold view. destruct (assoc n (f_consts f)) as [c|] eqn:E; [|reflexivity].
  cbn [option_map]. f_equal. apply read_cells_eq. apply apply_outside_cells with (lo := lo) (hi := hi); [exact Hms|].
  apply (Hr n c). apply assoc_in, E.
Qed.

(* the clause for the deep-copy policy: later writes through ANY object of the rest of the program -- every alias of
   what the script referred to included -- and later rebindings change nothing *)
Theorem copy_always_fixed : later_results_fixed_alias CopyAlways.
Proof.
  intros b names g m Hb _ ms Hms x. unfold denote. cbn [decorate fst snd f_body]. apply Hb. intros n.
  apply (isolated_constants_fixed {| f_body := b; f_consts := fst (capture CopyAlways names g m) |}
           (m_next m) (m_next (snd (capture CopyAlways names g m)))).
  - intros k c H. cbn [f_consts] in H. apply (capture_always_range names g m k c H).
  - exact Hms.
Qed.

Theorem copy_always_fixed_on : forall flag, later_results_fixed_alias_on flag CopyAlways.
Proof. intros flag b names g m Hb Hwf _ ms Hms x. apply copy_always_fixed; assumption. Qed.

(* copy-if-writeable coincides with copy-always as long as the script refers to writable arrays only *)
Lemma capture_if_writeable_eq : forall names g m, all_flag true names g ->
  capture CopyIfWriteable names g m = capture CopyAlways names g m.
Proof.
  induction names as [|k r IH]; intros g m H; [reflexivity|]. cbn [capture].
  assert (Hr : all_flag true r g) by (intros n a Hn; apply H; right; exact Hn).
  destruct (g k) as [a|] eqn:E; [|apply IH, Hr].
  assert (W : a_writeable a = true) by (apply (H k a); [left; reflexivity | exact E]).
  cbn [capture1]. rewrite W. rewrite IH by exact Hr. reflexivity.
Qed.

Theorem copy_if_writeable_fixed_on_writeable : later_results_fixed_alias_on true CopyIfWriteable.
Proof.
  intros b names g m Hb Hwf Hall ms Hms x. unfold decorate in *. rewrite (capture_if_writeable_eq names g m Hall) in *.
  apply (copy_always_fixed b names g m Hb Hwf ms Hms x).
Qed.

(* witnesses *)
Lemma ex_respects : respects ex_body.
Proof. intros v1 v2 E x. unfold ex_body. rewrite E. reflexivity. Qed.

Lemma ex_wf : forall a, a_buf a = 0 -> wf (ex_ns a) ex_mem.
Proof.
  intros a Ha n a' H. unfold ex_ns in H. destruct (String.eqb n "TABLE"); [|discriminate].
  inversion H; subst. rewrite Ha. cbn. lia.
Qed.

Lemma ex_all_flag : forall a, all_flag (a_writeable a) ["TABLE"] (ex_ns a).
Proof.
  intros a n a' _ H. unfold ex_ns in H. destruct (String.eqb n "TABLE"); [|discriminate]. inversion H; reflexivity.
Qed.

(* the published table is a read-only view; its owner writes base[0] = 41 after decoration: 1 + 10 before, 1 + 41 after *)
Theorem copy_if_writeable_refuted_on_readonly : ~ later_results_fixed_alias_on false CopyIfWriteable.
Proof.
  intro H.
  specialize (H ex_body ["TABLE"] (ex_ns ex_ro_view) ex_mem ex_respects (ex_wf ex_ro_view eq_refl) (ex_all_flag ex_ro_view)
                [MWrite ex_base 0 41%Z]).
  assert (F : Forall (outside (m_next ex_mem) (m_next (snd (decorate CopyIfWriteable ex_body ["TABLE"] (ex_ns ex_ro_view) ex_mem))))
                     [MWrite ex_base 0 41%Z]).
  { constructor; [|constructor]. left. vm_compute. apply le_n. }
  specialize (H F 1%Z). vm_compute in H. discriminate.
Qed.

Theorem copy_if_writeable_refuted : ~ later_results_fixed_alias CopyIfWriteable.
Proof.
  intro H. apply copy_if_writeable_refuted_on_readonly. intros b names g m Hb Hwf _ ms Hms x. apply H; assumption.
Qed.

Theorem no_copy_refuted_on : forall flag, ~ later_results_fixed_alias_on flag NoCopy.
Proof.
  intros flag H.
  pose (v := {| a_buf := 0; a_idx := [0; 1]; a_writeable := flag |}).
  specialize (H ex_body ["TABLE"] (ex_ns v) ex_mem ex_respects (ex_wf v eq_refl) (ex_all_flag v) [MWrite ex_base 0 41%Z]).
  assert (F : Forall (outside (m_next ex_mem) (m_next (snd (decorate NoCopy ex_body ["TABLE"] (ex_ns v) ex_mem))))
                     [MWrite ex_base 0 41%Z]).
  { constructor; [|constructor]. left. vm_compute. apply le_n. }
  specialize (H F 1%Z). vm_compute in H. discriminate.
Qed.

Theorem no_copy_refuted : ~ later_results_fixed_alias NoCopy.
Proof.
  intro H. apply (no_copy_refuted_on true). intros b names g m Hb Hwf _ ms Hms x. apply H; assumption.
Qed.

(* the witness pair really is in the aliasing relation, and the view's own flag is off *)
Example ex_shares : shares_memory ex_ro_view ex_base = true /\ a_writeable ex_ro_view = false /\ a_writeable ex_base = true.
Proof. vm_compute. auto. Qed.

(* the prediction table the harness uses to decide which copy policy the implementation follows *)
Theorem predict_alias_spec : forall p flag,
  (predict_alias p flag = true -> later_results_fixed_alias_on flag p) /\
  (predict_alias p flag = false -> ~ later_results_fixed_alias_on flag p).
Proof.
  intros [| |] [|]; cbn [predict_alias]; split; try discriminate; intros _.
  - apply no_copy_refuted_on.
  - apply no_copy_refuted_on.
  - exact copy_if_writeable_fixed_on_writeable.
  - exact copy_if_writeable_refuted_on_readonly.
  - apply copy_always_fixed_on.
  - apply copy_always_fixed_on.
Qed.

(* the captured constants are the values at decoration time (the theorem above is not about an empty capture) *)
Lemma capture_none : forall p names g m n, g n = None -> assoc n (fst (capture p names g m)) = None.
Proof.
  intros p. induction names as [|k r IH]; intros g m n H; cbn [capture]; [reflexivity|].
  destruct (g k) as [a|] eqn:E; [|apply IH, H]. cbn [fst assoc].
  destruct (String.eqb n k) eqn:Enk; [apply String.eqb_eq in Enk; subst; congruence | apply IH, H].
Qed.

Lemma capture_always_content : forall names g m0 m n a,
  (forall b, b < m_next m0 -> m_cells m b = m_cells m0 b) -> m_next m0 <= m_next m -> wf g m0 ->
  g n = Some a -> In n names ->
  exists c, assoc n (fst (capture CopyAlways names g m)) = Some c /\
            read (snd (capture CopyAlways names g m)) c = read m0 a.
Proof.
  induction names as [|k r IH]; intros g m0 m n a Hc Hn Hwf Hg Hin; [destruct Hin|].
  cbn [capture].
  assert (Step : forall ak, (forall b, b < m_next m0 -> m_cells (snd (copy_into m ak)) b = m_cells m0 b) /\
                            m_next m0 <= m_next (snd (copy_into m ak))).
  { intros ak. split; [|cbn; lia]. intros b Hb. cbn.
    destruct (Nat.eqb b (m_next m)) eqn:E; [apply Nat.eqb_eq in E; lia | apply Hc, Hb]. }
  destruct (g k) as [ak|] eqn:Ek.
  - cbn [fst snd assoc capture1]. destruct (String.eqb n k) eqn:Enk.
    + apply String.eqb_eq in Enk. subst k. rewrite Hg in Ek. inversion Ek; subst ak.
      exists (fst (copy_into m a)). split; [reflexivity|].
      transitivity (read (snd (copy_into m a)) (fst (copy_into m a))).
      * apply read_cells_eq. apply capture_keeps_cells. cbn. lia.
      * rewrite copy_read. apply read_cells_eq. apply Hc. apply (Hwf n a Hg).
    + assert (In n r) as Hr.
      { destruct Hin as [->|Hin]; [rewrite String.eqb_refl in Enk; discriminate | exact Hin]. }
      destruct (Step ak) as [S1 S2]. apply (IH g m0 _ n a S1 S2 Hwf Hg Hr).
  - assert (In n r) as Hr.
    { destruct Hin as [->|Hin]; [congruence | exact Hin]. }
    apply (IH g m0 m n a Hc Hn Hwf Hg Hr).
Qed.

Theorem copy_always_captures_decoration_values : captures_decoration_values CopyAlways.
Proof.
  intros b names g m Hwf n Hin. unfold view. cbn [decorate fst snd f_consts].
  destruct (g n) as [a|] eqn:Hg.
  - destruct (capture_always_content names g m m n a (fun _ _ => eq_refl) (le_n _) Hwf Hg Hin) as (c & Hc & Hr).
    rewrite Hc. cbn [option_map]. rewrite Hr. reflexivity.
  - rewrite (capture_none CopyAlways names g m n Hg). reflexivity.
Qed.

(* non-vacuity: under the deep-copy policy the example keeps computing 1 + 10 through a write by the owner and a rebinding *)
Example ex_copy_always_value :
  denote (fst (decorate CopyAlways ex_body ["TABLE"] (ex_ns ex_ro_view) ex_mem))
         (apply [MWrite ex_base 0 41%Z; MRebind "TABLE" ex_base]
                (ex_ns ex_ro_view, snd (decorate CopyAlways ex_body ["TABLE"] (ex_ns ex_ro_view) ex_mem))) 1%Z = Some 11%Z.
Proof. vm_compute. reflexivity. Qed.

Example ex_consistent_if_writeable : map policy_code (consistent_alias [(true, true); (false, false)]) = [1].
Proof. vm_compute. reflexivity. Qed.
Example ex_consistent_always : map policy_code (consistent_alias [(true, true); (false, true)]) = [2].
Proof. vm_compute. reflexivity. Qed.

(* lifted to the list of capture sites the translator reads from the sources (Gen/CapturePolicy.v) *)
Theorem policies_fixed : forall l : list (string * policy), forallb (fun sp => is_always (snd sp)) l = true ->
  forall sp, In sp l -> later_results_fixed_alias (snd sp) /\ captures_decoration_values (snd sp).
Proof.
  intros l H sp Hin. rewrite forallb_forall in H. specialize (H sp Hin). destruct (snd sp); try discriminate.
  split; [exact copy_always_fixed | exact copy_always_captures_decoration_values].
Qed.
