(* Refusal, located (C02, session 6).  A purely syntactic detector of the defects for which the converter refuses a
   program whatever its variables are bound to: it walks the program in the converter's translation order (statically
   decided `if`s follow only the taken branch, as the converter does) and returns the class of the first such defect and the
   *path* of the offending statement.

   path = statement index in the function body, then for every enclosing block: 0 = then-branch / loop body, 1 = else-branch,
   followed by the statement index inside that block.  The harness turns a path into the source line of that statement
   (Python `ast`) and compares class and line with the exception the real decorator raised, inside Coq (refusal_agrees).

   Script/RefuseProofs.v: detect ... = Some e -> translate ... = None, for every state the translation may be in
   (a program with such a defect is never accepted), and the declarative reading of a detected defect.
   No proofs in this file. *)
From Coq Require Import List String ZArith Bool Arith.
Require Import OV.Graph.Syntax OV.Script.Syntax OV.Script.Sets OV.Gen.Analysis OV.Script.AnalysisAux OV.Script.Translate.
Import ListNotations.
Local Open Scope string_scope.

Inductive rclass :=
| RReturnInside        (* ValueError: Return statements are not permitted inside control-flow statements. *)
| RReturnNone          (* Return statement without a return value is not supported. *)
| RBreakMisplaced      (* a `break` that is not the whole body of an `if <name>:` directly in a loop body: Unsupported statement type Break *)
| RBreakNotLast        (* Instruction break must be the last one of the loop. *)
| RBreakCondNotName    (* Instruction break can be introduced with test but it must be if <condition>: break *)
| RLoopNoAssign        (* a loop whose body assigns nothing: no loop-carried / live variable is updated *)
| RTupleNotCall.       (* unpacking assignment whose right-hand side is not a call *)

Definition rerr := (rclass * list nat)%type.

Definition pre (k : nat) (o : option rerr) : option rerr :=
  match o with Some (c, p) => Some (c, k :: p) | None => None end.
Definition orelse (a b : option rerr) : option rerr := match a with Some e => Some e | None => b end.

Section Step.
  Variable cic : expr -> option bool.
  Variable rec : list stmt -> option rerr.        (* the detector for nested blocks (one nesting level less of fuel) *)

  (* the statements of a loop body (the loop of Converter._translate_loop_stmt that intercepts `if c: break`): simple
     statements are looked at here, compound ones through `rec` on the one-statement block [s0], as the converter
     translates them by a recursive call (the path index 0 of that block is rewritten to k) *)
  Definition body_stmt_det (s0 : stmt) (k : nat) : option rerr :=
    match s0 with
    | SAssign _ _ => None
    | STuple _ e => match e with ECall _ _ _ => None | _ => Some (RTupleNotCall, [k]) end
    | _ => match rec [s0] with Some (c, _ :: p) => Some (c, k :: p) | _ => None end
    end.

  Fixpoint body_det (body : list stmt) (k : nat) {struct body} : option rerr :=
    match body with
    | [] => None
    | s0 :: rest =>
      match is_break_if s0 with
      | Some (EVar _) => if is_nil rest then None else Some (RBreakNotLast, [k])
      | Some _ => Some (RBreakCondNotName, [k])
      | None =>
        orelse (body_stmt_det s0 k) (body_det rest (S k))
      end
    end.

  (* statement `s`, met by the statement dispatcher (Converter._translate_stmt); top = directly in the function body *)
  Definition detect_stmt (top : bool) (s : stmt) : option rerr :=
    match s with
    | SAssign _ _ => None
    | STuple _ e => match e with ECall _ _ _ => None | _ => Some (RTupleNotCall, []) end
    | SReturn es => if top then (if is_nil es then Some (RReturnNone, []) else None) else Some (RReturnInside, [])
    | SBreak => Some (RBreakMisplaced, [])
    | SIf c t f =>
      match cic c with
      | Some true => pre 0 (rec t)
      | Some false => pre 1 (rec f)
      | None => orelse (pre 0 (rec t)) (pre 1 (rec f))
      end
    | SFor _ _ body | SWhile _ body =>
      if is_nil (assigned_block cic body) then Some (RLoopNoAssign, []) else pre 0 (body_det body 0)
    end.

  Fixpoint go_det (top : bool) (ss : list stmt) (k : nat) {struct ss} : option rerr :=
    match ss with
    | [] => None
    | s :: rest => orelse (pre k (detect_stmt top s)) (go_det top rest (S k))
    end.
End Step.

(* fuel = nesting depth *)
Fixpoint detect (cic : expr -> option bool) (n : nat) (top : bool) (ss : list stmt) {struct n} : option rerr :=
  match n with
  | O => None
  | S m => go_det cic (detect cic m false) top ss 0
  end.

Definition detect_fuel : nat := 12.       (* = Translate.stmt_depth_fuel *)

Definition refusal (cic : expr -> option bool) (f : func) : option rerr := detect cic detect_fuel true (f_body f).

(* ------------------------------------------------------------------ statement at a path (for the declarative reading) *)

Fixpoint stmt_at_fuel (n : nat) (ss : list stmt) (p : list nat) {struct n} : option stmt :=
  match n with
  | O => None
  | S m =>
    match p with
    | [] => None
    | [k] => nth_error ss k
    | k :: b :: q =>
      match nth_error ss k with
      | Some (SIf _ t f) => if Nat.eqb b 0 then stmt_at_fuel m t q else if Nat.eqb b 1 then stmt_at_fuel m f q else None
      | Some (SFor _ _ body) | Some (SWhile _ body) => if Nat.eqb b 0 then stmt_at_fuel m body q else None
      | _ => None
      end
    end
  end.

Definition stmt_at (ss : list stmt) (p : list nat) : option stmt := stmt_at_fuel (S (List.length p)) ss p.

(* what a class says about the statement it points at *)
Definition class_matches (cic : expr -> option bool) (c : rclass) (p : list nat) (s : stmt) : bool :=
  match c, s with
  | RReturnInside, SReturn _ => Nat.ltb 1 (List.length p)
  | RReturnNone, SReturn [] => Nat.eqb (List.length p) 1
  | RBreakMisplaced, SBreak => true
  | RBreakNotLast, SIf (EVar _) [SBreak] _ => true
  | RBreakCondNotName, SIf c0 [SBreak] _ => match c0 with EVar _ => false | _ => true end
  | RLoopNoAssign, SFor _ _ body | RLoopNoAssign, SWhile _ body => is_nil (assigned_block cic body)
  | RTupleNotCall, STuple _ e => match e with ECall _ _ _ => false | _ => true end
  | _, _ => false
  end.

(* ------------------------------------------------------------------ comparison with the real decorator (evaluated by the harness)

   one case = the function, the truth values of its module constants, the table path -> source line of every statement
   of the function (from Python's ast), and what the real decorator did: None = accepted, Some (class name, line) = the
   refusal, classified by its message ("" = a class this detector does not model: unbound names, missing branch values...) *)
Definition class_name (c : rclass) : string :=
  match c with
  | RReturnInside => "return-inside" | RReturnNone => "return-none" | RBreakMisplaced => "break-misplaced"
  | RBreakNotLast => "break-not-last" | RBreakCondNotName => "break-cond-not-name" | RLoopNoAssign => "loop-no-assign"
  | RTupleNotCall => "tuple-not-call"
  end.

Fixpoint rpath_eqb (a b : list nat) : bool :=
  match a, b with [], [] => true | x :: s, y :: t => Nat.eqb x y && rpath_eqb s t | _, _ => false end.

Fixpoint line_of (tbl : list (list nat * nat)) (p : list nat) : option nat :=
  match tbl with [] => None | (q, l) :: t => if rpath_eqb p q then Some l else line_of t p end.

Definition rcase := (func * list (string * bool) * list (list nat * nat) * option (string * nat))%type.

(* 0 = agree; 1 = the detector finds a defect but the decorator accepted; 2 = the decorator refused with a modelled class
   but the detector finds nothing; 3 = class differs; 4 = line differs (or the path is not a statement of the program) *)
Definition refusal_agrees (c : rcase) : nat :=
  let '(f, truth, tbl, real) := c in
  let cic := cic_of (f_body f) truth in
  match refusal cic f, real with
  | None, None => 0
  | None, Some (cls, _) => if String.eqb cls "" then 0 else 2
  | Some _, None => 1
  | Some (rc, p), Some (cls, line) =>
    if String.eqb cls "" then 0          (* refused earlier for a reason outside the detector's classes *)
    else if negb (String.eqb (class_name rc) cls) then 3
    else match line_of tbl p, stmt_at (f_body f) p with
         | Some l, Some s => if Nat.eqb l line && class_matches cic rc p s then 0 else 4
         | _, _ => 4
         end
  end.
