(* Python `set` of names as duplicate-tolerant lists; the operations the analyses use.  No proofs. *)
From Coq Require Import List String Bool.
Require Import OV.Graph.Syntax.
Import ListNotations.

Definition sset := list string.

Definition sunion (a b : sset) : sset := a ++ filter (fun x => negb (mem x a)) b.
Definition sdiff (a b : sset) : sset := filter (fun x => negb (mem x b)) a.
Definition sinter (a b : sset) : sset := filter (fun x => mem x b) a.
Definition ssubset (a b : sset) : bool := forallb (fun x => mem x b) a.
Definition seqb (a b : sset) : bool := ssubset a b && ssubset b a.

(* `prev = None; curr = x0; while curr != prev: prev = curr; curr = f prev; return curr`, with fuel *)
Fixpoint iterate (fuel : nat) (f : sset -> option sset) (curr : sset) : option sset :=
  match fuel with
  | O => None
  | S n => match f curr with
           | None => None
           | Some next => if seqb next curr then Some next else iterate n f next
           end
  end.

(* duplicate-free, sorted-insensitive comparison helper for correspondence: canonical form *)
Fixpoint dedup (l : sset) : sset :=
  match l with [] => [] | x :: t => if mem x t then dedup t else x :: dedup t end.
