"""C17, execution oracle for every generated method: synthesise inputs from the schema alone.

For a schema, `candidates(schema)` yields (inputs, required attributes) guesses built from the formal parameters'
type constraints (one dtype per constraint variable, a handful of shape profiles, small integer side inputs,
required attributes by attribute type).  A guess is USED only if the hand-built bare node (no optional attribute,
no optional input) loads and runs on onnxruntime -- that is what "a generic input can be synthesised" means here.
`classify(schema)` names the reason when no guess is even attempted.
"""
from __future__ import annotations

import numpy as np
import onnx
import onnx.defs

NONDETERMINISTIC = {"RandomNormal", "RandomNormalLike", "RandomUniform", "RandomUniformLike", "Multinomial", "Bernoulli"}

_PREF = ["tensor(float)", "tensor(int64)", "tensor(bool)", "tensor(int32)", "tensor(uint8)", "tensor(string)",
         "tensor(double)", "tensor(int8)", "tensor(float16)"]
_NP = {"tensor(float)": np.float32, "tensor(int64)": np.int64, "tensor(bool)": np.bool_, "tensor(int32)": np.int32,
       "tensor(uint8)": np.uint8, "tensor(string)": object, "tensor(double)": np.float64, "tensor(int8)": np.int8,
       "tensor(float16)": np.float16}

# shape profiles for the data-like (floating / first) inputs
PROFILES = [(3, 4), (2, 3, 4), (1, 2, 4, 4), (4,), (), (1, 2, 8), (2, 2)]
# value guesses for integer-typed side inputs (axes, shapes, indices, k, ...)
INT_SIDE = [np.array([1], dtype=np.int64), np.array([0], dtype=np.int64), np.array(1, dtype=np.int64),
            np.array([1, 1], dtype=np.int64), np.array([0, 1], dtype=np.int64)]

AT = onnx.defs.OpSchema.AttrType


def defaulted_attrs(schema):
    return sorted(a.name for a in schema.attributes.values() if a.default_value.name)


def classify(schema):
    """None when a guess can be attempted, else the reason it cannot."""
    if schema.name in NONDETERMINISTIC:
        return "non-deterministic output (no seed default)"
    for a in schema.attributes.values():
        if a.required and a.type in (AT.GRAPH, AT.GRAPHS, AT.TENSOR, AT.TENSORS, AT.SPARSE_TENSOR, AT.SPARSE_TENSORS,
                                      AT.TYPE_PROTO, AT.TYPE_PROTOS):
            return "required attribute of graph / tensor / type kind"
    for i in schema.inputs:
        if i.option == onnx.defs.OpSchema.FormalParameterOption.Optional:
            continue
        if not any(t in _NP for t in i.types):
            return "required input is not a plain tensor (sequence / map / optional / exotic element type)"
    return None


def _dtype_for(types):
    for t in _PREF:
        if t in types:
            return t
    return None


def _tensor(t, shape, k, profile_no):
    rng = np.random.RandomState(1000 + 17 * k + profile_no)
    dt = _NP[t]
    if dt is object:
        return np.array([f"s{j}" for j in range(int(np.prod(shape)) if shape else 1)], dtype=object).reshape(shape)
    if dt is np.bool_:
        return rng.uniform(size=shape) > 0.5
    if np.issubdtype(dt, np.floating):
        return np.asarray(rng.uniform(0.25, 0.95, size=shape)).astype(dt)
    return np.asarray(rng.randint(1, 4, size=shape)).astype(dt)


def _req_attr_guesses(schema):
    """A few dictionaries of required attributes, by attribute type."""
    req = [a for a in schema.attributes.values() if a.required]
    if not req:
        return [{}]
    outs = []
    for variant in range(3):
        d = {}
        for a in req:
            if a.type == AT.INT:
                d[a.name] = [1, 2, 0][variant]
            elif a.type == AT.INTS:
                d[a.name] = [[1, 1], [2, 2], [1]][variant]
            elif a.type == AT.FLOAT:
                d[a.name] = [1.0, 0.5, 2.0][variant]
            elif a.type == AT.FLOATS:
                d[a.name] = [[1.0], [0.5, 0.5], [1.0, 1.0]][variant]
            elif a.type == AT.STRING:
                d[a.name] = ["", "ij->ji", "NONE"][variant]
            elif a.type == AT.STRINGS:
                d[a.name] = [["a"], ["a", "b"], [""]][variant]
            else:
                return []
        outs.append(d)
    return outs


def candidates(schema, limit=40):
    """Yield (inputs, attrs).  Optional inputs are left out (the minimal call); a variadic input gets two tensors."""
    OPT = onnx.defs.OpSchema.FormalParameterOption
    formals = [i for i in schema.inputs if i.option != OPT.Optional]
    # one dtype per type-constraint variable
    by_var = {}
    for i in formals:
        t = _dtype_for(i.types)
        if t is None:
            return
        by_var.setdefault(i.type_str, t)
    n = 0
    for attrs in _req_attr_guesses(schema):
        for pno, shape in enumerate(PROFILES):
            side_opts = [None] + list(range(len(INT_SIDE)))
            for side in side_opts:
                ins = []
                used_side = False
                for k, i in enumerate(formals):
                    t = by_var[i.type_str]
                    is_side = k > 0 and t in ("tensor(int64)", "tensor(int32)") and by_var[formals[0].type_str] != t
                    if is_side and side is not None:
                        ins.append(INT_SIDE[side].astype(_NP[t]))
                        used_side = True
                    else:
                        x = _tensor(t, shape, k, pno)
                        ins.append(x)
                        if i.option == OPT.Variadic:
                            ins.append(_tensor(t, shape, k + 7, pno))
                if side is not None and not used_side:
                    continue
                yield ins, dict(attrs)
                n += 1
                if n >= limit:
                    return


def find_plan(schema, bare_runs):
    """-> (plan, reason).  bare_runs(inputs, attrs) -> (True, n_outputs) | (False, error text)."""
    why = classify(schema)
    if why is not None:
        return None, why
    last = ""
    tried = 0
    for ins, attrs in candidates(schema):
        tried += 1
        ok, info = bare_runs(ins, attrs)
        if ok:
            return (ins, attrs), None
        last = str(info)
        if "Could not find an implementation" in last or "NOT_IMPLEMENTED" in last or "is not a registered function/op" in last \
                or "No Op registered" in last:
            return None, "onnxruntime has no kernel for this operator / version / type"
        if "is deprecated" in last:
            return None, "ONNX marks the operator deprecated at this version (onnxruntime refuses the model)"
    if tried == 0:
        return None, "no input guess could be formed from the type constraints"
    return None, "no synthesised input accepted by onnxruntime (shape / value requirements the schema does not state)"


# ----------------------------------------------------------------------------- worker (own process: some synthesised
# inputs crash onnxruntime / onnx shape inference outright, e.g. Upsample-9 with a made-up scales tensor)

def method_list(opsets):
    """Deterministic list of (class name, operator) of every generated method, in (domain, version, name) order."""
    import inspect
    out = []
    for cn, o in sorted(opsets.items(), key=lambda kv: (kv[1].domain, kv[1].version)):
        for name, fn in sorted(vars(type(o)).items()):
            if not name.startswith("_") and inspect.isfunction(fn):
                out.append((cn, name))
    return out


def _worker(todo_path, start):
    import json
    import sys

    import onnxruntime as ort

    from harness import c17_real as R
    from onnxscript._internal import evaluator
    ort.set_default_logger_severity(4)
    opsets, _ = R.load_opsets()
    todo = json.load(open(todo_path))
    OPTV = onnx.defs.OpSchema.FormalParameterOption.Variadic
    for idx in range(start, len(todo)):
        cn, name = todo[idx]
        print("START " + json.dumps([idx, cn, name]), flush=True)
        o = opsets[cn]
        s = onnx.defs.get_schema(name, o.version, o.domain)
        rec = dict(idx=idx, cls=cn, op=name, since=int(s.since_version), defaults=defaulted_attrs(s), source=None, status="none", reason=None)
        n_out = 1 if any(x.option == OPTV for x in s.outputs) else max(1, len(s.outputs))

        def bare_runs(ins, attrs):
            try:
                return True, len(R.run_bare(name, o.domain, o.version, ins, attrs, n_out, "ort"))
            except Exception as e:  # noqa: BLE001
                return False, repr(e)[:500]
        plan = None
        if (o.domain, name) in R.EXEC_TABLE:
            p = R.EXEC_TABLE[(o.domain, name)](o.version)
            if p is not None and bare_runs(*p)[0]:
                plan, rec["source"] = p, "table"
        if plan is None:
            plan, rec["reason"] = find_plan(s, bare_runs)
            if plan is not None:
                rec["source"] = "generic"
        if plan is not None:
            ins, attrs = plan
            old = evaluator.default()
            evaluator.set_default(evaluator.ort_evaluator)
            try:
                try:
                    got, err = R.run_eager(o, name, ins, attrs), None
                except Exception as e:  # noqa: BLE001
                    got, err = None, repr(e)[:400]
            finally:
                evaluator.set_default(old)
            if got is None:
                rec.update(status="eager-failed", detail=err)
            else:
                try:
                    want = R.run_bare(name, o.domain, o.version, ins, attrs, len(got), "ort")
                except Exception as e:  # noqa: BLE001  (a sequence-valued result is flattened by the eager side)
                    want = None
                    rec.update(status="none", source=None,
                               reason="sequence-valued output: the eager result cannot be compared with the bare node element-wise")
                if want is None:
                    pass
                elif R.same(got, want, exact=True):
                    rec["status"] = "equal"
                elif R.same(got, want, exact=False, rtol=1e-6, atol=1e-7):
                    rec["status"] = "roundoff"
                else:
                    rec.update(status="diff", eager=[None if g is None else np.asarray(g).tolist() for g in got][:2],
                               bare=[np.asarray(w).tolist() for w in want][:2])
            if rec["status"] in ("diff", "eager-failed"):
                rec["inputs"] = [None if a is None else dict(dtype=str(a.dtype), shape=list(a.shape), values=a.tolist() if a.size <= 64 else None) for a in ins]
                rec["attrs"] = {k: (v if isinstance(v, (int, float, str, list)) else repr(v)) for k, v in attrs.items()}
        print("RESULT " + json.dumps(rec, default=str), flush=True)
    print("DONE", flush=True)


def sweep(repo, todo, scratch, timeout=900):
    """Run the worker over todo=[(cls, op)...]; a crash of the worker process is charged to the method in progress.
    -> list of result records (status 'crash' for the ones that killed the worker)."""
    import json
    import os
    import subprocess
    import sys
    path = os.path.join(scratch, "c17_generic_todo.json")
    json.dump(list(map(list, todo)), open(path, "w"))
    env = dict(os.environ, PYTHONPATH=repo + os.pathsep + os.path.dirname(os.path.dirname(os.path.abspath(__file__))),
               OMP_NUM_THREADS="1", PYTHONHASHSEED="0")
    results, start, restarts = [], 0, 0
    while start < len(todo) and restarts < 40:
        p = subprocess.run([sys.executable, "-m", "harness.c17_generic", path, str(start)], capture_output=True, text=True,
                           timeout=timeout, env=env)
        cur, done = None, False
        for line in p.stdout.splitlines():
            if line.startswith("START "):
                cur = json.loads(line[6:])
            elif line.startswith("RESULT "):
                results.append(json.loads(line[7:]))
                cur = None
            elif line == "DONE":
                done = True
        if done:
            break
        restarts += 1
        if cur is None:      # died between methods (or before the first): skip nothing, but do not loop forever
            start = len(results) if results else start + 1
            continue
        idx, cn, name = cur
        results.append(dict(idx=idx, cls=cn, op=name, source=None, status="crash", defaults=None,
                            reason=f"the worker process died (exit {p.returncode}) on a synthesised input: onnxruntime / onnx crash",
                            detail=p.stderr[-300:]))
        start = idx + 1
    return results


if __name__ == "__main__":
    import sys
    _worker(sys.argv[1], int(sys.argv[2]))
