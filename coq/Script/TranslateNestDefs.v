(* Stage S3 (complete) of the compiler-correctness theorem: `for` and `while` loops, a trailing `if c: break`,
   and nesting of if / for / while to any depth.  This file names the loop translation of Script/Translate.v
   (Converter._translate_loop_stmt) as equations proved by reflexivity, and defines the class of programs the
   theorem covers: at every program point a decidable check on what the generated analysis (Gen/Analysis.v)
   says there.  The class is defined by recursion on the nesting depth (the same bound the converter model
   uses), for statement lists followed by a tail (the statements after them in the enclosing block). *)
From Coq Require Import List String ZArith Bool Arith Lia.
Require Import OV.Graph.Syntax OV.Graph.Sem OV.Graph.SemProofs OV.Graph.Wf OV.Graph.WfProofs.
Require Import OV.Script.Syntax OV.Script.Sets OV.Gen.Analysis OV.Gen.ScriptTables OV.Script.Translate OV.Script.PySem
               OV.Script.TranslateProofs OV.Script.AnalysisProofs OV.Script.LivenessProofs OV.Script.TranslateIfProofs
               OV.Script.TranslateForDefs.
Import ListNotations.
Local Open Scope string_scope.
Local Open Scope list_scope.

Section NestEq.
  Variable globals : list (string * lit).
  Variable cic : expr -> option bool.
  Variable afuel : nat.
  Variable inputs : list vname.
  Notation tr_stmts := (tr_stmts globals cic afuel false inputs).
  Notation tr_loop_body := (tr_loop_body globals cic afuel inputs).

  (* the condition the loop body returns: Identity of the incoming condition (`for`), the loop condition variable at
     the end of the body (`while`), Not(break condition) (`for` + break), And(loop condition, Not(break condition))
     (`while` + break, repaired behaviour) *)
  Definition tr_cond (brk wc : option vname) (cond_param : vname) : M vname :=
    match brk, wc with
    | Some bv, Some wv =>
      nb <- uniq "not_break" ;; emit (node1 "Not" [Some bv] nb []) ;;;
      co <- uniq "cond_out" ;; emit (node1 "And" [Some wv; Some nb] co []) ;;; ret co
    | Some bv, None =>
      co <- uniq "cond_out" ;; emit (node1 "Not" [Some bv] co []) ;;; ret co
    | None, Some wv =>
      co <- uniq "cond_out" ;; emit (identity wv co) ;;; ret co
    | None, None =>
      co <- uniq "cond_out" ;; emit (identity cond_param co) ;;; ret co
    end.

  (* everything after the loop header *)
  Definition tr_loop_core (fu : nat) (s : stmt) (body : list stmt) (lo_s : sset) (sc : scopes) (outs : list vname)
             (loop_var_py : string) (cond_param : vname) (o_bound o_cond : option vname) (while_c : option string)
    : M (scopes * list vname) :=
    state <- list_set (sinter (assigned_block cic body) (sunion (exposed_uses cic body) lo_s)) ;;
    guard (negb (is_nil state)) ;;;
    lo_body <- lift (loop_fixpoint cic afuel s lo_s) ;;
    lv <- uniq loop_var_py ;;
    ps <- mapM uniq state ;;
    let sc_b0 := bind_all state ps (bind_var loop_var_py (BV lv) ([] :: sc)) in
    r <- capture (tr_loop_body fu lo_body body sc_b0) ;;
    let sc_b := fst (fst r) in
    let brk := snd (fst r) in
    let ns0 := snd r in
    wc <- match while_c with
          | Some c => match scope_find c (cur_scope sc_b) with
                      | Some (BV v) => ret (Some v)
                      | _ => fail
                      end
          | None => ret None
          end ;;
    cnodes <- capture (tr_cond brk wc cond_param) ;;
    o <- loop_outputs globals false sc_b state (ns0 ++ snd cnodes)%list [fst cnodes] ;;
    let body_g := Graph (lv :: cond_param :: ps) [] (snd o) (fst cnodes :: fst o) in
    ins <- mapM (py_var globals sc) state ;;
    state_out <- ret state ;;
    names <- mapM uniq state_out ;;
    emit (Node "" "Loop" (o_bound :: o_cond :: map Some ins) names [] [("body", body_g)]) ;;;
    ret (bind_all state_out names sc, outs).

  Definition unpack_hdr (fu : nat) (s : stmt) (body : list stmt) (lo_s : sset) (sc : scopes) (outs : list vname)
             (hdr : string * vname * option vname * option vname * option string) : M (scopes * list vname) :=
    let '(loop_var_py, cond_param, o_bound, o_cond, while_c) := hdr in
    tr_loop_core fu s body lo_s sc outs loop_var_py cond_param o_bound o_cond while_c.

  Lemma tr_stmts_for' : forall fu top i bound body rest lo sc outs,
    tr_stmts (S fu) top (SFor i bound body :: rest) lo sc outs =
    (lo_s <- lift (live_block cic afuel rest lo) ;;
     r <- (hdr <- (b <- tr_expr globals sc (Some "loop_bound") bound ;;
                   cin <- uniq "cond_in" ;;
                   ret (i, cin, Some b, @None vname, @None string)) ;;
           unpack_hdr fu (SFor i bound body) body lo_s sc outs hdr) ;;
     tr_stmts (S fu) top rest lo (fst r) (snd r)).
  Proof. reflexivity. Qed.

  Lemma tr_stmts_while' : forall fu top c body rest lo sc outs,
    tr_stmts (S fu) top (SWhile c body :: rest) lo sc outs =
    (lo_s <- lift (live_block cic afuel rest lo) ;;
     r <- (hdr <- (cp <- uniq c ;;
                   oc <- py_var globals sc c ;;
                   ret ("infinite_loop", cp, @None vname, Some oc, Some c)) ;;
           unpack_hdr fu (SWhile c body) body lo_s sc outs hdr) ;;
     tr_stmts (S fu) top rest lo (fst r) (snd r)).
  Proof. reflexivity. Qed.

  Lemma tr_stmts_break : forall fu top rest lo sc outs,
    tr_stmts (S fu) top (SBreak :: rest) lo sc outs =
    (lo_s <- lift (live_block cic afuel rest lo) ;;
     r <- @fail (scopes * list vname) ;;
     tr_stmts (S fu) top rest lo (fst r) (snd r)).
  Proof. reflexivity. Qed.

  Lemma tr_stmts_return_any : forall fu top es rest lo sc outs,
    tr_stmts (S fu) top (SReturn es :: rest) lo sc outs =
    (lo_s <- lift (live_block cic afuel rest lo) ;;
     r <- (if top then
             guard (negb (is_nil es)) ;;;
             o <- tr_returns globals false inputs sc (match es with [_] => false | _ => true end) 0 es outs ;; ret (sc, o)
           else fail) ;;
     tr_stmts (S fu) top rest lo (fst r) (snd r)).
  Proof. reflexivity. Qed.

  Lemma tr_loop_body_nil : forall fu lo_body sc_b, tr_loop_body fu lo_body [] sc_b = ret (sc_b, None).
  Proof. reflexivity. Qed.

  Lemma tr_loop_body_cons : forall fu lo_body s0 rest sc_b,
    tr_loop_body fu lo_body (s0 :: rest) sc_b =
    match is_break_if s0 with
    | Some (EVar cn) =>
      guard (is_nil rest) ;;;
      match scope_find cn (cur_scope sc_b) with
      | Some (BV v) => ret (sc_b, Some v)
      | _ => fail
      end
    | Some _ => fail
    | None =>
      lo0 <- lift (live_block cic afuel rest lo_body) ;;
      r0 <- match s0 with
            | SAssign x e => v <- tr_expr globals sc_b (Some x) e ;; ret (bind_var x (BV v) sc_b, [])
            | STuple xs e => vs <- tr_call_multi globals sc_b e xs ;; ret (bind_all xs vs sc_b, [])
            | _ => tr_stmts fu false [s0] lo0 sc_b []
            end ;;
      tr_loop_body fu lo_body rest (fst r0)
    end.
  Proof. reflexivity. Qed.
End NestEq.

(* ------------------------------------------------------------------ the class *)

Section NestClass.
  Variable globals : list (string * lit).
  Variable cic : expr -> option bool.
  Variable afuel : nat.
  Variable wb : bool.                (* `while` loops with a trailing break are in the class *)

  Definition is_some {A} (o : option A) : bool := match o with Some _ => true | None => false end.

  (* `range(3)`: a literal trip count *)
  Definition is_int_lit (e : expr) : bool := match e with ELit (LInt _) => true | _ => false end.

  (* side conditions on the sets the generated analysis computes for a loop: L = what is live before the loop
     (live_stmt), Lf = what is live at the end of the body (loop_fixpoint: the liveness the converter uses inside the
     body), Lb = what is live at the start of the body; iv = the Python name the iteration counter is bound to in the
     body scope (the loop variable; "infinite_loop" for `while`) *)
  Definition loop_side (iv : string) (is_while : bool) (body : list stmt) (lo_s L Lf Lb : sset) : bool :=
    let A := assigned_block cic body in
    let S := sinter A (sunion (exposed_uses cic body) lo_s) in
    ssubset S Lf &&                                         (* the loop state is live at the end of the body (hence before the loop) *)
    ssubset (sdiff Lb (iv :: S)) (sdiff L A) &&             (* what the body reads and is not state comes from outside, unchanged *)
    negb (mem iv lo_s) && negb (mem iv A) &&                (* the counter is not used after the loop, not assigned in it *)
    forallb (fun x => is_none (lookup_assoc x globals)) S && (* no state variable shadows a module-level constant *)
    (negb is_while || negb (mem iv Lb)).                    (* `while`: the body does not read a variable called infinite_loop *)

  (* the statements of a loop body: class statements, then possibly one `if cn: break` *)
  Fixpoint body_ok (sok : stmt -> sset -> bool) (is_while : bool) (body : list stmt) (lo_body : sset) : bool :=
    match body with
    | [] => true
    | s0 :: rest =>
      match is_break_if s0 with
      | Some (EVar cn) =>
        is_nil rest && match s0 with SIf _ _ [] => true | _ => false end && is_none (cic (EVar cn)) && (negb is_while || wb)
      | Some _ => false
      | None =>
        match live_block cic afuel rest lo_body with
        | None => false
        | Some lo0 => sok s0 lo0 && is_some (live_stmt cic afuel s0 lo0) && body_ok sok is_while rest lo_body
        end
      end
    end.

  (* a statement directly inside a loop body: assignments are translated in place, anything else as a one-statement block *)
  Definition body_sok (rec : list stmt -> sset -> bool) (s0 : stmt) (lo0 : sset) : bool :=
    match s0 with
    | SAssign _ e => rhs_ok globals e
    | STuple _ (ECall f a k) => expr_ok (ECall f a k)
    | SIf _ _ _ | SFor _ _ _ | SWhile _ _ => rec [s0] lo0
    | _ => false
    end.

  (* one statement whose nested blocks are in the class `rec`; lo_s = what is live after it *)
  Definition stmt_ok (rec : list stmt -> sset -> bool) (s : stmt) (lo_s : sset) : bool :=
    match s with
    | SAssign _ e => rhs_ok globals e
    | STuple _ (ECall f a k) => expr_ok (ECall f a k)
    | SIf c t f => match cic c with None => rhs_ok globals c | Some _ => true end && rec t lo_s && rec f lo_s
    | SFor i b body =>
      (rhs_ok globals b || is_int_lit b) &&
      match live_stmt cic afuel (SFor i b body) lo_s, loop_fixpoint cic afuel (SFor i b body) lo_s with
      | Some L, Some Lf =>
        match live_block cic afuel body Lf with
        | None => false
        | Some Lb => ssubset (used_vars b) L && loop_side i false body lo_s L Lf Lb && body_ok (body_sok rec) false body Lf
        end
      | _, _ => false
      end
    | SWhile c body =>
      match live_stmt cic afuel (SWhile c body) lo_s, loop_fixpoint cic afuel (SWhile c body) lo_s with
      | Some L, Some Lf =>
        match live_block cic afuel body Lf with
        | None => false
        | Some Lb => mem c Lf && is_none (lookup_assoc c globals) && loop_side "infinite_loop" true body lo_s L Lf Lb &&
                     body_ok (body_sok rec) true body Lf
        end
      | _, _ => false
      end
    | _ => false
    end.

  (* statements `ss` followed by `tl` in one block, lo = what is live after the block *)
  Fixpoint blocks_go (sok : stmt -> sset -> bool) (ss tl : list stmt) (lo : sset) : bool :=
    match ss with
    | [] => true
    | s :: rest =>
      match live_block cic afuel (rest ++ tl) lo with
      | None => false
      | Some lo_s => sok s lo_s && is_some (live_stmt cic afuel s lo_s) && blocks_go sok rest tl lo
      end
    end.

  Fixpoint block_ok (n : nat) : list stmt -> sset -> bool :=
    match n with
    | O => fun _ _ => false
    | S m => fun ss lo => blocks_go (stmt_ok (block_ok m)) ss [] lo
    end.

  (* a function body: `pre` followed by `tl` (the return), nested blocks to depth n *)
  Definition pre_ok (n : nat) (pre tl : list stmt) (lo : sset) : bool := blocks_go (stmt_ok (block_ok n)) pre tl lo.

End NestClass.
