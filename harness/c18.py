"""C18 -- GraphBuilder/nn.Module graphs compute the trace; parameters named like PyTorch (DESIGN.md section 5, C18).

Three models (coq/Builder), each with theorems in Props/C18.v, a correspondence with the real code and a
direct oracle:

  A  module trees -> initializer names        Modules.v     harness/c18_trees.py
  B  value / node names of the builder        Naming.v      harness/c18_traces.py
  C  trace -> graph -> values                 Trace.v       harness/c18_traces.py

The three code behaviours for which patches are proposed (proposed_fixes/C18_*.diff) are probed on the real
code on every run, and the model is evaluated with the probed configuration, so the check follows the code
when a patch is applied.
"""
from __future__ import annotations

import itertools

import numpy as np

from harness import common
from harness import c18_inline as INL
from harness import c18_lits as LITS
from harness import c18_modops as MO
from harness import c18_sharing as SH
from harness import c18_traces as TR
from harness import c18_trees as T
from harness.common import cbool, clist, cstr

PROPERTY = "C18"
LEVEL = "proof"

REQ_A = ["OV.Builder.Strings", "OV.Builder.Modules", "OV.Builder.ModulesProofs"]


# ----------------------------------------------------------------------------- probes (model follows the code)

def probe_cfg(ctx):
    """Observe, on three minimal programs, which of the two behaviours each probed code path has."""
    leaf = lambda nm, pid: ("mod", nm, [("weight", pid, None)], [], False)
    # 1. Parameter._realize inside a subgraph body
    r = T.run_spec(("mod", "root", [], [("a", leaf(None, 0))], True))
    if r["inits"] == ["root.weight"]:
        uses_root = True
    elif r["inits"] == ["root.a.weight"]:
        uses_root = False
    else:
        ctx.tie_broken("translator", "probe:realize-scope", f"unexpected initializer names {r['inits']}")
        uses_root = True
    # 2. a named child appended to a named ModuleList / to a Sequential
    r1 = T.run_spec(("mod", "root", [], [("l", ("cont", False, [], [], [leaf("mine", 0)]))], False))
    r2 = T.run_spec(("mod", "root", [], [("l", ("cont", True, [], [], [leaf("mine", 0)]))], False))
    got = (r1["inits"], r2["inits"])
    if got == (["root.mine.weight"], ["root.l.mine.weight"]):
        renames = False
    elif got == (["root.l.0.weight"], ["root.l.0.weight"]):
        renames = True
    else:
        ctx.tie_broken("translator", "probe:container-renames-named-child", f"unexpected initializer names {got}")
        renames = False
    # 3. ModuleList nested in a ModuleList that never gets a name
    r = T.run_spec(("cont", False, [("cont", False, [leaf(None, 0)], [], [])], [], []))
    if r["inits"] == ["0.weight"]:
        propagates = False
    elif r["inits"] == ["0.0.weight"]:
        propagates = True
    else:
        ctx.tie_broken("translator", "probe:unattached-list", f"unexpected initializer names {r['inits']}")
        propagates = False
    # 4. two different Parameter objects under one qualified name: silently replaced / ValueError (not a field of the
    #    Coq `cfg` record: the separate flag of Modules.v `call_result`)
    return {"realize_uses_root_scope": uses_root, "container_renames_named_child": renames,
            "unattached_list_propagates": propagates, "raises_on_collision": SH.probe_collision(ctx)}


def cfg_lit(cfg):
    return f"(Cfg {cbool(cfg['realize_uses_root_scope'])} {cbool(cfg['container_renames_named_child'])} {cbool(cfg['unattached_list_propagates'])})"


# ----------------------------------------------------------------------------- model A: module trees

WITNESSES = {
    # name -> spec (the witnesses of the _refuted theorems in Props/C18.v, replayed on the real code)
    "w_named_append": ("mod", "root", [], [("layers", ("cont", False, [("mod", None, [("weight", 0, "weight")], [], False)], [],
                                                       [("mod", "mine", [("weight", 1, "weight")], [], False)]))], False),
    "w_named_init": ("mod", "root", [], [("layers", ("cont", False, [("mod", None, [("weight", 0, "weight")], [], False),
                                                                     ("mod", "mine", [("weight", 1, "weight")], [], False)], [], []))], False),
    "w_shared": ("mod", "root", [], [("a", ("mod", None, [("weight", 0, "weight")], [], False)),
                                     ("b", ("mod", None, [("weight", 0, "weight")], [], False))], False),
    "w_subgraph": ("mod", "root", [], [("a", ("mod", None, [("weight", 0, "weight")], [], False)),
                                       ("b", ("mod", None, [("weight", 1, "weight")], [], False))], True),
    "w_dotted": ("mod", "root", [], [("a", ("mod", None, [], [("b", ("mod", None, [("weight", 0, "weight")], [], False))], False)),
                                     ("c", ("mod", "a.b", [("weight", 1, "weight")], [], False))], False),
    "w_nested_unattached": ("cont", False, [("cont", False, [("mod", None, [("weight", 0, "weight")], [], False)], [], [])], [], []),
}


def _root_name(spec):
    return (spec[1] or "") if spec[0] == "mod" else ""


def _classify(spec, feats, cfg):
    """Which known deviation (outside the theorem's hypotheses) explains a naming mismatch; None = unexplained."""
    if feats["sub"] and cfg["realize_uses_root_scope"]:
        return "C18:naming:module-called-in-subgraph-qualified-by-root-scope"
    if len(set(feats["pids"])) != len(feats["pids"]):
        return "C18:naming:shared-parameter-object"
    if feats["named_in_named_list_late"] or feats["named_container_child"]:
        if not cfg["container_renames_named_child"]:
            return "C18:naming:named-child-registered-in-container-keeps-own-name"
        return "explicit"       # an unattached container and a named child: the user's names
    if spec[0] == "cont" and not spec[1] and _has_nested_list(spec) and not cfg["unattached_list_propagates"]:
        return "C18:naming:modulelist-nested-in-unattached-modulelist"
    if feats["named_attr_mismatch"] or feats["param_explicit_mismatch"] or feats["dots"] or feats["empty_name"]:
        return "explicit"       # names chosen explicitly by the caller: outside the property's hypotheses, not flagged
    return None


def _has_nested_list(spec):
    if spec[0] != "cont":
        return False
    for c in spec[2] + spec[3] + spec[4]:
        if c[0] == "slice" or (c[0] == "cont" and not c[1]):
            return True
    return False


def run_trees(ctx, cfg):
    rng = ctx.rng
    n_random = 200 if ctx.tier == "quick" else 3000
    allow = dict(param_mismatch=0.08, sub=0.1, named_attr_mismatch=0.08, named_in_container=0.12, invalid=0.05)
    specs = [(name, s) for name, s in sorted(WITNESSES.items())]
    for i in range(n_random):
        d = rng.choice([2, 3, 3, 4, 4])
        s = T.gen_spec(rng, max_depth=d, allow=allow if i % 3 == 2 else {})
        if i % 7 == 6:
            s, _ = T.add_sharing(rng, s)
        specs.append((f"random{i}", s))
    if ctx.tier == "thorough":
        n_enum = 0
        for s in T.enumerate_specs(5):
            specs.append((f"enum{n_enum}", s))
            n_enum += 1
        ctx.cover(trees_enumerated_up_to_5_nodes=n_enum)

    cases, meta, invalid = [], [], []
    stats = {"hyp_explicit": 0, "errors": 0, "oracle_mismatch_explained": 0}
    for idx, (name, spec) in enumerate(specs):
        opts = {"twice": idx % 3 == 0, "slices": idx % 4 == 1}
        r = T.run_spec(spec, opts)
        feats = T.features(spec)
        key = (spec[0], T.depth(spec), feats["list"], feats["seq"], feats["slice"], feats["early"], feats["late"],
               feats["sub"], len(set(feats["pids"])) != len(feats["pids"]), feats["named_in_named_list_late"],
               feats["named_container_child"], feats["named_attr_mismatch"], feats["param_explicit_mismatch"],
               min(feats["nodes"], 12), r["error"])
        ctx.case(key)
        if idx < 3 or name == "random0":
            ctx.sample({"model": "A", "program": T.spec_lit(spec), "initializers": r["inits"], "state_dict": r["sd"], "error": r["error"]})
        if r["named"] != r["sd"]:
            ctx.violation("C18:naming:named_parameters-differs-from-state_dict", f"{name}: named_parameters() keys {r['named']} != state_dict() keys {r['sd']}",
                          {"program": T.spec_lit(spec)})
        if r["error"]:
            stats["errors"] += 1
            invalid.append((name, spec, r["error"] + (":" + r["collision"] if r["error"] == "NameCollision" else "")))
            continue
        # ---- direct oracle: the property on the real code (decided below, once the model has been evaluated)
        want = [(_root_name(spec) + "." + k) if _root_name(spec) else k for k in r["sd"]]
        once = all(sum(1 for v in r["init_ids"].values() if v == pobj) == 1 for pobj in set(r["sd_ids"]))
        ok = (sorted(r["inits"]) == sorted(want)) and once and len(set(r["inits"])) == len(r["inits"])
        what = None
        if not ok:
            what = (f"{name}: initializer names {r['inits']} but root name + state_dict keys {want}"
                    + ("" if once else "; a Parameter object is not stored exactly once"))
        cases.append(f"({T.spec_lit(spec)}, {clist(r['inits'], cstr)}, {clist(r['sd'], cstr)})")
        meta.append((name, spec, r, ok, feats, what))

    # ---- correspondence: the Coq model on the same programs, with the probed configuration
    cf = cfg_lit(cfg)
    chk = SH.chk_lit(cfg)        # probed: Parameter._realize raises when the name is used by another Parameter object
    bad_total, hyp_true, hyp_but_mismatch = [], 0, []
    shard = 400
    bodies = []
    for a in range(0, len(cases), shard):
        chunk = cases[a:a + shard]
        bodies.append(f"Definition cf := {cf}.\nDefinition cases : list case := {clist(chunk)}.\n"
                      "Eval vm_compute in (disagreeing cf 0 cases).\n"
                      "Eval vm_compute in (map (fun c : case => let '(s, _, _) := c in program_okb cf s) cases).\n"
                      "Eval vm_compute in (map (fun c : case => let '(s, _, _) := c in callable_ok (construct cf s)) cases).\n"
                      f"Eval vm_compute in (map (fun c : case => let '(s, _, _) := c in returns (call_result {chk} cf (construct cf s))) cases).\n")
    results = ctx.coq_eval_shards(REQ_A, bodies)
    for k, (okc, vals, raw) in enumerate(results):
        if not okc or len(vals) < 4:
            ctx.tie_broken("correspondence", "modelA:evaluation", raw[-1500:])
            continue
        for j in common.parse_nat_list(vals[0]):
            bad_total.append(k * shard + j)
        hyps = _parse_bools(vals[1])
        valid = _parse_bools(vals[2])
        returns = _parse_bools(vals[3])
        for j, h in enumerate(hyps):
            name, spec, r, ok, feats, what = meta[k * shard + j]
            if h:
                hyp_true += 1
                if not ok:
                    hyp_but_mismatch.append(name)
            if not valid[j]:
                # the model says calling this program raises, the real code ran: the property itself decides first
                if not ok:
                    ctx.violation("C18:naming:initializer-names-differ-from-state-dict-keys:model-says-not-callable", what,
                                  {"program": T.spec_lit(spec), "initializers": r["inits"], "state_dict": r["sd"]})
                else:
                    ctx.tie_broken("correspondence", "modelA:validity", f"{name}: the real code ran but the model says calling raises")
            if not returns[j]:
                # the model (raises_on_collision probed true) raises ValueError for this program, the real call returned
                lost = not all(sum(1 for v in r["init_ids"].values() if v == pobj) == 1 for pobj in set(r["sd_ids"]))
                if lost:
                    shared = len(set(feats["pids"])) != len(feats["pids"])
                    ctx.violation(SH.K_COLLIDE if shared else "C18:naming:name-collision-not-rejected-without-sharing",
                                  f"{name}: two Parameter objects are realised under one name and an initializer is lost although "
                                  f"Parameter._realize rejects the minimal collision (probe): initializers {r['inits']}, state_dict {r['sd']}",
                                  {"program": T.spec_lit(spec), "initializers": r["inits"], "state_dict": r["sd"]})
                else:
                    ctx.tie_broken("correspondence", "modelA:collision", f"{name}: the real code ran but the model says Parameter._realize raises")
    bad_set = set(bad_total)
    for i, (name, spec, r, ok, feats, what) in enumerate(meta):
        doc = {"program": T.spec_lit(spec), "initializers": r["inits"], "state_dict": r["sd"]}
        if ok and i in bad_set:
            ctx.tie_broken("correspondence", "modelA:names", f"{name}: {T.spec_lit(spec)} real initializers {r['inits']} state_dict {r['sd']}; model differs")
        elif not ok and i in bad_set:
            # the property fails on the real code and not in the way the model (with the probed behaviours) predicts
            ctx.violation("C18:naming:initializer-names-differ-from-state-dict-keys:" + ("container-root" if spec[0] != "mod" else "module-root"), what, doc)
        elif not ok:
            why = _classify(spec, feats, cfg)
            if why == "explicit":
                stats["hyp_explicit"] += 1
            elif why is not None:
                stats["oracle_mismatch_explained"] += 1
                ctx.violation(why, what, doc)
            else:
                ctx.violation("C18:naming:" + ("unattached-container-root" if spec[0] != "mod" else "consistent-program"), what, doc)
    for name in hyp_but_mismatch:
        ctx.tie_broken("correspondence", "modelA:hypotheses", f"{name}: program_okb holds but the real names differ from state_dict keys")
    if invalid:
        body = (f"Definition cf := {cf}.\nDefinition specs := {clist([T.spec_lit(s) for _n, s, _e in invalid])}.\n"
                "Eval vm_compute in (map (fun s => callable_ok (construct cf s)) specs).\n"
                f"Eval vm_compute in (map (fun s => outcome_view (call_result {chk} cf (construct cf s))) specs).\n")
        okc, vals, raw = ctx.coq_eval(REQ_A, body)
        views = [(a == "true", b) for a, b in SH._VIEW.findall(vals[1])] if okc and len(vals) >= 2 else []
        if not okc or len(views) != len(invalid):
            ctx.tie_broken("correspondence", "modelA:evaluation", raw[-1500:])
        else:
            for (name, spec, err), v, (m_returns, m_name) in zip(invalid, _parse_bools(vals[0]), views):
                if err.startswith("NameCollision"):
                    # ValueError of Parameter._realize: agrees with the model iff call_result (probed flag) raises for that name
                    stats["collisions_rejected"] = stats.get("collisions_rejected", 0) + 1
                    if m_returns or err != "NameCollision:" + m_name:
                        ctx.tie_broken("correspondence", "modelA:collision",
                                       f"{name}: real code raised {err}, the model (raises_on_collision = {cfg['raises_on_collision']}) "
                                       + ("returns" if m_returns else f"raises for {m_name!r}") + f": {T.spec_lit(spec)[:600]}")
                elif v:
                    ctx.tie_broken("correspondence", "modelA:validity", f"{name}: real code raised {err}, model says callable")
    ctx.obligation("correspondence A: initializer names and state_dict keys of the real nn classes = Modules.v (probed cfg) on every program",
                   not bad_total, f"{len(bad_total)} disagreements")
    ctx.obligation("correspondence A: whenever the theorem's hypotheses (program_okb) hold, the real names equal root + state_dict keys",
                   not hyp_but_mismatch)
    ctx.cover(trees=len(specs), trees_ran=len(cases), trees_raising=stats["errors"], trees_hypotheses_hold=hyp_true,
              trees_explicit_names_outside_hypotheses=stats["hyp_explicit"], trees_model_disagreements=len(bad_total),
              trees_rejected_by_collision_check=stats.get("collisions_rejected", 0), probed_cfg=cfg)


def _parse_bools(s):
    s = s.strip()
    if s in ("[]", "nil"):
        return []
    return [x.strip() == "true" for x in s.strip("[]").split(";")]


# ----------------------------------------------------------------------------- models B/C: traces

REQ_T = ["OV.Graph.Syntax", "OV.Graph.Sem", "OV.Graph.Wf", "OV.Builder.Strings", "OV.Builder.Naming", "OV.Builder.Trace", "OV.Builder.TraceCF", "OV.Builder.TraceNames", "OV.Builder.SemX", "OV.Builder.TraceCFX"]

K_REDEF = "C18:names:subgraph-value-redefines-outer-name"
K_DISJ = "C18:names:disjoint-subgraphs-share-value-names"


def probe_bcfg(ctx):
    """Does a child builder restart the node counter (pinned tree) or share it with the whole builder tree?"""
    import onnx_ir as ir
    from onnxscript._internal import builder as B

    g = ir.Graph(name="g", inputs=[], outputs=[], nodes=[], opset_imports={"": TR.OPSET})
    gb = B.GraphBuilder(g)
    x = gb.input("x", dtype=ir.DataType.FLOAT, shape=[2])
    gb.op.Add(x, x)
    sg = gb.subgraph(lambda op: op.Add(x, x), [], [ir.Value(name=None)])
    name = sg.node(0).outputs[0].name
    if name == "v_Add_0":
        return {"shared_counter": False}
    if name == "v_Add_1":
        return {"shared_counter": True}
    ctx.tie_broken("translator", "probe:subgraph-counter", f"unexpected value name {name!r} for the first node of a subgraph")
    return {"shared_counter": False}


def _trace_stats(steps, acc, depth=0):
    for s in steps:
        acc["steps"] += 1
        acc["depth"] = max(acc["depth"], depth)
        if s["kind"] == "fn":
            acc["fn"] += 1
        else:
            acc["ops"].add(s["op"])
            if s["op"] == "If":
                acc["if"] += 1
            if s["op"] == "Loop":
                acc["loop"] += 1
                acc["scanout"] += bool(s.get("nscan"))
            if s["op"] == "Scan":
                acc["scan"] += 1
            if s.get("vlit"):
                acc["hetero_lit"] += 1
            if s["op"] in ("Max", "Min", "Sum", "Mean", "Concat") and any(a[0] == "lit" for a in s["args"]):
                acc["homo_lit"] += 1
            if not isinstance(s["outs"], int):
                acc["named"] += 1
            for a in s["args"]:
                if a[0] == "lit":
                    acc["lits"] += 1
                    if len(a) == 4 and a[3] is not None:
                        acc["castlike"] += 1
        for _k, sb in s.get("subs", []):
            _trace_stats(sb["body"], acc, depth + 1)
    return acc


def _new_stats():
    return {"steps": 0, "depth": 0, "fn": 0, "if": 0, "loop": 0, "scan": 0, "scanout": 0, "hetero_lit": 0, "homo_lit": 0, "named": 0, "lits": 0,
            "castlike": 0, "ops": set()}


def run_traces(ctx, bcfg):
    import onnx

    rng = ctx.rng
    n = 200 if ctx.tier == "quick" else 2500
    bc = "bcfg_fixed" if bcfg["shared_counter"] else "bcfg_pinned"
    coq_cases, coq_meta, wf_meta, dup_info, toy_expected, hyp_meta, scan_meta = [], [], [], [], [], [], []
    tot = _new_stats()
    cnt = {"traces": 0, "models": 0, "with_sub": 0, "with_fn": 0, "redefines": 0, "disjoint": 0, "ort_runs": 0,
           "node_names_repeated_across_graphs": 0, "inline_vs_call": 0}
    directed = TR.directed_traces()
    for t in range(n):
        tr = directed[t] if t < len(directed) else TR.gen_trace(rng, n_steps=rng.choice([3, 6, 10, 14]))
        replay_doc = {"trace": repr(tr)[:6000]}
        modes = ["call"]
        has_fn = any(_has_fn(s) for s in tr["steps"])
        if has_fn:
            modes.append("inline")
        results = {}
        for mode in modes:
            info = TR.execute(tr, mode=mode)
            proto = TR.serialize(info)
            cnt["models"] += 1
            st = _trace_stats(info["steps"], _new_stats())
            if mode == "call":
                for k in ("steps", "fn", "if", "loop", "scan", "scanout", "hetero_lit", "homo_lit", "named", "lits", "castlike"):
                    tot[k] += st[k]
                tot["depth"] = max(tot["depth"], st["depth"])
                tot["ops"] |= st["ops"]
                cnt["traces"] += 1
                cnt["with_sub"] += bool(st["if"] or st["loop"] or st["scan"])
                cnt["with_fn"] += bool(st["fn"])
            ctx.case(("trace", mode, min(st["steps"], 20) // 4, st["depth"], bool(st["if"]), bool(st["loop"]), bool(st["scan"]), bool(st["scanout"]),
                      bool(st["hetero_lit"]), bool(st["homo_lit"]), bool(st["fn"]),
                      bool(st["named"]), bool(st["castlike"]), bool(st["lits"])))
            if t == 0 and mode == "call":
                ctx.sample({"model": "B/C", "trace": TR.steps_lit(info["steps"])[:1500], "node_names": TR.node_names_creation_order(proto.graph)[:12]})
            # ---- names (duplicates across graphs are attributed to the restarted counter only if the model,
            #      evaluated below with the probed behaviour, predicts exactly this graph)
            rep = TR.name_report(proto.graph)
            dup_cross = bool(rep["redefines_visible"] or rep["disjoint_dups"])
            if rep["same_graph_dups"]:
                ctx.violation("C18:names:value-name-duplicate-in-graph", f"trace {t} ({mode}): value name {rep['same_graph_dups'][0][1]!r} is defined twice in "
                              f"{'/'.join(rep['same_graph_dups'][0][0]) or 'the main graph'}", dict(replay_doc, dup=rep["same_graph_dups"][:3]))
            if rep["redefines_visible"]:
                cnt["redefines"] += 1
            elif rep["disjoint_dups"]:
                cnt["disjoint"] += 1
            if rep["node_dups"]:
                ctx.violation("C18:names:node-name-duplicate-in-graph", f"trace {t} ({mode}): node names repeated within one graph: {rep['node_dups'][:2]}", replay_doc)
            nn = TR.node_names_creation_order(proto.graph)
            if len(set(nn)) != len(nn):
                cnt["node_names_repeated_across_graphs"] += 1
                if bcfg["shared_counter"] and mode == "call":
                    # C18_node_names_unique_across_subgraphs_fixed: impossible for the model of the shared counter
                    dupn = sorted({x for x in nn if nn.count(x) > 1})
                    ctx.violation("C18:names:node-name-defined-in-two-graphs", f"trace {t} ({mode}): node names {dupn[:3]} are used in two graphs of the model",
                                  dict(replay_doc, dup=dupn[:5]))
            # ---- validity
            bad_names = bool(rep["redefines_visible"] or rep["same_graph_dups"])
            try:
                onnx.checker.check_model(proto)
                if bad_names:
                    ctx.tie_broken("checker", "onnx.checker", f"trace {t}: accepted a model in which a visible name is defined again")
            except Exception as e:  # noqa: BLE001
                if not bad_names:
                    ctx.violation("C18:valid:onnx-checker-rejects", f"trace {t} ({mode}): {str(e)[:300]}", replay_doc)
            # Coq: every call-mode model, every model with repeated names; a quarter of the other inline-mode ones
            # (their nodes are observed, CRaw)
            if mode == "call" or dup_cross or t % 4 == 0:
                wf_meta.append((t, mode, bool(dup_cross or rep["same_graph_dups"])))
                coq_cases.append(TR.trace_case_lit(tr, info, proto))
                coq_meta.append((t, mode))
                toy = TR.toy_replay(tr, info)
                toy_expected.append(toy)
                hyp_meta.append((t, mode, bool(st["scan"] or st["scanout"]), bool(st["if"] or st["loop"]), bool(st["castlike"]), bool(dup_cross or rep["same_graph_dups"])))
                scan_meta.append((bool(st["scan"]), bool(st["scanout"])))
                dup_info.append((t, mode, rep, dict(replay_doc)) if dup_cross else None)
            # ---- semantics: onnxruntime (no optimisation) against the NumPy reading, on objects (duplicates renamed apart)
            if dup_cross or rep["same_graph_dups"]:
                TR.uniquify_for_execution(info)
                proto = TR.serialize(info)
            outs = []
            try:
                sess = TR.ort_session(proto)
            except Exception as e:  # noqa: BLE001
                ctx.violation("C18:valid:onnxruntime-rejects", f"trace {t} ({mode}): {str(e)[:300]}", replay_doc)
                sess = None
            for k in range(3 if sess is not None else 0):
                feeds = TR.make_feeds(tr, k)
                try:
                    got = sess.run(None, feeds)
                except Exception as e:  # noqa: BLE001
                    ctx.violation("C18:valid:onnxruntime-fails", f"trace {t} ({mode}): {str(e)[:300]}", replay_doc)
                    break
                cnt["ort_runs"] += 1
                want = TR.np_replay(tr, feeds)
                outs.append(got)
                bad = [j for j, (a, b) in enumerate(zip(got, want)) if not TR.close(a, b)]
                if bad:
                    j = bad[0]
                    ctx.violation("C18:semantics:onnxruntime-differs-from-numpy-replay:" + mode,
                                  f"trace {t} ({mode}) input set {k}: output {j} = {np.asarray(got[j]).ravel()[:4]} but the NumPy reading of the trace gives {np.asarray(want[j]).ravel()[:4]}",
                                  dict(replay_doc, feeds={a: b.tolist() for a, b in feeds.items()}))
                    break
            results[mode] = outs
        if "inline" in results and len(results["inline"]) == 3 and len(results["call"]) == 3:
            cnt["inline_vs_call"] += 1
            for k in range(3):
                if not all(TR.close(a, b) for a, b in zip(results["call"][k], results["inline"][k])):
                    ctx.violation("C18:inline:differs-from-call", f"trace {t} input set {k}: op.call and op.call_inline of the same functions give different results", replay_doc)
                    break

    # ---- correspondence with the Coq model `build` + verified wf_graphb on the real graphs
    shard = 50
    bodies = []
    for a in range(0, len(coq_cases), shard):
        bodies.append(f"Definition cases : list tcase := {clist(coq_cases[a:a + shard])}.\n"
                      f"Eval vm_compute in (tdisagreeing {bc} 0 cases).\n"
                      "Eval vm_compute in (map (fun c => wf_graphb (tcase_graph c)) cases).\n"
                      f"Eval vm_compute in (map (tcase_hyps {bc}) cases).\n"
                      "Eval vm_compute in (map (fun c : tcase => let '(ins, tr, _, _, _) := c in (plain_trace tr, user_okb ins tr)) cases).\n"
                      f"Definition expected : list (option (list Z)) := {clist(toy_expected[a:a + shard], lambda x: 'None' if x is None else '(Some ' + clist(x, common.cz) + ')')}.\n"
                      f"Eval vm_compute in (toy_disagreeing {bc} 0 (map (fun p => toy_of (fst p) (snd p)) (combine cases expected))).\n"
                      f"Eval vm_compute in (toy_disagreeing_x {bc} 0 (map (fun p => toy_of (fst p) (snd p)) (combine cases expected))).\n"
                      f"Eval vm_compute in (map (tcase_hyps_x {bc}) cases).\n")
    res = ctx.coq_eval_shards(REQ_T, bodies, par=4)
    disagree, wf_bad, toy_bad, hyp_bad, toyx_bad, hypx_bad = [], [], [], [], [], []
    hypx_cnt = {"hold": 0, "hold_scan": 0, "hold_scanout": 0, "read": 0, "read_scan": 0, "read_scanout": 0}
    fix_cnt, fix_bad = {"plain": 0, "user_ok": 0, "both": 0}, []
    hyp_cnt = {"hold": 0, "hold_cf": 0, "hold_castlike": 0, "toy_read": 0, "toy_read_cf": 0}
    for k, (okc, vals, raw) in enumerate(res):
        if not okc or len(vals) < 7:
            ctx.tie_broken("correspondence", "modelBC:evaluation", raw[-1500:])
            continue
        dis = set(common.parse_nat_list(vals[0]))
        disagree += [coq_meta[k * shard + j] for j in sorted(dis)]
        for j in range(len(coq_cases[k * shard:(k + 1) * shard])):
            di = dup_info[k * shard + j]
            if di is None:
                continue
            t, mode, rep, doc = di
            first = (rep["redefines_visible"] or rep["disjoint_dups"])[0]
            where = "/".join(first[0]) or "the main graph"
            if j in dis or bcfg["shared_counter"]:
                # not what the model of the (probed) counter behaviour predicts: a different naming defect
                ctx.violation("C18:names:value-name-defined-in-two-graphs", f"trace {t} ({mode}): value name {first[1]!r} is defined again inside {where}",
                              dict(doc, dup=[first]))
            elif rep["redefines_visible"]:
                ctx.violation(K_REDEF, f"trace {t} ({mode}): value name {first[1]!r} is defined again inside {where} while visible from an enclosing graph",
                              dict(doc, dup=rep["redefines_visible"][:3]))
            else:
                ctx.violation(K_DISJ, f"trace {t} ({mode}): value name {first[1]!r} is used for two values in disjoint subgraphs", dict(doc, dup=rep["disjoint_dups"][:3]))
        for j, b in enumerate(_parse_bools(vals[2])):
            t, mode, scan, cfl, castl, dups = hyp_meta[k * shard + j]
            if b:
                hyp_cnt["hold"] += 1
                hyp_cnt["hold_cf"] += cfl
                hyp_cnt["hold_castlike"] += castl
            elif mode == "call" and not scan and not dups:
                hyp_bad.append((t, mode))
            if toy_expected[k * shard + j] is not None:
                hyp_cnt["toy_read"] += 1
                hyp_cnt["toy_read_cf"] += cfl
        # the If/Loop-only reading (shared evaluator OV.Graph.Sem) has no Scan / scan outputs: compared on the other traces
        toy_bad += [coq_meta[k * shard + j] for j in common.parse_nat_list(vals[4]) if not hyp_meta[k * shard + j][2]]
        # the reading of every control-flow operator (TraceCFX.creplay_x / SemX.eval_graph_x): compared on every trace
        toyx_bad += [coq_meta[k * shard + j] for j in common.parse_nat_list(vals[5])]
        for j, b in enumerate(_parse_bools(vals[6])):
            t, mode, _sc, cfl, castl, dups = hyp_meta[k * shard + j]
            sc, so = scan_meta[k * shard + j]
            if b:
                hypx_cnt["hold"] += 1
                hypx_cnt["hold_scan"] += sc
                hypx_cnt["hold_scanout"] += so
            elif mode == "call" and not dups:
                hypx_bad.append((t, mode))
            if toy_expected[k * shard + j] is not None:
                hypx_cnt["read"] += 1
                hypx_cnt["read_scan"] += sc
                hypx_cnt["read_scanout"] += so
        # hypotheses of C18_names_unique_across_subgraphs_fixed, on the trace alone
        pairs = [x.strip().strip("()").split(",") for x in vals[3].strip().strip("[]").split(";")] if vals[3].strip() not in ("[]", "nil") else []
        for j, pr in enumerate(pairs):
            plain, uok = pr[0].strip() == "true", pr[1].strip() == "true"
            t, mode, scan, cfl, castl, dups = hyp_meta[k * shard + j]
            if mode != "call":
                continue
            fix_cnt["plain"] += plain
            fix_cnt["user_ok"] += uok
            fix_cnt["both"] += plain and uok
            if bcfg["shared_counter"] and plain and uok and dups:
                fix_bad.append((t, mode, "the hypotheses of C18_names_unique_across_subgraphs_fixed hold but the real graph repeats a name"))
            if bcfg["shared_counter"] and not uok and not dups:
                fix_bad.append((t, mode, "user_okb is false on a generated trace whose names are all distinct (generator names are chosen distinct and not of generated shape)"))
        for j, b in enumerate(_parse_bools(vals[1])):
            t, mode, dups = wf_meta[k * shard + j]
            if not b and not dups:
                wf_bad.append((t, mode))
            if b and dups:
                ctx.tie_broken("checker", "wf_graphb", f"trace {t}: accepted a graph with repeated value names")
    for (t, mode) in disagree[:5]:
        ctx.tie_broken("correspondence", "modelBC:graph", f"trace {t} ({mode}): the graph / node names built by the real GraphBuilder differ from Trace.v build ({bc})")
    for (t, mode) in wf_bad[:5]:
        ctx.violation("C18:valid:wf_graphb-rejects", f"trace {t} ({mode}): the verified checker wf_graphb rejects the serialized graph although all value names are distinct", {"trace": t})
    ctx.obligation("correspondence B/C: graph (nodes, operands, value names, initializers, nested subgraphs) and node names built by the real "
                   f"GraphBuilder = Trace.v build ({bc}) on every trace", not disagree, f"{len(disagree)} disagreements")
    ctx.obligation("verified checker: wf_graphb holds on every serialized graph whose value names are distinct", not wf_bad)
    for (t, mode) in toy_bad[:5]:
        why = ""
        try:
            idx = coq_meta.index((t, mode))
            okc, vals, raw = ctx.coq_eval(REQ_T, f"Definition c : tcase := {coq_cases[idx]}.\n"
                                          f"Eval vm_compute in (let '(ins, tr, outs, g, _) := c in "
                                          "(creplay Z toy_sem toy_truth toy_trip Z.of_nat toy_of_bool 5 toy_lit 3 tr (toy_args ins) outs, "
                                          "eval_graph Z toy_sem toy_truth toy_trip Z.of_nat toy_of_bool 5 4 "
                                          f"(toy_init (b_cache (fst (build_state {bc} ins tr)))) g (toy_args ins))).\n")
            why = f" (creplay, eval_graph) = {vals[0][:300] if okc and vals else raw[-300:]}; harness reading {toy_expected[idx]};"
        except Exception as e:  # noqa: BLE001
            why = f" ({e})"
        ctx.tie_broken("correspondence", "modelC:reading", why + f" trace {t} ({mode}): TraceCF.creplay under the toy kernels differs from the harness's reading of the "
                       "trace, or eval_graph on the real graph differs from creplay")
    for (t, mode) in hyp_bad[:5]:
        why = ""
        try:
            idx = coq_meta.index((t, mode))
            okc, vals, raw = ctx.coq_eval(REQ_T, f"Definition c : tcase := {coq_cases[idx]}.\n"
                                          f"Eval vm_compute in (let '(ins, tr, _, _, _) := c in let sf := fst (build_state {bc} ins tr) in "
                                          "(cf_trace tr, nodup_strb (all_defined sf), lits_okb (b_cache sf) (lits_calls tr), all_defined sf)).\n")
            why = " components (cf_trace, names distinct, literals consistent, names) = " + (vals[0][:600] if okc and vals else raw[-300:])
        except Exception as e:  # noqa: BLE001
            why = f" ({e})"
        ctx.tie_broken("correspondence", "modelC:hypotheses", why + f" trace {t} ({mode}): cf_hyps_eqb (hypotheses of C18_build_computes_trace_cf_eq_checked) is false on a trace "
                       "without Scan whose real graph has pairwise distinct names")
    ctx.obligation("correspondence C: TraceCF.creplay (toy kernels over Z) = the harness's own reading of every trace, and = eval_graph on the graph the real "
                   "GraphBuilder built", not toy_bad, f"{len(toy_bad)} disagreements")
    ctx.obligation("hypotheses of C18_build_computes_trace_cf_eq_checked (cf_hyps_eqb) hold on every call-mode trace without Scan", not hyp_bad)
    for (t, mode) in toyx_bad[:5]:
        why = ""
        try:
            idx = coq_meta.index((t, mode))
            okc, vals, raw = ctx.coq_eval(REQ_T, f"Definition c : tcase := {coq_cases[idx]}.\n"
                                          f"Eval vm_compute in (let '(ins, tr, outs, g, _) := c in "
                                          "(creplay_x Z toy_sem toy_truth toy_trip Z.of_nat toy_of_bool 5 toy_stack toy_unstack toy_lit 3 tr (toy_args ins) outs, "
                                          "eval_graph_x Z toy_sem toy_truth toy_trip Z.of_nat toy_of_bool 5 toy_stack toy_unstack 4 "
                                          f"(toy_init (b_cache (fst (build_state {bc} ins tr)))) g (toy_args ins))).\n")
            why = f" (creplay_x, eval_graph_x) = {vals[0][:300] if okc and vals else raw[-300:]}; harness reading {toy_expected[idx]};"
        except Exception as e:  # noqa: BLE001
            why = f" ({e})"
        ctx.tie_broken("correspondence", "modelC:reading-x", why + f" trace {t} ({mode}): TraceCFX.creplay_x (If / Loop with scan outputs / Scan) under the toy kernels "
                       "differs from the harness's reading of the trace, or SemX.eval_graph_x on the real graph differs from creplay_x")
    for (t, mode) in hypx_bad[:5]:
        ctx.tie_broken("correspondence", "modelC:hypotheses-x", f"trace {t} ({mode}): cfx_hypsb (hypotheses of C18_build_computes_trace_cfx_checked) is false on a "
                       "call-mode trace whose real graph has pairwise distinct names")
    ctx.obligation("correspondence C (every control-flow operator): TraceCFX.creplay_x (toy kernels over Z, toy_stack / toy_unstack) = the harness's own "
                   "reading of every trace incl. Loop scan outputs and Scan bodies, = SemX.eval_graph_x on the graph the real GraphBuilder built; "
                   "where the hypotheses hold and the reading is undefined the evaluation fails too", not toyx_bad, f"{len(toyx_bad)} disagreements")
    ctx.obligation("hypotheses of C18_build_computes_trace_cfx_checked (cfx_hypsb) hold on every call-mode trace (Scan and Loop scan outputs included)", not hypx_bad)
    if hypx_cnt["hold_scan"] < 3 or hypx_cnt["hold_scanout"] < 3:
        ctx.tie_broken("harness", "modelC:generator", f"too few traces with Scan bodies / Loop scan outputs satisfy the hypotheses of the theorem: {hypx_cnt}")
    ctx.cover(traces_cfx_hypotheses_hold=hypx_cnt["hold"], traces_cfx_hypotheses_hold_with_scan=hypx_cnt["hold_scan"],
              traces_cfx_hypotheses_hold_with_loop_scan_outputs=hypx_cnt["hold_scanout"], traces_toy_reading_x_defined=hypx_cnt["read"],
              traces_toy_reading_x_defined_with_scan=hypx_cnt["read_scan"], traces_toy_reading_x_defined_with_loop_scan_outputs=hypx_cnt["read_scanout"])
    for (t, mode, why) in fix_bad[:5]:
        ctx.tie_broken("correspondence", "modelB:user-names", f"trace {t} ({mode}): {why}")
    ctx.obligation("hypotheses of C18_names_unique_across_subgraphs_fixed (user_okb: the caller's names, read off the trace alone) hold on every generated "
                   "call-mode trace, and never hold on a trace whose real graph repeats a name", not fix_bad)
    ctx.cover(traces_plain_operator_names=fix_cnt["plain"], traces_user_names_ok=fix_cnt["user_ok"], traces_names_unique_theorem_applies=fix_cnt["both"])
    ctx.cover(traces_cf_hypotheses_hold=hyp_cnt["hold"], traces_cf_hypotheses_hold_with_if_or_loop=hyp_cnt["hold_cf"],
              traces_cf_hypotheses_hold_with_castlike=hyp_cnt["hold_castlike"], traces_toy_reading_defined=hyp_cnt["toy_read"],
              traces_toy_reading_defined_with_if_or_loop=hyp_cnt["toy_read_cf"])
    ctx.cover(traces=cnt["traces"], models_built=cnt["models"], traces_with_subgraphs=cnt["with_sub"], traces_with_functions=cnt["with_fn"],
              trace_steps=tot["steps"], trace_max_depth=tot["depth"], trace_ops=len(tot["ops"]), trace_if=tot["if"], trace_loop=tot["loop"], trace_scan=tot["scan"], trace_loop_with_scan_outputs=tot["scanout"],
              trace_steps_with_literals_in_heterogeneous_variadic=tot["hetero_lit"], trace_steps_with_literals_in_homogeneous_variadic=tot["homo_lit"],
              trace_fn_steps=tot["fn"], trace_explicit_outputs=tot["named"], trace_literals=tot["lits"], trace_castlike=tot["castlike"],
              traces_redefining_outer_name=cnt["redefines"], traces_disjoint_duplicates=cnt["disjoint"], ort_runs=cnt["ort_runs"],
              traces_inline_vs_call_compared=cnt["inline_vs_call"], models_node_names_repeated_across_graphs=cnt["node_names_repeated_across_graphs"],
              trace_model_disagreements=len(disagree), probed_bcfg=bcfg)


def replay_subgraph_witness(ctx, bcfg):
    """The witness of C18_names_unique_across_subgraphs_refuted on the real builder:
    a = op.Add(x, x); op.If(c, then_branch = subgraph(op.Add(a, a)), else_branch = subgraph(op.Identity(a)))."""
    import onnx
    import onnx_ir as ir
    from onnxscript._internal import builder as B

    g = ir.Graph(name="g", inputs=[], outputs=[], nodes=[], opset_imports={"": TR.OPSET})
    gb = B.GraphBuilder(g)
    x = gb.input("x", dtype=ir.DataType.FLOAT, shape=[2])
    c = gb.input("c", dtype=ir.DataType.BOOL, shape=[])
    a = gb.op.Add(x, x)
    tg = gb.subgraph(lambda op: op.Add(a, a), [], [ir.Value(name=None)], name="then")
    eg = gb.subgraph(lambda op: op.Identity(a), [], [ir.Value(name=None)], name="else")
    for sg in (tg, eg):
        sg.outputs[0].type = ir.TensorType(ir.DataType.FLOAT)
        sg.outputs[0].shape = ir.Shape([2])
    y = gb.op.If(c, then_branch=tg, else_branch=eg)
    y.type = ir.TensorType(ir.DataType.FLOAT)
    y.shape = ir.Shape([2])
    g.outputs.append(y)
    proto = ir.serde.serialize_model(ir.Model(g, ir_version=10))
    rep = TR.name_report(proto.graph)
    inner = tg.node(0).outputs[0].name
    ctx.case(("witness", "subgraph-counter"))
    try:
        onnx.checker.check_model(proto)
        checker = "accepted"
    except Exception as e:  # noqa: BLE001
        checker = "rejected: " + str(e)[:120]
    expect_dup = not bcfg["shared_counter"]
    if bool(rep["redefines_visible"]) != expect_dup or (inner == "v_Add_0") != expect_dup:
        ctx.tie_broken("correspondence", "modelB:witness", f"subgraph Add is named {inner!r}, duplicates {rep['redefines_visible']}, probed {bcfg}")
    if rep["redefines_visible"]:
        ctx.violation(K_REDEF, f"witness: a = op.Add(x, x) is v_Add_0 and the Add inside the then-branch is {inner!r} too; onnx.checker: {checker}",
                      {"witness": "w_subgraph_trace", "names": [n.outputs[0].name for n in g] + [inner]})
        if checker == "accepted":
            ctx.tie_broken("checker", "onnx.checker", "accepted a subgraph that redefines an outer name")
    elif checker != "accepted":
        ctx.violation("C18:valid:onnx-checker-rejects", f"witness model: {checker}", {"witness": "w_subgraph_trace"})


def _has_fn(s):
    if s["kind"] == "fn":
        return True
    return any(_has_fn(x) for _k, sb in s.get("subs", []) for x in sb["body"])


def run_inline_args(ctx):
    """op.call accepts Python attribute values, literal operands and omitted attributes with a declared default;
    op.call_inline must give the same results."""
    import onnx_ir as ir
    from onnxscript import opset21 as op21
    from onnxscript import script
    from onnxscript._internal import builder as B
    from onnxscript.values import Opset

    dom = Opset("c18.fn2", 1)

    @script(dom)
    def scaled_default(X, alpha: float = 2.0):
        a = op21.Constant(value_float=alpha)
        return op21.Mul(X, a)

    x_np = np.array([1.0, -2.0], dtype=np.float32)
    variants = [
        ("python-attribute-value", lambda op, x, f: f(scaled_default, x, alpha=0.5), x_np * 0.5),
        ("omitted-attribute-with-default", lambda op, x, f: f(scaled_default, x), x_np * 2.0),
        ("literal-operand", lambda op, x, f: op.Add(f(scaled_default, 3.0, alpha=ir.AttrFloat32("alpha", 0.5)), x), x_np + 1.5),
    ]
    for name, fn, want in variants:
        outs = {}
        for mode in ("call", "inline"):
            g = ir.Graph(name="g", inputs=[], outputs=[], nodes=[], opset_imports={"": TR.OPSET, "c18.fn2": 1})
            gb = B.GraphBuilder(g)
            x = gb.input("x", dtype=ir.DataType.FLOAT, shape=[2])
            try:
                y = fn(gb.op, x, gb.op.call if mode == "call" else gb.op.call_inline)
                y.type = ir.TensorType(ir.DataType.FLOAT)
                y.shape = ir.Shape([2])
                g.outputs.append(y)
                proto = ir.serde.serialize_model(ir.Model(g, ir_version=10, functions=list(gb.functions.values())))
                outs[mode] = TR.ort_run(proto, {"x": x_np})[0]
            except Exception as e:  # noqa: BLE001
                outs[mode] = f"{type(e).__name__}: {str(e)[:160]}"
        ctx.case(("inline-args", name))
        ok_call = not isinstance(outs["call"], str) and TR.close(outs["call"], want)
        ok_inl = not isinstance(outs["inline"], str) and TR.close(outs["inline"], want)
        if not ok_call:
            ctx.violation(f"C18:call:{name}", f"op.call with {name}: {outs['call']}", {"variant": name})
        if not ok_inl:
            ctx.violation(f"C18:inline:{name}", f"op.call_inline with {name}: {outs['inline']!s:.300} (op.call gives {outs['call']!s:.80})", {"variant": name})


# ----------------------------------------------------------------------------- entry

def run(ctx):
    ctx.assume("model A: forward() of every generated module calls each child exactly once (or twice) in registration order, "
               "ModuleLists are iterated (optionally through forward-time slices); modules shared by two parents are not modelled")
    ctx.assume("model A: cfg (three code behaviours with proposed patches) and raises_on_collision (Parameter._realize rejects a name "
               "used by another Parameter object) are probed on the real code at the start of every run")
    ctx.assume("models B/C: shared_counter is probed; which literal operands share a constant-cache entry is observed on the real builder "
               "(C12 owns literal promotion); the dtype knowledge of the builder (shape inference) is observed per value; nodes added by "
               "call_inline are observed (CRaw), not modelled; attribute order inside a node is not compared")
    ctx.assume("kernel semantics: onnxruntime CPU kernels with ORT_DISABLE_ALL against a hand-written NumPy reading of 62 operators, "
               "If, Loop (loop-carried values and scan outputs), Scan and 6 script/IR functions, on 3 input sets per model; dtype and shape of every graph output "
               "compared exactly, int/bool values exactly, float values rtol 2e-4 / atol 2e-5 x largest intermediate magnitude")
    ctx.assume("dtype of a Python literal operand in the NumPy reading: the dtype of the first tensor operand bound to the same schema type "
               "variable (homogeneous variadic inputs Max/Min/Sum/Mean/Concat included, at every position); the dtype of its own Python type "
               "(int64 / float32 / bool) where nothing binds it, in particular at every position of a heterogeneous variadic input "
               "(Loop v_initial, Scan initial_state_and_scan_inputs)")
    ctx.check_props()
    cfg = probe_cfg(ctx)
    run_trees(ctx, cfg)
    SH.run_sharing(ctx, cfg)
    MO.run_modops(ctx, cfg)
    bcfg = probe_bcfg(ctx)
    replay_subgraph_witness(ctx, bcfg)
    run_traces(ctx, bcfg)
    run_inline_args(ctx)
    INL.run_inline(ctx)
    LITS.run_lits(ctx)
    LITS.run_mixed_lists(ctx)
    ctx.cover(rule="B/C: random traces over 62 operators + If/Loop/Scan subgraph bodies (depth <= 2; Loop/Scan states given as tensors and as "
                   "Python literals int/float/bool/list at every position; literals at every position of Max/Min/Sum/Mean/Concat next to "
                   "float and int64 tensors) + op.call/op.call_inline of script and IR "
                   "functions with attribute arguments, literal operands (ints/floats/lists), explicit _outputs, nested module scopes; every trace "
                   "built with op.call and, when it calls functions, again with op.call_inline; distinct key = (mode, size bucket, depth, If, Loop, "
                   "functions, explicit outputs, CastLike, literals).  A: construction programs (witnesses of the _refuted theorems, random programs of depth <= 4 mixing Module/ModuleList/"
                   "Sequential with constructor/early/late appends, slices, named/unnamed, shared parameters, subgraph bodies; thorough: all "
                   "programs with <= 5 modules over a small alphabet); distinct key = structural class (kinds, depth, features, size, error)")
    if ctx.tier == "thorough":
        ctx.coqchk(["Props.C18"])
