(* C19 model: ort_fusions/cos_sin_cache.py
     pattern:  freqs = Transpose(MatMul(inv_freq [1,E,1], Cast(Unsqueeze(position_ids)) [B,1,S]))  -- [B,S,E]
               emb = Concat(freqs, freqs); cos = Cos(emb); sin = Sin(emb)
               ai.onnxruntime._fusion.RotaryEmbedding(x, Unsqueeze(cos,1), Unsqueeze(sin,1))  (= the rotate-half pattern)
     rewrite:  cos_2d[r, e] = cos(float(r) * inv_freq[e]) for r = 0 .. max_pos_id  (sin alike)
               com.microsoft.RotaryEmbedding(x, position_ids, cos_2d, sin_2d)        (the operator gathers row position_ids[b,s])
   One position p = position_ids[b, s], one row x of the head.  No proofs here. *)
From Coq Require Import List ZArith Bool.
Require Import OV.Fusion.Field OV.Fusion.Rotary.
Import ListNotations.

Section Sem.
  Variable F : Type.
  Variable o : fops F.
  Variable cosf sinf : F -> F.         (* ONNX Cos / Sin: arbitrary functions *)
  Variable cast : nat -> F.            (* Cast(int64 -> float) of a position id *)

  (* MatMul([E,1], [1,S]) at (e, s) = inv_freq[e] * float(pos[s]) *)
  Definition freqs_row (inv_freq : list F) (p : nat) : list F := map (fun w => fmul o w (cast p)) inv_freq.
  (* rewrite: angles = MatMul(pos_id_range [R,1], inv_freq [1,E]); row r of the cache *)
  Definition cache (fn : F -> F) (inv_freq : list F) (max_pos : nat) : list (list F) :=
    map (fun r => map (fun w => fn (fmul o (cast r) w)) inv_freq) (seq 0 (max_pos + 1)).
  (* com.microsoft.RotaryEmbedding reads cos_cache[position_ids[b, s]] *)
  Definition gather (c : list (list F)) (p : nat) : list F := nth p c [].

  (* the pattern on one row (the _fusion RotaryEmbedding is the rotate-half pattern with cos/sin = Cos/Sin(Concat(f, f))) *)
  Definition cs_pattern (x inv_freq : list F) (p : nat) (s1 e1 s2 e2 : nat) : list F :=
    rope23_pattern F o x (map cosf (freqs_row inv_freq p)) (map sinf (freqs_row inv_freq p)) s1 e1 s2 e2.
  Definition cs_spec (x inv_freq : list F) (p max_pos : nat) : list F :=
    rope_spec F o x (gather (cache cosf inv_freq max_pos) p) (gather (cache sinf inv_freq max_pos) p).
End Sem.

(* CosSinCacheFusion.check.  const_freqs: the rule variant whose freqs are a constant. *)
Record cs_in := mk_cs_in {
  cs_const_freqs : bool;
  cs_freqs_const_rank3 : bool;               (* freqs.const_value present and rank 3 *)
  cs_pos_rank : option nat;                  (* rank of position_ids, None = unknown *)
  cs_extra_dims : option (list Z);           (* constant value of the Unsqueeze axes *)
  cs_inv_freq_shape : option (list Z);
  cs_inv_freq_const : bool;
  cs_expanded_rank3 : option bool }.         (* None: no Expand of inv_freq in the match *)
Fixpoint zl_eqb (a b : list Z) : bool :=
  match a, b with [], [] => true | x :: a', y :: b' => Z.eqb x y && zl_eqb a' b' | _, _ => false end.
(* result: Some true = fires and position_ids gets an Unsqueeze(0) (rank 1); Some false = fires as is *)
Definition cs_check (i : cs_in) : option bool :=
  if cs_const_freqs i then (if cs_freqs_const_rank3 i then Some (match cs_pos_rank i with Some 1%nat => true | _ => false end) else None)
  else
    let pos_ok :=
      match cs_pos_rank i, cs_extra_dims i with
      | Some 2%nat, Some [d] => Z.eqb d 1                    (* is_singleton_value(extra_dims, 1) *)
      | Some 1%nat, Some l => zl_eqb l [0; 1]%Z
      | _, _ => false
      end in
    match cs_inv_freq_shape i with
    | Some [a; _; c] =>
        if pos_ok && match cs_expanded_rank3 i with Some false => false | _ => true end
           && cs_inv_freq_const i && Z.eqb a 1 && Z.eqb c 1
        then Some (match cs_pos_rank i with Some 1%nat => true | _ => false end) else None
    | _ => None
    end.
(* ---- the run-time cache (C19:cos_sin_cache:cache-shorter-than-sequence).  ids = all position ids fed, S = sequence length.
   [len_guard] = false: as read at bbeff32 -- ReduceMax(position_ids) + 1 rows; true: the fix (fix 48e3d56) -- max(that, S). *)
Definition cache_rows (len_guard : bool) (ids : list nat) (S : nat) : nat :=
  let m := list_max ids + 1 in if len_guard then Nat.max m S else m.
(* com.microsoft.RotaryEmbedding: every id must index a cache row, and the cache must have at least sequence_length rows
   (otherwise the kernel reports "Updating cos_cache and sin_cache in RotaryEmbedding is not currently supported") *)
Definition rotary_cache_ok (rows : nat) (ids : list nat) (S : nat) : bool :=
  (S <=? rows) && forallb (fun p => p <? rows) ids.

(* ---- position_ids batch (known finding C19:cos_sin_cache:position-ids-batch-broadcast, NOT repaired).
   position ids as a list of batch rows (length 1 or B).  The pattern's MatMul/Mul broadcast a single row over the batch;
   the operator reads row b of position_ids (shape (batch_size, sequence_length) required) -- None = out of range = rejected. *)
Definition cs_pattern_row (ids : list (list nat)) (b : nat) : option (list nat) :=
  nth_error ids (if Nat.eqb (length ids) 1 then 0 else b).
Definition cs_fused_row (ids : list (list nat)) (b : nat) : option (list nat) := nth_error ids b.
(* executable decider used by the harness: does the fused graph differ from (fail where) the pattern (ran)? *)
Definition cs_batch_differs (pos_batch x_batch : nat) : bool := negb (Nat.eqb pos_batch x_batch).

Inductive cs_case :=
  | CCs (i : cs_in) (observed : option bool)
  | CCache (len_guard : bool) (ids : list nat) (S : nat) (observed_rows : nat)
  | CBatch (pos_batch x_batch : nat) (observed_differs : bool).
Definition cs_agrees (c : cs_case) : bool :=
  match c with
  | CCs i obs => match cs_check i, obs with Some a, Some b => Bool.eqb a b | None, None => true | _, _ => false end
  | CCache g ids n rows => Nat.eqb (cache_rows g ids n) rows
  | CBatch pb xb obs => Bool.eqb (cs_batch_differs pb xb) obs
  end.
Fixpoint cs_disagreeing (k : nat) (cs : list cs_case) : list nat :=
  match cs with [] => [] | c :: t => (if cs_agrees c then [] else [k]) ++ cs_disagreeing (S k) t end.
