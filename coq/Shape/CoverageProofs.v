(* C09 -- the completeness obligation over the regenerated lists (finite registry: vm_compute). *)
From Coq Require Import String List Bool.
Require Import OV.Shape.SymDim OV.Gen.ShapeUsers OV.Shape.Coverage.
Import ListNotations.

Lemma coverage_complete : coverage_okb = true.
Proof. vm_compute. reflexivity. Qed.

(* lifted: every regenerated evaluator / rule unit has a table entry with the same feature set and an admissible status *)
Lemma evaluators_covered : forall e, In e evaluators -> entry_ok evaluator_table e = true.
Proof.
  pose proof coverage_complete as H. unfold coverage_okb, covers in H.
  repeat (apply andb_true_iff in H; destruct H as [H ?]).
  apply forallb_forall. assumption.
Qed.

Lemma rule_units_covered : forall e, In e rule_units -> entry_ok rule_table e = true.
Proof.
  pose proof coverage_complete as H. unfold coverage_okb, covers in H.
  apply andb_true_iff in H as [_ H].
  repeat (apply andb_true_iff in H; destruct H as [H ?]).
  apply forallb_forall. assumption.
Qed.
